"""C37 extractor: emitted C of a function -> protocol skeleton of every parallel region in it.

Input is the C text the *staged* compiler produced.  Nothing here knows what Nodes.py "should" emit: the
block structure is parsed (comments stripped, the preprocessor conditionals of an OpenMP regular-build
evaluated), every `#pragma omp for` loop and every `#pragma omp parallel` block is located, and the statements
of the exit-trapping section, of the per-iteration guard and of the post-region hand-off are translated ONE BY ONE,
in emitted order, into protocol ops.  A statement inside those sections that is not in the op alphabet is an
ExtractError (the model must never silently ignore part of the protocol).

Op alphabet (tuples):
  ('W', k)            __pyx_parallel_why = k
  ('GIL+',) ('GIL-',) PyGILState_Ensure / Release
  ('FL', 'why'|'exc') #pragma omp flush(var)
  ('IFNX', ops)       if (!exc_type) { ops }
  ('IFX', ops)        if (exc_type) { ops }
  ('IFW', ops)        if (why) { ops }
  ('FETCH',)          __Pyx_ErrFetchWithState(&exc_type, ...)
  ('RESTORE',)        __Pyx_ErrRestoreWithState(exc_type, ...)
  ('GOTO', label)
  ('SWITCH', [(k, ops), ...])
  ('ELSE', thr|None)  else clause, guarded by `if (why < thr)` or unguarded
"""
import re


class ExtractError(Exception):
    pass


DEFINED = {'_OPENMP'}
KNOWN_IF = {
    '0': False,
    '1': True,
    'CYTHON_COMPILING_IN_CPYTHON_FREETHREADING': False,
    'CYTHON_VECTORCALL': True,
    '!CYTHON_VECTORCALL': False,
    'CYTHON_ASSUME_SAFE_SIZE': True,
    'CYTHON_AVOID_BORROWED_REFS': False,
    'CYTHON_COMPILING_IN_LIMITED_API': False,
}


class Block:
    __slots__ = ('header', 'items', 'pragmas', 'parent')

    def __init__(self, header, pragmas, parent):
        self.header = header
        self.items = []
        self.pragmas = pragmas
        self.parent = parent

    def __repr__(self):
        return 'Block(%r, %d items)' % (self.header, len(self.items))

    def __getitem__(self, i):           # so that `item[0] == 'stmt'` tests work on any item
        return ('block', self.header)[i]


def function_text(c_text, cname):
    """Text of the definition of function `cname` (from its opening line to the matching brace)."""
    m = re.search(r'^static [^\n;]*\b%s\([^;{]*\)\s*\{' % re.escape(cname), c_text, re.M)
    if not m:
        raise ExtractError('function %s not found in emitted C' % cname)
    i = m.end() - 1
    depth = 0
    n = len(c_text)
    j = i
    in_str = None
    while j < n:
        ch = c_text[j]
        if in_str:
            if ch == '\\':
                j += 2
                continue
            if ch == in_str:
                in_str = None
        elif ch == '/' and c_text[j:j + 2] == '/*':
            j = c_text.index('*/', j) + 2
            continue
        elif ch in '"\'':
            in_str = ch
        elif ch == '{':
            depth += 1
        elif ch == '}':
            depth -= 1
            if depth == 0:
                return c_text[i:j + 1]
        j += 1
    raise ExtractError('unbalanced braces in %s' % cname)


def strip_comments(text):
    text = text.replace('/* else */', '__G10_ELSE__;')
    text = re.sub(r'/\*.*?\*/', ' ', text, flags=re.S)
    return text


def preprocess(text):
    """Evaluate conditionals for a regular (GIL) CPython build compiled with -fopenmp."""
    out = []
    stack = []      # (parent_active, taken_any, active)
    unknown = []
    active = True
    for line in text.split('\n'):
        s = line.strip()
        if s.startswith('#'):
            d = s[1:].strip()
            if d.startswith('ifdef'):
                v = d[5:].strip().split()[0] in DEFINED
                stack.append((active, v, active and v)); active = active and v
                continue
            if d.startswith('ifndef'):
                v = d[6:].strip().split()[0] not in DEFINED
                stack.append((active, v, active and v)); active = active and v
                continue
            if d.startswith('if'):
                e = d[2:].strip()
                if e in KNOWN_IF:
                    v = KNOWN_IF[e]
                elif '__APPLE__' in e:
                    v = False
                else:
                    unknown.append(e)
                    v = True
                stack.append((active, v, active and v)); active = active and v
                continue
            if d.startswith('else'):
                par, taken, _ = stack.pop()
                v = not taken
                stack.append((par, True, par and v)); active = par and v
                continue
            if d.startswith('elif'):
                par, taken, _ = stack.pop()
                v = (not taken)
                stack.append((par, taken or v, par and v)); active = par and v
                continue
            if d.startswith('endif'):
                par, _, _ = stack.pop()
                active = par
                continue
            if not active:
                continue
            if d.startswith('pragma'):
                out.append('#' + d)
            # #define/#undef inside functions: irrelevant
            continue
        if active:
            out.append(line)
    return '\n'.join(out), unknown


def parse_blocks(text):
    """Statement/brace structure.  Items: ('stmt', text) | ('pp', text) | Block."""
    text = re.sub(r'\b(Py_BEGIN_ALLOW_THREADS|Py_END_ALLOW_THREADS)\b', r'\1;', text)
    text = re.sub(r'(__PYX_ERR\([^()]*\))', r'\1;', text)
    root = Block('<function>', [], None)
    cur = root
    buf = []
    pend = []
    paren = 0
    for line in text.split('\n'):
        s = line.strip()
        if s.startswith('#pragma'):
            if ''.join(buf).strip():
                raise ExtractError('pragma inside a statement: %r' % s)
            cur.items.append(('pp', s))
            pend.append(s)
            continue
        i = 0
        n = len(line)
        while i < n:
            ch = line[i]
            if ch == '"' or ch == "'":
                j = i + 1
                while j < n and line[j] != ch:
                    j += 2 if line[j] == '\\' else 1
                buf.append(line[i:j + 1])
                i = j + 1
                continue
            if ch == '(':
                paren += 1
            elif ch == ')':
                paren -= 1
            if paren == 0 and ch == ';':
                st = ' '.join(''.join(buf).split())
                buf = []
                if st:
                    cur.items.append(('stmt', st))
                    pend = []
            elif paren == 0 and ch == '{':
                hd = ' '.join(''.join(buf).split())
                buf = []
                b = Block(hd, pend, cur)
                pend = []
                cur.items.append(b)
                cur = b
            elif paren == 0 and ch == '}':
                st = ' '.join(''.join(buf).split())
                buf = []
                if st:
                    cur.items.append(('stmt', st))
                if cur.parent is None:
                    raise ExtractError('unbalanced }')
                cur = cur.parent
                pend = []
            elif paren == 0 and ch == ':' and re.fullmatch(r'\s*(__pyx_L\w+|case [^:]+|default)', ''.join(buf)):
                st = ' '.join(''.join(buf).split())
                buf = []
                cur.items.append(('stmt', st + ':'))
                pend = []
            else:
                buf.append(ch)
            i += 1
        buf.append(' ')
    return root


# ---------------------------------------------------------------------------------- translation
class Names:
    def __init__(self, naming=None):
        g = lambda k, d: getattr(naming, k, d) if naming is not None else d
        self.why = g('parallel_why', '__pyx_parallel_why')
        self.exc_type = g('parallel_exc_type', '__pyx_parallel_exc_type')
        self.exc_value = g('parallel_exc_value', '__pyx_parallel_exc_value')
        self.exc_tb = g('parallel_exc_tb', '__pyx_parallel_exc_tb')
        self.pos = (g('parallel_filename', '__pyx_parallel_filename'),
                    g('parallel_lineno', '__pyx_parallel_lineno'),
                    g('parallel_clineno', '__pyx_parallel_clineno'))
        self.mutex = g('parallel_freethreading_mutex', '__pyx_parallel_freethreading_mutex')


def _is_label(it):
    return it[0] == 'stmt' and re.fullmatch(r'__pyx_L\w+:', it[1]) is not None


def translate(items, N, strict=True):
    """Translate protocol statements to ops (recursively through anonymous blocks)."""
    ops = []
    w, et = re.escape(N.why), re.escape(N.exc_type)
    for it in items:
        if isinstance(it, Block):
            h = it.header
            if h == '':
                if any(x == ('stmt', '__G10_ELSE__') for x in it.items):
                    ops.append(('ELSE', None))
                else:
                    ops.extend(translate(it.items, N, strict))
            elif re.fullmatch(r'if \(!%s\)' % et, h):
                ops.append(('IFNX', translate(it.items, N, strict)))
            elif re.fullmatch(r'if \(%s\)' % et, h):
                ops.append(('IFX', translate(it.items, N, strict)))
            elif re.fullmatch(r'if \(%s\)' % w, h):
                ops.append(('IFW', translate(it.items, N, strict)))
            elif re.fullmatch(r'if \(%s < (\d+)\)' % w, h):
                thr = int(re.fullmatch(r'if \(%s < (\d+)\)' % w, h).group(1))
                if any(x == ('stmt', '__G10_ELSE__') for x in it.items):
                    ops.append(('ELSE', thr))
                elif strict:
                    raise ExtractError('guarded block that is not an else clause in protocol section: %r' % h)
            elif re.fullmatch(r'switch \(%s\)' % w, h):
                arms = []
                curk = None
                acc = []
                for x in it.items:
                    m = x[0] == 'stmt' and re.fullmatch(r'case (\d+):', x[1])
                    if m:
                        if curk is not None:
                            arms.append((curk, translate(acc, N, strict)))
                        curk = int(m.group(1))
                        acc = []
                    else:
                        acc.append(x)
                if curk is not None:
                    arms.append((curk, translate(acc, N, strict)))
                ops.append(('SWITCH', arms))
            elif strict:
                raise ExtractError('unrecognised block in protocol section: %r' % h)
            elif any(x == ('stmt', '__G10_ELSE__') for x in it.items):
                # an else clause under a condition that is not `if (why < N)`: never guess
                raise ExtractError('unrecognised guard of the else clause: %r' % h)
            continue
        kind, s = it
        if kind == 'pp':
            m = re.fullmatch(r'#pragma omp flush\((\w+)\)', s)
            if m:
                v = m.group(1)
                ops.append(('FL', 'why' if v == N.why else 'exc' if v == N.exc_type else v))
            elif strict:
                raise ExtractError('unrecognised pragma in protocol section: %r' % s)
            continue
        m = re.fullmatch(r'%s = (\d+)' % w, s)
        if m:
            ops.append(('W', int(m.group(1))))
        elif re.fullmatch(r'goto (\w+)', s):
            ops.append(('GOTO', s.split()[1]))
        elif re.fullmatch(r'(PyGILState_STATE )?__pyx_gilstate_save = (__Pyx_)?PyGILState_Ensure\(\)', s):
            ops.append(('GIL+',))
        elif re.fullmatch(r'(__Pyx_)?PyGILState_Release\(__pyx_gilstate_save\)', s):
            ops.append(('GIL-',))
        elif re.fullmatch(r'__Pyx_ErrFetchWithState\(&%s, &%s, &%s\)' % (et, re.escape(N.exc_value),
                                                                      re.escape(N.exc_tb)), s):
            ops.append(('FETCH',))
        elif re.fullmatch(r'__Pyx_ErrRestoreWithState\(%s, %s, %s\)' % (et, re.escape(N.exc_value),
                                                                     re.escape(N.exc_tb)), s):
            ops.append(('RESTORE',))
        elif re.fullmatch(r'__Pyx_(GOTREF|GIVEREF|XGOTREF|XGIVEREF)\(%s\)' % et, s):
            pass        # reference-nanny bookkeeping only
        elif any(re.fullmatch(r'%s = \w+' % re.escape(p), s) for p in N.pos) or \
                re.fullmatch(r'__pyx_(filename|lineno|clineno) = \w+', s):
            pass        # position info hand-off
        elif _is_label(it):
            ops.append(('LABEL', s[:-1]))
        elif s == '__G10_ELSE__':
            pass
        elif strict:
            raise ExtractError('unrecognised statement in protocol section: %r' % s)
    return ops


def parse_clauses(pragma):
    """'#pragma omp for nowait firstprivate(a) ...' -> dict name -> list of args (strings)."""
    body = pragma.split('omp', 1)[1]
    res = {}
    i = 0
    n = len(body)
    while i < n:
        m = re.compile(r'\s*(\w+)').match(body, i)
        if not m:
            break
        name = m.group(1)
        i = m.end()
        if i < n and body[i] == '(':
            depth = 0
            j = i
            while j < n:
                if body[j] == '(':
                    depth += 1
                elif body[j] == ')':
                    depth -= 1
                    if depth == 0:
                        break
                j += 1
            arg = body[i + 1:j]
            i = j + 1
            res.setdefault(name, []).extend(a.strip() for a in arg.split(',')) if name != 'num_threads' and \
                name != 'if' else res.setdefault(name, []).append(arg.strip())
        else:
            res.setdefault(name, [])
    return res


def _walk(block, fn):
    for it in block.items:
        if isinstance(it, Block):
            fn(it)
            _walk(it, fn)


def _has_pragma(b, kw):
    return any(p.startswith('#pragma omp ' + kw) for p in b.pragmas)


def _pragma(b, kw):
    for p in b.pragmas:
        if p.startswith('#pragma omp ' + kw):
            return p
    return None


def _label_kind(name, ops):
    for k in ('break', 'return', 'error', 'continue'):
        if name.endswith('_' + k):
            return k
    for op in ops:
        if op[0] == 'W':
            return {1: 'continue', 2: 'break', 3: 'return', 4: 'error'}.get(op[1], 'w%d' % op[1])
    return 'unknown'


def _split_trap(items, N):
    """items of the block that ends with the exit-trapping section.
    Returns (user_items, labels [(name, kind, ops)], entry_goto, tail_items, dont_return)."""
    labs = [k for k, it in enumerate(items) if _is_label(it)]
    if not labs:
        return items, [], None, [], None
    last = labs[-1]
    dont = items[last][1][:-1]
    start = None
    for k, it in enumerate(items):
        if it == ('stmt', 'goto ' + dont):
            start = k
            break
    if start is None or start > last:
        # the last label is not a trap section (e.g. a user loop label): no trapped exits here
        return items, [], None, [], None
    user = items[:start]
    sect = items[start + 1:last]
    tail = items[last + 1:]
    ops = translate(sect, N, strict=True)
    labels = []
    cur = None
    for op in ops:
        if op[0] == 'LABEL':
            cur = [op[1], []]
            labels.append(cur)
        elif cur is None:
            raise ExtractError('protocol op before the first trapped label: %r' % (op,))
        else:
            cur[1].append(op)
    out = []
    for name, lops in labels:
        if not lops or lops[-1] != ('GOTO', dont):
            raise ExtractError('trapped label %s does not end with goto %s' % (name, dont))
        out.append((name, _label_kind(name, lops), lops[:-1]))
    return user, out, dont, tail, dont


def _assigned(items, acc_v, acc_t, gotos):
    for it in items:
        if isinstance(it, Block):
            _assigned(it.items, acc_v, acc_t, gotos)
            continue
        if it[0] != 'stmt':
            continue
        s = it[1]
        m = re.match(r'(?:case [^:]+: |default: )?(__pyx_v_\w+) = ', s)
        if m:
            acc_v.add(m.group(1))
        m = re.match(r'(__pyx_t_\d+) = ', s)
        if m:
            acc_t.add(m.group(1))
        for m in re.finditer(r'goto (__pyx_L\w+)', s):
            gotos.add(m.group(1))
        for m in re.finditer(r'__PYX_ERR\([^;]*?,\s*(__pyx_L\w+)\)', s):
            gotos.add(m.group(1))
        if re.search(r'__pyx_r = ', s):
            gotos.add('@retval')


def extract(c_text, cname, naming=None):
    """Return (regions, info): regions = list of top-level region dicts (children nested)."""
    N = Names(naming)
    raw = function_text(c_text, cname)
    ft_mutex = N.mutex in raw
    text, unknown = preprocess(strip_comments(raw))
    root = parse_blocks(text)
    fors = []
    pars = []

    def visit(b):
        if b.header.startswith('for (') and _has_pragma(b, 'for'):
            fors.append(b)
        elif b.header == '' and _has_pragma(b, 'parallel'):
            pars.append(b)
    _walk(root, visit)
    regions = {}      # id(ctrl block) -> region dict

    def inside_parallel(b):
        p = b.parent
        while p is not None:
            if p.header == '' and _has_pragma(p, 'parallel'):
                return True
            p = p.parent
        return False

    def decl_scope(ctrl, var):
        for it in ctrl.items:
            if it[0] == 'stmt' and re.search(r'\b%s\b' % re.escape(var), it[1]) and \
                    re.match(r'(int|PyObject \*)', it[1]) :
                return 'thread' if inside_parallel(ctrl) else 'shared'
        return None

    def post_ops(ctrl, after_block):
        k = ctrl.items.index(after_block)
        return translate(ctrl.items[k + 1:], N, strict=False)

    def par_pro_epi(pb, first_body_index_items):
        ops = translate([it for it in pb.items if not isinstance(it, Block) and it[0] == 'stmt'
                         and re.search(r'PyGILState|ALLOW_THREADS', it[1])], N, strict=False)
        stm = [it[1] for it in pb.items if not isinstance(it, Block) and it[0] == 'stmt']
        return {'gil_ensure': ('GIL+',) in ops, 'gil_release': ('GIL-',) in ops,
                'allow_begin': 'Py_BEGIN_ALLOW_THREADS' in stm, 'allow_end': 'Py_END_ALLOW_THREADS' in stm}

    for f in fors:
        inner = [it for it in f.items if isinstance(it, Block)]
        if len(inner) != 1 or len([it for it in f.items if not isinstance(it, Block)]) != 0:
            raise ExtractError('omp for body is not a single (guarded) block')
        g = inner[0]
        guard = None
        m = re.fullmatch(r'if \(%s < (\d+)\)' % re.escape(N.why), g.header)
        if m:
            guard = int(m.group(1))
        elif g.header != '':
            raise ExtractError('unrecognised guard around prange body: %r' % g.header)
        user, labels, dont, tail, _ = _split_trap(g.items, N)
        end_ops = translate(tail, N, strict=True) if labels else translate(tail, N, strict=False)
        p = f.parent
        own_parallel = p.header == '' and _has_pragma(p, 'parallel') and f in p.items
        ifb = p.parent if own_parallel else p
        if not re.fullmatch(r'if \(\w+ > 0\)', ifb.header):
            raise ExtractError('prange loop is not inside the `if (nsteps > 0)` block: %r' % ifb.header)
        ctrl = ifb.parent
        av, at, gotos = set(), set(), set()
        _assigned(user, av, at, gotos)
        m = re.match(r'for \((\w+) = 0; \1 < (\w+); \1\+\+\)', f.header)
        if not m:
            raise ExtractError('unrecognised prange loop header %r' % f.header)
        r = {
            'kind': 'prange', 'own_parallel': own_parallel, 'guard': guard,
            'labels': labels, 'end_ops': end_ops,
            'why_scope': decl_scope(ctrl, N.why), 'exc_scope': decl_scope(ctrl, N.exc_type),
            'post': post_ops(ctrl, ifb),
            'for_clauses': parse_clauses(_pragma(f, 'for')),
            'par_clauses': parse_clauses(_pragma(p, 'parallel')) if own_parallel else None,
            'par_bracket': par_pro_epi(p, None) if own_parallel else None,
            'assigned_vars': sorted(av), 'assigned_temps': sorted(at),
            'loop_temp': m.group(1), 'nsteps_temp': m.group(2),
            'body_exits': sorted(gotos), 'children': [], 'ft_mutex': ft_mutex,
            '_ctrl': ctrl, '_par': p if own_parallel else None,
        }
        regions[id(ctrl)] = r
    for pb in pars:
        if any(isinstance(it, Block) and it in fors for it in pb.items):
            continue
        ctrl = pb.parent
        user, labels, dont, tail, _ = _split_trap(pb.items, N)
        av, at, gotos = set(), set(), set()
        _assigned([it for it in user], av, at, gotos)
        r = {
            'kind': 'block', 'own_parallel': True, 'guard': None,
            'labels': labels, 'end_ops': [],
            'why_scope': decl_scope(ctrl, N.why), 'exc_scope': decl_scope(ctrl, N.exc_type),
            'post': post_ops(ctrl, pb),
            'for_clauses': None, 'par_clauses': parse_clauses(_pragma(pb, 'parallel')),
            'par_bracket': par_pro_epi(pb, None),
            'assigned_vars': sorted(av), 'assigned_temps': sorted(at),
            'body_exits': sorted(gotos), 'children': [], 'ft_mutex': ft_mutex,
            '_ctrl': ctrl, '_par': pb,
        }
        regions[id(ctrl)] = r
    # nesting: a region is a child of the nearest region whose omp-parallel block encloses its ctrl block
    tops = []
    for r in regions.values():
        p = r['_ctrl'].parent
        owner = None
        while p is not None and owner is None:
            for q in regions.values():
                if q is not r and q['_par'] is p:
                    owner = q
                    break
            p = p.parent
        if owner is None:
            tops.append(r)
        else:
            owner['children'].append(r)
    for r in regions.values():
        r.pop('_ctrl'); r.pop('_par')
    return tops, {'unknown_pp': unknown, 'n_regions': len(regions)}


def skeleton(region):
    """Canonical JSON-able form (label names normalised away) used for dedup, hashing and evidence."""
    ren = {}

    def rn(name):
        if name not in ren:
            for k in ('break', 'return', 'error', 'continue'):
                if name.endswith('_' + k):
                    ren[name] = 'L_' + k
                    break
            else:
                ren[name] = 'L%d' % len(ren)
        return ren[name]

    def ops(o):
        out = []
        for op in o:
            if op[0] == 'GOTO':
                out.append(['GOTO', rn(op[1])])
            elif op[0] in ('IFNX', 'IFX', 'IFW'):
                out.append([op[0], ops(op[1])])
            elif op[0] == 'SWITCH':
                out.append(['SWITCH', [[k, ops(a)] for k, a in op[1]]])
            else:
                out.append(list(op))
        return out
    cl = region['for_clauses'] or {}
    pc = region['par_clauses'] or {}
    return {
        'kind': region['kind'], 'own_parallel': region['own_parallel'], 'guard': region['guard'],
        'why_scope': region['why_scope'], 'exc_scope': region['exc_scope'],
        'labels': [[k, ops(o)] for _, k, o in region['labels']],
        'end_ops': ops(region['end_ops']), 'post': ops(region['post']),
        'par_bracket': region['par_bracket'],
        'clauses': {'for': {k: sorted(v) for k, v in cl.items() if k in
                            ('firstprivate', 'lastprivate', 'private', 'reduction', 'schedule', 'nowait')},
                    'parallel': {k: sorted(v) for k, v in pc.items() if k in
                                 ('firstprivate', 'private', 'reduction', 'shared')}},
        'children': [skeleton(c) for c in region['children']],
    }
