/* C37 -- prange exit / exception hand-off protocol.
 * GENERATED from the C emitted by the staged Cython compiler (models/c37_extract.py -> c37_model.py).
 * Workers execute the extracted per-iteration skeleton; every instruction below is one atomic step.
 * Tokens: tk[j] 0 = not raised, 1 = owned by a thread state, 2 = owned by a saved-exception slot,
 *         3 = dead (reference dropped once), 4 = leaked.
 */
#define T @T@
#define NIT @NIT@

byte why[@RT@];
byte exc[@RT@];
bit seen[@RT@];
bit els[@RT@];
byte it[T];
byte nx[T];
byte cur[T];
bit done[T];
byte tk[NIT];
byte outc[NIT];
byte own[NIT];
byte gil;
byte retval;
byte arm;
byte nextit;

bit ok_S1_no_overwrite_of_saved_exception = 1;
bit ok_S1_no_double_restore = 1;
bit ok_S1_final_tokens = 1;
bit ok_S2_raise_propagates = 1;
bit ok_S3_arm = 1;
bit ok_S4_no_body_after_observed_exit = 1;
bit ok_S6_gil_held_for_threadstate_access = 1;

inline BODY_COMMON(rbase) {
  if :: (seen[rbase + t]) -> ok_S4_no_body_after_observed_exit = 0 :: else -> skip fi;
  assert(ok_S4_no_body_after_observed_exit)
}

inline RAISE() {
  if :: (cur[t] != 0) -> tk[cur[t]-1] = 3 :: else -> skip fi;
  cur[t] = it[t];
  tk[it[t]-1] = 1
}

inline FETCH(sl) {
  if :: (gil != t + 1) -> ok_S6_gil_held_for_threadstate_access = 0 :: else -> skip fi;
  assert(ok_S6_gil_held_for_threadstate_access);
  if :: (exc[sl] != 0 && tk[exc[sl]-1] == 2) -> tk[exc[sl]-1] = 4; ok_S1_no_overwrite_of_saved_exception = 0
     :: else -> skip fi;
  assert(ok_S1_no_overwrite_of_saved_exception);
  exc[sl] = cur[t];
  cur[t] = 0;
  if :: (exc[sl] != 0) -> tk[exc[sl]-1] = 2 :: else -> skip fi
}

inline RESTORE(sl) {
  if :: (gil != t + 1) -> ok_S6_gil_held_for_threadstate_access = 0 :: else -> skip fi;
  assert(ok_S6_gil_held_for_threadstate_access);
  if :: (exc[sl] != 0 && tk[exc[sl]-1] != 2) -> ok_S1_no_double_restore = 0 :: else -> skip fi;
  assert(ok_S1_no_double_restore);
  if :: (cur[t] != 0 && cur[t] != exc[sl]) -> tk[cur[t]-1] = 3 :: else -> skip fi;
  cur[t] = exc[sl];
  if :: (cur[t] != 0) -> tk[cur[t]-1] = 1 :: else -> skip fi
}

inline TCLEAR() {
  if :: (cur[t] != 0) -> tk[cur[t]-1] = 3; cur[t] = 0 :: else -> skip fi
}

inline FINAL() {
  if
  :: (@ANY_X@) ->
      if :: (arm == 3 && cur[0] != 0 && outc[cur[0]-1] == 4 && tk[cur[0]-1] == 1) -> skip
         :: else -> ok_S2_raise_propagates = 0 fi
  :: else ->
      if :: (arm == 3 || cur[0] != 0) -> ok_S2_raise_propagates = 0 :: else -> skip fi;
      /* documented best effort: with both a break and a return executed, either may win */
      if
      :: (arm == 2) ->
          if :: ((@ANY_R@) && retval != 0 && outc[retval-1] == 3) -> skip :: else -> ok_S3_arm = 0 fi
      :: (arm == 1) ->
          if :: ((@ANY_R@) && !(@ANY_B@)) -> ok_S3_arm = 0 :: else -> skip fi
      :: else -> skip
      fi
  fi;
  @ELSE_CHECKS@
  @TOK_FINAL@
  assert(ok_S2_raise_propagates);
  assert(ok_S3_arm);
  assert(ok_S1_final_tokens)
}

proctype worker(byte t) {
  byte pc = 0;
  do
  @CODE@
  od
}

init {
  atomic {
    @RUNS@
  }
}
