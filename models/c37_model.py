"""C37 model: extracted skeleton -> thread program ("assembly") -> (a) Promela text for spin, (b) a Python
explicit-state explorer of the same program (second opinion on spin's verdict, and the predictor of the
allowed observables of a replay-driver script in Layer 2).

Thread program instructions (one atomic step each):
  ('CLAIM', r, L_after)      take the next iteration of loop r (static: own list; dynamic: shared counter)
  ('GUARD', r, thr, L_skip)  read why[r]; >= thr: remember "observed exit" and skip the iteration
  ('BODY', r, {kind: L}, L_normal)   the iteration body: outcome normal/break/return/error
  ('W', r, k)  ('GILA',) ('GILR',)  ('IFNX', r, L_else) ('IFX', r, L_else) ('IFW', r, L_else)
  ('FETCH', r) ('RESTORE', r) ('JMP', L) ('SWITCH', r, [(k, L)], L_default) ('ELSE', r, thr)
  ('TEND',)  thread leaves the parallel region (non-master: thread state destroyed)
  ('JOIN',)  master waits for all threads     ('ARM', 'fall'|'return'|'error')  how the region was left

Tokens: iteration j that raises creates exception token j.  tk[j]: 0 not raised, 1 owned by a thread state,
2 owned by the saved-exception slot of a region, 3 dead (reference dropped properly), 4 leaked.
"""
import collections

KINDS = ('normal', 'break', 'return', 'error')
KCODE = {'normal': 1, 'break': 2, 'return': 3, 'error': 4}
ARMS = {'fall': 1, 'return': 2, 'error': 3}
ARM_NAMES = {v: k for k, v in ARMS.items()}

V_LEAK = 1          # S1: saved/owned exception reference overwritten or never released
V_DOUBLE = 2        # S1: a reference handed over twice (double restore -> double free)
V_NOGIL = 4         # S6: thread-state exception accessed without holding the GIL
V_S4 = 8            # S4: body started after the thread observed why >= 2
V_S2 = 16           # S2: raised but not propagated / propagated token wrong
V_S3 = 32           # S3: return/break/else arm wrong
V_FINAL = 64        # S1 at exit: token neither dead nor the propagated one
V_NAMES = {V_LEAK: 'S1-leak', V_DOUBLE: 'S1-double', V_NOGIL: 'S6-nogil', V_S4: 'S4-late-body', V_S2: 'S2-raise',
           V_S3: 'S3-arm', V_FINAL: 'S1-final', 128: 'S5-deadlock'}
V_DEADLOCK = 128


def viol_names(mask):
    return sorted(n for b, n in V_NAMES.items() if mask & b)


class Program:
    def __init__(self, region, T, K, sched='static'):
        self.T, self.K, self.sched = T, K, sched
        self.n = T * K
        self.ins = []
        self.labels = {}
        self.regions = []       # index -> dict(why_scope, exc_scope, kinds, has_else, loop)
        self._nl = 0
        self._gen_top(region)
        self._resolve()

    # -- building
    def _new(self):
        self._nl += 1
        return 'L%d' % self._nl

    def _place(self, lab):
        self.labels[lab] = len(self.ins)

    def _emit(self, *ins):
        self.ins.append(tuple(ins))

    def _reg(self, region):
        self.regions.append({'why_scope': region['why_scope'] or 'shared', 'exc_scope': region['exc_scope'] or 'shared',
                             'kinds': [k for _, k, _ in region['labels']], 'kind': region['kind'],
                             'has_else': any(op[0] == 'ELSE' for op in region['post']),
                             'tstate': bool(region['par_bracket'] and region['par_bracket']['gil_ensure']) })
        return len(self.regions) - 1

    def _ops(self, ops, r, env, top):
        for op in ops:
            k = op[0]
            if k == 'W':
                self._emit('W', r, op[1])
            elif k == 'GIL+':
                self._emit('GILA')
            elif k == 'GIL-':
                self._emit('GILR')
            elif k == 'FL':
                pass
            elif k in ('IFNX', 'IFX', 'IFW'):
                le = self._new()
                self._emit(k, r, le)
                self._ops(op[1], r, env, top)
                self._place(le)
            elif k == 'FETCH':
                self._emit('FETCH', r)
            elif k == 'RESTORE':
                self._emit('RESTORE', r)
            elif k == 'GOTO':
                lab = op[1]
                if lab in env:
                    self._emit('JMP', env[lab])
                elif top:
                    arm = 'return' if lab.endswith('_return') else 'error' if lab.endswith('_error') else None
                    if arm is None:
                        raise ValueError('post-region goto to unclassifiable label %s' % lab)
                    self._emit('ARM', arm)
                else:
                    raise ValueError('goto to unknown label %s inside nested region' % lab)
            elif k == 'SWITCH':
                ld = self._new()
                arms = [(kk, self._new()) for kk, _ in op[1]]
                self._emit('SWITCH', r, arms, ld)
                for (kk, a), (_, lab) in zip(op[1], arms):
                    self._place(lab)
                    self._ops(a, r, env, top)       # C fall-through between arms is preserved
                self._place(ld)
            elif k == 'ELSE':
                self._emit('ELSE', r, op[1] if op[1] is not None else 99)
            else:
                raise ValueError('op %r' % (op,))

    def _gen_loop(self, region, env, top):
        r = self._reg(region)
        l_loop, l_after, l_end = self._new(), self._new(), self._new()
        myenv = dict(env)
        labs = {}
        for name, kind, _ in region['labels']:
            labs[name] = self._new()
            myenv[name] = labs[name]
        self._place(l_loop)
        self._emit('CLAIM', r, l_after)
        if region['guard'] is not None:
            self._emit('GUARD', r, region['guard'], l_loop)
        targets = {}
        for name, kind, _ in region['labels']:
            if kind in ('break', 'return', 'error'):
                targets[kind] = labs[name]
        self._emit('BODY', r, targets, l_end)
        for name, kind, ops in region['labels']:
            self._place(labs[name])
            self._ops(ops, r, myenv, False)
            self._emit('JMP', l_end)
        self._place(l_end)
        self._ops(region['end_ops'], r, myenv, False)
        self._emit('JMP', l_loop)
        self._place(l_after)
        return r

    def _gen_top(self, region):
        if region['kind'] == 'prange':
            if not region['own_parallel']:
                raise ValueError('top-level prange without its own omp parallel')
            r = self._gen_loop(region, {}, True)
            self._emit('TEND')
            self._emit('JOIN')
            self._ops(region['post'], r, {}, True)
            self._emit('ARM', 'fall')
        else:
            r = self._reg(region)
            env = {}
            labs = {}
            l_end = self._new()
            for name, kind, _ in region['labels']:
                labs[name] = self._new()
                env[name] = labs[name]
            for ch in region['children']:
                if ch['kind'] != 'prange' or ch['own_parallel']:
                    raise ValueError('unsupported nesting')
                rc = self._gen_loop(ch, env, False)
                self._ops(ch['post'], rc, env, False)
            self._emit('JMP', l_end)
            for name, kind, ops in region['labels']:
                self._place(labs[name])
                self._ops(ops, r, env, False)
                self._emit('JMP', l_end)
            self._place(l_end)
            self._emit('TEND')
            self._emit('JOIN')
            self._ops(region['post'], r, {}, True)
            self._emit('ARM', 'fall')

    def _resolve(self):
        L = self.labels

        def fix(x):
            if isinstance(x, str) and x in L:
                return L[x]
            if isinstance(x, dict):
                return {k: fix(v) for k, v in x.items()}
            if isinstance(x, list):
                return [tuple(fix(y) for y in e) if isinstance(e, tuple) else fix(e) for e in x]
            return x
        self.ins = [tuple(fix(x) for x in i) for i in self.ins]

    def kinds(self):
        ks = set()
        for i in self.ins:
            if i[0] == 'BODY':
                ks |= set(i[2])
        return ks

    def describe(self):
        return ['%2d %s' % (k, ' '.join(str(x) for x in i)) for k, i in enumerate(self.ins)]


# ====================================================================================== Python explorer
class Explorer:
    """Explicit-state exploration of a Program.  Free mode: every BODY outcome and every interleaving.
    Scripted mode (outcome + script given): the bodies block on the entry/leave gates of the replay driver and
    the driver process executes `script` = list of ('rel', 'E'|'L', j) | ('arr', 'E'|'L', j) | ('why', r, slot, k)."""

    def __init__(self, prog, outcome=None, script=None):
        self.p = prog
        T, n, R = prog.T, prog.n, len(prog.regions)
        self.T, self.n, self.R = T, n, R
        self.outcome = outcome
        self.script = script
        # layout
        o = 0
        self.o_pc = o; o += T
        self.o_it = o; o += T
        self.o_nx = o; o += T
        self.o_why = o; o += R * T
        self.o_exc = o; o += R * T
        self.o_seen = o; o += R * T
        self.o_els = o; o += R * T
        self.o_cur = o; o += T
        self.o_tk = o; o += n
        self.o_out = o; o += n
        self.o_own = o; o += n
        self.o_done = o; o += T
        self.o_ph = o; o += T
        self.o_gate = o; o += 2 * n       # released flags E then L
        self.o_gil = o; o += 1
        self.o_ret = o; o += 1
        self.o_arm = o; o += 1
        self.o_viol = o; o += 1
        self.o_next = o; o += 1
        self.o_di = o; o += 1
        self.size = o

    def initial(self):
        s = [0] * self.size
        return tuple(s)

    def _slot(self, which, r, t):
        scope = self.p.regions[r]['why_scope' if which == 'why' else 'exc_scope']
        return r * self.T + (t if scope == 'thread' else 0)

    def _raise(self, s, t, j):
        old = s[self.o_cur + t]
        if old:
            s[self.o_tk + old - 1] = 3
        s[self.o_cur + t] = j + 1
        s[self.o_tk + j] = 1

    def step_thread(self, st, t):
        """Successor states of thread t's next instruction ([] if blocked / finished)."""
        p = self.p
        pc = st[self.o_pc + t]
        if pc >= len(p.ins):
            return []
        ins = p.ins[pc]
        op = ins[0]
        s = list(st)

        def go(npc):
            s[self.o_pc + t] = npc
            return [tuple(s)]
        if op == 'CLAIM':
            if p.sched == 'static':
                j = t + self.T * s[self.o_nx + t]
                if j < self.n:
                    s[self.o_nx + t] += 1
                    s[self.o_it + t] = j + 1
                    s[self.o_own + j] = t + 1
                    return go(pc + 1)
            else:
                j = s[self.o_next]
                if j < self.n:
                    s[self.o_next] += 1
                    s[self.o_it + t] = j + 1
                    s[self.o_own + j] = t + 1
                    return go(pc + 1)
            s[self.o_it + t] = 0
            return go(ins[2])
        if op == 'GUARD':
            r = ins[1]
            v = s[self.o_why + self._slot('why', r, t)]
            if v >= 2:
                s[self.o_seen + r * self.T + t] = 1       # the thread has observed an exit, whatever the threshold
            if v >= ins[2]:
                return go(ins[3])
            return go(pc + 1)
        if op == 'BODY':
            r = ins[1]
            j = s[self.o_it + t] - 1
            if self.outcome is None:
                if s[self.o_gil]:
                    return []
                res = []
                for kind in ['normal'] + sorted(ins[2]):
                    s2 = list(s)
                    self._body(s2, t, r, j, kind)
                    s2[self.o_pc + t] = ins[3] if kind == 'normal' else ins[2][kind]
                    res.append(tuple(s2))
                return res
            ph = s[self.o_ph + t]
            if ph == 0:           # arrive at entry gate
                if s[self.o_seen + r * self.T + t]:
                    s[self.o_viol] |= V_S4
                s[self.o_ph + t] = 1
                return [tuple(s)]
            if ph == 1:           # wait for entry release, run to the leave gate
                if not s[self.o_gate + j]:
                    return []
                s[self.o_ph + t] = 2
                return [tuple(s)]
            if not s[self.o_gate + self.n + j] or s[self.o_gil]:
                return []
            kind = self.outcome[j]
            self._body(s, t, r, j, kind, check_seen=False)
            s[self.o_ph + t] = 0
            return go(ins[3] if kind == 'normal' else ins[2][kind])
        if op == 'W':
            r = ins[1]
            s[self.o_why + self._slot('why', r, t)] = ins[2]
            if ins[2] >= 2:
                s[self.o_seen + r * self.T + t] = 1
            return go(pc + 1)
        if op == 'GILA':
            if s[self.o_gil]:
                return []
            s[self.o_gil] = t + 1
            return go(pc + 1)
        if op == 'GILR':
            if s[self.o_gil] == t + 1:
                s[self.o_gil] = 0
            return go(pc + 1)
        if op in ('IFNX', 'IFX'):
            v = s[self.o_exc + self._slot('exc', ins[1], t)]
            ok = (v == 0) if op == 'IFNX' else (v != 0)
            return go(pc + 1 if ok else ins[2])
        if op == 'IFW':
            v = s[self.o_why + self._slot('why', ins[1], t)]
            return go(pc + 1 if v else ins[2])
        if op == 'FETCH':
            r = ins[1]
            if s[self.o_gil] != t + 1:
                s[self.o_viol] |= V_NOGIL
            sl = self.o_exc + self._slot('exc', r, t)
            old = s[sl]
            if old and s[self.o_tk + old - 1] == 2:
                s[self.o_tk + old - 1] = 4
                s[self.o_viol] |= V_LEAK
            x = s[self.o_cur + t]
            s[sl] = x
            s[self.o_cur + t] = 0
            if x:
                s[self.o_tk + x - 1] = 2
            return go(pc + 1)
        if op == 'RESTORE':
            r = ins[1]
            if s[self.o_gil] != t + 1:
                s[self.o_viol] |= V_NOGIL
            x = s[self.o_exc + self._slot('exc', r, t)]
            old = s[self.o_cur + t]
            if x and s[self.o_tk + x - 1] != 2:
                s[self.o_viol] |= V_DOUBLE
            if old and old != x:
                s[self.o_tk + old - 1] = 3
            s[self.o_cur + t] = x
            if x:
                s[self.o_tk + x - 1] = 1
            return go(pc + 1)
        if op == 'JMP':
            return go(ins[1])
        if op == 'SWITCH':
            v = s[self.o_why + self._slot('why', ins[1], t)]
            for k, lab in ins[2]:
                if k == v:
                    return go(lab)
            return go(ins[3])
        if op == 'ELSE':
            r = ins[1]
            if s[self.o_why + self._slot('why', r, t)] < ins[2]:
                s[self.o_els + r * self.T + t] = 1
            return go(pc + 1)
        if op == 'TEND':
            if t != 0 and self.p.regions[0]['tstate']:
                if s[self.o_gil]:
                    return []
                x = s[self.o_cur + t]
                if x:
                    s[self.o_tk + x - 1] = 3
                    s[self.o_cur + t] = 0
            s[self.o_done + t] = 1
            if t != 0:
                return go(len(p.ins))
            return go(pc + 1)
        if op == 'JOIN':
            if all(s[self.o_done + u] for u in range(self.T)):
                return go(pc + 1)
            return []
        if op == 'ARM':
            s[self.o_arm] = ARMS[ins[1]]
            self._final(s)
            return go(len(p.ins))
        raise ValueError(ins)

    def _body(self, s, t, r, j, kind, check_seen=True):
        if check_seen and s[self.o_seen + r * self.T + t]:
            s[self.o_viol] |= V_S4
        s[self.o_out + j] = KCODE[kind]
        if kind == 'return':
            s[self.o_ret] = j + 1
        elif kind == 'error':
            self._raise(s, t, j)

    def _final(self, s):
        n, T = self.n, self.T
        out = s[self.o_out:self.o_out + n]
        arm = ARM_NAMES[s[self.o_arm]]
        any_x = 4 in out
        any_r = 3 in out
        any_b = 2 in out
        cur0 = s[self.o_cur]
        if any_x:
            if arm != 'error' or not cur0 or out[cur0 - 1] != 4 or s[self.o_tk + cur0 - 1] != 1:
                s[self.o_viol] |= V_S2
        else:
            if arm == 'error' or cur0:
                s[self.o_viol] |= V_S2
            # documented best effort: with both a break and a return among the executed iterations either may win
            if arm == 'return':
                if not any_r or not s[self.o_ret] or out[s[self.o_ret] - 1] != 3:
                    s[self.o_viol] |= V_S3
            elif arm == 'fall':
                if any_r and not any_b:
                    s[self.o_viol] |= V_S3
        # else clause: ran iff no iteration sharing the why instance left abnormally
        for r, reg in enumerate(self.p.regions):
            if not reg['has_else']:
                continue
            loops = [i for i in self.p.ins if i[0] == 'BODY' and i[1] == r]
            if not loops:
                continue
            if reg['why_scope'] == 'thread':
                for t in range(T):
                    ab = any(out[j] >= 2 for j in range(n) if self._owner(s, j) == t)
                    if bool(s[self.o_els + r * T + t]) != (not ab):
                        s[self.o_viol] |= V_S3
            else:
                ab = any(o >= 2 for o in out)
                ran = any(s[self.o_els + r * T + t] for t in range(T))
                if ran != (not ab):
                    s[self.o_viol] |= V_S3
        for j in range(n):
            tk = s[self.o_tk + j]
            if tk in (0, 3):
                continue
            if tk == 1 and cur0 == j + 1 and arm == 'error':
                continue
            s[self.o_viol] |= V_FINAL

    def _owner(self, s, j):
        return s[self.o_own + j] - 1

    # ---- driver process (scripted mode)
    def step_driver(self, st):
        if self.script is None:
            return []
        di = st[self.o_di]
        if di >= len(self.script):
            return []
        e = self.script[di]
        s = list(st)
        if e[0] == 'rel':
            s[self.o_gate + (self.n if e[1] == 'L' else 0) + e[2]] = 1
        elif e[0] == 'arr':
            j = e[2]
            t = self._thread_of(st, j)
            if t is None:
                return []
            ph = st[self.o_ph + t]
            if not (st[self.o_it + t] == j + 1 and ph >= (1 if e[1] == 'E' else 2)):
                # already past? an iteration that finished its body has out[j] set
                if not st[self.o_out + j]:
                    return []
        elif e[0] == 'why':
            if st[self.o_why + e[1] * self.T + e[2]] != e[3]:
                return []
        s[self.o_di] = di + 1
        return [tuple(s)]

    def _thread_of(self, st, j):
        for t in range(self.T):
            if st[self.o_it + t] == j + 1:
                return t
        return None

    def successors(self, st):
        res = []
        for t in range(self.T):
            res.extend(self.step_thread(st, t))
        res.extend(self.step_driver(st))
        return res

    def finished(self, st):
        return all(st[self.o_pc + t] >= len(self.p.ins) for t in range(self.T))

    def explore(self, limit=5_000_000):
        init = self.initial()
        seen = {init}
        stack = [init]
        trans = 0
        finals = set()
        viol = 0
        deadlocks = 0
        example = {}
        parent = {}
        while stack:
            st = stack.pop()
            succ = self.successors(st)
            if not succ:
                if self.finished(st):
                    finals.add(st)
                else:
                    deadlocks += 1
                    viol |= V_DEADLOCK
                    example.setdefault(V_DEADLOCK, st)
                continue
            for s2 in succ:
                trans += 1
                if s2 not in seen:
                    seen.add(s2)
                    if len(seen) > limit:
                        raise MemoryError('state limit')
                    v = s2[self.o_viol] & ~st[self.o_viol]
                    if v:
                        for b in V_NAMES:
                            if v & b:
                                example.setdefault(b, s2)
                    viol |= s2[self.o_viol]
                    stack.append(s2)
        return {'states': len(seen), 'transitions': trans, 'finals': finals, 'viol': viol,
                'deadlocks': deadlocks, 'example': example}

    # ---- observables of a final state
    def observable(self, st):
        n = self.n
        out = st[self.o_out:self.o_out + n]
        arm = ARM_NAMES.get(st[self.o_arm], 'none')
        cur0 = st[self.o_cur]
        els = tuple(sorted((r, t) for r in range(self.R) for t in range(self.T) if st[self.o_els + r * self.T + t]))
        return (arm, st[self.o_ret] - 1 if arm == 'return' else None, cur0 - 1 if arm == 'error' else None,
                tuple(j for j in range(n) if out[j]), els, st[self.o_viol])

    def decode(self, st):
        return {'pc': list(st[self.o_pc:self.o_pc + self.T]), 'why': list(st[self.o_why:self.o_why + self.R * self.T]),
                'exc': list(st[self.o_exc:self.o_exc + self.R * self.T]), 'cur': list(st[self.o_cur:self.o_cur + self.T]),
                'tk': list(st[self.o_tk:self.o_tk + self.n]), 'out': list(st[self.o_out:self.o_out + self.n]),
                'gil': st[self.o_gil], 'ret': st[self.o_ret], 'arm': st[self.o_arm], 'viol': viol_names(st[self.o_viol])}


# ---------------------------------------------------------------------------- script planning (Layer 2)
def plan_script(prog, outcome, order):
    """Drive one concrete execution (each released thread runs until it blocks) to find which arrivals the
    driver must wait for.  order = sequence of iteration ids (leave-gate release order).  Returns the script."""
    ex = Explorer(prog, outcome=outcome, script=[])
    st = ex.initial()
    script = []
    arrivedE, arrivedL = set(), set()

    def settle(st, track_t=None):
        writes = {}
        progress = True
        while progress:
            progress = False
            for t in range(ex.T):
                while True:
                    pc = st[ex.o_pc + t]
                    succ = ex.step_thread(st, t)
                    if not succ:
                        break
                    if t == track_t and pc < len(prog.ins) and prog.ins[pc][0] == 'W':
                        i = prog.ins[pc]
                        writes[(i[1], ex._slot('why', i[1], t) - i[1] * ex.T)] = i[2]
                    st = succ[0]
                    progress = True
        return st, writes

    def arrivals(st):
        newE, newL = [], []
        for t in range(ex.T):
            j = st[ex.o_it + t] - 1
            if j < 0 or st[ex.o_pc + t] >= len(prog.ins) or prog.ins[st[ex.o_pc + t]][0] != 'BODY':
                continue
            ph = st[ex.o_ph + t]
            if ph >= 1 and j not in arrivedE:
                newE.append(j)
            if ph >= 2 and j not in arrivedL:
                newL.append(j)
        return newE, newL

    def release(st, which, j):
        s = list(st)
        s[ex.o_gate + (ex.n if which == 'L' else 0) + j] = 1
        return tuple(s)

    def drain_entries(st):
        while True:
            newE, newL = arrivals(st)
            for j in newL:
                arrivedL.add(j)
                script.append(('arr', 'L', j))
            if not newE:
                if not newL:
                    return st
                continue
            for j in newE:
                arrivedE.add(j)
                script.append(('arr', 'E', j))
                script.append(('rel', 'E', j))
                st = release(st, 'E', j)
            st, _ = settle(st)
    st, _ = settle(st)
    st = drain_entries(st)
    for j in order:
        if j not in arrivedL or st[ex.o_out + j]:
            continue
        script.append(('rel', 'L', j))
        st = release(st, 'L', j)
        t = ex._thread_of(st, j)
        st, writes = settle(st, t)
        for (r, slot), k in sorted(writes.items()):
            script.append(('why', r, slot, k, j))
        st = drain_entries(st)
    return script


# ====================================================================================== Promela rendering
def render_promela(prog, template):
    T, n, R = prog.T, prog.n, len(prog.regions)
    L = []

    def slot(which, r):
        scope = prog.regions[r]['why_scope' if which == 'why' else 'exc_scope']
        return '%d + t' % (r * T) if scope == 'thread' else '%d' % (r * T)
    tstate = prog.regions[0]['tstate']
    END = 250
    if len(prog.ins) >= END:
        raise ValueError('program too long for the byte pc')

    def ins_(pc, guard, body):
        g = 'pc == %d' % pc + (' && ' + guard if guard else '')
        L.append(':: atomic { (%s) -> %s }' % (g, body))
    for pc, ins in enumerate(prog.ins):
        op = ins[0]
        if op == 'CLAIM':
            if prog.sched == 'static':
                body = ('if :: (t + T * nx[t] < NIT) -> it[t] = t + T * nx[t] + 1; nx[t]++; own[it[t]-1] = t + 1; pc = %d '
                        ':: else -> it[t] = 0; pc = %d fi' % (pc + 1, ins[2]))
            else:
                body = ('if :: (nextit < NIT) -> it[t] = nextit + 1; nextit++; own[it[t]-1] = t + 1; pc = %d '
                        ':: else -> it[t] = 0; pc = %d fi' % (pc + 1, ins[2]))
            ins_(pc, '', body)
        elif op == 'GUARD':
            r = ins[1]
            ins_(pc, '', 'if :: (why[%s] >= 2) -> seen[%d + t] = 1 :: else -> skip fi; '
                 'if :: (why[%s] >= %d) -> pc = %d :: else -> pc = %d fi'
                 % (slot('why', r), r * T, slot('why', r), ins[2], ins[3], pc + 1))
        elif op == 'BODY':
            r = ins[1]
            alts = ['   :: outc[it[t]-1] = 1; pc = %d' % ins[3]]
            for kind, tgt in sorted(ins[2].items()):
                if kind == 'break':
                    alts.append('   :: outc[it[t]-1] = 2; pc = %d' % tgt)
                elif kind == 'return':
                    alts.append('   :: outc[it[t]-1] = 3; retval = it[t]; pc = %d' % tgt)
                elif kind == 'error':
                    alts.append('   :: outc[it[t]-1] = 4; RAISE(); pc = %d' % tgt)
            ins_(pc, 'gil == 0', 'BODY_COMMON(%d);\n   if\n%s\n   fi' % (r * T, '\n'.join(alts)))
        elif op == 'W':
            r = ins[1]
            extra = ' seen[%d + t] = 1;' % (r * T) if ins[2] >= 2 else ''
            ins_(pc, '', 'why[%s] = %d;%s pc = %d' % (slot('why', r), ins[2], extra, pc + 1))
        elif op == 'GILA':
            ins_(pc, 'gil == 0', 'gil = t + 1; pc = %d' % (pc + 1))
        elif op == 'GILR':
            ins_(pc, '', 'if :: (gil == t + 1) -> gil = 0 :: else -> skip fi; pc = %d' % (pc + 1))
        elif op in ('IFNX', 'IFX'):
            cond = '==' if op == 'IFNX' else '!='
            ins_(pc, '', 'if :: (exc[%s] %s 0) -> pc = %d :: else -> pc = %d fi'
                 % (slot('exc', ins[1]), cond, pc + 1, ins[2]))
        elif op == 'IFW':
            ins_(pc, '', 'if :: (why[%s] != 0) -> pc = %d :: else -> pc = %d fi' % (slot('why', ins[1]), pc + 1, ins[2]))
        elif op == 'FETCH':
            ins_(pc, '', 'FETCH(%s); pc = %d' % (slot('exc', ins[1]), pc + 1))
        elif op == 'RESTORE':
            ins_(pc, '', 'RESTORE(%s); pc = %d' % (slot('exc', ins[1]), pc + 1))
        elif op == 'JMP':
            ins_(pc, '', 'pc = %d' % ins[1])
        elif op == 'SWITCH':
            alts = ' '.join(':: (why[%s] == %d) -> pc = %d' % (slot('why', ins[1]), k, tgt) for k, tgt in ins[2])
            ins_(pc, '', 'if %s :: else -> pc = %d fi' % (alts, ins[3]))
        elif op == 'ELSE':
            r = ins[1]
            ins_(pc, '', 'if :: (why[%s] < %d) -> els[%d + t] = 1 :: else -> skip fi; pc = %d'
                 % (slot('why', r), ins[2], r * T, pc + 1))
        elif op == 'TEND':
            if tstate:
                ins_(pc, '(t == 0 || gil == 0)', 'if :: (t != 0) -> TCLEAR(); done[t] = 1; pc = %d '
                     ':: else -> done[t] = 1; pc = %d fi' % (END, pc + 1))
            else:
                ins_(pc, '', 'done[t] = 1; if :: (t != 0) -> pc = %d :: else -> pc = %d fi' % (END, pc + 1))
        elif op == 'JOIN':
            ins_(pc, ' && '.join('done[%d]' % u for u in range(T)), 'pc = %d' % (pc + 1))
        elif op == 'ARM':
            ins_(pc, '', 'arm = %d; FINAL(); pc = %d' % (ARMS[ins[1]], END))
        else:
            raise ValueError(ins)
    L.append(':: (pc == %d) -> break' % END)
    # final-state checks for the else clause (generated: depends on scopes)
    else_checks = []
    for r, reg in enumerate(prog.regions):
        if not reg['has_else'] or not any(i[0] == 'BODY' and i[1] == r for i in prog.ins):
            continue
        if reg['why_scope'] == 'thread':
            for t in range(T):
                ab = ' || '.join('(own[%d] == %d && outc[%d] >= 2)' % (j, t + 1, j) for j in range(n))
                else_checks.append('if :: ((els[%d] == 1) != (!(%s))) -> ok_S3_arm = 0 :: else -> skip fi;'
                                   % (r * T + t, ab))
        else:
            ab = ' || '.join('outc[%d] >= 2' % j for j in range(n))
            ran = ' || '.join('els[%d] == 1' % (r * T + t) for t in range(T))
            else_checks.append('if :: ((%s) != (!(%s))) -> ok_S3_arm = 0 :: else -> skip fi;' % (ran, ab))
    any_x = ' || '.join('outc[%d] == 4' % j for j in range(n))
    any_r = ' || '.join('outc[%d] == 3' % j for j in range(n))
    any_b = ' || '.join('outc[%d] == 2' % j for j in range(n))
    tok_final = '\n      '.join(
        'if :: (tk[%d] == 0 || tk[%d] == 3 || (tk[%d] == 1 && cur[0] == %d && arm == 3)) -> skip '
        ':: else -> ok_S1_final_tokens = 0 fi;' % (j, j, j, j + 1) for j in range(n))
    text = template
    rep = {
        '@T@': str(T), '@NIT@': str(n), '@RT@': str(max(1, R * T)),
        '@ANY_X@': any_x, '@ANY_R@': any_r, '@ANY_B@': any_b, '@ELSE_CHECKS@': '\n      '.join(else_checks) or 'skip;',
        '@TOK_FINAL@': tok_final, '@CODE@': '\n  '.join(L),
        '@RUNS@': '\n    '.join('run worker(%d);' % t for t in range(T)),
    }
    for k, v in rep.items():
        text = text.replace(k, v)
    return text
