#!/usr/bin/env python3
"""Regenerate MANIFEST.json from the props modules (each carries LEVEL/TECHNIQUE/LEVEL_TEXT/LEVEL_NOTE)."""
import json, os, glob, ast, sys
here = os.path.dirname(os.path.dirname(os.path.abspath(__file__)))
props = [json.loads(l) for l in open(os.path.join(here, 'properties.jsonl'))]
def consts(path):
    out = {}
    tree = ast.parse(open(path).read())
    for n in tree.body:
        if isinstance(n, ast.Assign) and len(n.targets) == 1 and isinstance(n.targets[0], ast.Name):
            try:
                out[n.targets[0].id] = ast.literal_eval(n.value)
            except Exception:
                pass
    return out
NA = json.load(open(os.path.join(here, 'tools', 'not_applicable.json')))
VERIFIED = set(open(os.path.join(here, 'tools', 'verified.txt')).read().split())
checks, na, engines = [], [], {}
for p in props:
    pid = p['id']
    m = sorted(glob.glob(os.path.join(here, 'props', pid + '_*.py')))
    if m and pid not in VERIFIED and pid not in NA:
        na.append({'property_id': pid, 'reason': 'a check is implemented (props/%s) but has not yet been run and confirmed silent on the current tree by the coordinator; nothing is claimed until then' % os.path.basename(m[0])})
        continue
    if not m or pid in NA:
        na.append({'property_id': pid, 'reason': NA.get(pid, 'no check built yet for this property in this tree (design: DESIGN.md section 4, %s); nothing is claimed' % pid)})
        continue
    c = consts(m[0])
    if c.get('DISABLED'):
        na.append({'property_id': pid, 'reason': c['DISABLED']})
        continue
    eng = c.get('ENGINE', 'E2 diffexplore')
    engines.setdefault(eng, []).append(pid)
    e = {
        'property_id': pid,
        'quick_cmd': './check %s --tier quick' % pid,
        'evidence_file': 'evidence/%s.json' % pid,
        'replay_cmd_template': './check %s --replay {path}' % pid,
        'engine': eng,
        'level_claimed': {'category': c['LEVEL'], 'text': c.get('LEVEL_TEXT', ''), 'design_ref': 'DESIGN.md section 4, %s' % pid},
        'level_note': c.get('LEVEL_NOTE', ''),
        'technique': c.get('TECHNIQUE', ''),
    }
    if not c.get('NO_THOROUGH'):
        e['thorough_cmd'] = './check %s --tier thorough' % pid
    checks.append(e)
man = {
 'version': 1,
 'setup_cmd': './check --setup',
 'hooks': {
  'guard': 'CYTHON_VERIF',
  'enable': 'no source hooks: checks drive a source-only stage of the /repo/Cython working tree from outside (guard name reserved, unused)',
  'baseline_off_cmd': 'cd /repo && /venv/bin/python -m pytest -ra -q -p no:cacheprovider --timeout=900 --continue-on-collection-errors',
  'source_commits': [],
  'add_only': True},
 'engines': [{'name': k, 'path': 'vlib/', 'serves_properties': v, 'kind_free_text': k} for k, v in sorted(engines.items())],
 'checks': checks,
 'not_applicable': na,
 'notes': 'All checks decide their property by exhaustive enumeration of a stated finite space (see DESIGN.md). ./check <id> stages /repo/Cython sources (ignoring pre-built .so) at every run.',
}
json.dump(man, open(os.path.join(here, 'MANIFEST.json'), 'w'), indent=1)
print('checks', len(checks), 'not_applicable', len(na))
