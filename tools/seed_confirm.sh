#!/bin/bash
# Confirm a seeded change: tools/seed_confirm.sh <dir with patch.diff demo.py meta.json> [check ids...]
# 1. fresh worktree of /repo HEAD  2. demo passes unpatched  3. apply patch  4. pinned tests still pass
# 5. demo fails patched  6. run the given checks (quick) against the patched tree  7. remove the worktree
set -u
D=$(realpath "$1"); shift
ID=$(basename "$D")
WT=/tmp/wt_confirm_$ID
PY=/venv/bin/python
git -C /repo worktree remove --force "$WT" >/dev/null 2>&1
git -C /repo worktree add --detach "$WT" HEAD >/dev/null 2>&1 || { echo "worktree failed"; exit 2; }
trap 'git -C /repo worktree remove --force "$WT" >/dev/null 2>&1; rm -rf "$WT"' EXIT
echo "== demo on unchanged tree (expect 0)"
( cd /tmp && timeout 600 $PY "$D/demo.py" "$WT" >"$D/demo_clean.log" 2>&1 ); RC0=$?
echo "rc=$RC0"
git -C "$WT" apply "$D/patch.diff" || { echo "PATCH DOES NOT APPLY"; exit 2; }
echo "== pinned test suite with the change"
( cd "$WT" && timeout 1800 $PY -m pytest -ra -q -p no:cacheprovider --timeout=900 --continue-on-collection-errors --junitxml="$D/junit.xml" >"$D/tests.log" 2>&1 )
$PY - "$D/junit.xml" <<'PYEOF'
import sys, json, xml.etree.ElementTree as ET
base = set(json.load(open('/root/.vp/BASELINE.json'))['stable_pass'])
passed = set()
for tc in ET.parse(sys.argv[1]).getroot().iter('testcase'):
    if not list(tc):
        passed.add('%s::%s' % (tc.get('classname'), tc.get('name')))
missing = sorted(base - passed)
print('baseline stable_pass=%d passed_now=%d missing=%d' % (len(base), len(passed & base), len(missing)))
for m in missing[:10]: print('  MISSING', m)
sys.exit(1 if missing else 0)
PYEOF
RCT=$?
echo "== demo on changed tree (expect 1)"
( cd /tmp && timeout 600 $PY "$D/demo.py" "$WT" >"$D/demo_patched.log" 2>&1 ); RC1=$?
echo "rc=$RC1"; tail -3 "$D/demo_patched.log"
for C in "$@"; do
  echo "== check $C against the changed tree (expect exit 1)"
  ( cd /verif && VERIF_REPO="$WT" timeout 3000 ./check "$C" --tier quick >"$D/check_$C.log" 2>&1 ); RCC=$?
  echo "check $C rc=$RCC"; grep -m3 "^VIOLATION" "$D/check_$C.log"
done
echo "SUMMARY id=$ID demo_clean=$RC0 tests=$RCT demo_patched=$RC1"
