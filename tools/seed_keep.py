#!/usr/bin/env python3
"""tools/seed_keep.py <seed dir> : after tools/seed_confirm.sh ran, copy the confirmed seeded change into
/verif/seeded/<id>/ (patch.diff, demo.py, meta.json augmented with what was confirmed and which checks caught it)."""
import sys, os, json, re, shutil, glob
src = os.path.realpath(sys.argv[1]); sid = os.path.basename(src)
dst = os.path.join(os.path.dirname(os.path.dirname(os.path.abspath(__file__))), 'seeded', sid)
meta = json.load(open(os.path.join(src, 'meta.json')))
conf = {'pinned_suite': None, 'demo_unchanged_rc': None, 'demo_changed_rc': None, 'checks': {}}
tl = open(os.path.join(src, 'tests.log')).read().strip().splitlines()
conf['pinned_suite'] = tl[-1] if tl else None
for name, key in (('demo_clean.log', 'demo_unchanged'), ('demo_patched.log', 'demo_changed')):
    p = os.path.join(src, name)
    conf[key + '_tail'] = open(p).read()[-600:] if os.path.exists(p) else None
for p in glob.glob(os.path.join(src, 'check_*.log')):
    cid = os.path.basename(p)[6:-4]
    txt = open(p).read()
    v = re.findall(r'^VIOLATION property=\S+ replay=\S+\n  key : (.*)', txt, re.M)
    conf['checks'][cid] = {'detected': bool(v), 'violation_keys': v[:8],
                           'cmd': 'VERIF_REPO=<worktree with patch> ./check %s --tier quick' % cid}
for a in sys.argv[2:]:
    k, _, val = a.partition('=')
    conf[k] = val
meta['confirmed_by_coordinator'] = conf
os.makedirs(dst, exist_ok=True)
shutil.copy(os.path.join(src, 'patch.diff'), dst); shutil.copy(os.path.join(src, 'demo.py'), dst)
json.dump(meta, open(os.path.join(dst, 'meta.json'), 'w'), indent=1)
print('kept', dst, {c: d['detected'] for c, d in conf['checks'].items()})
