#!/usr/bin/env python3
"""Regenerate the generated parts of DESIGN.md (sections 11.1/11.2 findings tables, section 12 detection matrix)
from findings/known_findings.json and seeded/*/meta.json.  Hand-written text outside the markers is kept."""
import json, os, glob, re
here = os.path.dirname(os.path.dirname(os.path.abspath(__file__)))
F = json.load(open(os.path.join(here, 'findings', 'known_findings.json')))['findings']
def esc(s): return s.replace('|', '\\|').replace('\n', ' ')
out = []
fixed = [f for f in F if f['status'] == 'fixed']
known = [f for f in F if f['status'] == 'known']
out.append('### 11.1 Genuine defects repaired in /repo (%d `fix:` commits; entries never suppress anything)\n' % len({f['commit'] for f in fixed}))
out.append('| property | commit | violation key(s) the check printed | what failed |')
out.append('|---|---|---|---|')
for f in sorted(fixed, key=lambda f: (f['property'], f['commit'])):
    what = re.sub(r'^fixed: property=\S+ \S+ ', '', f['what'])
    out.append('| %s | %s | `%s` | %s |' % (f['property'], f['commit'], esc(f['key']), esc(what)))
out.append('')
out.append('### 11.2 Genuine defects recorded as known findings (%d entries; the check prints `KNOWN-FINDING:` and exits 0)\n' % len(known))
out.append('| property | key pattern (fnmatch on the normalised violation key) | what fails and why it is not repaired |')
out.append('|---|---|---|')
for f in sorted(known, key=lambda f: (f['property'], f['key'])):
    out.append('| %s | `%s` | %s |' % (f['property'], esc(f['key']), esc(f['what'])))
text11 = '\n'.join(out) + '\n'
rows = []
for mp in sorted(glob.glob(os.path.join(here, 'seeded', '*', 'meta.json'))):
    m = json.load(open(mp)); sid = os.path.basename(os.path.dirname(mp))
    conf = m.get('confirmed_by_coordinator', {})
    det = '; '.join('%s: %s' % (c, 'DETECTED' if d['detected'] else 'missed') for c, d in sorted(conf.get('checks', {}).items())) or 'not run'
    rows.append('| %s | %s | %s | %s | %s |' % (sid, m.get('property', ''), esc(m.get('summary', ''))[:260], esc(str(m.get('needs_to_manifest', '')))[:260], det))
text12 = ('| seed | property | change | needs to manifest | quick-tier result |\n|---|---|---|---|---|\n' + '\n'.join(rows) + '\n')
p = os.path.join(here, 'DESIGN.md')
s = open(p).read()
def put(s, tag, text):
    a, b = '<!-- BEGIN %s -->' % tag, '<!-- END %s -->' % tag
    if a not in s:
        return s
    i, j = s.index(a) + len(a), s.index(b)
    return s[:i] + '\n' + text + s[j:]
import ast
rowsP = []
for mp in sorted(glob.glob(os.path.join(here, 'props', 'C[0-9][0-9]_*.py'))):
    c = {}
    for n in ast.parse(open(mp).read()).body:
        if isinstance(n, ast.Assign) and len(n.targets) == 1 and isinstance(n.targets[0], ast.Name):
            try: c[n.targets[0].id] = ast.literal_eval(n.value)
            except Exception: pass
    pid = os.path.basename(mp)[:3]
    ev = {}
    try: ev = json.load(open(os.path.join(here, 'evidence', pid + '.json')))
    except Exception: pass
    cov = ev.get('coverage', {})
    nums = ', '.join('%s=%s' % (k, cov[k]) for k in ('evaluations', 'distinct_nontrivial', 'states', 'transitions', 'traces_validated_against_impl', 'programs') if k in cov)
    rowsP.append('| %s | %s | %s | %s | %s | %s (quick, %ss) |' % (pid, os.path.basename(mp), c.get('LEVEL', ''), esc(c.get('TECHNIQUE', '')), esc(c.get('LEVEL_TEXT', ''))[:900], nums, ev.get('wall_s', '?')))
text10 = ('| id | module | level | technique | what is enumerated and the oracle (LEVEL_TEXT) | last committed evidence |\n|---|---|---|---|---|---|\n' + '\n'.join(rowsP) + '\n')
s = put(s, 'FINDINGS', text11); s = put(s, 'SEEDS', text12); s = put(s, 'CHECKS', text10)
open(p, 'w').write(s)
print('fixed', len(fixed), 'known', len(known), 'seeds', len(rows))
