#!/usr/bin/env python3
"""Regenerate the generated parts of DESIGN.md (sections 11.1/11.2 findings tables, section 12 detection matrix)
from findings/known_findings.json and seeded/*/meta.json.  Hand-written text outside the markers is kept."""
import json, os, glob, re
here = os.path.dirname(os.path.dirname(os.path.abspath(__file__)))
F = json.load(open(os.path.join(here, 'findings', 'known_findings.json')))['findings']
def esc(s): return s.replace('|', '\\|').replace('\n', ' ')
out = []
fixed = [f for f in F if f['status'] == 'fixed']
known = [f for f in F if f['status'] == 'known']
out.append('### 11.1 Genuine defects repaired in /repo (%d `fix:` commits; entries never suppress anything)\n' % len({f['commit'] for f in fixed}))
out.append('| property | commit | violation key(s) the check printed | what failed |')
out.append('|---|---|---|---|')
for f in sorted(fixed, key=lambda f: (f['property'], f['commit'])):
    what = re.sub(r'^fixed: property=\S+ \S+ ', '', f['what'])
    out.append('| %s | %s | `%s` | %s |' % (f['property'], f['commit'], esc(f['key']), esc(what)))
out.append('')
out.append('### 11.2 Genuine defects recorded as known findings (%d entries; the check prints `KNOWN-FINDING:` and exits 0)\n' % len(known))
out.append('| property | key pattern (fnmatch on the normalised violation key) | what fails and why it is not repaired |')
out.append('|---|---|---|')
for f in sorted(known, key=lambda f: (f['property'], f['key'])):
    out.append('| %s | `%s` | %s |' % (f['property'], esc(f['key']), esc(f['what'])))
text11 = '\n'.join(out) + '\n'
rows = []
for mp in sorted(glob.glob(os.path.join(here, 'seeded', '*', 'meta.json'))):
    m = json.load(open(mp)); sid = os.path.basename(os.path.dirname(mp))
    conf = m.get('confirmed_by_coordinator', {})
    det = '; '.join('%s: %s' % (c, 'DETECTED' if d['detected'] else 'missed') for c, d in sorted(conf.get('checks', {}).items())) or 'not run'
    rows.append('| %s | %s | %s | %s | %s |' % (sid, m.get('property', ''), esc(m.get('summary', ''))[:260], esc(str(m.get('needs_to_manifest', '')))[:260], det))
text12 = ('| seed | property | change | needs to manifest | quick-tier result |\n|---|---|---|---|---|\n' + '\n'.join(rows) + '\n')
p = os.path.join(here, 'DESIGN.md')
s = open(p).read()
def put(s, tag, text):
    a, b = '<!-- BEGIN %s -->' % tag, '<!-- END %s -->' % tag
    if a not in s:
        return s
    i, j = s.index(a) + len(a), s.index(b)
    return s[:i] + '\n' + text + s[j:]
s = put(s, 'FINDINGS', text11); s = put(s, 'SEEDS', text12)
open(p, 'w').write(s)
print('fixed', len(fixed), 'known', len(known), 'seeds', len(rows))
