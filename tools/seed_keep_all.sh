#!/bin/bash
# keep every seed in /tmp/seed_out whose confirmation succeeded (demo_clean=0 tests=0 demo_patched=1)
for d in /tmp/seed_out/C[0-9][0-9][ab]; do
  s=$(basename $d)
  [ -f $d/confirm.log ] || continue
  if grep -q "SUMMARY id=$s demo_clean=0 tests=0 demo_patched=1" $d/confirm.log; then
    /verif/tools/seed_keep.py $d >/dev/null && echo "kept $s"
  else
    echo "NOT CONFIRMED $s: $(grep -h 'SUMMARY\|APPLY' $d/confirm.log | head -1)"
  fi
done
