#!/bin/bash
# tools/seed_recheck.sh <seed dir> <check ids...>: re-run only the checks against HEAD + patch (demo/tests were confirmed before)
set -u
D=$(realpath "$1"); shift
ID=$(basename "$D"); WT=/tmp/wt_recheck_$ID
git -C /repo worktree remove --force "$WT" >/dev/null 2>&1; rm -rf "$WT"
git -C /repo worktree add --detach "$WT" HEAD >/dev/null 2>&1 || { echo "$ID worktree failed"; exit 2; }
trap 'git -C /repo worktree remove --force "$WT" >/dev/null 2>&1; rm -rf "$WT"' EXIT
git -C "$WT" apply "$D/patch.diff" 2>/dev/null || { echo "$ID PATCH DOES NOT APPLY"; exit 3; }
for C in "$@"; do
  ( cd /verif && VERIF_REPO="$WT" timeout 2400 ./check "$C" --tier quick >"$D/check_$C.log" 2>&1 ); RCC=$?
  echo "$ID check $C rc=$RCC keys: $(grep -A1 '^VIOLATION' "$D/check_$C.log" | grep 'key :' | head -3 | cut -c1-120 | tr '\n' ';')"
done
