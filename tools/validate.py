#!/usr/bin/env python3-vt
"""Validate MANIFEST.json and evidence/*.json against the harness schemas."""
import json, sys, glob, os
import jsonschema
here = os.path.dirname(os.path.dirname(os.path.abspath(__file__)))
ok = True
def val(path, schema):
    global ok
    try:
        jsonschema.validate(json.load(open(path)), json.load(open(schema)))
    except Exception as e:
        ok = False
        print('INVALID', path, str(e)[:400])
val(os.path.join(here, 'MANIFEST.json'), '/root/.vp/MANIFEST.schema.json')
m = json.load(open(os.path.join(here, 'MANIFEST.json')))
claimed = {c['property_id'] for c in m['checks']}
na = {c['property_id'] for c in m.get('not_applicable', [])}
allp = {json.loads(l)['id'] for l in open(os.path.join(here, 'properties.jsonl'))}
if claimed & na or (claimed | na) != allp:
    ok = False
    print('MANIFEST coverage mismatch: missing', sorted(allp - claimed - na), 'both', sorted(claimed & na))
only = set(sys.argv[1:])
for c in m['checks']:
    if only and c['property_id'] not in only:
        continue
    p = os.path.join(here, c['evidence_file']) if not c['evidence_file'].startswith('/') else c['evidence_file']
    if not os.path.exists(p):
        ok = False; print('MISSING evidence', p); continue
    val(p, '/root/.vp/EVIDENCE.schema.json')
    e = json.load(open(p))
    if e['level'] != c['level_claimed']['category']:
        ok = False; print('LEVEL mismatch', c['property_id'], e['level'], c['level_claimed']['category'])
print('valid' if ok else 'PROBLEMS')
sys.exit(0 if ok else 1)
