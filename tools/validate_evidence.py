#!/usr/bin/env python3-vt
"""Validate evidence files against the harness schema: tools/validate_evidence.py evidence/C02.json ..."""
import json, sys, jsonschema
schema = json.load(open('/root/.vp/EVIDENCE.schema.json'))
bad = 0
for p in sys.argv[1:]:
    try:
        jsonschema.validate(json.load(open(p)), schema); print('valid', p)
    except Exception as e:
        bad = 1; print('INVALID', p, str(e)[:500])
sys.exit(bad)
