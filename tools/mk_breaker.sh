#!/bin/bash
# tools/mk_breaker.sh Cnn  -> creates worktree /tmp/wt_Cnn and output dirs, prints the property record
P=$1
git -C /repo worktree remove --force /tmp/wt_$P >/dev/null 2>&1; rm -rf /tmp/wt_$P
git -C /repo worktree add --detach /tmp/wt_$P HEAD >/dev/null 2>&1
mkdir -p /tmp/seed_out/${P}a /tmp/seed_out/${P}b
/venv/bin/python - "$P" <<'PY'
import json,sys
for l in open('/verif/properties.jsonl'):
    p=json.loads(l)
    if p['id']==sys.argv[1]:
        print(json.dumps({k:p[k] for k in ('id','title','statement','quantifier','why_tests_cant','anchors')},indent=1))
PY
