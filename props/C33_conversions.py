"""C33 - Python <-> C/C++ value conversions round-trip or raise.

Every conversion target T is one compiled round-trip function  `def f(x): cdef T v = x; return v`  (C++ build for the
libcpp containers and std::string, C build for structs / unions / C arrays / char*).  For every target the input
family is generated from the type: empty, 1 and 3 element values, nested values, every alternative source form
(list / tuple / generator / iterator / set / dict / bytes), boundary leaves, and - for EVERY leaf position of the 1
and 3 element values - every bad leaf (wrong type, out of range low/high) at exactly that position; plus wrong
top-level objects, wrong lengths (pairs, C arrays), missing / extra / wrong keys (structs, unions), NUL bytes and
non-ASCII text under every c_string_type x c_string_encoding setting.
Oracle: a Python model of the documented conversion (props.C33_conversions:model): the round-trip value (list for
vector/list, set for set, dict for map, tuple for pair, dict for struct, bytes/str/bytearray for strings) or the
exception type.
"""
import itertools, json
from vlib import e2, support

LEVEL = 'exploration'
ENGINE = 'E2 diffexplore'
TECHNIQUE = 'exhaustive (conversion target x generated value family with a bad leaf at every position x source form), compiled round trip vs Python conversion model'
LEVEL_TEXT = ('For 40+ conversion targets (struct/union from dict incl. nested, int[3], double[2][2], char*/const char*/unsigned char*/'
              'std::string under all valid c_string_type x c_string_encoding settings, libcpp vector/list/set/unordered_set/map/'
              'unordered_map/pair/complex of int/double/string and nested containers) a compiled round-trip function is run on the '
              'complete generated family: sizes 0/1/3, nested depth 2, every source form, and a wrong-typed / out-of-range leaf at '
              'every single leaf position; result value+type or exception type must equal a Python model of the conversion.')
LEVEL_NOTE = ('Bounded sizes (<=3 elements, nesting depth 2) and a fixed leaf alphabet.  Modelled as by-design: float -> C int truncates '
              '(nb_int), wrong C-array length raises IndexError, extra struct keys are ignored, char* truncates at NUL, dict -> '
              'vector iterates keys.  Not covered: objects with custom __int__/__float__/__iter__ side effects, huge containers '
              '(MemoryError paths), conversion of C++ exceptions.  Trusted: the Python model, g++ / libstdc++.')

INT_MAX = 2 ** 31 - 1
SIZES = (0, 1, 3)        # thorough: (0, 1, 2, 3, 5)

# ------------------------------------------------------------------------------------------ type descriptors
LEAVES = {'int': 'int', 'uchar': 'unsigned char', 'double': 'double', 'string': 'string', 'longlong': 'long long'}


def ctext(T):
    k = T[0]
    if k in LEAVES:
        return LEAVES[k]
    if k == 'vector':
        return 'vector[%s]' % ctext(T[1])
    if k == 'list':
        return 'cpp_list[%s]' % ctext(T[1])
    if k == 'set':
        return 'cpp_set[%s]' % ctext(T[1])
    if k == 'uset':
        return 'unordered_set[%s]' % ctext(T[1])
    if k == 'map':
        return 'cpp_map[%s, %s]' % (ctext(T[1]), ctext(T[2]))
    if k == 'umap':
        return 'unordered_map[%s, %s]' % (ctext(T[1]), ctext(T[2]))
    if k == 'pair':
        return 'pair[%s, %s]' % (ctext(T[1]), ctext(T[2]))
    if k == 'complex':
        return 'cpp_complex[%s]' % T[1]
    if k in ('struct', 'union'):
        return T[1]
    if k == 'array':
        return T[3]      # typedef name
    raise ValueError(T)


I, D, S, UC = ('int',), ('double',), ('string',), ('uchar',)
CPP_TYPES = [
    ('vector', I), ('vector', D), ('vector', S), ('vector', UC), ('vector', ('longlong',)),
    ('vector', ('vector', I)), ('vector', ('pair', I, D)), ('vector', ('set', I)), ('vector', ('map', I, I)),
    ('list', I), ('list', S), ('list', ('vector', D)),
    ('set', I), ('set', S), ('set', ('pair', I, I)), ('uset', I), ('uset', S),
    ('map', I, I), ('map', S, I), ('map', I, S), ('map', I, ('vector', I)), ('map', S, ('vector', D)), ('map', I, ('map', I, I)),
    ('map', ('pair', I, I), D),
    ('umap', I, I), ('umap', S, D),
    ('pair', I, I), ('pair', I, S), ('pair', S, ('vector', I)), ('pair', ('pair', I, I), D), ('pair', ('vector', I), ('map', I, I)),
    ('complex', 'double'), ('complex', 'float'), ('vector', ('complex', 'double')),
]
ST_P = ('struct', 'P', [('x', I), ('y', D)])
ST_N = ('struct', 'N', [('p', ST_P), ('z', I), ('w', ('array', I, 2, 'int2'))])
UN_U = ('union', 'U', [('i', I), ('d', D)])
C_TYPES = [ST_P, ST_N, ('array', I, 3, 'int3'), ('array', D, 2, 'double2'), ('array', ('array', D, 2, 'double2'), 2, 'double22'),
           ('array', ST_P, 2, 'P2')]
C_PRELUDE = '''
cdef struct P:
    int x
    double y
ctypedef int int2[2]
ctypedef int int3[3]
ctypedef double double2[2]
ctypedef double double22[2][2]
ctypedef P P2[2]
cdef struct N:
    P p
    int z
    int w[2]
cdef union U:
    int i
    double d
'''
CPP_PRELUDE = '''
from libcpp.vector cimport vector
from libcpp.list cimport list as cpp_list
from libcpp.set cimport set as cpp_set
from libcpp.unordered_set cimport unordered_set
from libcpp.map cimport map as cpp_map
from libcpp.unordered_map cimport unordered_map
from libcpp.pair cimport pair
from libcpp.string cimport string
from libcpp.complex cimport complex as cpp_complex
'''


def tag_of(T):
    return ctext(T) if T[0] not in ('struct', 'union', 'array') else '%s %s' % (T[0], ctext(T))


TAGS = {}
for _T in CPP_TYPES + C_TYPES + [UN_U]:
    TAGS[tag_of(_T)] = _T


# ------------------------------------------------------------------------------------------ the model
class Raw:
    """An expression string standing for a leaf value (used for bad leaves and special sources)."""
    def __init__(self, expr):
        self.expr = expr


def conv_int(x, lo=-2 ** 31, hi=2 ** 31 - 1):
    if isinstance(x, int):
        v = int(x)
    elif isinstance(x, float):
        v = int(x)                       # nb_int: floats truncate (OverflowError for inf, ValueError for nan)
    elif hasattr(type(x), '__index__'):
        v = int(type(x).__index__(x))
    else:
        raise TypeError('an integer is required')
    if not lo <= v <= hi:
        raise OverflowError
    return v


def conv_double(x):
    if isinstance(x, (int, float)):
        return float(x)
    raise TypeError


def conv_bytes(x):
    if isinstance(x, (bytes, bytearray)):
        return bytes(x)
    raise TypeError


def conv(T, x):
    k = T[0]
    if k == 'int':
        return conv_int(x)
    if k == 'longlong':
        return conv_int(x, -2 ** 63, 2 ** 63 - 1)
    if k == 'uchar':
        return conv_int(x, 0, 255)
    if k == 'double':
        return conv_double(x)
    if k == 'string':
        return conv_bytes(x)
    if k in ('vector', 'list'):
        return [conv(T[1], e) for e in x]
    if k in ('set', 'uset'):
        return {freeze(conv(T[1], e)) for e in x}
    if k in ('map', 'umap'):
        if not (hasattr(type(x), '__getitem__') and hasattr(x, 'items')):
            raise TypeError('a mapping is required')        # property: wrong-typed input -> TypeError
        out = {}
        for key, value in x.items():
            kk = freeze(conv(T[1], key))
            vv = conv(T[2], value)
            if kk not in out:                                 # std::map::insert keeps the first
                out[kk] = vv
        return {kk: out[kk] for kk in sorted(out)}
    if k == 'pair':
        a, b = x
        return (conv(T[1], a), conv(T[2], b))
    if k == 'complex':
        if isinstance(x, (int, float, complex)):
            return complex(x)
        raise TypeError
    if k == 'struct':
        if not hasattr(type(x), '__getitem__'):
            raise TypeError('Expected a mapping')
        vals = []
        for name, ft in T[2]:
            try:
                vals.append(x[name])
            except KeyError:
                raise ValueError('No value specified for struct attribute')
        return {name: conv(ft, v) for (name, ft), v in zip(T[2], vals)}
    if k == 'array':
        n = T[2]
        i = n
        try:
            i = len(x)
        except (TypeError, OverflowError):
            pass
        out = []
        if i == n:
            complete = True
            for i, item in enumerate(x):
                if i >= n:
                    complete = False
                    break
                out.append(conv(T[1], item))
            if complete and len(out) == n:
                return out
        raise IndexError('wrong number of values for array')
    raise ValueError(T)


def freeze(v):
    return tuple(freeze(e) for e in v) if isinstance(v, (list, tuple)) else v


def model(tag, x):
    if tag.startswith('str|'):
        return model_str(tag, x)
    if tag.startswith('union '):
        member = tag.split('.')[1]
        T = UN_U
        if not hasattr(type(x), '__getitem__'):
            raise TypeError
        present = [name for name, _ in T[2] if name in x]
        if len(x) == 0 or not present:
            raise ValueError
        if len(present) > 1:
            raise ValueError
        if len(x) > 1:
            raise ValueError       # one known member + unknown extra keys: falls through to the error
        val = conv(dict(T[2])[present[0]], x[present[0]])
        return val if present[0] == member else 'other-member'
    T = TAGS[tag.split('#')[0]]
    r = conv(T, x)
    if T[0] == 'umap':
        return sorted(r.items())
    return r


def model_str(tag, x):
    _, ctype, cst, cse, form = tag.split('|')
    # from-py
    if isinstance(x, (bytes, bytearray)):
        raw = bytes(x)
    elif isinstance(x, str) and cse:
        raw = x.encode({'ascii': 'ascii', 'utf8': 'utf8'}[cse])       # UnicodeEncodeError for unencodable text
    else:
        raise TypeError
    if ctype != 'string' and form != 'sized' and b'\x00' in raw:
        raw = raw[:raw.index(b'\x00')]                                 # char* -> Python object stops at the first NUL
    if form == 'len':
        return len(raw)
    if cst == 'bytes':
        return raw
    if cst == 'bytearray':
        return bytearray(raw)
    return raw.decode({'ascii': 'ascii', 'utf8': 'utf8'}[cse])         # UnicodeDecodeError for undecodable bytes


# ------------------------------------------------------------------------------------------ value families
GOOD = {'int': [1, -7, 0, INT_MAX, -INT_MAX - 1], 'uchar': [1, 255, 0], 'longlong': [5, 2 ** 63 - 1, -2 ** 63],
        'double': [1.5, -2.0, 0.0, 3], 'string': [b'ab', b'', b'a\x00b', b'\xff\xfe']}
BAD = {'int': ["'x'", 'None', '2**31', '-2**31-1', '2**64', "b'1'", '[1]'],
       'uchar': ["'x'", 'None', '256', '-1', '2**64'],
       'longlong': ["'x'", 'None', '2**63', '-2**63-1'],
       'double': ["'x'", 'None', "b'1'", '1j', '[1.0]'],
       'string': ["'x'", 'None', '5', '[1]'],
       'complex': ["'x'", 'None', '[1]']}
BADKIND = {"'x'": 'str', 'None': 'None', "b'1'": 'bytes', '[1]': 'list', '[1.0]': 'list', '1j': 'complex', '5': 'int'}


def good_value(T, n, salt=0):
    """Internal value: lists for sequences/sets, list of pairs for maps, tuple for pairs, dict for structs."""
    k = T[0]
    if k in GOOD:
        g = GOOD[k]
        return g[salt % len(g)]
    if k in ('vector', 'list', 'set', 'uset'):
        return [good_value(T[1], max(1, n - 1), salt + 3 * i + 1) for i in range(n)]
    if k in ('map', 'umap'):
        keys = distinct_keys(T[1], n, salt)
        return [(kk, good_value(T[2], max(1, n - 1), salt + i)) for i, kk in enumerate(keys)]
    if k == 'pair':
        return (good_value(T[1], n, salt), good_value(T[2], n, salt + 1))
    if k == 'complex':
        return [1 + 2j, 1.5, 3, -0.5j][salt % 4]
    if k == 'struct':
        return {name: good_value(ft, n, salt + i) for i, (name, ft) in enumerate(T[2])}
    if k == 'array':
        return [good_value(T[1], n, salt + i) for i in range(T[2])]
    raise ValueError(T)


def distinct_keys(T, n, salt):
    out = []
    s = salt
    while len(out) < n:
        v = good_value(T, 2, s)
        s += 1
        if freeze(v) not in [freeze(o) for o in out]:
            out.append(v)
        if s > salt + 50:
            break
    return out


def bad_leaves(T):
    return BAD['complex'] if T[0] == 'complex' else BAD[T[0]]


def variants(T, v):
    """Every value that differs from v in exactly one leaf position, that leaf replaced by every bad leaf: (value, kind, pos)."""
    k = T[0]
    if k in GOOD or k == 'complex':
        for b in bad_leaves(T):
            yield Raw(b), b
    elif k in ('vector', 'list', 'set', 'uset', 'array'):
        for i, e in enumerate(v):
            for e2_, b in variants(T[1], e):
                yield v[:i] + [e2_] + v[i + 1:], b
    elif k in ('map', 'umap'):
        for i, (kk, vv) in enumerate(v):
            for k2, b in variants(T[1], kk):
                yield v[:i] + [(k2, vv)] + v[i + 1:], b
            for v2, b in variants(T[2], vv):
                yield v[:i] + [(kk, v2)] + v[i + 1:], b
    elif k == 'pair':
        for a2, b in variants(T[1], v[0]):
            yield (a2, v[1]), b
        for b2, b in variants(T[2], v[1]):
            yield (v[0], b2), b
    elif k == 'struct':
        for name, ft in T[2]:
            for f2, b in variants(ft, v[name]):
                yield dict(v, **{name: f2}), b


def render(T, v, form='native'):
    """Expression string for value v of type T.  form (top level only): native | tuple | gen | iter | set | frozenset."""
    if isinstance(v, Raw):
        return v.expr
    k = T[0]
    if k in GOOD or k == 'complex':
        return repr(v)
    if k in ('vector', 'list', 'set', 'uset', 'array'):
        inner_form = 'tuple' if k in ('set', 'uset') else 'native'     # elements of a set literal must be hashable
        items = [render(T[1], e, 'tuple' if hashable_needed(form, k) else 'native') for e in v]
        body = ', '.join(items)
        if form == 'native':
            form = 'set' if k in ('set', 'uset') else 'list'
        if form == 'list':
            return '[%s]' % body
        if form == 'tuple':
            return '(%s%s)' % (body, ',' if len(items) == 1 else '')
        if form == 'set':
            return '{%s}' % body if items else 'set()'
        if form == 'frozenset':
            return 'frozenset([%s])' % body
        if form == 'gen':
            return '(_ for _ in [%s])' % body
        if form == 'iter':
            return 'iter([%s])' % body
    if k in ('map', 'umap'):
        body = ', '.join('%s: %s' % (render(T[1], kk, 'tuple'), render(T[2], vv)) for kk, vv in v)
        if form == 'items':
            return "__import__('props.C33_conversions', fromlist=['x']).Items([%s])" % ', '.join(
                '(%s, %s)' % (render(T[1], kk, 'tuple'), render(T[2], vv)) for kk, vv in v)
        return '{%s}' % body
    if k == 'pair':
        a, b = render(T[1], v[0], 'tuple' if form == 'tuple' else 'native'), render(T[2], v[1], 'tuple' if form == 'tuple' else 'native')
        if form == 'list':
            return '[%s, %s]' % (a, b)
        if form == 'gen':
            return '(_ for _ in [%s, %s])' % (a, b)
        return '(%s, %s)' % (a, b)
    if k == 'struct':
        return '{%s}' % ', '.join('%r: %s' % (name, render(ft, v[name])) for name, ft in T[2] if name in v)
    raise ValueError((T, v))


def hashable_needed(form, k):
    return form in ('set', 'frozenset', 'tuple') or (form == 'native' and k in ('set', 'uset'))


class Items:
    """A mapping (has __getitem__ / items) whose items() may contain duplicate keys."""
    def __init__(self, pairs):
        self.pairs = pairs

    def items(self):
        return list(self.pairs)

    def __getitem__(self, key):
        for k, v in self.pairs:
            if k == key:
                return v
        raise KeyError(key)

    def __len__(self):
        return len(self.pairs)

    def __iter__(self):
        return iter([k for k, _ in self.pairs])


META = {}


def family(T):
    """List of input expression strings for target T (deterministic), META[expr] = (form, size, badkind)."""
    out = []

    def add(expr, form, size, bad='ok'):
        if expr in seen:
            return
        try:
            eval(expr, support.namespace())
        except Exception:
            return                 # e.g. an unhashable bad leaf inside a set / dict-key literal: not writable as an input
        META[expr] = (form, size, bad)
        seen.add(expr)
        out.append(expr)
    seen = set()
    k = T[0]
    sizes = SIZES if k in ('vector', 'list', 'set', 'uset', 'map', 'umap') else (2,)
    forms = {'vector': ['list', 'tuple', 'gen', 'iter', 'set'], 'list': ['list', 'tuple', 'gen'], 'set': ['set', 'list', 'frozenset', 'gen'],
             'uset': ['set', 'list'], 'map': ['native', 'items'], 'umap': ['native'], 'pair': ['tuple', 'list', 'gen'],
             'array': ['list', 'tuple', 'gen', 'iter'], 'struct': ['native'], 'complex': ['native']}[k]
    for n in sizes:
        for salt in (0, 1, 2):
            v = good_value(T, n, salt)
            for form in forms:
                if form == 'set' and k == 'vector' and not leaf_hashable(T[1]):
                    continue
                try:
                    add(render(T, v, form), form, n)
                except ValueError:
                    pass
            if n == 0:
                break
        if n >= 1:
            v = good_value(T, n, 0)
            for v2, b in variants(T, v):
                for form in forms[:2] if k not in ('map', 'umap', 'struct', 'complex') else forms[:1]:
                    if form in ('set', 'frozenset') and b in ('[1]', '[1.0]'):
                        continue          # unhashable bad leaf cannot be written inside a set literal
                    add(render(T, v2, form), form, n, 'bad:' + BADKIND.get(b, 'range'))
    # wrong top-level objects and wrong lengths
    for expr in ('None', '5', "'ab'", "b'ab'", '1.5', 'object()'):
        add(expr, 'toplevel', 0, 'top:' + expr.strip("'()"))
    if k in ('map', 'umap'):
        add('[(1, 2)]', 'toplevel', 1, 'top:list-of-pairs')
        v = good_value(T, 2, 0)
        add(render(T, v + [(v[0][0], v[1][1])], 'items'), 'items', 3, 'dupkey')
    if k == 'pair':
        v = good_value(T, 2, 0)
        a, b = render(T[1], v[0]), render(T[2], v[1])
        for expr in ('(%s,)' % a, '(%s, %s, %s)' % (a, b, a), '[]', '(_ for _ in [%s])' % a):
            add(expr, 'toplevel', 0, 'wronglen')
    if k == 'array':
        v = good_value(T, 2, 0)
        items = [render(T[1], e) for e in v]
        for m in (0, T[2] - 1, T[2] + 1):
            body = ', '.join((items * 3)[:m])
            for fm in ('[%s]', 'iter([%s])', '(_ for _ in [%s])'):
                add(fm % body, 'toplevel', m, 'wronglen')
    if k == 'struct':
        v = good_value(T, 2, 0)
        for name, ft in T[2]:
            w = dict(v)
            del w[name]
            add(render(T, w), 'native', 2, 'missingkey')
        add(render(T, v)[:-1] + ", 'extra': 1}", 'native', 2, 'extrakey')
        add('{}', 'native', 0, 'missingkey')
        add('[1, 2]', 'toplevel', 0, 'top:list')
    return out


def leaf_hashable(T):
    return T[0] in GOOD or T[0] in ('pair', 'complex')


def union_family():
    out = ['{"i": 5}', '{"d": 1.5}', '{}', '{"i": 1, "d": 2.0}', '{"q": 1}', '{"i": 1, "q": 2}', '{"i": "x"}', '{"i": 2**31}', '{"d": "x"}',
           'None', '5', '[1]', '{"i": -2**31}', '{"d": 3}']
    for e in out:
        META[e] = ('native', 1, 'union')
    return out


# ---- strings
STR_INPUTS = ["b''", "b'abc'", "b'a\\x00b'", "b'\\x00'", "b'\\xff\\xfe'", "b'\\xc3\\xa9'", "b'\\xc3'", "bytearray(b'xy')", "bytearray(b'x\\x00y')",
              "bytearray(b'\\xe9')", "''", "'abc'", "'a\\x00b'", "'\\xe9'", "'\\u20ac'", "'\\udcff'", "'\\U0001f600'", 'None', '5', '1.5',
              "memoryview(b'abc')", '[97]', "(b'a',)"]
STR_COMBOS = [('bytes', ''), ('bytes', 'ascii'), ('bytes', 'utf8'), ('str', 'ascii'), ('str', 'utf8'), ('bytearray', ''),
              ('bytearray', 'ascii'), ('bytearray', 'utf8')]
STR_CTYPES = [('charp', 'char*'), ('ccharp', 'const char*'), ('ucharp', 'unsigned char*'), ('string', 'string')]


def string_mods():
    mods = []
    for cst, cse in STR_COMBOS:
        parts = []
        n = 0
        for short, ctype in STR_CTYPES:
            for form in ('plain', 'len'):
                if form == 'len' and short != 'string':
                    continue
                name = 's%d' % n
                n += 1
                tag = 'str|%s|%s|%s|%s' % (short, cst, cse, form)
                body = 'return v' if form == 'plain' else 'return v.size()'
                parts.append(e2.Part('def %s(x):\n    cdef %s v = x\n    %s\n' % (name, ctype, body), [e2.Func(name, tag, 'str')]))
        directives = {'c_string_type': cst}
        if cse:
            directives['c_string_encoding'] = cse
        for e in STR_INPUTS:
            META[e] = ('str', 0, support.classify(e))
        mods.append(e2.Mod('c33s_%s_%s' % (cst, cse or 'none'), 'from libcpp.string cimport string\n', parts, {'str': [(e,) for e in STR_INPUTS]},
                           ext='.pyx', ref=('model', 'props.C33_conversions:model'), directives=directives, cplus=True))
    return mods


def func_src(name, T, ret='return v'):
    return 'def %s(x):\n    cdef %s v = x\n    %s\n' % (name, ctext(T), ret)


def container_mods():
    mods = []
    groups = [CPP_TYPES[i::3] for i in range(3)]
    for gi, types in enumerate(groups):
        parts, sets = [], {}
        for j, T in enumerate(types):
            name = 'f%d' % j
            tag = tag_of(T)
            ret = 'return v'
            if T[0] == 'umap':
                ret = 'cdef object o = v\n    return sorted(o.items())'
            parts.append(e2.Part(func_src(name, T, ret), [e2.Func(name, tag, tag)]))
            sets[tag] = [(e,) for e in family(T)]
        mods.append(e2.Mod('c33c%d' % gi, CPP_PRELUDE, parts, sets, ext='.pyx', ref=('model', 'props.C33_conversions:model'), cplus=True))
    # C targets
    parts, sets = [], {}
    for j, T in enumerate(C_TYPES):
        name = 'g%d' % j
        tag = tag_of(T)
        parts.append(e2.Part(func_src(name, T), [e2.Func(name, tag, tag)]))
        sets[tag] = [(e,) for e in family(T)]
    uf = [(e,) for e in union_family()]
    for member in ('i', 'd'):
        name = 'u_%s' % member
        tag = 'union U.%s' % member
        src = ('def %s(x):\n    cdef U v = x\n    if isinstance(x, dict) and %r in x:\n        return v.%s\n    return "other-member"\n' % (name, member, member))
        parts.append(e2.Part(src, [e2.Func(name, tag, 'union')]))
    sets['union'] = uf
    mods.append(e2.Mod('c33k', C_PRELUDE, parts, sets, ext='.pyx', ref=('model', 'props.C33_conversions:model'), cplus=False))
    return mods


def keyfn(tag, inp, exp, got):
    form, size, bad = META.get(inp[0], ('?', 0, '?'))
    div = e2.divclass(exp, got)
    if div == 'exc-type:TypeError->AttributeError' and ('map' in tag):
        # one root cause for every map target and every non-mapping input: map.from_py calls o.items() unconditionally
        return 'nonmapping-to-map|%s' % div
    return '%s|%s,n=%s,%s|%s' % (tag, form, size, bad, e2.divclass(exp, got))


REACH = ['__pyx_convert_vector_from_py', '__pyx_convert_vector_to_py', '__pyx_convert_map_from_py', '__pyx_convert_pair_from_py',
         '__pyx_convert_set_from_py', '__pyx_convert_string_from_py', '__pyx_convert__from_py_', '__Pyx_carray_from_py', '__Pyx_carray_to_py',
         '__pyx_convert_unordered_map_from_py', '__pyx_convert_complex_from_py']


def run(ctx):
    global SIZES
    SIZES = (0, 1, 3) if ctx.quick else (0, 1, 2, 3, 5)
    mods = container_mods() + string_mods()
    only = __import__('os').environ.get('VERIF_C33_ONLY')        # development aid: module name prefixes
    if only:
        mods = [m for m in mods if m.name.startswith(tuple(only.split(',')))]
    st = e2.run_diff(ctx, mods, keyfn=keyfn, on_build_failure='violation', reach=REACH)
    fam_sizes = {}
    for m in mods:
        for f in m.funcs:
            fam_sizes[f.tag] = len(m.input_sets[f.inputs])
    kinds = {}
    for e, (form, size, bad) in META.items():
        kinds[bad.split(':')[0]] = kinds.get(bad.split(':')[0], 0) + 1
    cov = {
        'evaluations': st['evaluations'], 'distinct_nontrivial': st['pairs'],
        'rule': 'distinct (conversion function, model outcome) pairs: inputs with the same expected value/exception for the same target collapse',
        'programs': st['programs'], 'modules_built': st['modules_built'], 'targets': len(fam_sizes),
        'inputs_per_target_min_max': [min(fam_sizes.values()), max(fam_sizes.values())], 'input_kinds': kinds,
        'mismatches': st['mismatches'], 'crashes': st['crashes'], 'build_failures': st['build_failures'],
        'reach': st.get('reach'), 'reach_gaps': st.get('reach_gaps'),
        'samples': [{'target': 'cpp_map[int, vector[int]]', 'input': '{1: [2, \'x\', 4]}', 'model': 'TypeError'},
                    {'target': 'int3', 'input': 'iter([1, 2, 3, 4])', 'model': 'IndexError'},
                    {'target': 'str|string|str|ascii|plain', 'input': "b'\\xff\\xfe'", 'model': 'UnicodeDecodeError'}],
        'exhaustive': not only,
    }
    return cov, ['sizes <= 3 and nesting depth 2; leaf alphabet as listed in the module']


def replay(ctx, case):
    return e2.replay(ctx, case)
