"""Shared machinery of the C-integer checks C03 / C04 / C38 (group g3).

* a table of the integer C types with Cython's documented promotion rule (PyrexTypes.widest_numeric_type:
  higher rank wins, at equal rank the "less signed" type wins, binary operators promote to at least int),
* complete value alphabets per type (all values for 8 bit, boundary grids for 16/32/64 bit),
* a generator for *compiled sweep drivers* (the loop over operand tuples runs in compiled code and returns
  one outcome per tuple: the value or the exception type name),
* a sweep engine: every (function, slice of the complete input list) is run in a forked child, judged by a
  model function next to the child, and a slice that kills the child (SIGFPE...) is re-split until the single
  crashing operand tuple is attributed.
"""
import os, sys, importlib, itertools, functools
from vlib import farm, runner


# ------------------------------------------------------------------------------ types
class CT:
    __slots__ = ('key', 'decl', 'bits', 'signed', 'rank', 'sgn', 'lo', 'hi', 'cname')

    def __init__(self, key, decl, bits, signed, rank, sgn, cname=None):
        self.key, self.decl, self.bits, self.signed, self.rank, self.sgn = key, decl, bits, signed, rank, sgn
        self.cname = cname or decl.replace(' ', '_')
        if signed:
            self.lo, self.hi = -(1 << (bits - 1)), (1 << (bits - 1)) - 1
        else:
            self.lo, self.hi = 0, (1 << bits) - 1

    def fits(self, v):
        return self.lo <= v <= self.hi

    def wrap(self, v):
        v &= (1 << self.bits) - 1
        if self.signed and v > self.hi:
            v -= 1 << self.bits
        return v

    def __repr__(self):
        return 'CT(%s)' % self.decl


# rank / signedness exactly as the type table of PyrexTypes (UNSIGNED=0, plain=1, SIGNED=2); LP64 widths
_T = [
    CT('schar', 'signed char', 8, True, 0, 2),
    CT('char', 'char', 8, True, 0, 1),
    CT('uchar', 'unsigned char', 8, False, 0, 0),
    CT('short', 'short', 16, True, 1, 1),
    CT('ushort', 'unsigned short', 16, False, 1, 0),
    CT('int', 'int', 32, True, 2, 1),
    CT('uint', 'unsigned int', 32, False, 2, 0),
    CT('long', 'long', 64, True, 3, 1),
    CT('ulong', 'unsigned long', 64, False, 3, 0),
    CT('ssize_t', 'Py_ssize_t', 64, True, 3.5, 2),
    CT('size_t', 'size_t', 64, False, 3.5, 0),
    CT('longlong', 'long long', 64, True, 4, 1, 'PY_LONG_LONG'),
    CT('ulonglong', 'unsigned long long', 64, False, 4, 0, 'unsigned_PY_LONG_LONG'),
]
TYPES = {t.key: t for t in _T}
TEN = ['schar', 'uchar', 'short', 'ushort', 'int', 'uint', 'long', 'ulong', 'longlong', 'ulonglong']


def widest(t1, t2):
    if t1 is t2:
        return t1
    if t1.rank != t2.rank:
        return t1 if t1.rank > t2.rank else t2
    if t1.sgn != t2.sgn:
        return t1 if t1.sgn < t2.sgn else t2
    return t2


def promote(t1, t2=None):
    """Result type of a C binary (or unary) arithmetic operator on operands of type t1, t2."""
    w = t1 if t2 is None else widest(t1, t2)
    return widest(w, TYPES['int'])


_CRANK = {'schar': 0, 'char': 0, 'uchar': 0, 'short': 1, 'ushort': 1, 'int': 2, 'uint': 2, 'long': 3, 'ulong': 3,
          'ssize_t': 3, 'size_t': 3, 'longlong': 4, 'ulonglong': 4}
_CBY = {(2, True): 'int', (2, False): 'uint', (3, True): 'long', (3, False): 'ulong', (4, True): 'longlong',
        (4, False): 'ulonglong'}


def c_common(t1, t2):
    """The C 'usual arithmetic conversions' (what gcc does when Cython emits a raw infix `a / b`)."""
    def ipromote(t):
        r = _CRANK[t.key]
        return (2, True, 32) if r < 2 else (r, t.signed, t.bits)
    (r1, s1, b1), (r2, s2, b2) = ipromote(t1), ipromote(t2)
    if s1 == s2:
        return TYPES[_CBY[(max(r1, r2), s1)]]
    (ru, bu), (rs, bs) = ((r1, b1), (r2, b2)) if not s1 else ((r2, b2), (r1, b1))
    if ru >= rs:
        return TYPES[_CBY[(ru, False)]]
    if bs > bu:
        return TYPES[_CBY[(rs, True)]]
    return TYPES[_CBY[(rs, False)]]


def c_literal_type(text):
    """C type of the literal as Cython writes it into the C file (suffix kept; negative plain literals get L)."""
    s = text.strip().strip('()').upper()
    if s.endswith('ULL'):
        return TYPES['ulonglong']
    if s.endswith('LL'):
        return TYPES['longlong']
    v = int(s.rstrip('U'))
    if s.endswith('U'):
        return TYPES['uint'] if v < 2**32 else TYPES['ulong']
    return TYPES['int'] if 0 <= v < 2**31 else TYPES['long']


def literal_type(text):
    """Type Cython gives an integer literal: plain literals inside 32 bit are C long, U -> unsigned long,
    LL -> long long, ULL -> unsigned long long.  (Plain literals outside 32 bit are Python objects: not used.)"""
    s = text.strip().strip('()').upper()
    if s.endswith('ULL'):
        return TYPES['ulonglong']
    if s.endswith('LL'):
        return TYPES['longlong']
    if s.endswith('U'):
        return TYPES['ulong']
    v = int(s)
    assert -2**31 <= v < 2**31, text
    return TYPES['long']


def literal_value(text):
    return int(text.strip().strip('()').upper().rstrip('UL'))


# ------------------------------------------------------------------------------ alphabets
_KS = {16: [4, 7, 8, 14], 32: [7, 8, 15, 16, 30], 64: [8, 16, 31, 32, 62]}


@functools.lru_cache(None)
def alphabet(key, small=False, dense=False):
    """Complete value alphabet of a type: every value for 8-bit types, the boundary grid otherwise.
    small=True gives the reduced boundary grid (used for triples); dense=True the grid with every power of two."""
    t = TYPES[key]
    if t.bits == 8 and not small:
        return tuple(range(t.lo, t.hi + 1))
    vals = set()
    if small == 2:      # tiny grid for quadruples
        k = t.bits // 2
        vals.update([0, 1, 2, t.hi, t.hi // 2 + 1, 1 << k])
        if t.signed:
            vals.update([-1, t.lo, t.lo // 2 - 1, -(1 << k) - 1])
        else:
            vals.update([3, t.hi - 1, t.hi // 2, (1 << k) - 1])
    elif small:
        vals.update([0, 1, 2, 3, t.hi, t.hi - 1, t.hi // 2, t.hi // 2 + 1])
        if t.signed:
            vals.update([-1, -2, -3, t.lo, t.lo + 1, t.lo // 2, t.lo // 2 - 1])
        k = t.bits // 2
        vals.update([(1 << k) - 1, 1 << k, (1 << k) + 1])
        if t.signed:
            vals.update([-(1 << k), -(1 << k) - 1])
    else:
        vals.update([0, 1, 2, 3, 5, 7, 10])
        vals.update(range(t.hi - 3, t.hi + 1))
        if t.signed:
            vals.update([-1, -2, -3, -5, -7, -10])
            vals.update(range(t.lo, t.lo + 4))
        ks = list(range(2, t.bits - 1)) if dense else _KS.get(t.bits, [4])
        if not t.signed:
            ks = ks + [t.bits - 1]
        for k in ks:
            for d in (-1, 0, 1):
                vals.add((1 << k) + d)
                if t.signed:
                    vals.add(-(1 << k) - d)
    return tuple(sorted(v for v in vals if t.fits(v)))


def vclass(v, t):
    """Class of an operand value relative to its type (for normalised violation keys)."""
    if v == 0:
        return '0'
    if v == t.lo and t.signed:
        return 'MIN'
    if v == t.hi:
        return 'MAX'
    if v in (1, -1):
        return str(v)
    if t.signed and v == t.lo + 1:
        return 'MIN+1'
    return 'neg' if v < 0 else 'pos'


# ------------------------------------------------------------------------------ C semantics helpers
def cdiv(a, b):
    q = abs(a) // abs(b)
    return q if (a < 0) == (b < 0) else -q


def cmod(a, b):
    return a - cdiv(a, b) * b


# ------------------------------------------------------------------------------ compiled sweep drivers
def sweep_func(name, decls, stmts, result, exc_result=None, head=()):
    """Source of `def name(list tuples)`: for every tuple assigns the typed operands, runs `stmts`, appends
    `result` (an expression) or, on an exception e, `exc_result` (default: the exception type name).
    decls: list of (varname, C declaration); head: extra first lines of the function body."""
    lines = ['def %s(list tuples):' % name]
    for h in head:
        lines.append('    ' + h)
    for v, d in decls:
        lines.append('    cdef %s %s' % (d, v))
    lines.append('    cdef list out = []')
    lines.append('    for t in tuples:')
    lines.append('        try:')
    for i, (v, d) in enumerate(decls):
        lines.append('            %s = t[%d]' % (v, i))
    for s in stmts:
        lines.append('            ' + s)
    lines.append('            out.append(%s)' % result)
    lines.append('        except Exception as e:')
    lines.append('            out.append(%s)' % (exc_result or 'type(e).__name__'))
    lines.append('    return out')
    return '\n'.join(lines) + '\n'


class Fn:
    """One compiled sweep function: name, source, tag (dict given to the judge), gen (input generator spec)."""
    __slots__ = ('name', 'src', 'tag', 'gen')

    def __init__(self, name, src, tag, gen):
        self.name, self.src, self.tag, self.gen = name, src, tag, gen


class SMod:
    """A module of sweep functions with one build configuration."""
    def __init__(self, name, fns, prelude='', ext='.pyx', directives=None, cflags=(), options=None, cfg=''):
        self.name, self.fns, self.prelude, self.ext = name, list(fns), prelude, ext
        self.directives, self.cflags, self.options, self.cfg = directives, tuple(cflags), options, cfg
        self.so = self.c_file = None

    @property
    def source(self):
        return self.prelude + '\n' + '\n'.join(f.src for f in self.fns)

    def job(self, workdir):
        return dict(name=self.name, source=self.source, workdir=workdir, ext=self.ext, directives=self.directives,
                    cflags=self.cflags, options=self.options)


def pack(prefix, fns, per, **kw):
    return [SMod('%s_%d' % (prefix, i // per), fns[i:i + per], **kw) for i in range(0, len(fns), per)]


def _resolve(path):
    m, f = path.split(':')
    return getattr(importlib.import_module(m), f)


_gen_cache = {}


def expand(gen):
    """gen = {'types': [type keys], 'small': bool, 'keep': 'module:function' or None, 'arg': json-able}
    -> the complete list of operand tuples (product of the alphabets, filtered by keep(arg, tuple))."""
    k = repr(sorted(gen.items()))
    r = _gen_cache.get(k)
    if r is None:
        if gen.get('values') is not None:
            alph = [tuple(v) for v in gen['values']]
        else:
            alph = [alphabet(t, gen.get('small', False), gen.get('dense', False)) for t in gen['types']]
        tuples = list(itertools.product(*alph))
        if gen.get('keep'):
            keep = _resolve(gen['keep'])
            arg = gen.get('arg')
            tuples = [t for t in tuples if keep(arg, t)]
        if len(_gen_cache) > 64:
            _gen_cache.clear()
        r = _gen_cache[k] = tuples
    return r


_mods = {}


def _load(so, name):
    m = _mods.get(so)
    if m is None:
        m = _mods[so] = farm.load(so, name)
    return m


def _do_case(case):
    """Child side: run one slice of one sweep function and judge it."""
    tuples = case.get('tuples')
    if tuples is None:
        tuples = expand(case['gen'])[case['lo']:case['hi']]
    else:
        tuples = [tuple(t) for t in tuples]
    m = _load(case['so'], case['mod'])
    got = getattr(m, case['fn'])(tuples)
    if len(got) != len(tuples):
        raise RuntimeError('sweep %s returned %d results for %d inputs' % (case['fn'], len(got), len(tuples)))
    return _resolve(case['judge'])(case['tag'], tuples, got)


class Verdict:
    """Accumulator a judge fills for one slice."""
    def __init__(self):
        self.evals = 0
        self.outcomes = set()
        self.mism = []
        self.more = 0
        self.counters = {}

    def count(self, name, n=1):
        self.counters[name] = self.counters.get(name, 0) + n

    def bad(self, inp, exp, got, div):
        if len(self.mism) < 40:
            self.mism.append((inp, exp, got, div))
        else:
            self.more += 1

    def pack(self):
        return {'evals': self.evals, 'outcomes': self.outcomes, 'mism': self.mism, 'more': self.more,
                'counters': self.counters}


def build(ctx, mods, workdir):
    res = farm.build_many([m.job(workdir) for m in mods])
    ok = []
    for m, r in zip(mods, res):
        if r.ok:
            m.so, m.c_file = r.so, r.c_file
            ok.append(m)
        else:
            ctx.violation('build-failure|%s|%s' % (r.stage, m.fns[0].tag.get('id', m.name)),
                          'sweep module %s does not build (%s): %s' % (m.name, r.stage, r.errors[-800:]),
                          {'kind': 'build', 'source': m.source, 'ext': m.ext, 'directives': m.directives,
                           'cflags': list(m.cflags), 'options': m.options, 'errors': r.errors[-3000:]})
    return ok


def reach(mods, names):
    found = {k: 0 for k in names}
    for m in mods:
        try:
            with open(m.c_file, encoding='utf-8', errors='replace') as f:
                txt = f.read()
        except (OSError, TypeError):
            continue
        for k in names:
            if k in txt:
                found[k] += 1
    return found


STORM_PER_SLICE = 3     # crashes with one normalised key inside one slice before its refinement stops
STORM_PER_KEY = 12      # crashes with one normalised key in the whole run before other slices stop at their first hit


def _refine(arg):
    """Worker side: depth-first bisection of one slice that killed its child.  Sub-ranges that run are judged (each
    exactly once); a single tuple that kills the child is attributed.  Stops early on a crash storm."""
    case, crashfn, stormed, scratch = arg
    tuples = expand(case['gen'])
    pending = [(case['lo'], case['hi'])]
    out = {'verdicts': [], 'crashes': [], 'skipped': 0, 'storm': None, 'forks': 0, 'exc': None}
    perkey = {}
    while pending:
        lo, hi = pending.pop()
        r = runner.forked(_do_case, dict(case, lo=lo, hi=hi), timeout=900 if hi - lo > 1 else 120, scratch=scratch)
        out['forks'] += 1
        if r.kind == 'ok':
            out['verdicts'].append(r.value)
            continue
        if r.kind == 'exc':
            out['exc'] = r.value
            out['skipped'] += hi - lo + sum(h - l for l, h in pending)
            break
        if hi - lo > 1:
            mid = (lo + hi) // 2
            pending.append((mid, hi))
            pending.append((lo, mid))
            continue
        inp = tuples[lo]
        key = crashfn(case['tag'], inp)
        out['crashes'].append((list(inp), key, r.kind, r.value))
        if key is not None:
            perkey[key] = perkey.get(key, 0) + 1
            if key in stormed or perkey[key] >= STORM_PER_SLICE:
                out['storm'] = key
                out['skipped'] = sum(h - l for l, h in pending)
                break
    return out


def run_sweeps(ctx, mods, judge, keyfn, crashfn, slice_size=8192, timeout=3600):
    """Run every function of every built module on its complete input list.

    judge: 'module:function' (child side) -> Verdict.pack(); keyfn(tag, inp, exp, got, div) -> violation key;
    crashfn(tag, inp) -> None if a crash on that input is outside the property, else a violation key.
    Returns stats; stats['storm_skipped'] > 0 means a crash storm cut the enumeration short (not exhaustive)."""
    import random
    cases = []
    nfun = 0
    for m in mods:
        for f in m.fns:
            nfun += 1
            n = len(expand(f.gen))
            for lo in range(0, n, slice_size):
                cases.append({'so': m.so, 'mod': m.name, 'fn': f.name, 'tag': f.tag, 'gen': f.gen, 'lo': lo,
                              'hi': min(n, lo + slice_size), 'judge': judge, '_m': m, '_f': f})
    random.Random(ctx.seed).shuffle(cases)
    stats = {'evaluations': 0, 'functions': nfun, 'modules_built': len(mods), 'mismatches': 0, 'crashes': 0,
             'slices': len(cases), 'counters': {}, 'outcomes': set(), 'crash_refinement_rounds': 0,
             'refinement_forks': 0, 'storm_skipped': 0, 'storms': {}}

    def strip(c):
        return {k: v for k, v in c.items() if not k.startswith('_')}

    def handle(c, v):
        stats['evaluations'] += v['evals']
        stats['outcomes'] |= v['outcomes']
        stats['mismatches'] += len(v['mism']) + v['more']
        for k, n in v['counters'].items():
            stats['counters'][k] = stats['counters'].get(k, 0) + n
        for inp, exp, got, div in v['mism']:
            ctx.violation(keyfn(c['tag'], inp, exp, got, div),
                          '%s %r: expected %r got %r' % (c['tag'].get('id'), tuple(inp), exp, got),
                          replay_case(c['_m'], c['_f'], inp, exp, got, judge))

    # round 0: every slice once
    res = runner.run_cases(_do_case, [strip(c) for c in cases], timeout=timeout, scratch=ctx.scratch)
    crashed = []
    for c, r in zip(cases, res):
        if r[0] == 'ok':
            handle(c, r[1])
        elif r[0] == 'exc':
            ctx.violation('harness-exc|%s' % c['tag'].get('id'), 'driver exception: %s' % r[1][-1500:],
                          {'kind': 'harness', 'source': c['_m'].source, 'trace': r[1][-3000:]})
        else:
            crashed.append(c)
    # refinement of the slices that killed their child: depth-first bisection inside one worker per slice, with a
    # crash-storm breaker (a family where every evaluation dies must not cost one fork chain per evaluation)
    stormed, keycount = set(), {}
    # a small first batch learns the storming keys early; later slices then stop at their first hit
    bounds = [0, min(len(crashed), farm.NPROC)]
    while bounds[-1] < len(crashed):
        bounds.append(min(len(crashed), bounds[-1] + 4 * farm.NPROC))
    for i, j in zip(bounds, bounds[1:]):
        part = crashed[i:j]
        if not part:
            continue
        stats['crash_refinement_rounds'] += 1
        rr = farm.pmap(_refine, [(strip(c), crashfn, frozenset(stormed), ctx.scratch) for c in part])
        for c, r in zip(part, rr):
            stats['refinement_forks'] += r['forks']
            if r.get('exc'):
                ctx.violation('harness-exc|%s' % c['tag'].get('id'), 'driver exception: %s' % r['exc'][-1500:],
                              {'kind': 'harness', 'source': c['_m'].source, 'trace': r['exc'][-3000:]})
            for v in r['verdicts']:
                handle(c, v)
            for inp, key, kind, val in r['crashes']:
                stats['evaluations'] += 1
                if key is None:
                    stats['counters']['crash_outside_property'] = stats['counters'].get('crash_outside_property', 0) + 1
                    continue
                stats['crashes'] += 1
                keycount[key] = keycount.get(key, 0) + 1
                if keycount[key] >= STORM_PER_KEY:
                    stormed.add(key)
                what = 'signal %s' % val if kind == 'crash' else 'timeout'
                ctx.violation(key, '%s %r: %s (process killed)' % (c['tag'].get('id'), tuple(inp), what),
                              replay_case(c['_m'], c['_f'], inp, None, 'crash:%s' % (val,), judge))
            if r['storm'] is not None:
                stats['storm_skipped'] += r['skipped']
                stats['storms'][r['storm']] = stats['storms'].get(r['storm'], 0) + 1
    if stats['storm_skipped']:
        ctx.log('crash storm: refinement stopped early for %d slices, %d evaluations not run (keys: %s)'
                % (sum(stats['storms'].values()), stats['storm_skipped'], sorted(stats['storms'])[:5]))
    stats['distinct_outcomes'] = len(stats.pop('outcomes'))
    return stats


def replay_case(m, f, inp, exp, got, judge):
    return {'kind': 'sweep', 'name': m.name, 'source': m.prelude + '\n' + f.src, 'ext': m.ext, 'directives': m.directives,
            'cflags': list(m.cflags), 'options': m.options, 'fn': f.name, 'tag': f.tag, 'input': list(inp),
            'expected': exp, 'got': got, 'judge': judge}


def replay(ctx, case):
    if case.get('kind') == 'build':
        r = farm.build('replay_mod', case['source'], ctx.workdir('replay'), ext=case['ext'],
                       directives=case.get('directives'), cflags=case.get('cflags') or (), options=case.get('options'))
        return False if r.ok else 'still does not build (%s): %s' % (r.stage, r.errors[-600:])
    if case.get('kind') != 'sweep':
        return 'not replayable'
    r = farm.build(case['name'], case['source'], ctx.workdir('replay'), ext=case['ext'], directives=case.get('directives'),
                   cflags=case.get('cflags') or (), options=case.get('options'))
    if not r.ok:
        return 'does not build (%s): %s' % (r.stage, r.errors[-600:])
    c = {'so': r.so, 'mod': case['name'], 'fn': case['fn'], 'tag': case['tag'], 'tuples': [case['input']],
         'judge': case['judge']}
    res = runner.run_cases(_do_case, [c], timeout=120, scratch=ctx.scratch)[0]
    if res[0] == 'ok':
        mm = res[1]['mism']
        if mm:
            return '%s %r: expected %r got %r' % (case['tag'].get('id'), tuple(case['input']), mm[0][1], mm[0][2])
        return False
    if res[0] == 'crash':
        return '%s %r: killed by signal %s' % (case['tag'].get('id'), tuple(case['input']), res[1])
    return '%s: %r' % (res[0], res[1:])
