"""g11 helper: the fault-injection portfolio (C35, reused by C36).

Each entry is a small pure-Python function `f_<name>` (one per construct that owns temporaries) plus an
expression string building its operands from the tracked classes of props._g11_inject.  The text format is

    #@ <args tuple expression>
    def f_name(...):
        ...

`handwritten()` returns the hand-written entries, `nestings()` the generated depth-2 nestings
(wrapper construct x inner construct).  Both are complete, fixed lists: nothing is sampled.
"""
import re

PRELUDE = 'from props._g11_inject import T, TB, TI, TM, Meta, Base, Desc, Injected, S1, S2, S3, S4\n'

HAND = r'''
# ------------------------------------------------------------------ binary / unary / in-place operators
#@ (T(1), T(2))
def f_add(a, b):
    return a + b

#@ (T(1), T(2), T(3))
def f_arith3(a, b, c):
    return (a + b) * c - a

#@ (T(1), T(2), T(3))
def f_two_coercions(a, b, c):
    return [a + b, b - c, -c, ~a]

#@ (T(5), T(2))
def f_inplace(a, b):
    a += b
    a -= b
    a *= b
    return a

#@ (T(5),)
def f_const_ops(a):
    return (a + 1, 2 - a, a * 3, a // 2, a % 7, a << 1, a >> 1, a & 3, a | 8, a ^ 5, a == 5, a != 5)

#@ (T(5), T(3))
def f_unary(a, b):
    return [-a, +b, ~a, abs(b), not a]

#@ (T(5), T(0), T(3))
def f_boolops(a, b, c):
    x = a and b
    y = b or c
    z = a if c else b
    return [x, y, z]

#@ (T(1), T(0), T(3))
def f_cond_expr(a, b, c):
    return (a + c) if b else (c - a)

#@ (T(2), T(3))
def f_pow_matmul(a, b):
    return [a ** b, a @ b, a / b]

# ------------------------------------------------------------------ comparison chains
#@ (T(1), T(2), T(3))
def f_chain_lt(a, b, c):
    return a < b < c

#@ (T(1), T(2), T(3), T(2))
def f_chain_mixed(a, b, c, d):
    return a <= b != c > d == b

#@ (T(1), T(2), T(3))
def f_chain_if(a, b, c):
    if a < b <= c:
        return a
    return c

#@ (T(3), T(2), T(1))
def f_chain_false(a, b, c):
    if a < b < c:
        return a
    elif a > b > c:
        return b
    return c

#@ (T(1), mk(1, 2, 3), [T(1), T(5)])
def f_in_ops(a, c, l):
    return [a in c, a not in c, a in l, a not in l, a is c, a is not a]

#@ (T(2), T(1), T(2), T(3))
def f_in_tuple_display(a, x, y, z):
    return a in (x, y, z)

#@ (T(2), T(1), T(2))
def f_eq_if(a, x, y):
    if a == x:
        return 1
    if a != y:
        return 2
    return 3

# ------------------------------------------------------------------ calls
#@ (T(1), T(2), T(3))
def f_call_pos(f, a, b):
    return f(a, b)

#@ (T(1), T(2), T(3))
def f_call_kw(f, a, b):
    return f(a, k=b)

#@ (T(1), mk(1, 2), T(3))
def f_call_star(f, a, b):
    return f(*a, b)

#@ (T(1), [T(1), T(2)], {'p': T(3), 'q': T(4)})
def f_call_star_kw(f, a, k):
    return f(*a, **k)

#@ (T(1), mk(1, 2), mk(3), {'p': T(3)}, {'q': T(4)})
def f_call_multi_star(f, a, b, k1, k2):
    return f(*a, *b, a, **k1, z=b, **k2)

#@ (T(1), T(2), T(3), mk(4, 5))
def f_call_exprs(f, a, b, c):
    return f(a + b, a - b, *c, k=a * b)

#@ (T(1), T(2), T(3))
def f_call_nested(f, a, b):
    return f(f(a), f(b, a), k=f())

#@ (T(1), T(2), T(3))
def f_method(o, a, b):
    return o.meth(a, b)

#@ (T(1), T(2), mk(3, 4))
def f_method_star(o, a, c):
    return o.meth(a, *c, k=a)

#@ (T(1), T(2))
def f_method_chain(o, a):
    return o.first(a).second(a + a).third

#@ (T(1), T(2), T(3))
def f_pyfunc_call(a, b, c):
    def g(x, y=None, *rest, k=None, **kw):
        return [x + x, y, rest, k, sorted(kw)]
    return [g(a), g(a, b), g(a, b, c, a), g(a, k=b), g(a, z=c, k=b), g(*[a, b], **{'k': c})]

#@ (T(1), T(2), mk(7, 8))
def f_pyfunc_star_iter(a, b, it):
    def g(*args):
        return args
    return g(a, *it, b)

#@ (T(1), T(2))
def f_pyfunc_badcall(a, b):
    def g(x):
        return x
    try:
        return g(a, b + a)
    except TypeError:
        return g(b - a)

#@ (T(1), T(2))
def f_lambda_default(a, b):
    g = lambda x, y=a + b: x * y
    return g(b)

#@ (T(3), T(2))
def f_builtin_calls(a, b):
    return [abs(a), divmod(7, 2), callable(a), isinstance(a, T), type(b) is T, id(a) == id(a)]

#@ (T(3), T(2))
def f_getattr3(a, b):
    return [getattr(a, 'name'), getattr(a, '__nope__', b), hasattr(a, 'zz'), hasattr(b, '__nope__')]

# ------------------------------------------------------------------ attribute / subscript
#@ (T(1), T(2))
def f_attr_chain(a, b):
    return a.x.y + b.z

#@ (T(1), T(2))
def f_setattr(a, b):
    a.foo = b + a
    a.foo += b
    r = a.foo
    del a.foo
    return r

#@ (mk(1, 2, 3), T(1), T(5))
def f_subscript(c, i, x):
    y = c[i]
    c[i] = x
    del c[i]
    return [y, c[0], c[-1]]

#@ (mk(1, 2, 3), T(1), T(5))
def f_aug_subscript(c, i, x):
    c[i] += x
    c[0] -= x
    return c

#@ (T(9, items=[mk(1, 2), mk(3, 4)]), T(1), T(0), T(5))
def f_aug_subscript2(c, i, j, x):
    c[i][j] += x
    c[j][i] *= x
    return c

#@ ([T(1), T(2), T(3)], T(1), T(5))
def f_list_aug_index(l, i, x):
    l[i] += x
    l[0] += x
    l[-1] -= x
    return l

#@ (mkd(1, 2, 3), T(2), T(5))
def f_dict_aug(d, k, x):
    d[k] += x
    d[k] -= x
    return d

#@ (T(1), T(2))
def f_attr_aug(a, x):
    a.n = x
    a.n += x
    a.n.m
    return a.n

#@ (mk(1, 2, 3, 4), T(1), T(3))
def f_slice_obj(c, i, j):
    return [c[i:j], c[:j], c[i:], c[::i]]

#@ ([T(1), T(2), T(3), T(4)], T(1), T(3))
def f_slice_list(l, i, j):
    l[i:j] = [l[0]]
    del l[:i]
    return [l, l[i:], l[:j], l[i:j]]

#@ ([T(1), T(2), T(3)], T(1))
def f_index_list(l, i):
    return [l[i], l[1], l[-1], (l[0], l[2])[i]]

#@ ('abcdef', (T(1), T(2)), T(1))
def f_index_str_tuple(s, t, i):
    return [s[i], t[i], s[i:], t[:i], s[i] + s[-1]]

#@ ([T(1), T(2)], T(7))
def f_index_error(l, i):
    try:
        return l[i]
    except IndexError:
        return l[0] + l[1]

# ------------------------------------------------------------------ unpacking
#@ (mk(1, 2),)
def f_unpack_iter(c):
    a, b = c
    return b, a

#@ ((T(1), T(2), T(3)), [T(4), T(5)])
def f_unpack_tuple_list(t, l):
    a, b, c = t
    d, e = l
    return [a + d, b + e, c]

#@ (mk(1, 2, 3, 4),)
def f_unpack_star(c):
    a, *b, d = c
    return [a, b, d]

#@ (mk(1),)
def f_unpack_short(c):
    try:
        a, b = c
    except ValueError:
        return c
    return a

#@ (mk(1, 2, 3),)
def f_unpack_long(c):
    try:
        a, b = c
    except ValueError:
        return c
    return a

#@ (T(9, items=[mk(1, 2), mk(3, 4)]),)
def f_unpack_nested(c):
    (a, b), (d, e) = c
    return [a + e, b + d]

#@ (T(1), T(2), T(3))
def f_swap(a, b, c):
    a, b, c = c, a + b, b
    return [a, b, c]

#@ (T(9, items=[mk(1, 2), mk(3, 4)]),)
def f_for_unpack(c):
    out = []
    for a, b in c:
        out.append(a + b)
    return out

#@ (mkd(1, 2),)
def f_dict_items_unpack(d):
    out = []
    for k, v in d.items():
        out.append(k + v)
    return out

#@ (TM(2),)
def f_generic_mapping_iter(m):
    out = []
    for k, v in m.items():
        out.append(k + v)
    for k in m.keys():
        out.append(-k)
    for v in m.values():
        out.append(~v)
    return out

#@ (TM(2), T(3))
def f_generic_mapping_comp(m, x):
    return [{k: v + x for k, v in m.items()}, [k * x for k in m.keys()]]

#@ (mk(1, 2, 3), mk(4, 5))
def f_multi_assign(c, e):
    x = y = c[0] + e[0]
    a, b = p = e
    return [x, y, a, b, p]

# ------------------------------------------------------------------ displays
#@ (T(1), T(2), T(3))
def f_list_display(a, b, c):
    return [a + b, b + c, c + a]

#@ (T(1), T(2), T(3))
def f_tuple_display(a, b, c):
    return (a + b, (b + c, c + a), -a)

#@ (T(1), T(2), T(3))
def f_dict_display(a, b, c):
    return {a: b + c, b: c, c + a: a}

#@ (T(1), T(2), T(1))
def f_dict_display_dup(a, b, c):
    return {a: b, c: a, 'k': b + c}

#@ (T(1), T(2), T(3))
def f_set_display(a, b, c):
    return {a, b, c, a + b}

#@ (mk(1, 2), [T(3)], T(4))
def f_star_display(c, l, x):
    return [[*c, x, *l], (*l, *c), {*c, x}]

#@ (mkd(1, 2), {'k': T(3)}, T(4), T(5))
def f_dict_star_display(d, e, k, v):
    return {**d, k: v, **e, 'z': v + k}

#@ (T(1), T(2))
def f_nested_display(a, b):
    return [{a: [b, (a, b)]}, {(1, 2): {a + b}}]

# ------------------------------------------------------------------ comprehensions
#@ (mk(1, 2, 3), T(10))
def f_listcomp(c, x):
    return [i + x for i in c]

#@ (mk(1, 0, 3), T(10))
def f_listcomp_if(c, x):
    return [i * x for i in c if i]

#@ (mk(1, 2), mk(3, 4))
def f_listcomp_nested(c, e):
    return [i + j for i in c for j in e if i < j]

#@ (mk(1, 2, 3), T(10))
def f_setcomp(c, x):
    return {i + x for i in c}

#@ (mk(1, 2, 3), T(10))
def f_dictcomp(c, x):
    return {i: i + x for i in c}

#@ (mk(1, 2, 3), T(10))
def f_genexp_list(c, x):
    return list(i + x for i in c)

#@ (mk(1, 2, 3), T(10))
def f_genexp_partial(c, x):
    g = (i + x for i in c)
    a = next(g)
    b = next(g)
    del g
    return [a, b]

#@ (mk(1, 2, 3), T(2))
def f_genexp_any_all(c, x):
    return [any(i == x for i in c), all(i != x for i in c), sum((i.v for i in c), 0)]

#@ ([T(1), T(2), T(3)], T(10))
def f_listcomp_list(l, x):
    return [i + x for i in l if i != x]

#@ (mk(1, 2), T(10))
def f_comp_closure(c, x):
    fs = [lambda y, i=i: i + y + x for i in c]
    return [f(x) for f in fs]

#@ (T(9, items=[mk(1, 2), mk(3, 4)]),)
def f_comp_unpack(c):
    return [a + b for a, b in c]

# ------------------------------------------------------------------ loops
#@ (mk(1, 2, 3), T(2))
def f_for_break_else(c, x):
    out = []
    for i in c:
        if i == x:
            out.append(i)
            break
        out.append(i + x)
    else:
        out.append(x)
    return out

#@ (mk(1, 2, 3), T(2))
def f_for_continue(c, x):
    out = []
    for i in c:
        if i == x:
            continue
        out.append(i - x)
    return out

#@ ([T(1), T(2), T(3)], (T(4), T(5)), T(2))
def f_for_list_tuple(l, t, x):
    out = []
    for i in l:
        out.append(i + x)
    for j in t:
        out.append(j * x)
    return out

#@ (T(3), T(1))
def f_while(a, b):
    out = []
    while a:
        a = a - b
        out.append(a)
    return out

#@ (T(3),)
def f_range_index(a):
    out = []
    for i in range(a):
        out.append(i)
    return out

#@ (mk(1, 2), mk(3, 4, 5))
def f_zip_enumerate(c, e):
    return [list(zip(c, e)), list(enumerate(c)), [x for _, x in enumerate(e)]]

#@ (mk(1, 2, 3),)
def f_for_return(c):
    for i in c:
        if i.v == 2:
            return i
    return None

#@ (mk(3, 1, 2), [T(3), T(1), T(2)])
def f_sorted_minmax(c, l):
    return [sorted(c), min(l), max(c), sorted(l, reverse=True), sorted(l, key=lambda x: x.v)]

#@ (mk(1, 2, 3), [T(1), T(2)])
def f_builtin_iter(c, l):
    return [list(c), tuple(c), set(l), len(c), len(l), list(reversed(l)), next(iter(c)), next(iter(()), c)]

#@ (mk(1, 2, 3),)
def f_iter_protocol(c):
    it = iter(c)
    a = next(it)
    b = next(it, None)
    rest = list(it)
    return [a, b, rest, next(it, a)]

# ------------------------------------------------------------------ with
#@ (T(1), T(2))
def f_with(c, a):
    with c:
        return a + c

#@ (T(1), T(2))
def f_with_as(c, a):
    with c as x:
        y = a + x
    return y

#@ (T(1), T(2), T(3))
def f_with_multi(c, d, a):
    with c as x, d as y:
        r = x + y + a
    return r

#@ (T(1), T(2), T(3))
def f_with_nested(c, d, a):
    with c:
        with d as y:
            r = y - a
        r = r + c
    return r

#@ (T(1, swallow=True), T(2))
def f_with_swallow(c, a):
    with c:
        a.zz
        raise ValueError(a)
    return a

#@ (T(1), T(2))
def f_with_raise(c, a):
    try:
        with c:
            raise KeyError(a)
    except KeyError as e:
        return e.args[0] + c

#@ (T(1), mk(1, 2, 3), T(2))
def f_with_loop(c, it, x):
    out = []
    for i in it:
        with c:
            if i == x:
                continue
            if i > x:
                break
            out.append(i)
    return out

#@ (T(1, items=[T(5), T(6)]), T(2))
def f_with_unpack_target(c, a):
    with c as (x, y):
        return x + y + a

#@ (T(1), T(2))
def f_with_expr(f, a):
    with f(a) as x, f(a, a).cm as y:
        return [x, y]

# ------------------------------------------------------------------ try / except / finally
#@ (T(1), T(2))
def f_try_finally(a, b):
    try:
        x = a + b
    finally:
        y = a - b
    return [x, y]

#@ (T(1), T(2))
def f_try_finally_return(a, b):
    try:
        return a + b
    finally:
        b.cleanup

#@ (T(1), T(2))
def f_try_finally_return2(a, b):
    try:
        return a + b
    finally:
        return b - a

#@ (mk(1, 2, 3), T(2))
def f_try_finally_loop(c, x):
    out = []
    for i in c:
        try:
            if i == x:
                continue
            if i > x:
                break
            out.append(i)
        finally:
            out.append(x + i)
    return out

#@ (mk(1, 2), T(2))
def f_try_finally_loop_return(c, x):
    for i in c:
        try:
            return i + x
        finally:
            if i.zz:
                continue
    return x

#@ (mk(1, 2), T(2))
def f_try_finally_loop_break(c, x):
    for i in c:
        try:
            return i + x
        finally:
            if x.zz:
                break
    return x - 1

#@ (T(1), T(2))
def f_try_except(a, b):
    try:
        x = a + b
        x.foo
    except Exception as e:
        return [type(e).__name__, a - b]
    return x

#@ (T(1), T(2))
def f_try_except_else(a, b):
    try:
        x = a + b
    except Injected:
        x = b + a
    else:
        x = x * b
    finally:
        y = a - b
    return [x, y]

#@ (T(1), T(2))
def f_try_reraise(a, b):
    try:
        try:
            x = a + b
            x.foo
        except Exception:
            a.log
            raise
    except Injected as e:
        return [e.k, b.done]
    return x

#@ (T(1), T(2))
def f_reraise_helper(a, b):
    def again():
        raise
    try:
        a.boom.bang
        raise KeyError(a)
    except KeyError:
        try:
            again()
        except KeyError as e:
            return e.args[0] + b

#@ (T(1), T(2))
def f_raise_from(a, b):
    try:
        x = a + b
    except Exception as e:
        raise ValueError(a.msg) from e
    return x

#@ (T(1), T(2))
def f_raise_in_except(a, b):
    try:
        x = a + b
        raise KeyError(x)
    except KeyError as e:
        y = e.args[0] - b
        raise IndexError(y)

#@ (T(1), T(2))
def f_except_tuple(a, b):
    try:
        x = a.foo + b.bar
        raise ValueError(x)
    except (KeyError, ValueError) as e:
        r = e.args[0]
    except Injected as e:
        r = e.k
    return [r, a + b]

#@ (T(1), T(2))
def f_nested_try(a, b):
    out = []
    try:
        try:
            out.append(a + b)
        finally:
            out.append(a.one)
    except Exception as e:
        out.append(type(e).__name__)
        try:
            out.append(b.two)
        finally:
            out.append(b - a)
    finally:
        out.append(a * b)
    return out

#@ (T(1), T(2))
def f_finally_exc_in_both(a, b):
    try:
        raise ValueError(a + b)
    finally:
        a.fin

#@ (T(1), T(2))
def f_except_in_loop(a, b):
    out = []
    for i in (a, b, a):
        try:
            out.append(i.attr + b)
        except Injected as e:
            out.append(e.k)
            continue
    return out

#@ (T(1), T(0))
def f_assert(a, b):
    try:
        assert a, a.msg
        assert b, b.msg
    except AssertionError as e:
        return e.args[0]
    return a

#@ (T(1),)
def f_raise_nonexc(a):
    try:
        raise a
    except TypeError:
        return a.ok

# ------------------------------------------------------------------ generators
#@ (mk(1, 2, 3), T(10))
def f_gen_simple(c, x):
    def g():
        for i in c:
            yield i + x
    return list(g())

#@ (mk(1, 2, 3), T(10))
def f_gen_close(c, x):
    def g():
        try:
            for i in c:
                yield i + x
        finally:
            x.closed
    it = g()
    a = next(it)
    it.close()
    return a

#@ (mk(1, 2, 3), T(10))
def f_gen_drop(c, x):
    def g(y):
        z = y + x
        for i in c:
            yield i + z
    it = g(x)
    a = next(it)
    b = next(it)
    del it
    return [a, b]

#@ (mk(1, 2), T(10))
def f_gen_yield_from(c, x):
    def g():
        r = yield from c
        yield x + x
        return r
    return list(g())

#@ (mk(1, 2), T(10))
def f_gen_yield_from_gen(c, x):
    def inner():
        for i in c:
            yield i
        return x + x
    def g():
        r = yield from inner()
        yield r
    return list(g())

#@ (T(1), T(10))
def f_gen_send(a, x):
    def g():
        r = yield a
        s = yield r + x
        yield s - x
    it = g()
    out = [next(it)]
    out.append(it.send(x))
    out.append(it.send(a))
    return out

#@ (T(1), T(10))
def f_gen_throw(a, x):
    def g():
        try:
            yield a
        except ValueError as e:
            yield e.args[0] + x
        finally:
            a.fin
    it = g()
    out = [next(it)]
    out.append(it.throw(ValueError(x)))
    out.append(list(it))
    return out

#@ (T(1), T(10))
def f_gen_throw_unhandled(a, x):
    def g():
        try:
            yield a + x
        finally:
            x.fin
    it = g()
    out = [next(it)]
    try:
        it.throw(KeyError(a))
    except KeyError as e:
        out.append(e.args[0].seen)
    return out

#@ (T(1), T(2))
def f_gen_with(c, a):
    def g():
        with c as x:
            yield x + a
            yield a - x
    it = g()
    r = next(it)
    it.close()
    return [r, list(g())]

#@ (mk(1, 2, 3), T(2))
def f_gen_args(c, x):
    def g(p, *rest, k=None):
        yield p
        yield from rest
        yield k
    return list(g(x, *c, k=x + x))

#@ (mk(1, 2, 3), T(2))
def f_gen_return_value(c, x):
    def g():
        yield x
        return x + x
    it = g()
    next(it)
    try:
        next(it)
    except StopIteration as e:
        return e.value
    return None

#@ (mk(1, 2, 3), T(2))
def f_genexp_closure(c, x):
    def mkgen(y):
        return (i + y for i in c if i != x)
    return list(mkgen(x + x))

# ------------------------------------------------------------------ closures / functions
#@ (T(1), T(2))
def f_closure(a, b):
    def inner(c):
        return a + b + c
    return inner(b)

#@ (T(1), T(2))
def f_closure_nonlocal(a, b):
    n = a
    def inc(d):
        nonlocal n
        n = n + d
        return n
    inc(b)
    inc(a)
    return n

#@ (T(1), T(2))
def f_closure_nested(a, b):
    def outer(x):
        y = x + a
        def inner(z):
            return y + z + b
        return inner
    return outer(b)(a)

#@ (T(1), T(2))
def f_closure_defaults(a, b):
    def g(x=a + b, *, y=a - b):
        return [x, y]
    return g() + g(b, y=a)

#@ (T(1), T(2))
def f_closure_rebind(a, b):
    x = a + b
    def g():
        return x
    r = g()
    x = None
    return [r, g(), r.gone]

#@ (T(1), T(2))
def f_decorator(d, a):
    @d
    def g(x):
        return x
    return g(a)

#@ (T(1), T(2), T(3))
def f_decorator_stack(d, e, a):
    @d.wrap(a)
    @e
    def g(x):
        return x
    return g

#@ (T(1), T(2))
def f_recursion(a, b):
    def fact(n, acc):
        if n <= 0:
            return acc
        return fact(n - 1, acc + b)
    return fact(2, a)

#@ (T(1), T(2))
def f_global_store(a, b):
    global _g11_slot
    _g11_slot = a + b
    r = _g11_slot
    del _g11_slot
    return r

#@ (T(1), T(2))
def f_annotations_typed_locals(a, b):
    l: list = [a, b]
    d: dict = {a: b}
    t: tuple = (a, b)
    l.append(a + b)
    d[b] = l.pop()
    return [l, d, t[0], t[1], len(l), len(d), len(t)]

# ------------------------------------------------------------------ classes
#@ (T(1), T(2))
def f_class_body(a, b):
    class C:
        x = a + b
        y = [a - b]
        def m(self):
            return self.x
    return [C().m(), C.y]

#@ (T(1), T(2))
def f_class_meta(a, b):
    class C(metaclass=Meta):
        x = a + b
    return [C.x, C()]

#@ (T(1), T(2))
def f_class_base_kw(a, b):
    class C(Base, flag=1):
        x = a - b
    return C.x

#@ (T(1), T(2))
def f_class_decorated(d, a):
    @d
    class C:
        y = a.attr
    return C

#@ (T(1), T(2))
def f_class_descriptor(a, b):
    class C:
        p = Desc(3)
        q = a + b
    c = C()
    r = c.p
    c.p = b
    return [r, C.q]

#@ (T(1), T(2))
def f_class_bases_expr(f, a):
    try:
        class C(f(a), a.base):
            pass
    except TypeError:
        return f.failed
    return C

#@ (T(1), T(2))
def f_class_super(a, b):
    class A:
        def m(self, x):
            return x + a
    class B(A):
        def m(self, x):
            return super().m(x) + b
    return B().m(a)

#@ (T(1), T(2))
def f_class_init_args(a, b):
    class P:
        def __init__(self, x, y=None, *r, **k):
            self.x = x + a
            self.y = y
    p = P(a, b)
    q = P(*[a], **{'y': b})
    return [p.x, p.y, q.x, q.y]

# ------------------------------------------------------------------ string formatting / conversions
#@ (T(1), T(2))
def f_fstring(a, b):
    return f'{a}-{b!r}-{a!s}-{b:>5}-{a + b}'

#@ (T(1), T(2))
def f_fstring_nested_spec(a, b):
    return f'{a:{b.v}}|{b!r:>6}|'

#@ (T(1), T(2))
def f_percent_format(a, b):
    return ['%s-%r' % (a, b), '%s' % a, '%-5s|%-5r|' % (a, b), '%d' % a, '%s %s' % (a + b, b)]

#@ (T(1), T(2))
def f_str_format(a, b):
    return ['{} {}'.format(a, b), '{0!r} {1:>4}'.format(a, b), '{x} {y}'.format(x=a, y=b), '{.v}'.format(a)]

#@ (T(1), T(2))
def f_str_repr(a, b):
    return [str(a), repr(b), str(a) + repr(a), ascii(b), format(a, '>4')]

#@ (mk(1, 2, 3), T(2))
def f_join(c, x):
    return ['-'.join(str(i) for i in c), ','.join([repr(i) for i in c]), str(x).join(['a', 'b'])]

#@ (T(65), T(2))
def f_int_conversions(a, b):
    return [int(a), float(b), bool(a), chr(a), hex(a), bin(b), oct(a), hash(a), complex(b)]

#@ (T(3), T(2))
def f_index_uses(a, b):
    return [[0, 1, 2, 3][a], 'abcdef'[b:a], [1] * b, 'ab' * a, (1, 2) * b, range(a)[b], b'abcd'[a], bytes(b)]

#@ (T(3), [1, 2, 3, 4], 'hello')
def f_index_on_builtin(a, l, s):
    return [l[a], s[a], l[:a], s[a:], l[a] + l[-a]]

#@ (T(1), T(2))
def f_print_like(a, b):
    import io
    buf = io.StringIO()
    print(a, b, sep='-', end='', file=buf)
    return buf.getvalue()

# ------------------------------------------------------------------ typed container fast paths
#@ ([T(1), T(2)], T(3), T(1))
def f_list_methods(l: list, x, i):
    l.append(x)
    l.insert(i, x + x)
    l.extend([x, x])
    y = l.pop()
    z = l.pop(i)
    l.reverse()
    return [l, y, z, l.index(x), l.count(x), x in l]

#@ ([T(3), T(1), T(2)],)
def f_list_sort(l: list):
    l.sort()
    m = sorted(l, reverse=True)
    return [l, m]

#@ ([T(1), T(2)], mk(3, 4))
def f_list_extend_iter(l: list, c):
    l.extend(c)
    l += [c, l[0]]
    l += (c,)
    return l + list(c)

#@ (mkd(1, 2), T(1), T(9), T(5))
def f_dict_methods(d: dict, k, k2, v):
    a = d[k]
    b = d.get(k2)
    c = d.get(k2, v)
    d[k2] = v
    e = d.setdefault(k, v)
    f = d.pop(k2)
    g = k in d
    del d[k]
    return [a, b, c, e, f, g, d]

#@ (mkd(1, 2), T(9))
def f_dict_keyerror(d: dict, k):
    try:
        return d[k]
    except KeyError as e:
        return e.args[0].missing

#@ (mkd(1, 2, 3),)
def f_dict_iter(d: dict):
    out = []
    for k in d:
        out.append(k + k)
    for v in d.values():
        out.append(v - v)
    for k, v in d.items():
        out.append(k * v)
    return out

#@ (mkd(1, 2), mkd(2, 3), T(5))
def f_dict_update(d: dict, e: dict, v):
    d.update(e)
    d.update(k=v)
    f = dict(d, z=v)
    g = dict(e)
    return [d, f, g, len(d), list(d), d.copy()]

#@ (mks(1, 2), T(2), T(5))
def f_set_methods(s: set, x, y):
    s.add(y)
    s.add(x)
    a = x in s
    s.discard(y)
    s.remove(x)
    b = y in s
    return [a, b, s, len(s), s | {y}, s.copy()]

#@ ((T(1), T(2), T(3)), T(1))
def f_tuple_typed(t: tuple, i):
    a, b, c = t
    return [t[0], t[i], t[-1], a + c, t + (b,), t * 2, len(t), b in t, t[1:]]

#@ ('abc', T(1), 'b')
def f_str_typed(s: str, i, sub: str):
    return [s[i], s[0], sub in s, s.startswith(sub, i), s.find(sub, i), s + sub, s * i, s.join([sub, sub]), s.encode()]

#@ (b'abc', T(1))
def f_bytes_typed(s: bytes, i):
    return [s[i], s[0], s[i:], s.decode(), s * i, s + s[:i]]

#@ ([T(1), T(2)], (T(3),), T(4))
def f_list_tuple_concat(l: list, t: tuple, x):
    return [l + [x], t + (x,), l * 2, [x] * 3, list(t), tuple(l), [*l, *t], (*t, *l), l[0] + t[0]]

#@ (T(2), T(3))
def f_typed_arith(a, b):
    i: int = 5
    f: float = 2.5
    return [a + i, i + a, f * b, b * f, a < i, f >= b]

#@ ([T(1), T(2), T(3)], T(2))
def f_list_contains_del(l: list, x):
    r = [x in l, x not in l]
    del l[0]
    del l[-1:]
    l[0:0] = [x, x]
    return r + [l]

#@ (mk(1, 2, 3), S1, S2, S3, S4)
def f_sentinels(c, s1, s2, s3, s4):
    d = {s4: s1, s3: s2}
    l = [s1 + i for i in c]
    t = (s3, s4, s1, s2)
    x = s1 if s2 else s2
    return [d[s4], l, t[2], x, s4 + '-x', s3 + (s1,), f'{s4}{s1}']

#@ (S1, S2, T(3))
def f_sentinel_ops(s1, s2, a):
    try:
        r = [s1 + a, a - s1, s1 < a < s2, {s1: s2}, [s1, s2][a.idx:], s1(a, k=s2), s1.attr]
        with s1 as w:
            r.append(w + s2)
    finally:
        s2.fin
    return r
'''


def _parse(text):
    out = []
    blocks = re.split(r'^#@ ', text, flags=re.M)[1:]
    for b in blocks:
        argexpr, _, src = b.partition('\n')
        src = re.sub(r'^# -+.*$', '', src, flags=re.M).rstrip() + '\n'
        m = re.search(r'^def (f_\w+)\(', src, flags=re.M)
        out.append((m.group(1), src, argexpr.strip()))
    names = [o[0] for o in out]
    assert len(set(names)) == len(names), [n for n in names if names.count(n) > 1]
    return out


def handwritten():
    return _parse(HAND)


# ------------------------------------------------------------------------------ generated depth-2 nestings
INNERS = [
    ('binop', 'out.append(a + b)'),
    ('call', 'out.append(a(b, *c, k=d))'),
    ('unpack', 'x, y = c\nout.append(x - y)'),
    ('augsub', 'c[d] += b\nout.append(c[d])'),
    ('comp', 'out.append([i + a for i in c if i != b])'),
    ('fstr', "out.append(f'{a}{b!r:>4}')"),
    ('chain', 'out.append(a < b < d)'),
    ('dict', 'out.append({a: b, d: a + b})'),
    ('meth', 'out.append(a.m(b, k=d))'),
    ('with', 'with a as z:\n    out.append(z + b)'),
]

WRAPPERS = [
    ('plain', '{I}\nreturn out'),
    ('finally', 'try:\n{I1}\nfinally:\n    out.append(d - a)\nreturn out'),
    ('finret', 'try:\n{I1}\n    return out\nfinally:\n    out.append(d.fin)'),
    ('except', 'try:\n{I1}\n    a.boom.bang\nexcept Exception as e:\n    out.append(type(e).__name__)\n    out.append(b - a)\nreturn out'),
    ('with', 'with d as w:\n{I1}\n    out.append(w)\nreturn out'),
    ('for', 'for i in c:\n{I1}\n    out.append(i)\nreturn out'),
    ('gen', 'def g():\n{I1}\n    yield a\n{I1}\n    yield b\nit = g()\nout.append(next(it))\nit.close()\nout.extend(g())\nreturn out'),
    ('closure', 'def inner(a, b=b):\n{I1}\n    return a\nout.append(inner(a + d))\nreturn out'),
]

NEST_ARGS = '(T(1), T(2), mk(3, 4), T(0))'


def _indent(s, n):
    return '\n'.join(' ' * n + l for l in s.split('\n'))


def nestings():
    out = []
    for wn, w in WRAPPERS:
        for iname, i in INNERS:
            body = w.replace('{I1}', _indent(i, 4)).replace('{I}', i)
            name = 'f_n_%s_%s' % (wn, iname)
            src = 'def %s(a, b, c, d):\n    out = []\n%s\n' % (name, _indent(body, 4))
            out.append((name, src, NEST_ARGS))
    return out


def portfolio(tier='quick'):
    """Complete list of (name, source, args expression)."""
    return handwritten() + nestings()
