"""Shared driver of the g5 checks (C13, C14, C15, C19, C20): a faster variant of vlib.e2.run_diff.

Differences to e2.run_diff (same Mod/Part/Func objects, same replay-case layout):
  * an input set may be a `Prod(axis0, axis1, ...)` = the complete cartesian product of lists of
    expression strings (shipped to the children as the axes, expanded there);
  * operand expression strings are compiled once per child and evaluated freshly for each call;
  * the namespace in which operand expressions are evaluated is support.namespace() + EXTRA_NS
    (containers such as deque/array and a few helper classes);
  * crash refinement is hierarchical (function -> input chunks -> single evaluation) so that a
    crash in a 100k-evaluation group does not explode into 100k forked singles;
  * outcomes are counted: `outcomes` = number of distinct reference outcomes overall.
Every (function, input) of the stated product is executed compiled and on the reference; nothing
is sampled; the seed only rotates the order of the work groups.
"""
import os, sys, itertools, collections, array, time, pickle, signal, traceback
from vlib import e2, farm, runner, support
from vlib.diff import canon, short


class Prod:
    """Complete cartesian product of axes of expression strings."""
    def __init__(self, *axes):
        self.axes = [list(a) for a in axes]

    def __len__(self):
        n = 1
        for a in self.axes:
            n *= len(a)
        return n

    def __iter__(self):
        return itertools.product(*self.axes)


# ----------------------------------------------------------------------------- operand namespace
class SeqObj:
    """Python-level sequence (mp_subscript only): logs nothing, delegates to a list."""
    def __init__(self, items): self.items = list(items)
    def __len__(self): return len(self.items)
    def __getitem__(self, i): return ('SeqObj.get', repr(i), self.items[i])
    def __setitem__(self, i, v): self.items[i] = v
    def __delitem__(self, i): del self.items[i]
    def __repr__(self): return 'SeqObj(%r)' % (self.items,)


class ListSub(list):
    def __repr__(self): return 'ListSub(%s)' % list.__repr__(self)


class TupleSub(tuple):
    def __repr__(self): return 'TupleSub(%s)' % tuple.__repr__(self)


class DictSub(dict):
    def __repr__(self): return 'DictSub(%s)' % dict.__repr__(self)


class DictMissing(dict):
    def __missing__(self, k): return ('missing', k)
    def __repr__(self): return 'DictMissing(%s)' % dict.__repr__(self)


class SetSub(set):
    def __repr__(self): return 'SetSub(%s)' % sorted(self, key=repr)


class BytesSub(bytes):
    def __repr__(self): return 'BytesSub(%s)' % bytes.__repr__(self)


class BytearraySub(bytearray):
    def __repr__(self): return 'BytearraySub(%s)' % bytes(self)


class Unhashable:
    __hash__ = None
    def __eq__(self, o): return self is o
    def __repr__(self): return 'Unhashable()'


class BadHash:
    def __hash__(self): raise ZeroDivisionError('hash')
    def __repr__(self): return 'BadHash()'


class EqRaises:
    def __hash__(self): return 1
    def __eq__(self, o): raise ZeroDivisionError('eq')
    def __repr__(self): return 'EqRaises()'


class ItemsObj:
    """Not a dict, but has keys()/values()/items() (the untyped dict-view loop optimisation checks the type at run time)."""
    def __init__(self, pairs): self.pairs = list(pairs)
    def keys(self): return [k for k, v in self.pairs]
    def values(self): return [v for k, v in self.pairs]
    def items(self): return list(self.pairs)
    def __setitem__(self, k, v): self.pairs.append((k, v))
    def __delitem__(self, k): self.pairs = [p for p in self.pairs if p[0] != k]
    def pop(self, k): self.__delitem__(k)
    def popitem(self): return self.pairs.pop()
    def clear(self): del self.pairs[:]
    def __repr__(self): return 'ItemsObj(%r)' % (self.pairs,)


def _gen(*items):
    for i in items:
        yield i


EXTRA_NS = {
    'deque': collections.deque, 'array': array.array, 'SeqObj': SeqObj, 'ListSub': ListSub, 'TupleSub': TupleSub,
    'DictSub': DictSub, 'DictMissing': DictMissing, 'SetSub': SetSub, 'BytesSub': BytesSub,
    'BytearraySub': BytearraySub, 'Unhashable': Unhashable, 'BadHash': BadHash, 'EqRaises': EqRaises,
    'OrderedDict': collections.OrderedDict, 'ItemsObj': ItemsObj, 'gen': _gen, 'StrSub': support.StrSub,
}


def namespace():
    ns = support.namespace()
    ns.update(EXTRA_NS)
    return ns


def classify(expr):
    """Input class of an operand expression (type name, digit class for ints)."""
    try:
        v = eval(expr, namespace())
    except Exception:
        return 'expr'
    c = support.classify(expr) if type(v) in (bool, int, float, support.IntSub, support.FloatSub) else None
    if c:
        return c
    t = type(v).__name__
    try:
        return '%s[%d]' % (t, len(v))
    except Exception:
        return t


def default_key(tag, inp, exp, got):
    return '%s|%s|%s' % (tag, ','.join(classify(e) for e in inp), e2.divclass(exp, got))


# ----------------------------------------------------------------------------- child side
_loaded = {}
_codes = {}


def _get(light):
    k = light['so']
    if k not in _loaded:
        if light.get('env'):
            os.environ.update(light['env'])
        mod = farm.load(light['so'], light['name'])
        kind, what = light['ref']
        if kind == 'exec':
            g = {'__name__': light['name'] + '_ref', '__builtins__': __builtins__}
            exec(compile(what, '<ref:%s>' % light['name'], 'exec'), g)
            ref = g.get
        else:
            import importlib
            m, fn = what.split(':')
            model = getattr(importlib.import_module(m), fn)
            ref = lambda name, _model=model: _model
        _loaded[k] = (mod, ref, kind)
    return _loaded[k]


def _code(e):
    c = _codes.get(e)
    if c is None:
        c = _codes[e] = compile(e, '<operand>', 'eval')
    return c


def _expand(inputs):
    """inputs: list of tuples | ('prod', axes)"""
    if isinstance(inputs, tuple) and inputs and inputs[0] == 'prod':
        return itertools.product(*inputs[1])
    return inputs


_PROGRESS_PATH = None      # set by run_groups in the child: the sweep records the evaluation it is about to run


def _sweep(case):
    """case: (light, work[, lo, hi]) - evaluations are numbered in enumeration order; only those with
    lo <= number < hi are executed (used to resume around a crashing evaluation)."""
    light, work = case[0], case[1]
    lo = case[2] if len(case) > 2 else 0
    hi = case[3] if len(case) > 3 and case[3] is not None else float('inf')
    mod, ref, kind = _get(light)
    ns = namespace()
    evals = 0
    mism = []
    more = 0
    pairs = set()
    outs = set()
    ea, ul = light['exc_args'], light['use_log']
    outcome = e2._outcome
    fd = os.open(_PROGRESS_PATH, os.O_RDWR | os.O_CREAT, 0o600) if _PROGRESS_PATH else None
    k = -1
    for fname, tag, inputs in work:
        fc = getattr(mod, fname)
        fr = ref(fname)
        for inp in _expand(inputs):
            k += 1
            if k < lo:
                continue
            if k >= hi:
                break
            if fd is not None:
                os.pwrite(fd, b'%-12d' % k, 0)
            codes = [_code(e) for e in inp]
            a1 = [eval(c, ns) for c in codes]
            a2 = [eval(c, ns) for c in codes]
            if kind == 'model':
                exp = outcome(fr, [tag] + a2, ea, ul)
            else:
                exp = outcome(fr, a2, ea, ul)
            got = outcome(fc, a1, ea, ul)
            evals += 1
            h = hash(exp)
            pairs.add(hash((fname, h)))
            outs.add(h)
            if got != exp:
                if len(mism) < 300:
                    mism.append((fname, tag, tuple(inp), exp, got))
                else:
                    more += 1
        if k >= hi:
            break
    if fd is not None:
        os.close(fd)
    return {'evals': evals, 'mismatches': mism, 'more': more, 'pairs': len(pairs), 'outs': outs}


def _kth(work, k):
    """The k-th evaluation (fname, tag, inp) of a work group in enumeration order."""
    j = -1
    for fname, tag, inputs in work:
        n = _n(inputs)
        if k - (j + 1) >= n:
            j += n
            continue
        for inp in _expand(inputs):
            j += 1
            if j == k:
                return fname, tag, tuple(inp)
    return None


# ----------------------------------------------------------------------------- parent side

def run_groups(func, cases, procs=None, timeout=900, scratch=None):
    """Run func(case) for every case, each in its own forked child (at most `procs` at a time).

    Returns a list aligned with cases: ('ok', value) | ('crash', signum, output tail, progress) |
    ('timeout', seconds, output tail, progress) | ('exc', traceback text); progress = number of the
    evaluation that was running (-1 if unknown).  No multiprocessing.Pool: a child
    that dies never blocks the others and is attributed exactly to its case."""
    procs = procs or farm.NPROC
    scratch = scratch or os.environ.get('VERIF_SCRATCH_DIR') or '/dev/shm'
    results = [None] * len(cases)
    pending = list(range(len(cases)))[::-1]
    running = {}
    me = os.getpid()

    def prog(base):
        try:
            with open(base + '.prog', 'rb') as f:
                return int(f.read(12).strip() or -1)
        except (OSError, ValueError):
            return -1

    def tail(path):
        try:
            with open(path, 'r', errors='replace') as f:
                return f.read(200000)[-3000:]
        except OSError:
            return ''

    while pending or running:
        while pending and len(running) < procs:
            i = pending.pop()
            base = os.path.join(scratch, 'g5-%d-%d' % (me, i))
            sys.stdout.flush(); sys.stderr.flush()
            pid = os.fork()
            if pid == 0:
                code = 0
                try:
                    fd = os.open(base + '.out', os.O_WRONLY | os.O_CREAT | os.O_TRUNC, 0o600)
                    os.dup2(fd, 1); os.dup2(fd, 2)
                    global _PROGRESS_PATH
                    _PROGRESS_PATH = base + '.prog'
                    try:
                        val = ('ok', func(cases[i]))
                    except BaseException:
                        val = ('exc', traceback.format_exc())
                    sys.stdout.flush(); sys.stderr.flush()
                    with open(base + '.tmp', 'wb') as f:
                        pickle.dump(val, f)
                    os.rename(base + '.tmp', base + '.res')
                except BaseException:
                    code = 3
                finally:
                    os._exit(code)
            running[pid] = (i, time.time(), base)
        progressed = False
        for pid in list(running):
            i, t0, base = running[pid]
            try:
                wpid, st = os.waitpid(pid, os.WNOHANG)
            except ChildProcessError:
                wpid, st = pid, 0x100
            if wpid:
                progressed = True
                del running[pid]
                if os.WIFSIGNALED(st):
                    results[i] = ('crash', os.WTERMSIG(st), tail(base + '.out'), prog(base))
                elif os.path.exists(base + '.res'):
                    try:
                        with open(base + '.res', 'rb') as f:
                            results[i] = pickle.load(f)
                    except Exception:
                        results[i] = ('exc', 'unreadable result: ' + traceback.format_exc())
                else:
                    results[i] = ('crash', -os.WEXITSTATUS(st), tail(base + '.out'), prog(base))
            elif time.time() - t0 > timeout:
                progressed = True
                try:
                    os.kill(pid, signal.SIGKILL)
                except ProcessLookupError:
                    pass
                try:
                    os.waitpid(pid, 0)
                except ChildProcessError:
                    pass
                del running[pid]
                results[i] = ('timeout', timeout, tail(base + '.out'), prog(base))
            if pid not in running:
                for ext in ('.out', '.res', '.tmp', '.prog'):
                    try:
                        os.unlink(base + ext)
                    except OSError:
                        pass
        if not progressed:
            time.sleep(0.005)
    return results

def _ship(inputs):
    if isinstance(inputs, Prod):
        return ('prod', inputs.axes)
    return list(inputs)


def _n(inputs):
    if isinstance(inputs, tuple) and inputs and inputs[0] == 'prod':
        n = 1
        for a in inputs[1]:
            n *= len(a)
        return n
    return len(inputs)


def run_diff(ctx, mods, keyfn=default_key, on_build_failure='violation', workdir=None, timeout=900,
             reach=None, groups_per_mod=4, max_crash_reports=40, build_key=None, max_group=60000):
    workdir = workdir or ctx.workdir('e2')
    built, failures = e2.build_all(ctx, mods, workdir)
    stats = {'evaluations': 0, 'pairs': 0, 'programs': 0, 'modules_built': len(built), 'mismatches': 0,
             'crashes': 0, 'build_failures': len(failures), 'rejected': [], 'distinct_outcomes': 0}
    ctx.log('built %d modules (%d failures)' % (len(built), len(failures)))
    for m, r in failures:
        tags = [f.tag for f in m.funcs]
        if on_build_failure == 'violation':
            bk = build_key(m, r) if build_key else 'build-failure|%s|%s' % (r.stage, tags[0] if tags else m.name)
            ctx.violation(bk, 'program %s does not build (%s): %s' % (tags[:1], r.stage, r.errors[-800:]),
                          {'kind': 'build', 'source': m.source, 'ext': m.ext, 'directives': m.directives,
                           'cflags': list(m.cflags), 'cplus': m.cplus, 'stage': r.stage, 'errors': r.errors[-3000:]})
        else:
            stats['rejected'].append((tags, r.stage, r.errors[-500:]))
    if reach:
        found = {k: 0 for k in reach}
        for m in built:
            try:
                with open(m.c_file, encoding='utf-8', errors='replace') as f:
                    txt = f.read()
            except OSError:
                continue
            for k in reach:
                if k in txt:
                    found[k] += 1
        stats['reach'] = found
        stats['reach_gaps'] = sorted(k for k, v in found.items() if not v)
        for k in stats['reach_gaps']:
            ctx.log('WARN reach gap: no built module mentions %s' % k)
    cases, owners = [], []
    for m in built:
        light = m.light()
        fl = m.funcs
        stats['programs'] += len(fl)
        shipped = {k: _ship(v) for k, v in m.input_sets.items()}
        total = sum(_n(shipped[f.inputs]) for f in fl)
        target = max(1, total // groups_per_mod)
        cur, curn = [], 0
        for f in fl:
            ins = shipped[f.inputs]
            if _n(ins) > max_group and isinstance(ins, tuple) and len(ins[1][0]) > 1:
                # a huge product: split along its first axis into groups of their own
                ax0 = ins[1][0]
                per0 = max(1, len(ax0) * max_group // _n(ins))
                for j in range(0, len(ax0), per0):
                    cases.append((light, [(f.name, f.tag, ('prod', [ax0[j:j + per0]] + ins[1][1:]))])); owners.append(m)
                continue
            cur.append((f.name, f.tag, ins)); curn += _n(ins)
            if curn >= target:
                cases.append((light, cur)); owners.append(m); cur, curn = [], 0
        if cur:
            cases.append((light, cur)); owners.append(m)
    # the seed only rotates the order in which groups are handed to the workers
    if cases:
        k = ctx.seed % len(cases)
        cases = cases[k:] + cases[:k]
        owners = owners[k:] + owners[:k]
    allouts = set()

    def handle(m, r):
        stats['evaluations'] += r['evals']
        stats['pairs'] += r['pairs']
        allouts.update(r['outs'])
        stats['mismatches'] += len(r['mismatches']) + r['more']
        for fname, tag, inp, exp, got in r['mismatches']:
            ctx.violation(keyfn(tag, inp, exp, got),
                          '%s%r: expected %s got %s' % (tag, tuple(inp), short(exp), short(got)),
                          e2._replay_case(m, fname, tag, inp, exp, got))

    todo = list(zip(cases, owners))
    rounds = 0
    unrefined = 0
    while todo:
        results = run_groups(_sweep, [c for c, _ in todo], timeout=timeout, scratch=ctx.scratch)
        nxt = []
        for (case, m), r in zip(todo, results):
            light, work = case[0], case[1]
            lo = case[2] if len(case) > 2 else 0
            hi = case[3] if len(case) > 3 else None
            if r[0] == 'ok':
                handle(m, r[1])
            elif r[0] == 'exc':
                ctx.violation('harness-exc|%s' % m.name, 'driver exception: %s' % r[1][-1500:],
                              {'kind': 'harness', 'source': m.source, 'trace': r[1][-3000:]})
            else:
                k = r[3]
                ev = _kth(work, k) if k >= 0 else None
                if ev is None:
                    ctx.violation('harness-crash|%s' % m.name, '%s %s outside any evaluation (module load?): %s'
                                  % (r[0], r[1], (r[2] or '')[-600:]), {'kind': 'harness', 'source': m.source})
                    continue
                fname, tag, inp = ev
                stats['crashes'] += 1
                stats['evaluations'] += 1
                got = ('crash', r[0], r[1])
                ctx.violation(keyfn(tag, inp, ('ok', ('?', '?')), got),
                              '%s%r: %s %s; output tail: %s' % (tag, inp, r[0], r[1], (r[2] or '')[-400:]),
                              e2._replay_case(m, fname, tag, inp, None, got))
                if stats['crashes'] > max_crash_reports:
                    unrefined += 1
                    continue
                # resume around the crashing evaluation
                if k > lo:
                    nxt.append(((light, work, lo, k), m))
                nxt.append(((light, work, k + 1, hi), m))
        if nxt:
            ctx.log('resuming %d partial groups around crashing/hanging evaluations' % len(nxt))
        todo = nxt
        rounds += 1
    if unrefined:
        stats['unrefined_groups'] = unrefined
    stats['distinct_outcomes'] = len(allouts)
    return stats


def replay(ctx, case):
    """Replay of a violation recorded by run_diff (same case layout as e2)."""
    if case.get('kind') != 'e2':
        return e2.replay(ctx, case)
    name = case['name']
    r = farm.build(name, case['source'], ctx.workdir('replay'), ext=case['ext'], directives=case.get('directives'),
                   cflags=case.get('cflags') or (), cplus=case.get('cplus', False), options=case.get('options'),
                   module_options=case.get('module_options'), extra_files=case.get('extra_files'),
                   includes=case.get('includes') or (), ldflags=case.get('ldflags') or (), opt=case.get('opt', '-O0'))
    if not r.ok:
        return 'does not build (%s): %s' % (r.stage, r.errors[-600:])
    light = dict(name=name, so=r.so, ref=tuple(case['ref']), exc_args=case['exc_args'], use_log=case['use_log'],
                 env=case.get('env'))
    res = run_groups(_sweep, [(light, [(case['fname'], case['tag'], [tuple(case['input'])])])],
                     timeout=120, scratch=ctx.scratch)[0]
    if res[0] == 'ok':
        mm = res[1]['mismatches']
        if mm:
            return '%s%r: expected %s got %s' % (case['tag'], tuple(case['input']), short(mm[0][3]), short(mm[0][4]))
        return False
    return '%s: %r' % (res[0], res[1:])


def cov_from(st, rule, samples, extra=None):
    cov = {'evaluations': st['evaluations'], 'distinct_nontrivial': st['pairs'], 'rule': rule,
           'programs': st['programs'], 'modules_built': st['modules_built'], 'mismatches': st['mismatches'],
           'crashes': st['crashes'], 'build_failures': st['build_failures'],
           'distinct_outcomes': st['distinct_outcomes'], 'reach': st.get('reach'),
           'reach_gaps': st.get('reach_gaps'), 'samples': samples, 'exhaustive': True}
    if st.get('rejected'):
        cov['rejected'] = [(t[:3], s, e[-200:]) for t, s, e in st['rejected']][:20]
        cov['rejected_count'] = len(st['rejected'])
    if st.get('unrefined_groups'):
        cov['exhaustive'] = False
        cov['cap'] = ('%d work groups were not resumed after the crash-report cap was reached'
                      % st['unrefined_groups'])
    if extra:
        cov.update(extra)
    return cov
