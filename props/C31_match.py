"""C31 - match statements behave like CPython.

Small-scope enumeration of match statements:
  * F1  one-case statements for EVERY pattern of the grammar to depth 2: leaves (int, -int, float, complex, str, bytes,
        None/True/False literals, capture, wildcard, dotted value patterns Color.RED / NSK.K / NSK.S) and every
        sequence form ([], [p], [p, q], [p, *rest], [*rest, p], [*_, p], [p, *_, q], [p, *rest, q], (p, q), and a star capture
        preceded by 0..2 and followed by 2..3 captures, also nested in a mapping), mapping form
        ({}, {'k': p}, {'k': p, **rest}, {1: _, 'a': p}, {'k': p, 'j': q}, {NSK.S: p}), class form (Point(), Point(x=p),
        Point(x=p, y=q), Point(p), Point(p, q), Point(p, y=q), too many positionals, positional+keyword clash, int(p),
        int(), str(), str(p), float(p), dict(), list(), DP(p, q) dataclass, __match_args__ of wrong type (list / non-str),
        1..n positional sub-patterns + one keyword naming each attribute for __match_args__ of length n = 1, 2, 3),
        or-pattern (all pairs of non-binding leaves, binding alternatives with equal name sets) and `as` pattern, with the
        sub-patterns p, q ranging over {0, 'ab', None, capture, wildcard, value, the or-pattern 0 | 1};
  * F2  guards (true / false / depending on a capture, logged) on a representative per form;
  * F3  all ordered pairs of 24 representative patterns as two-case statements; all ordered triples of 8 as three-case
        statements (the sequence/mapping test cache is shared between cases);
  * F4  the sequence / mapping / literal one-case statements with a statically known subject type
        (t = list(s) / tuple(s) / dict(s) / str(s) / int(s): selects the specialised code paths);
  * F5  case bodies that contain a def / lambda / class / comprehension / generator expression.
Thorough adds depth 3 (composite sub-patterns) for the sequence, mapping and class forms.
Every function runs on ALL ~50 subjects: ints, bools, floats, complex, str/bytes/bytearray (must not match sequence
patterns), list/tuple/deque/range/array, Sequence and Mapping ABC subclasses and registered virtual subclasses, a
non-registered look-alike, dict/OrderedDict/defaultdict (must not gain keys),
objects with and without __match_args__, wrong-typed __match_args__, dataclass, enum member, int/str subclasses, an
object with a logging __eq__, a class with logging / raising properties.
Oracle: CPython 3.12 on the identical source: chosen case index, bound values, the guard / __eq__ / property call
log, exception type, keys of dict subjects afterwards.  (The number and order of __len__ / __getitem__ / get / keys
calls is left to the implementation by PEP 634 - CPython itself mixes iteration and indexing - and is not compared.)
"""
import itertools
from vlib import e2, farm
from props._g6_common import ConfirmCtx, run_diff, storm_note

LEVEL = 'exploration'
ENGINE = 'E2 diffexplore'
TECHNIQUE = 'exhaustive pattern grammar (depth 2; 3 thorough) x case-list combinations x ~50 subjects, compiled vs CPython on identical source'
LEVEL_TEXT = ('Every pattern of the match grammar to depth 2 (literal, capture, wildcard, value, 9 sequence forms, 6 mapping forms, '
              '~20 class forms incl. __match_args__ misuse, or, as; sub-patterns over {0, "ab", None, capture, wildcard, value, 0 | 1}) as '
              'a one-case statement, guard variants, all ordered pairs of 24 and triples of 8 representative patterns as multi-case '
              'statements, statically typed subject variants and case bodies with nested scopes are compiled and run on all ~50 '
              'subjects (builtin and ABC-registered sequences/mappings, str/bytes, dict kinds, '
              'classes with and without __match_args__, dataclass, enum, subclasses, logging __eq__/properties); chosen case, '
              'bindings, guard/__eq__/property call log, exception type and dict keys afterwards must equal CPython 3.12.')
LEVEL_NOTE = ('Pattern depth 2 (3 in thorough for a reduced sub-pattern set), <= 3 cases per statement; static subject typing is obtained '
              'through constructor calls (pure Python source), not cdef declarations.  Bindings made by patterns that fail later are '
              'not observed, nor is the count/order of __len__/__getitem__/get/keys calls (both unspecified by PEP 634).  Trusted: CPython 3.12 as reference, gcc.')

PRELUDE = ('from props._g6_rt import (G, W31, Color, NSK, Point, SubPoint, OnlyX, BadMA, BadMA2, DP, PropPoint, MySeq, VirtSeq, '
           'NotSeq, MyMap, EqLog, MA1, MA2, MA3)\n')
PER_MODULE = 120
REACH = ['__Pyx_MatchCase_IsSequence', '__Pyx_MatchCase_IsMapping', '__Pyx_MatchCase_CheckMappingDuplicateKeys',
         '__Pyx_MatchCase_Mapping_ExtractDict', '__Pyx_MatchCase_Mapping_ExtractNonDict', '__Pyx_MatchCase_Mapping_Extract',
         '__Pyx_MatchCase_DoubleStarCapture', '__Pyx_MatchCase_ClassPositional', '__Pyx_MatchCase_TypeGuard',
         '__Pyx_MatchCase_OtherSequenceSliceToList', '__Pyx_MatchCase_TupleSliceToList', '__Pyx_MatchCase_UnknownTypeSliceToList']

# a pattern is (text, tuple of bound names)
LEAVES = [('0', ()), ('-1', ()), ('1.5', ()), ('1+2j', ()), ("'ab'", ()), ("b'ab'", ()), ('None', ()), ('True', ()), ('False', ()),
          ('x', ('x',)), ('_', ()), ('Color.RED', ()), ('NSK.K', ()), ('NSK.S', ())]
NONBINDING = [p for p in LEAVES if not p[1] and p[0] != '_']


def subs(names):
    """Sub-pattern alphabet for one position; `names` = capture name to use there."""
    return [('0', ()), ("'ab'", ()), ('None', ()), (names, (names,)), ('_', ()), ('NSK.K', ()), ('0 | 1', ())]


def _combine(fmt, *parts, extra=()):
    text = fmt
    names = []
    for i, p in enumerate(parts):
        text = text.replace('$%d' % i, p[0])
        names.extend(p[1])
    names.extend(extra)
    return (text, tuple(names))


SEQ1 = [('[$0]', ()), ('[$0, *rest]', ('rest',)), ('[*rest, $0]', ('rest',)), ('[*_, $0]', ())]
SEQ2 = [('[$0, $1]', ()), ('[$0, *_, $1]', ()), ('[$0, *rest, $1]', ('rest',)), ('($0, $1)', ())]
MAP1 = [("{'k': $0}", ()), ("{'k': $0, **rest}", ('rest',)), ("{1: _, 'a': $0}", ()), ('{NSK.S: $0}', ())]
MAP2 = [("{'k': $0, 'j': $1}", ())]
CLS1 = [('Point(x=$0)', ()), ('Point($0)', ()), ('int($0)', ()), ('str($0)', ()), ('float($0)', ()), ('OnlyX(x=$0)', ()),
        ('PropPoint(x=$0)', ()), ('PropPoint(y=$0)', ())]
CLS2 = [('Point(x=$0, y=$1)', ()), ('Point($0, $1)', ()), ('Point($0, y=$1)', ()), ('DP($0, $1)', ()), ('SubPoint($0, $1)', ())]
FIXED = [('[]', ()), ('{}', ()), ('Point()', ()), ('int()', ()), ('str()', ()), ('dict()', ()), ('list()', ()), ('tuple()', ()),
         ('Point(_, _, _)', ()), ('Point(_, x=_)', ()), ('BadMA(_)', ()), ('BadMA2(_)', ()), ('BadMA(x=0)', ()), ('bytes()', ()),
         ('bool()', ()), ('object()', ()), ('Color()', ())]
OR_BINDING = [("[x] | {'k': x}", ('x',)), ('Point(x=x) | [x, _]', ('x',)), ("(0 as x) | ('ab' as x)", ('x',)),
              ('[x, y] | [y, x, _]', ('x', 'y')), ("{'k': x} | Point(x)", ('x',)), ('int(x) | str(x)', ('x',))]
AS_COMPOSITE = [('[x, y] as z', ('x', 'y', 'z')), ("{'k': x} as z", ('x', 'z')), ('Point(x=x) as z', ('x', 'z')), ('(0 | 1) as z', ('z',)),
                ('[*rest] as z', ('rest', 'z')), ('str() as z', ('z',))]


def patterns_posargs_plus_keyword():
    """Class patterns mixing 1..len(__match_args__) positional sub-patterns with ONE keyword sub-pattern naming each of the
    attributes x, y, z (duplicate of a positional one -> TypeError at match time, or not), for __match_args__ of length
    1, 2 and 3; captures and a literal variant."""
    out = []
    names = ('a', 'b', 'c')
    for n, cls in ((1, 'MA1'), (2, 'MA2'), (3, 'MA3')):
        for npos in range(1, n + 1):
            for attr in ('x', 'y', 'z'):
                pos = ', '.join(names[:npos])
                out.append(('%s(%s, %s=k)' % (cls, pos, attr), names[:npos] + ('k',)))
                out.append(('%s(%s, %s=1)' % (cls, ', '.join(['_'] * npos), attr), ()))
    return out


def patterns_star_then_several():
    """A star CAPTURE followed by 2 and 3 further sub-patterns, preceded by 0..2 (the slice bounds of the star target), as
    list and tuple patterns and nested in a mapping pattern."""
    out = []
    for before in ((), ('a',), ('a', 'b')):
        for after in (('y', 'z'), ('y', 'z', 'w')):
            names = before + ('rest',) + after
            inner = ', '.join(before + ('*rest',) + after)
            out.append(('[%s]' % inner, names))
            out.append(('(%s)' % inner, names))
    out.append(("{'k': [*rest, y, z]}", ('rest', 'y', 'z')))
    out.append(("{'k': (a, *rest, y, z, w)}", ('a', 'rest', 'y', 'z', 'w')))
    out.append(('[*rest, 0, z]', ('rest', 'z')))
    out.append(('[a, *rest, y, 1]', ('a', 'rest', 'y')))
    return out


def patterns_depth2():
    out = list(LEAVES) + list(FIXED) + patterns_posargs_plus_keyword() + patterns_star_then_several()
    for fmt, ex in SEQ1 + MAP1 + CLS1:
        for p in subs('x'):
            out.append(_combine(fmt, p, extra=ex))
    for fmt, ex in SEQ2 + MAP2 + CLS2:
        for p in subs('x'):
            for q in subs('y'):
                out.append(_combine(fmt, p, q, extra=ex))
    for p in NONBINDING:
        for q in NONBINDING:
            if p != q:
                out.append(('%s | %s' % (p[0], q[0]), ()))
    out.extend(OR_BINDING)
    for p in LEAVES:
        if p[0] != '_':
            out.append(('%s as z' % p[0], p[1] + ('z',)))
    out.extend(AS_COMPOSITE)
    return out


def patterns_depth3():
    """Composite sub-patterns (reduced set) inside every one/two-hole form."""
    inner_x = [('[x]', ('x',)), ('[x, *_]', ('x',)), ("{'k': x}", ('x',)), ('Point(x=x)', ('x',)), ('int(x)', ('x',)), ('0 | 1', ()),
               ('(x, 0)', ('x',)), ('[] | {}', ())]
    inner_y = [(t.replace('x', 'y') if n else t, tuple('y' for _ in n)) for t, n in inner_x]
    out = []
    for fmt, ex in SEQ1 + MAP1 + CLS1:
        for p in inner_x:
            out.append(_combine(fmt, p, extra=ex))
    for fmt, ex in SEQ2 + MAP2 + CLS2:
        for p in inner_x:
            for q in inner_y + subs('y')[:2]:
                out.append(_combine(fmt, p, q, extra=ex))
    return out


REPS = [('0', ()), ("'ab'", ()), ('None', ()), ('NSK.K', ()), ('Color.RED', ()), ('1.5', ()),
        ('[]', ()), ('[x]', ('x',)), ('[x, y]', ('x', 'y')), ('[0, *rest]', ('rest',)), ('[*_, x]', ('x',)), ('(x, 0)', ('x',)),
        ('{}', ()), ("{'k': x}", ('x',)), ("{'k': 0, **rest}", ('rest',)), ("{'j': x, 'k': y}", ('x', 'y')),
        ('Point(x=0)', ()), ('Point(x, y)', ('x', 'y')), ('int(x)', ('x',)), ('str()', ()), ('BadMA(_)', ()),
        ('0 | 1', ()), ('[x] as z', ('x', 'z')), ('x', ('x',))]
REPS8 = [REPS[i] for i in (0, 7, 9, 13, 14, 17, 18, 21)]
IRREFUTABLE = ('x', '_')
GUARDS = ['True', 'False']
TYPED = [('list', 'list(s)'), ('tuple', 'tuple(s)'), ('dict', 'dict(s)'), ('str', 'str(s)'), ('int', 'int(s)')]
BODIES = [
    ('def', 'def g(): return (x, 1)\n            return (1, g())'),
    ('lambda', 'g = lambda: (x, 2)\n            return (1, g())'),
    ('class', 'class K: v = 3\n            return (1, x, K.v)'),
    ('listcomp', 'return (1, [x for _ in (0, 1)])'),
    ('genexpr', 'return (1, list((x, i) for i in (0, 1)))'),
]


def render(name, cases, typed=None, body=None):
    """cases: list of (pattern text, names, guard or None)."""
    lines = ['def %s(s):' % name]
    subj = 's'
    if typed:
        lines.append('    t = %s' % typed)
        subj = 't'
    lines.append('    match %s:' % subj)
    for i, (text, names, guard) in enumerate(cases, 1):
        g = ''
        if guard is not None:
            g = ' if G(%d, %s)' % (i, guard)
        lines.append('        case %s%s:' % (text, g))
        if body is not None:
            lines.append('            ' + body)
        else:
            binds = ''.join(', ("%s", %s)' % (n, n) for n in dict.fromkeys(names))
            lines.append('            return (%d%s)' % (i, binds) if binds else '            return (%d,)' % i)
    lines.append('    return (0,)')
    lines.append('t_%s = W31(%s)' % (name, name))
    return '\n'.join(lines) + '\n'


def family(tier):
    """List of (tag, cases, typed, body)."""
    out = []
    pats = patterns_depth2()
    if tier != 'quick':
        pats = pats + patterns_depth3()
    for text, names in pats:
        out.append(('F1:' + text, [(text, names, None)], None, None))
    # F2 guards
    for text, names in REPS:
        for g in GUARDS + ([names[0] + ' == 0'] if names else []):
            out.append(('F2:%s if %s' % (text, g), [(text, names, g), ('_', (), None)], None, None))
    # F3 pairs and triples (an irrefutable pattern may only be last)
    for a, b in itertools.product(REPS, REPS):
        if a[0] in IRREFUTABLE:
            continue
        out.append(('F3:%s / %s' % (a[0], b[0]), [a + (None,), b + (None,)], None, None))
    for a, b, c in itertools.product(REPS8, REPS8, REPS8):
        out.append(('F3:%s / %s / %s' % (a[0], b[0], c[0]), [a + (None,), b + (None,), c + (None,)], None, None))
    # F4 typed subjects
    for text, names in pats:
        first = text[0]
        kinds = []
        if first in '[(' and '|' not in text and ' as ' not in text:
            kinds = ['list', 'tuple']
        elif first == '{' and '|' not in text and ' as ' not in text:
            kinds = ['dict']
        elif (text, names) in LEAVES:
            kinds = ['str', 'int']
        for k in kinds:
            out.append(('F4:%s:%s' % (k, text), [(text, names, None)], dict(TYPED)[k], None))
    # F5 nested scopes in case bodies
    for bname, body in BODIES:
        out.append(('F5:' + bname, [('[x, *_]', ('x',), None), ('x', ('x',), None)], None, body))
    return out


_SCLASS = {'num': 'i0 i1 im1 big T F f15 f0 c12 isub', 'none': 'N', 'str': 'sab se ssub', 'bytes': 'bab ba',
           'list': 'l0 l1 l2 l3 l4 l5 l7 lab lnest', 'tuple': 't0 t1 t2 t3 t4 t6 tn', 'otherseq': 'dq rng rng5 arr',
           'abcseq': 'myseq myseq5 virtseq', 'notseq': 'notseq', 'dict': 'd0 dk dkj dkl d1a dab od dd', 'abcmap': 'mymap', 'matchargs': 'ma1 ma2 ma3'}
_SUBJECT_CLASS = {k: c for c, ks in _SCLASS.items() for k in ks.split()}


def _keyfn(tag, inp, exp, got):
    """C31 | family:pattern form (sub-pattern leaves abstracted to p) | subject class | divergence class."""
    import re
    fam, pat = tag.split(':', 1)
    if got[0] == 'crash' or exp is None:
        # a crash is keyed by the kinds of pattern present, not by form x subject (one root cause, few keys)
        kinds = [k for k, rx in (('class', r'[A-Za-z]\('), ('seq', r'\[|\((?![a-z]*=)'), ('map', r'\{'), ('or', r'\|'), ('as', r' as '),
                                 ('star', r'\*'), ('guard', r' if ')) if re.search(rx, pat)]
        return 'C31|crash|%s' % ('+'.join(kinds) or 'leaf')
    form = re.sub(r"'ab'|\b0 \| 1\b|\b0\b|None|NSK\.K|\b[xy]\b|\b_\b", 'p', pat)
    return 'C31|%s:%s|%s|%s' % (fam, form, _SUBJECT_CLASS.get(inp[0].strip("'"), 'object'), e2.divclass(exp, got))


def run(ctx):
    from props import _g6_rt
    fam = family(ctx.tier)
    if ctx.seed:
        k = (ctx.seed * 7919) % len(fam)
        fam = fam[k:] + fam[:k]
    wd = ctx.workdir('c31')
    farm.build('warm', 'x = 1\n', wd, ext='.py', cc=False)
    subjects = sorted(_g6_rt.SUBJECTS)
    inputs = {'s': [(repr(k),) for k in subjects]}
    parts = []
    srcs = []
    notpy = []
    for i, (tag, cases, typed, body) in enumerate(fam):
        name = 'f%d' % i
        src = render(name, cases, typed, body)
        try:
            compile(src, '<c31>', 'exec')
        except SyntaxError as e:
            notpy.append((tag, str(e)))
            continue
        srcs.append((tag, src))
        parts.append(e2.Part(src, [e2.Func('t_' + name, tag, 's')]))
    ctx.log('%d statements (%d generated texts are not valid Python and were dropped), %d subjects' % (len(parts), len(notpy), len(subjects)))
    mods = [e2.Mod('c31_%d' % (i // PER_MODULE), PRELUDE, parts[i:i + PER_MODULE], inputs, ext='.py', use_log=True)
            for i in range(0, len(parts), PER_MODULE)]
    cc = ConfirmCtx(ctx, _keyfn)
    st = run_diff(cc, mods, keyfn=_keyfn, reach=REACH)
    cov = {
        'evaluations': st['evaluations'], 'distinct_nontrivial': st['pairs'],
        'rule': 'a case is counted once per distinct (statement, reference outcome = chosen case + bindings + protocol log) pair: '
                'subjects treated identically by a statement collapse',
        'programs': st['programs'], 'modules_built': st['modules_built'], 'subjects': len(subjects),
        'families': {f: sum(1 for t, _ in srcs if t.startswith(f)) for f in ('F1', 'F2', 'F3', 'F4', 'F5')},
        'dropped_not_valid_python': [t for t, _ in notpy][:40], 'dropped_count': len(notpy),
        'mismatches': st['mismatches'], 'crashes': st['crashes'], 'build_failures': st['build_failures'],
        'crashes_not_reproduced_on_replay': cc.unreproduced,
        'reach': st.get('reach'), 'reach_gaps': st.get('reach_gaps'),
        'samples': [{'tag': t, 'function': s} for t, s in (srcs[min(40, len(srcs) - 1)], srcs[len(srcs) // 2], srcs[-min(3, len(srcs))])],
        'exhaustive': True,
    }
    storm_note(cov, st)
    return cov, ['patterns deeper than the bound, more than 3 cases, cdef-typed subjects are not covered']


def replay(ctx, case):
    return e2.replay(ctx, case)
