"""C11 - emitted C string literals denote exactly the original bytes.

Model: a small reference *C string-literal reader* (translation phases 1-6 for what matters here:
trigraph replacement, line splicing, simple / octal (<= 3 digits) / greedy hex escapes, concatenation
of adjacent literals after escape processing; a char-literal-array mode for the _MSC_VER branch).
The reader is bound to real compilers by conformance replay: literals are written into C files as
`static const char s<i>[] = <literal>;`, compiled with `gcc -std=c99 -trigraphs` and
`g++ -std=c++14 -trigraphs`, the bytes dumped at run time and compared with the reader's prediction.

Enumerated (all complete):
 (a) bytes -> StringEncoding.escape_byte_string -> split_string_literal -> "..." :
     all byte strings of length <= 2 (quick; 65 792) / <= 3 (thorough; 16.8 M) and all strings of length
     <= 4 (quick) / <= 5 (thorough) over the adversarial alphabet  \\ ? " ' / = ( 0 7 8 x a \\n \\0 0x7f 0x80 0xff;
     oracle  reader(literal) == input.  All strings of length <= 2 (and the adversarial ones of length <= 3) are
     ALSO compiled by gcc and g++ and the compiled bytes compared with the input directly.
 (b) split_string_literal(s, L) for L in 6..12 on all strings of <= 7 (thorough 9) escape units over
     {\\\\, \\", \\377, a, ?} (chunk boundaries fall at every offset inside every kind of escape); with the real
     limit 2000: every escape kind ending at 2000*k + d, d in [-8, 8], k in {1, 2}, and runs of 1..2010 backslashes.
 (c) Code._write_cstring_const incl. the >= 64 KiB _MSC_VER char-array branch, read by the reader's
     char-array mode and compiled stand-alone both ways (-D_MSC_VER / not).
 (d) StringEncoding.escape_char for all 256 bytes as 'c' literals (reader + gcc + g++).
 (r) reader conformance: every "body" of length <= 4 over { \\ ? / " ' 0 7 8 x a n = ( } that the reader accepts is
     compiled by gcc and g++ (hand-written literals incl. trigraphs, short octal, hex escapes - the shapes a
     broken escaper would emit), so that the reader is known to see what a conforming compiler sees.
"""
import os, itertools, subprocess, struct, types
from vlib import farm

LEVEL = 'model_checking'
ENGINE = 'E1 pyexplore'
TECHNIQUE = 'exhaustive small byte strings through the real escaper/splitter, read back by a reference C-literal reader validated against gcc and g++'
LEVEL_TEXT = ('All byte strings of length <= 2 (thorough <= 3) and all strings of length <= 4 (thorough <= 5) over a 17-symbol adversarial '
              'alphabet are escaped and split by the real StringEncoding functions and read back by a reference C-literal reader; '
              'split_string_literal is run for every limit 6..12 on all strings of <= 7 (thorough 9) escape units and with the real '
              'limit on every escape kind at every offset around the chunk boundaries and on backslash runs of 1..2010; the _MSC_VER '
              'char-array branch and escape_char for all 256 bytes are read back too.  The reader is validated against gcc -std=c99 '
              '-trigraphs and g++ -std=c++14 -trigraphs on all strings of length <= 2, the boundary cases and on hand-written literal bodies.')
LEVEL_NOTE = ('Bounded string length / alphabet; MSVC itself is not available (its branch is compiled with gcc -D_MSC_VER).  Trusted: '
              'gcc/g++ 12 as the conforming compilers and, for inputs not compiled, the reference reader (validated against them).  '
              'Design bullets shrunk: unit strings for the split family are <= 7/9 units instead of length <= 2L (5**24 is infeasible); '
              'thorough adversarial length 5 instead of 6.')

ADV = [b'\\', b'?', b'"', b"'", b'/', b'=', b'(', b'0', b'7', b'8', b'x', b'a', b'\n', b'\0', b'\x7f', b'\x80', b'\xff']
UNITS = ['\\\\', '\\"', '\\377', 'a', '?']
UNIT_BYTES = {'\\\\': b'\\', '\\"': b'"', '\\377': b'\xff', 'a': b'a', '?': b'?'}
RBODY = ['\\', '?', '/', '"', "'", '0', '7', '8', 'x', 'a', 'n', '=', '(']


# ---------------------------------------------------------------------------- reference reader
class CLitError(Exception):
    pass


_TRI = {'=': '#', '(': '[', '/': '\\', ')': ']', "'": '^', '<': '{', '!': '|', '>': '}', '-': '~'}
_SIMPLE = {'n': 10, 't': 9, 'r': 13, 'a': 7, 'b': 8, 'f': 12, 'v': 11, '\\': 92, '"': 34, "'": 39, '?': 63}


def _phases12(src):
    out = []
    i = 0
    n = len(src)
    while i < n:
        if src[i] == '?' and i + 2 < n and src[i + 1] == '?' and src[i + 2] in _TRI:
            out.append(_TRI[src[i + 2]])
            i += 3
        else:
            out.append(src[i])
            i += 1
    return ''.join(out).replace('\\\n', '')


def _read_one(s, i, quote):
    """s[i] is the opening quote; returns (list of byte values, index after the closing quote)."""
    n = len(s)
    i += 1
    vals = []
    while True:
        if i >= n or s[i] == '\n':
            raise CLitError('unterminated literal')
        c = s[i]
        if c == quote:
            return vals, i + 1
        if c != '\\':
            if ord(c) > 127:
                raise CLitError('non-ASCII source character')
            vals.append(ord(c))
            i += 1
            continue
        i += 1
        if i >= n:
            raise CLitError('unterminated escape')
        c = s[i]
        if c in _SIMPLE:
            vals.append(_SIMPLE[c])
            i += 1
        elif c in '01234567':
            j = i
            v = 0
            while j < n and j < i + 3 and s[j] in '01234567':
                v = v * 8 + int(s[j])
                j += 1
            if v > 255:
                raise CLitError('octal escape out of range')
            vals.append(v)
            i = j
        elif c == 'x':
            j = i + 1
            v = 0
            while j < n and s[j] in '0123456789abcdefABCDEF':
                v = v * 16 + int(s[j], 16)
                j += 1
            if j == i + 1:
                raise CLitError('\\x without digits')
            if v > 255:
                raise CLitError('hex escape out of range')
            vals.append(v)
            i = j
        else:
            raise CLitError('unknown escape \\%s' % c)


def c_read_string(src):
    """Value (bytes, without the terminating NUL) of a sequence of adjacent string literals."""
    s = _phases12(src)
    i = 0
    n = len(s)
    vals = []
    seen = False
    while i < n:
        if s[i] in ' \t\n':
            i += 1
        elif s[i] == '"':
            v, i = _read_one(s, i, '"')
            vals.extend(v)
            seen = True
        else:
            raise CLitError('unexpected %r between literals' % s[i])
    if not seen:
        raise CLitError('no literal')
    return bytes(vals)


def c_read_chararray(src):
    """Value of  {'a','\\\\n',...}  (a brace-enclosed list of character constants)."""
    s = _phases12(src).strip()
    if not (s.startswith('{') and s.endswith('}')):
        raise CLitError('not a brace list')
    s = s[1:-1]
    i = 0
    n = len(s)
    vals = []
    while i < n:
        if s[i] in ' \t\n,':
            i += 1
        elif s[i] == "'":
            v, i = _read_one(s, i, "'")
            if len(v) != 1:
                raise CLitError('character constant with %d characters' % len(v))
            vals.append(v[0])
        else:
            raise CLitError('unexpected %r in char array' % s[i])
    return bytes(vals)


# ---------------------------------------------------------------------------- implementation access
def emit(b, limit=None):
    from Cython.Compiler import StringEncoding as SE
    esc = SE.escape_byte_string(b)
    if limit is None:
        return '"%s"' % SE.split_string_literal(esc)
    return '"%s"' % SE.split_string_literal(esc, limit)


def judge_emit(b, limit=None):
    """None or (class, description) for input bytes b."""
    try:
        lit = emit(b, limit)
    except Exception as e:
        return ('exception:%s' % type(e).__name__, 'escape/split raised %s: %s' % (type(e).__name__, e))
    try:
        got = c_read_string(lit)
    except CLitError as e:
        return ('ill-formed', 'literal %s is not a well-formed C string literal: %s' % (_short(lit), e))
    if got != b:
        return ('value', 'literal %s denotes %r, not %r' % (_short(lit), _shortb(got), _shortb(b)))
    return None


def judge_split(esc, limit, want):
    """split_string_literal on an already escaped text; returns (None or (class, description), split happened)."""
    from Cython.Compiler import StringEncoding as SE
    sp = None
    try:
        sp = SE.split_string_literal(esc, limit)
        got = c_read_string('"%s"' % sp)
        if got == want:
            return None, int('""' in sp)
        return ('value', 'split_string_literal(%r, %d) = %r denotes %r, not %r' % (_short(esc), limit, _short(sp), _shortb(got), _shortb(want))), 1
    except CLitError as e:
        return ('ill-formed', 'split_string_literal(%r, %d) = %r is not a well-formed literal: %s' % (_short(esc), limit, _short(sp), e)), 1
    except Exception as e:
        return ('exception:%s' % type(e).__name__, 'split_string_literal(%r, %d) raised %s: %s' % (_short(esc), limit, type(e).__name__, e)), 0


def _short(s):
    return s if len(s) <= 120 else '%s...[%d chars]...%s' % (s[:50], len(s), s[-50:])


def _shortb(b):
    return b if len(b) <= 40 else b[:16] + b'...[%d]...' % len(b) + b[-16:]


def byte_class(v):
    if v == 92:
        return 'backslash'
    if v == 63:
        return 'question'
    if v == 34:
        return 'dquote'
    if v == 39:
        return 'squote'
    if v < 32:
        return 'ctrl'
    if v >= 127:
        return 'high'
    if 48 <= v <= 57:
        return 'digit'
    if chr(v) in '/=()<>!-':
        return 'trigraph3rd'
    return 'plain'


def signature(b):
    out = []
    for v in b:
        c = byte_class(v)
        if not out or out[-1] != c:
            out.append(c)
    if len(out) > 6:
        out = out[:3] + ['..'] + out[-2:]
    return '+'.join(out) or 'empty'


def sigset(b):
    return '+'.join(sorted({byte_class(v) for v in b} - {'plain'})) or 'plain'


def _still(fam, b, limit, cls, units):
    if fam == 'split':
        esc = ''.join(units)
        want = b''.join(UNIT_BYTES[u] for u in units)
        bad, _ = judge_split(esc, limit, want)
    else:
        bad = judge_emit(b, limit)
    return bool(bad) and bad[0] == cls


def _split_units(esc):
    out = []
    i = 0
    while i < len(esc):
        for u in UNITS:
            if esc.startswith(u, i):
                out.append(u)
                i += len(u)
                break
        else:
            raise ValueError(esc)
    return out


def reduce_fail(fam, b, limit, cls, escaped):
    """Delta-minimise a failing input (drop elements, then replace elements by 'a') keeping the divergence class."""
    if fam == 'split':
        items = _split_units(escaped)
        plain = 'a'
    else:
        items = [bytes([v]) for v in b]
        plain = b'a'
    if sum(1 for x in items if x != plain) > 48:
        return b, escaped

    def ok(it):
        if fam == 'split':
            return _still(fam, None, limit, cls, it)
        return _still(fam, b''.join(it), limit, cls, None)
    changed = True
    while changed:
        changed = False
        if len(items) <= 64:
            for i in range(len(items)):
                cand = items[:i] + items[i + 1:]
                if cand and ok(cand):
                    items = cand
                    changed = True
                    break
            if changed:
                continue
        for i in range(len(items)):
            if items[i] != plain:
                cand = items[:i] + [plain] + items[i + 1:]
                if ok(cand):
                    items = cand
                    changed = True
                    break
    if fam == 'split':
        return b''.join(UNIT_BYTES[u] for u in items), ''.join(items)
    return b''.join(items), None


# ---------------------------------------------------------------------------- pure-Python families (parallel jobs)
def all_bytes(n):
    for k in range(n + 1):
        for t in itertools.product(range(256), repeat=k):
            yield bytes(t)


def _job(arg):
    kind = arg[0]
    res = {'n': 0, 'fails': [], 'nfail': 0, 'splits': 0, 'maxchunk': 0, 'classes': set()}

    keep = {}

    def note(fam, b, limit, bad, escaped=None):
        res['nfail'] += 1
        k = (fam, bad[0], sigset(b))
        cur = keep.get(k)
        if cur is None and len(keep) >= 80:
            return
        if cur is None or (len(b), b) < (len(cur[1]), cur[1]):
            keep[k] = (fam, b, limit, bad[0], bad[1], escaped)
    if kind == 'bytes':
        _, first, n = arg           # all strings of length <= n starting with byte `first` (plus the empty string once)
        if first == 0:
            res['n'] += 1
            bad = judge_emit(b'')
            if bad:
                note('bytes', b'', None, bad)
        for k in range(0, n):
            for t in itertools.product(range(256), repeat=k):
                b = bytes((first,) + t)
                res['n'] += 1
                bad = judge_emit(b)
                if bad:
                    note('bytes', b, None, bad)
        res['classes'].add(byte_class(first))
    elif kind == 'adv':
        _, first, n = arg
        for k in range(0, n):
            for t in itertools.product(ADV, repeat=k):
                b = first + b''.join(t)
                res['n'] += 1
                bad = judge_emit(b)
                if bad:
                    note('adv', b, None, bad)
    elif kind == 'split':
        _, limit, first, n = arg     # unit strings starting with unit `first`, <= n units
        from Cython.Compiler import StringEncoding as SE
        for k in range(0, n):
            for t in itertools.product(UNITS, repeat=k):
                units = (first,) + t
                esc = ''.join(units)
                want = b''.join(UNIT_BYTES[u] for u in units)
                res['n'] += 1
                bad, did_split = judge_split(esc, limit, want)
                res['splits'] += did_split
                if bad:
                    note('split', want, limit, bad, esc)
    elif kind == 'runs':
        _, lo, hi = arg
        for n in range(lo, hi):
            for b in (b'\\' * n, b'a' + b'\\' * n, b'\\' * n + b'"', b'\\' * n + b'\xff'):
                res['n'] += 1
                bad = judge_emit(b)
                if bad:
                    note('runs', b, None, bad)
    res['classes'] = sorted(res['classes'])
    res['fails'] = list(keep.values())
    return res


def boundary_strings():
    """Real limit 2000: every escape kind ending at 2000*k + d."""
    kinds = {'backslash': b'\\', 'dquote': b'"', 'octal-high': b'\xff', 'octal-ctrl': b'\x01', 'newline': b'\n',
             'qq': b'??', 'squote': b"'", 'plain': b'a'}
    from Cython.Compiler import StringEncoding as SE
    out = []
    for name, e in kinds.items():
        elen = len(SE.escape_byte_string(e))
        for k in (1, 2):
            for d in range(-8, 9):
                pad = 2000 * k + d - elen
                for tail in (b'', b'zz', e * 3):
                    out.append(('boundary:%s' % name, b'a' * pad + e + tail))
                # the same with the escape preceded by a backslash run of 1..3
                for r in (1, 2, 3):
                    pad2 = 2000 * k + d - elen - 2 * r
                    out.append(('boundary:bs%d+%s' % (r, name), b'a' * pad2 + b'\\' * r + e + b'q'))
    return out


# ---------------------------------------------------------------------------- compiler conformance
MAIN = r'''
#include <stdio.h>
struct E { const char *p; unsigned long n; };
static const struct E T[] = { %s };
int main(void) {
    unsigned long i;
    for (i = 0; i < sizeof(T) / sizeof(T[0]); i++) {
        unsigned long n = T[i].n;
        fwrite(&n, sizeof(n), 1, stdout);
        fwrite(T[i].p, 1, n, stdout);
    }
    return 0;
}
'''


def _compile_job(arg):
    """Compile initialisers with one compiler and dump the bytes.  Returns list of bytes (or an error string)."""
    workdir, name, inits, compiler, defines = arg
    ext = '.c' if compiler == 'gcc' else '.cpp'
    src = os.path.join(workdir, name + ext)
    exe = os.path.join(workdir, name + '.' + compiler + '.exe')
    with open(src, 'w', encoding='latin-1', newline='\n') as f:
        for i, init in enumerate(inits):
            f.write('static const char s%d[] = %s;\n' % (i, init))
        f.write(MAIN % ', '.join('{s%d, sizeof(s%d)}' % (i, i) for i in range(len(inits))))
    std = ['-std=c99'] if compiler == 'gcc' else ['-std=c++14']
    cmd = [compiler] + std + ['-trigraphs', '-w', '-O0'] + list(defines) + [src, '-o', exe]
    p = subprocess.run(cmd, stdout=subprocess.PIPE, stderr=subprocess.STDOUT, text=True, errors='replace')
    if p.returncode != 0:
        return 'compile error (%s): %s' % (compiler, p.stdout[-1500:])
    p = subprocess.run([exe], stdout=subprocess.PIPE, stderr=subprocess.PIPE)
    if p.returncode != 0:
        return 'dump program failed rc=%d' % p.returncode
    data = p.stdout
    out = []
    pos = 0
    for _ in inits:
        (n,) = struct.unpack_from('L', data, pos)
        pos += 8
        out.append(data[pos:pos + n])
        pos += n
    os.unlink(exe)
    os.unlink(src)
    return out


def compile_values(ctx, tag, inits, defines=(), per=3000):
    """Values of the initialisers under gcc and g++: returns (list gcc, list g++), entries bytes or error str."""
    wd = ctx.workdir('cc')
    jobs = []
    for comp in ('gcc', 'g++'):
        for i in range(0, len(inits), per):
            jobs.append((wd, '%s_%d' % (tag, i // per), inits[i:i + per], comp, tuple(defines)))
    res = farm.pmap(_compile_job, jobs)
    out = {'gcc': [], 'g++': []}
    for job, r in zip(jobs, res):
        n = len(job[2])
        if isinstance(r, str):
            out[job[3]].extend([r] * n)
        else:
            out[job[3]].extend(r)
    return out['gcc'], out['g++']


class _CodeConfig:
    emit_linenums = False
    emit_code_comments = False
    c_line_in_traceback = False


class _GS:
    code_config = _CodeConfig()


def write_cstring_const(b, name='k'):
    from Cython.Compiler import Code
    w = Code.CCodeWriter()
    gs = _GS()
    if hasattr(Code, 'CCodeConfig'):
        gs.code_config = Code.CCodeConfig(emit_linenums=False, emit_code_comments=False)
    w.set_global_state(gs)
    Code._write_escaped_cstring_const(w, b, name)
    return w.getvalue()


def parse_const_output(text, name='k'):
    """Split the output of _write_cstring_const into {'msvc': init, 'other': init} (or {'plain': init})."""
    lines = [l for l in text.split('\n') if l.strip()]
    head = 'static const char %s[] = ' % name

    def init(line):
        line = line.strip()
        if not (line.startswith(head) and line.endswith(';')):
            raise CLitError('unexpected declaration line %s' % _short(line))
        return line[len(head):-1]
    if len(lines) == 1:
        return {'plain': init(lines[0])}
    if len(lines) == 5 and lines[0].strip() == '#ifdef _MSC_VER' and lines[2].strip() == '#else' and lines[4].strip() == '#endif':
        return {'msvc': init(lines[1]), 'other': init(lines[3])}
    raise CLitError('unexpected shape of _write_cstring_const output (%d lines)' % len(lines))


# ---------------------------------------------------------------------------- run
def run(ctx):
    thorough = not ctx.quick
    nb = 3 if thorough else 2
    nadv = 5 if thorough else 4
    nunits = 9 if thorough else 7
    viol = {}           # key -> [what, case, count]
    counts = {'states': 0, 'transitions': 0, 'validated': 0}
    fam_counts = {}

    raw = {}            # (family, class, class-set of the input) -> [smallest input record, count]

    def report(fam, b, limit, cls, what, escaped=None):
        k = (fam, cls, sigset(b))
        cur = raw.get(k)
        if cur is None or (len(b), b) < (len(cur[0][1]), cur[0][1]):
            raw[k] = [(fam, b, limit, cls, what, escaped), (cur[1] if cur else 0) + 1]
        else:
            cur[1] += 1

    # ---- (a), (b) pure-Python families
    jobs = [('bytes', first, nb) for first in range(256)]
    jobs += [('adv', first, nadv) for first in ADV]
    for L in range(6, 13):
        jobs += [('split', L, u, nunits) for u in UNITS]
    jobs += [('runs', lo, min(lo + 100, 2011)) for lo in range(1, 2011, 100)]
    if ctx.seed:
        import random
        random.Random(ctx.seed).shuffle(jobs)
    ctx.log('%d enumeration jobs' % len(jobs))
    res = farm.pmap(_job, jobs)
    splits = 0
    raw_fail_total = 0
    for job, r in zip(jobs, res):
        fam = job[0] if job[0] != 'split' else 'split'
        fam_counts[fam] = fam_counts.get(fam, 0) + r['n']
        counts['states'] += r['n']
        counts['transitions'] += r['n']
        splits += r['splits']
        for f, b, limit, cls, what, escaped in r['fails']:
            report(f, b, limit, cls, what, escaped)
        raw_fail_total += r['nfail']
    ctx.log('python families done: %s' % fam_counts)

    # ---- boundary family with the real limit (reader), later also compiled
    bstr = boundary_strings()
    for fam, b in bstr:
        counts['states'] += 1
        counts['transitions'] += 1
        bad = judge_emit(b)
        if bad:
            report(fam.split(':')[0], b, None, bad[0], '%s: %s' % (fam, bad[1]))
    fam_counts['boundary'] = len(bstr)

    # ---- conformance: emitted literals compiled by gcc and g++
    conf = []          # (family, input bytes or None, initialiser text, mode)
    for b in all_bytes(2):
        conf.append(('cc-bytes', b, None))
    for k in range(0, 4):
        for t in itertools.product(ADV, repeat=k):
            conf.append(('cc-adv', b''.join(t), None))
    for fam, b in bstr:
        if b[-1:] != b'q' or fam.startswith('boundary:bs2') or thorough:
            conf.append(('cc-' + fam.split(':')[0], b, None))
    for n in list(range(990, 1012)) + list(range(1990, 2011)):
        conf.append(('cc-runs', b'\\' * n, None))
    inits = []
    keep = []
    for fam, b, _ in conf:
        try:
            lit = emit(b)
        except Exception as e:
            report(fam, b, None, 'exception:%s' % type(e).__name__, 'escape/split raised %s' % e)
            continue
        try:
            rv = c_read_string(lit)
        except CLitError as e:
            # an ill-formed literal would only break the whole batch; it is a violation by the reader's verdict alone
            report(fam, b, None, 'ill-formed', 'literal %s is not a well-formed C string literal: %s' % (_short(lit), e))
            continue
        inits.append(lit)
        keep.append((fam, b, rv))
    ctx.log('compiling %d emitted literals with gcc and g++' % len(inits))
    g1, g2 = compile_values(ctx, 'emit', inits)
    batch_errors = set()
    for (fam, b, rv), lit, v1, v2 in zip(keep, inits, g1, g2):
        counts['validated'] += 2
        counts['transitions'] += 2
        for comp, v in (('gcc', v1), ('g++', v2)):
            if isinstance(v, str):
                if v not in batch_errors:       # one report per failed batch: the reader accepted something the compiler rejects
                    batch_errors.add(v)
                    report('reader-conformance', b'', None, 'compile-error:' + comp, 'a batch of emitted literals the reader accepts does not compile: %s' % v[:600])
            else:
                if v != b + b'\0':
                    report(fam, b, None, 'value', '%s reads literal %s as %r, input was %r' % (comp, _short(lit), _shortb(v[:-1]), _shortb(b)))
                if rv != v[:-1]:
                    report('reader-conformance', b, None, 'reader-vs-' + comp, 'reference reader gives %r for %s, %s gives %r' % (_shortb(rv), _short(lit), comp, _shortb(v[:-1])))
    fam_counts['compiled_emitted'] = len(inits)

    # ---- (r) reader conformance on hand-written bodies
    bodies = []
    for k in range(0, 5):
        for t in itertools.product(RBODY, repeat=k):
            body = ''.join(t)
            try:
                val = c_read_string('"%s"' % body)
            except CLitError:
                continue
            bodies.append((body, val))
    # two adjacent literals: concatenation happens after escape processing ("\1" "7" is two characters)
    for a in ['\\1', '\\x4', '\\', '?', '??', 'a']:
        for b2 in ['7', '1', '?/', '/', '"', 'n', "?'"]:
            src = '"%s" "%s"' % (a, b2)
            try:
                bodies.append((None, c_read_string(src), src))
            except CLitError:
                pass
    rinits = [('"%s"' % x[0]) if x[0] is not None else x[2] for x in bodies]
    ctx.log('reader conformance: compiling %d hand-written literals' % len(rinits))
    r1, r2 = compile_values(ctx, 'reader', rinits)
    rejected_by_cc = 0
    for x, lit, v1, v2 in zip(bodies, rinits, r1, r2):
        counts['validated'] += 2
        counts['transitions'] += 2
        for comp, v in (('gcc', v1), ('g++', v2)):
            if isinstance(v, str):
                rejected_by_cc += 1
                if v not in batch_errors:
                    batch_errors.add(v)
                    report('reader-conformance', b'', None, 'compile-error:' + comp, 'a batch of hand-written literals the reader accepts does not compile: %s' % v[:600])
            elif v[:-1] != x[1]:
                report('reader-conformance', lit.encode('latin-1'), None, 'reader-vs-%s' % comp,
                       'reference reader gives %r for %s, %s gives %r' % (x[1], lit, comp, v[:-1]))
    fam_counts['reader_bodies'] = len(rinits)
    counts['states'] += len(rinits)

    # ---- (d) escape_char
    from Cython.Compiler import StringEncoding as SE
    cinits = []
    for v in range(256):
        counts['states'] += 1
        counts['transitions'] += 1
        b = bytes([v])
        try:
            esc = SE.escape_char(b)
            cinits.append("{'%s'}" % esc)
            got = c_read_chararray(cinits[-1])
            if got != b:
                report('escape_char', b, None, 'value', "escape_char(%r) = %r denotes %r" % (b, esc, got))
        except CLitError as e:
            report('escape_char', b, None, 'ill-formed', "escape_char(%r) = %r is not a well-formed character constant: %s" % (b, esc, e))
        except Exception as e:
            cinits.append("{'?'}")
            report('escape_char', b, None, 'exception:%s' % type(e).__name__, 'escape_char(%r) raised %s' % (b, e))
    c1, c2 = compile_values(ctx, 'chr', cinits)
    for v, (v1, v2) in enumerate(zip(c1, c2)):
        counts['validated'] += 2
        for comp, got in (('gcc', v1), ('g++', v2)):
            if isinstance(got, str):
                report('escape_char', bytes([v]), None, 'compile-error', '%s: %s' % (comp, got[:300]))
            elif got != bytes([v]):
                report('escape_char', bytes([v]), None, 'value', '%s reads %s as %r' % (comp, cinits[v], got))
    fam_counts['escape_char'] = 256

    # ---- (c) _write_cstring_const, both branches
    allb = bytes(range(256))
    longs = [('allbytes', (allb * 257)[:65536]), ('allbytes+1', (allb * 258)[:65537 + 255]),
             ('backslash-quote', (b'\\"\'?' * 16400)[:65540]), ('short', allb)]
    minits = []
    mexp = []
    for tag, b in longs:
        counts['states'] += 1
        try:
            parts = parse_const_output(write_cstring_const(b))
        except Exception as e:
            report('write_const', b, None, 'exception:%s' % type(e).__name__, '_write_cstring_const(%s): %s' % (tag, e))
            continue
        if (len(b) >= 65536) != ('msvc' in parts):
            report('write_const', b, None, 'branch', '_write_cstring_const(%s, len %d) chose branches %s' % (tag, len(b), sorted(parts)))
        for branch, init in parts.items():
            counts['transitions'] += 1
            try:
                got = c_read_chararray(init) if branch == 'msvc' else c_read_string(init)
            except CLitError as e:
                report('write_const', b, None, 'ill-formed', '%s branch of %s: %s' % (branch, tag, e))
                continue
            if got != b:
                report('write_const', b, None, 'value', '%s branch of %s denotes %d bytes differing from the input' % (branch, tag, len(got)))
            minits.append(init)
            mexp.append((tag, branch, b))
    m1, m2 = compile_values(ctx, 'wconst', minits, per=1)
    for (tag, branch, b), v1, v2 in zip(mexp, m1, m2):
        counts['validated'] += 2
        want = b if branch == 'msvc' else b + b'\0'
        for comp, got in (('gcc', v1), ('g++', v2)):
            if isinstance(got, str):
                report('write_const', b, None, 'compile-error', '%s branch of %s: %s: %s' % (branch, tag, comp, got[:300]))
            elif got != want:
                report('write_const', b, None, 'value', '%s reads the %s branch of %s as %d bytes differing from the input' % (comp, branch, tag, len(got)))
    # the real preprocessor selection with -D_MSC_VER
    sel = write_cstring_const(longs[0][1], 's0')
    wd = ctx.workdir('cc')
    for define, want in ((['-D_MSC_VER=1900'], longs[0][1]), ([], longs[0][1] + b'\0')):
        src = os.path.join(wd, 'sel.c')
        with open(src, 'w', encoding='latin-1') as f:
            f.write(sel + MAIN % '{s0, sizeof(s0)}')
        exe = os.path.join(wd, 'sel.exe')
        p = subprocess.run(['gcc', '-std=c99', '-trigraphs', '-w'] + define + [src, '-o', exe], stdout=subprocess.PIPE, stderr=subprocess.STDOUT, text=True)
        counts['validated'] += 1
        if p.returncode != 0:
            report('write_const', longs[0][1], None, 'compile-error', 'whole #ifdef block %s: %s' % (define, p.stdout[-300:]))
            continue
        data = subprocess.run([exe], stdout=subprocess.PIPE).stdout
        if data[8:] != want:
            report('write_const', longs[0][1], None, 'value', 'whole #ifdef block compiled with %s gives %d bytes differing from the input' % (define, len(data) - 8))
    fam_counts['write_const'] = len(longs)

    # normalise: delta-minimise the smallest failing input of every (family, class, byte-class set) bucket; the key is
    # family | divergence class | byte classes that remain necessary
    reducible = ('bytes', 'adv', 'split', 'runs', 'boundary')
    for k in sorted(raw, key=lambda k: (k[0], k[1], len(raw[k][0][1]), k[2])):
        (fam, b, limit, cls, what, escaped), cnt = raw[k]
        rb, resc = b, escaped
        if fam in reducible and sum(1 for kk in raw if kk[:2] == k[:2]) <= 60:
            try:
                rb, resc = reduce_fail(fam, b, limit, cls, escaped)
            except Exception:
                rb, resc = b, escaped
        key = 'cstr|%s|%s|%s' % (fam, cls, sigset(rb))
        cur = viol.get(key)
        if cur is None:
            viol[key] = [what, {'family': fam, 'bytes_hex': rb.hex(), 'limit': limit, 'escaped': resc,
                                'found_as_hex': b.hex()[:400]}, cnt]
        else:
            cur[2] += cnt
    for key in sorted(viol):
        what, case, cnt = viol[key]
        ctx.violation(key, '%s  [%d cases in this bucket]' % (what, cnt), case)

    cov = {
        'states': counts['states'], 'transitions': counts['transitions'],
        'traces_validated_against_impl': counts['validated'],
        'family_sizes': fam_counts, 'raw_failures_python_families': raw_fail_total, 'splits_performed_in_split_family': splits,
        'reader_bodies_rejected_by_compilers': rejected_by_cc,
        'max_bytes_length': nb, 'adversarial_length': nadv, 'split_units': nunits, 'split_limits': list(range(6, 13)),
        'samples': [{'input_hex': b'a??/\\"\xff7'.hex(), 'literal': emit(b'a??/\\"\xff7')},
                    {'split': {'escaped': '\\\\\\\\\\377a?\\"', 'limit': 6,
                               'result': SE.split_string_literal('\\\\\\\\\\377a?\\"', 6)}},
                    {'escape_char': {'byte': 39, 'literal': "'%s'" % SE.escape_char(b"'")}}],
        'exhaustive': True,
    }
    return cov, ['gcc 12 -std=c99 -trigraphs and g++ 12 -std=c++14 -trigraphs are the conforming compilers',
                 'reference reader c_read_string/c_read_chararray (validated against both compilers in this run)']


def replay(ctx, case):
    b = bytes.fromhex(case['bytes_hex'])
    fam = case.get('family', '')
    if fam == 'escape_char':
        from Cython.Compiler import StringEncoding as SE
        esc = SE.escape_char(b)
        init = "{'%s'}" % esc
        g1, g2 = compile_values(ctx, 'rp', [init])
        try:
            rv = c_read_chararray(init)
        except CLitError as e:
            return 'escape_char(%r) = %r: %s' % (b, esc, e)
        if rv != b or g1[0] != b or g2[0] != b:
            return 'escape_char(%r) = %r: reader %r gcc %r g++ %r' % (b, esc, rv, g1[0], g2[0])
        return False
    if fam == 'write_const':
        parts = parse_const_output(write_cstring_const(b))
        for branch, init in parts.items():
            got = c_read_chararray(init) if branch == 'msvc' else c_read_string(init)
            if got != b:
                return '%s branch denotes different bytes' % branch
        return False
    if fam == 'reader-conformance':
        if not b:
            return 'batch-level compile failure (not attributable to one literal): re-run ./check C11'
        lit = b.decode('latin-1')
        g1, g2 = compile_values(ctx, 'rp', [lit])
        try:
            rv = c_read_string(lit)
        except CLitError as e:
            rv = 'reader error: %s' % e
        if isinstance(g1[0], str) or isinstance(g2[0], str) or rv != g1[0][:-1] or rv != g2[0][:-1]:
            return 'reader %r, gcc %r, g++ %r for %s' % (rv, g1[0], g2[0], lit)
        return False
    limit = case.get('limit')
    if fam == 'split':
        bad, _ = judge_split(case['escaped'], limit, b)
        return bad[1] if bad else False
    bad = judge_emit(b, limit)
    lit = None
    try:
        lit = emit(b, limit)
    except Exception:
        pass
    if lit is not None and limit is None:
        g1, g2 = compile_values(ctx, 'rp', [lit])
        for comp, v in (('gcc', g1[0]), ('g++', g2[0])):
            if isinstance(v, str):
                return '%s does not compile %s: %s' % (comp, _short(lit), v[:300])
            if v != b + b'\0':
                return '%s reads %s as %r, input %r' % (comp, _short(lit), _shortb(v[:-1]), _shortb(b))
    if bad:
        return bad[1]
    return False
