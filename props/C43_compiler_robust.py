"""C43 - the compiler never crashes and accepts all valid Python.

Three exhaustively enumerated program families (generators in props/_g12_gen.py), one oracle on EVERY input:

(a) grammar-bounded programs of a Python 3.12 statement/expression grammar (~220 simple and ~330 compound statement
    templates incl. every match pattern kind, ~330 expression templates): every statement kind alone in every context
    (def, async def, closure, class body, method, module level); every statement kind in every block slot of the
    structural compound statements (nesting 2; other compound headers with a reduced inner set); all ordered statement
    pairs of a reduced set in one block; every expression kind (parenthesised) in every expression slot of every
    statement/expression template; a def/generator/async def/class/lambda/comprehension closing over the header-bound
    names in every block slot of every compound statement incl. every match case.  CPython compile() decides validity
    of each program; valid ones are packed 240 per module (bisection on failure), invalid ones are compiled alone.
(b) literal-focused programs: integers of 1..5000 digits in every base, extreme floats, 10^5-char strings, every
    escape form x every prefix x every quote style, 47 nesting shapes at depth 20/50/90/200, 56 long chains.
(c) invalid inputs: every token-boundary truncation, single-token deletion and adjacent-token swap of a seed corpus of
    34 (.py/.pyx, quick) / 63 (thorough) programs; every byte of two small files replaced by NUL, 0xff, TAB, backslash
    and both quotes.

Oracle: the compiler returns within 60 CPU seconds (forked worker, CPU-time timer), no exception other than
CompileError leaves it, no "Compiler crash in"/InternalError/traceback text; the result is positioned errors
(file:line:col) or C code accepted by gcc -fsyntax-only (thorough: also a C++-mode pass with g++ over families
a1/a3/a6/b-nest/b-chain/c-seed; families (a)/(b) have the same bounds in both tiers).  A family (a)/(b) text (and every
unmodified .py seed) that CPython's compile() accepts must compile without error, unless all errors are the three
deliberate rejections named by the property (allowlist; hit count reported).
"""
import os, re, sys, time, signal, subprocess, shutil, hashlib, collections, random
from vlib import farm, runner
from props import _g12_gen as G

# no thorough_cmd in the MANIFEST: the quick tier alone costs ~6400 worker-CPU-s (>= 13 min at VERIF_JOBS=8 on an idle box); a timed
# run of the reduced thorough bound below (383 jobs = 1.4x quick) had not finished its first 48 of 383 jobs after 15 min at load ~30
NO_THOROUGH = True
LEVEL = 'exploration'
ENGINE = 'E1 pyexplore'
TECHNIQUE = 'exhaustive grammar-bounded program enumeration + complete token/byte mutation sweep, crash/rejection/C-acceptance oracle on every input'
LEVEL_TEXT = ('Every program of three finite families is compiled with the staged compiler in forked workers: (a) all '
              'programs of a bounded Python 3.12 statement/expression grammar (every statement kind in every context and in '
              'every block slot at nesting 2, all ordered statement pairs of a reduced set, every expression kind in every '
              'expression slot, a closure-making def/class/lambda/comprehension in every block slot of every compound '
              'statement incl. every match case), each validated by CPython compile() first; (b) literal-focused programs '
              '(1..5000-digit integers in every base, extreme floats, 10^5-char strings, every escape form x prefix x quote, '
              'nesting depth 20/50/90/200, chains of 300/1000); (c) every token-boundary truncation, token deletion and '
              'adjacent-token swap of a 34-program (quick) / 63-program (thorough) .py/.pyx seed corpus and every byte of two '
              'files replaced by 6 hostile bytes.  Oracle on every input: the compiler returns within 60 CPU s, raises nothing '
              'but CompileError, prints no internal-crash text, and yields positioned errors or C accepted by gcc -fsyntax-only '
              '(thorough: plus a C++-mode pass with g++ over families a1/a3/a6/b-nest/b-chain/seeds and gcc on every accepted mutant of '
              '(c); families (a)/(b) are identical in both tiers); CPython-valid inputs of (a)/(b) must be accepted unless only the three deliberate '
              'rejections fire.')
LEVEL_NOTE = ('Bounded grammar: blocks at nesting depth 2 hold one statement, depth-1 blocks at most two; expression pairs are '
              '(slot, parenthesised inner expression); the quick tier uses the structural compound set as outer statements at full '
              'inner width and reduced inner sets elsewhere; families (a)/(b) have the same bounds in both tiers (33 118 programs with '
              'family (c) quick); thorough adds exactly: the full 63-program seed corpus for (c), gcc on every accepted mutant, '
              'and a C++-mode pass (cython --cplus + g++) over families a1, a3, a6, b-nest, b-chain and the seeds; the wider '
              'grammar (nesting 3, unparenthesised insertion, 327 000 programs) does not fit the tier budget and is not run; '
              'quick runs gcc on families (a)/(b) and the seeds.  Only '
              'compile-time behaviour is checked (generated C is syntax/type-checked by gcc, not run).  Names are chosen so that the '
              'deliberate rejections (undeclared name, definitely-unbound local, del of a closure variable) are not produced on '
              'purpose; hits are allowlisted and counted.  By-design static-typing deviations are outside the alphabet and counted '
              'separately: operations on literals/displays of statically known type that always fail at run time ((1)[b], (1)(b), '
              'x: int = "s", a, b = "s", yield from 1) in the expression-slot family; annotating an already bound local; for mutants '
              'of family (c) acceptance is not demanded at all.  Inputs on which CPython itself crashes (nested comprehensions at '
              'depth >= 90) only get the no-crash oracle.  Attribute/subscript chains are capped at 300 (cubic compile time).  '
              'Trusted: CPython 3.12 compile() as validity reference, gcc/g++ 12, the pure-Python staged compiler (compiled .so '
              'builds of the compiler are not exercised).  Type-alias statements are out of the grammar.')

ALLOW = [re.compile(r"^undeclared name not builtin: "),
         re.compile(r"^local variable '.*' referenced before assignment$"),
         re.compile(r"^can not delete variable '.*' referenced in nested scope$")]
# By-design static-typing deviations (outside the alphabet): Cython infers the C / builtin type of literals, displays and
# typed builtin results and reports operations on them that are guaranteed to fail at run time.  Only honoured for the
# expression-slot families, where such an expression was put into a slot on purpose; counted in the evidence.
BYDESIGN = [re.compile(p) for p in (
    r"^Attempting to index non-array type ", r"^Calling non-function type ", r"^Cannot assign type '.*' to '.*'",
    r"^Deletion of non-Python, non-C\+\+ object", r"^async for loops not allowed on C/C\+\+ types",
    r"^need more than \d+ values? to unpack", r"^too many values to unpack", r"^yielding from non-Python object not supported")]
CRASH_TEXT = re.compile(r'Compiler crash in|InternalError|Internal compiler error|Traceback \(most recent call last\)|Compiler crash traceback')
PACK = 240
CY_TIMEOUT = 60          # CPU seconds (ITIMER_VIRTUAL) for one compiler run: independent of machine load


class _Timeout(BaseException):
    pass


def _alarm(signum, frame):
    raise _Timeout()


# ---------------------------------------------------------------------------- one compilation
def _norm_msg(m):
    m = re.sub(r"'[^']*'", "'_'", m)
    m = re.sub(r'"[^"]*"', '"_"', m)
    m = re.sub(r'\b[A-Za-z_]\w*_\d+\b', 'ID', m)
    m = re.sub(r'\d+', 'N', m)
    m = re.sub(r'(undeclared name not builtin: )\S+', r'\1_', m)
    return m[:110]


def _crash_key(tb):
    """exception type + innermost frame that lies in the compiler package."""
    frames = re.findall(r'File "[^"]*?/(Cython/[^"]+)", line \d+, in (\S+)', tb)
    lines = [l for l in tb.strip().split('\n') if l.strip()]
    exc = 'Exception'
    for l in reversed(lines):
        m = re.match(r'^([A-Za-z_][\w.]*)(?::\s|:$|$)', l.strip())
        if m and m.group(1).split('.')[-1][:1].isupper() and not l.startswith(' '):
            exc = m.group(1).split('.')[-1]
            break
    if exc == 'RecursionError':
        return 'RecursionError'          # the innermost frame is wherever the stack happened to run out
    fn = ('%s:%s' % (os.path.basename(frames[-1][0]), frames[-1][1])) if frames else '?'
    return '%s@%s' % (exc, fn)


def _c_norm(text, modname):
    text = re.sub(r'/\*.*?\*/', '', text, flags=re.S)
    text = text.replace(modname, 'M')
    text = re.sub(r'__PYX_ERR\(\d+, \d+,', '__PYX_ERR(', text)
    text = re.sub(r'\{\d+, \d+, \d+, \d+\}', '{}', text)
    return hashlib.sha1(text.encode('utf-8', 'replace')).hexdigest()


def compile_one(name, data, ext, wd, cplus=False, gcc=True, gcc_cache=None, want_c=False):
    """Compile one source (bytes).  Returns dict(status, ...):
    ok | errors (positioned; msgs) | internal | crashtext | unpositioned | cc | timeout."""
    d = os.path.join(wd, name)
    os.makedirs(d, exist_ok=True)
    src = os.path.join(d, name + ext)
    with open(src, 'wb') as f:
        f.write(data)
    old = signal.signal(signal.SIGVTALRM, _alarm)
    signal.setitimer(signal.ITIMER_VIRTUAL, CY_TIMEOUT)
    try:
        try:
            c_file, nerr, msgs, crashed = farm.cython_compile(src, cplus=cplus)
        finally:
            signal.setitimer(signal.ITIMER_VIRTUAL, 0)
            signal.signal(signal.SIGVTALRM, old)
    except _Timeout:
        shutil.rmtree(d, ignore_errors=True)
        return dict(status='timeout', key='compiler did not return', text='compiler did not return within %d CPU seconds' % CY_TIMEOUT)
    res = None
    if crashed:
        res = dict(status='internal', key=_crash_key(crashed), text=crashed[-3000:])
    elif CRASH_TEXT.search(msgs):
        res = dict(status='crashtext', key=_crash_key(msgs), text=msgs[-3000:])
    elif nerr or not c_file:
        pos = re.findall(r'^(?!warning:)[^\n]*?%s:(\d+):(\d+): ([^\n]*)$' % re.escape(name + ext), msgs, flags=re.M)
        if not pos:
            first = [l for l in msgs.strip().split('\n') if l.strip()]
            res = dict(status='unpositioned', key=_norm_msg(first[-1] if first else 'no message'), text=msgs[-2000:])
        else:
            res = dict(status='errors', msgs=[(int(l), int(c), m) for l, c, m in pos], text=msgs[-2000:])
    if res is not None:
        shutil.rmtree(d, ignore_errors=True)
        return res
    res = dict(status='ok')
    if want_c or gcc:
        with open(c_file, encoding='utf-8', errors='replace') as f:
            ctext = f.read()
        if want_c:
            res['helpers'] = set(re.findall(r'\b__Pyx_[A-Za-z]\w+', ctext))
        if gcc:
            h = _c_norm(ctext, name) if gcc_cache is not None else None
            if h is not None and h in gcc_cache:
                res['gcc_dedup'] = True
                out = gcc_cache[h]
            else:
                try:
                    p = subprocess.run(['g++' if cplus else 'gcc', '-fsyntax-only', '-w', '-I' + farm.PY_INC, c_file],
                                       stdout=subprocess.PIPE, stderr=subprocess.STDOUT, text=True, errors='replace', timeout=3600)
                    out = None if p.returncode == 0 else (p.stdout or 'rc=%d' % p.returncode)
                except subprocess.TimeoutExpired:
                    out = 'error: C compiler did not return within 3600 s'
                if h is not None:
                    gcc_cache[h] = out
            if out is not None:
                m = re.search(r'(?:fatal )?error: ([^\n]*)', out)
                k = m.group(1) if m else out.strip().split('\n')[-1]
                k = re.sub(r'; did you mean .*', '', k)
                # keep the CLASS of a generated identifier (user variable, temp, method def, label, ...), drop its instance
                k = re.sub(r'__pyx_(v|t|mdef|pf|pw|gb|n_u|n_s|n_b|k|kp|codeobj|L|f|e|tp|ptype|type|vtable|int|float|tuple)_?\w*',
                           lambda m: '__pyx_%s_X' % m.group(1), k)
                fn = re.search(r"In function [^_]{0,3}__pyx_([a-z]+)_", out)
                if fn:
                    k += ' [in %s]' % fn.group(1)
                k = re.sub(r'[‘’\']', "'", k)
                k = re.sub(r'\d+', 'N', k)[:100]
                res = dict(status='cc', key=k, text=out[:3000])
    shutil.rmtree(d, ignore_errors=True)
    return res


# ---------------------------------------------------------------------------- packed compilation with bisection
def _solve(state, blocks, rounds=0):
    """blocks: list of (pid, text).  Compile them as one module; on failure isolate the culprits.
    Appends (pid, result) for failing singletons to state['bad']; counts oks."""
    state['n'] += 1
    name = '%s_%d' % (state['name'], state['n'])
    starts, line = [], 1 + state['header'].count('\n')
    for pid, text in blocks:
        starts.append(line)
        line += text.count('\n')
    data = (state['header'] + ''.join(t for _, t in blocks)).encode('utf-8', 'surrogatepass')
    r = compile_one(name, data, state['ext'], state['wd'], cplus=state['cplus'], gcc=True, want_c=True)
    state['compiles'] += 1
    if r['status'] == 'ok':
        state['ok'] += len(blocks)
        state['helpers'] |= r['helpers']
        return
    if len(blocks) == 1:
        state['bad'].append((blocks[0][0], r))
        return
    culprits = set()
    if r['status'] == 'timeout':
        for b in blocks:              # no bisection through further timeouts: one run per block
            _solve(state, [b], 0)
        return
    if r['status'] == 'errors' and rounds < 3:
        import bisect
        for l, c, m in r['msgs']:
            culprits.add(max(0, bisect.bisect_right(starts, l) - 1))
    if culprits and len(culprits) < len(blocks):
        for i in sorted(culprits):
            _solve(state, [blocks[i]], 0)
        rest = [b for i, b in enumerate(blocks) if i not in culprits]
        before = len(state['bad'])
        _solve(state, rest, rounds + 1)
        return
    k = 4 if len(blocks) >= 16 else 2
    step = -(-len(blocks) // k)
    for i in range(0, len(blocks), step):
        _solve(state, blocks[i:i + step], 0)


_PRE = {}


def _preparse_ok(text):
    """Packing aid only (never a verdict): does the staged PARSER accept this block on its own?  Parse errors are fatal
    one-at-a-time errors, so blocks failing here are compiled alone instead of poisoning a pack round after round."""
    from io import StringIO
    from Cython.Compiler import Scanning, Parsing, Errors, TreeFragment
    if not _PRE:
        class PySrc(Scanning.StringSourceDescriptor):
            def is_python_file(self):
                return True
        _PRE['src'] = PySrc
    old = sys.stderr
    sys.stderr = StringIO()
    try:
        Errors.init_thread()
        ctx = TreeFragment.StringParseContext('pre')
        desc = _PRE['src']('pre.py', text)
        scope = ctx.find_module('pre', pos=(desc, 1, 0), need_pxd=False)
        sc = Scanning.PyrexScanner(StringIO(text), desc, source_encoding='UTF-8', scope=scope, context=ctx)
        Parsing.p_module(sc, 0, 'pre')
        return Errors.get_errors_count() == 0
    except BaseException:
        return False
    finally:
        sys.stderr = old


def _visibly_bound(src, name):
    """Is `name` "defined nowhere"?  Python's scoping rules applied to the ast: True iff the program reads the name and
    EVERY read has a binding of it (assignment, walrus target hoisted out of its comprehensions, parameter, import,
    def/class, except/with/for/match target) in its own scope or in an enclosing function/module scope (class scopes
    are skipped, comprehension targets stay private, names declared global resolve at module level only).
    A rejection "undeclared name not builtin" of such a name is not the deliberate one the property allows."""
    import ast
    try:
        tree = ast.parse(src if isinstance(src, str) else src.decode('utf-8', 'replace'))
    except Exception:
        return False

    class S:
        def __init__(self, kind, parent):
            self.kind, self.parent, self.bound, self.globals = kind, parent, set(), set()

    loads = []
    comps = (ast.ListComp, ast.SetComp, ast.DictComp, ast.GeneratorExp)

    def owner(sc):
        while sc.kind == 'comp':
            sc = sc.parent
        return sc

    def args_of(a):
        return [x.arg for x in a.posonlyargs + a.args + a.kwonlyargs] + [x.arg for x in (a.vararg, a.kwarg) if x]

    def visit(node, sc):
        if isinstance(node, (ast.FunctionDef, ast.AsyncFunctionDef)):
            sc.bound.add(node.name)
            for d in node.decorator_list + node.args.defaults + [x for x in node.args.kw_defaults if x]:
                visit(d, sc)
            for a in node.args.posonlyargs + node.args.args + node.args.kwonlyargs + [x for x in (node.args.vararg, node.args.kwarg) if x]:
                if a.annotation:
                    visit(a.annotation, sc)
            if node.returns:
                visit(node.returns, sc)
            inner = S('function', sc)
            inner.bound.update(args_of(node.args))
            for b in node.body:
                visit(b, inner)
        elif isinstance(node, ast.Lambda):
            for d in node.args.defaults + [x for x in node.args.kw_defaults if x]:
                visit(d, sc)
            inner = S('function', sc)
            inner.bound.update(args_of(node.args))
            visit(node.body, inner)
        elif isinstance(node, ast.ClassDef):
            sc.bound.add(node.name)
            for d in node.decorator_list + node.bases + [k.value for k in node.keywords]:
                visit(d, sc)
            inner = S('class', sc)
            for b in node.body:
                visit(b, inner)
        elif isinstance(node, comps):
            visit(node.generators[0].iter, sc)
            inner = S('comp', sc)
            for k, g in enumerate(node.generators):
                visit(g.target, inner)
                if k:
                    visit(g.iter, inner)
                for c in g.ifs:
                    visit(c, inner)
            for e in ([node.key, node.value] if isinstance(node, ast.DictComp) else [node.elt]):
                visit(e, inner)
        elif isinstance(node, ast.NamedExpr):
            owner(sc).bound.add(node.target.id)
            visit(node.value, sc)
        elif isinstance(node, ast.Name):
            if isinstance(node.ctx, ast.Store):
                sc.bound.add(node.id)
            elif isinstance(node.ctx, ast.Load) and node.id == name:
                loads.append(sc)
        elif isinstance(node, ast.Global):
            sc.globals.update(node.names)
        elif isinstance(node, (ast.Import, ast.ImportFrom)):
            for a in node.names:
                sc.bound.add((a.asname or a.name).split('.')[0])
        else:
            if isinstance(node, ast.ExceptHandler) and node.name:
                sc.bound.add(node.name)
            if isinstance(node, (ast.MatchAs, ast.MatchStar)) and node.name:
                sc.bound.add(node.name)
            if isinstance(node, ast.MatchMapping) and node.rest:
                sc.bound.add(node.rest)
            for ch in ast.iter_child_nodes(node):
                visit(ch, sc)

    top = S('module', None)
    visit(tree, top)
    if not loads:
        return False
    how = set()
    for sc in loads:
        o = sc
        if name in owner(sc).globals:
            if name not in top.bound:
                return False
            how.add('read in %s scope as declared global' % sc.kind)
            continue
        found = sc.kind if name in o.bound else None
        o = o.parent
        while o is not None and not found:
            if o.kind != 'class' and name in o.bound:
                found = o.kind
            o = o.parent
        if not found:
            return False
        how.add('read in %s scope, bound in %s scope' % (sc.kind, found))
    return '; '.join(sorted(how))


def _binding_shape(src, name):
    """Where the program binds `name` with an assignment expression: the chain of enclosing comprehension kinds
    (innermost first) and the kind of the owning scope - so that different scoping defects get different keys."""
    import ast
    try:
        tree = ast.parse(src if isinstance(src, str) else src.decode('utf-8', 'replace'))
    except Exception:
        return 'the name is bound in a visible scope'
    shapes = set()

    def walk(node, stack):
        if isinstance(node, ast.NamedExpr) and isinstance(node.target, ast.Name) and node.target.id == name:
            chain = []
            owner = 'module'
            for n in reversed(stack):
                if isinstance(n, (ast.ListComp, ast.SetComp, ast.DictComp)):
                    chain.append('comp')
                elif isinstance(n, ast.GeneratorExp):
                    chain.append('genexp')
                elif isinstance(n, (ast.FunctionDef, ast.AsyncFunctionDef, ast.Lambda)):
                    owner = 'function'
                    break
                elif isinstance(n, ast.ClassDef):
                    owner = 'class'
                    break
            shapes.add('walrus target in %s, %s scope' % ('<'.join(chain) or 'plain expression', owner))
        for ch in ast.iter_child_nodes(node):
            walk(ch, stack + [node])
    walk(tree, [])
    return '; '.join(sorted(shapes)) if shapes else 'the name is bound in a visible scope'


def _classify_valid(r, bydesign=False, src=None):
    """Result of a CPython-valid program -> (kind, key) or None when acceptable."""
    if r['status'] == 'ok':
        return None
    if r['status'] == 'errors':
        bad = [m for _, _, m in r['msgs'] if not any(a.search(m) for a in ALLOW)]
        if not bad and src is not None:
            # the allowlist covers names defined NOWHERE: a name CPython's symbol table binds in a visible scope is not one
            for _, _, m in r['msgs']:
                nm = m.split(': ', 1)[1].strip() if ALLOW[0].search(m) else None
                how = nm and _visibly_bound(src, nm)
                if how:
                    shape = _binding_shape(src, nm)
                    return ('reject', 'undeclared name not builtin: _ (%s)' % (how if shape.startswith('the name') else shape))
        if not bad:
            return ('allow', None)
        if bydesign and all(any(b.search(m) for b in BYDESIGN) for m in bad):
            return ('bydesign', None)
        return ('reject', _norm_msg(bad[0]))
    return (r['status'], r['key'])


def _classify_invalid(r):
    if r['status'] in ('ok', 'errors'):
        return None
    return (r['status'], r['key'])


def _cpython_ok_safe(src, risky):
    if not risky:
        return G.cpython_ok(src)
    r = runner.forked(G.cpython_ok, src, timeout=120)
    return r.value if r.kind == 'ok' else None       # None: CPython itself crashed -> validity undecided


def run_job(job):
    """A job is a list of programs of one family compiled by one worker.
    job = dict(id, kind='blocks'|'files', fam, cplus, items=[(pid, ext, data(str|bytes))], header, risky)
    Returns dict(counts, bad=[(pid, kind, key, text)], helpers, outcomes)."""
    t0 = time.process_time()
    ch0 = os.times()
    wd = os.path.join(os.environ['VERIF_SCRATCH_DIR'], 'c43', 'j%d' % job['id'])
    os.makedirs(wd, exist_ok=True)
    out = dict(id=job['id'], n=len(job['items']), preparse_failed=0, bydesign=0, valid=0, invalid=0, undecided=0, ok=0, allow=0, rejected_invalid=0, accepted_invalid=0,
               compiles=0, gcc_dedup=0, bad=[], helpers=set(), outcomes=collections.Counter())
    cplus = job.get('cplus', False)
    try:
        if job['kind'] == 'blocks':
            valid, other = [], []
            for pid, ext, text in job['items']:
                v = _cpython_ok_safe(text, job.get('risky')) if isinstance(text, str) else False
                if v:
                    valid.append((pid, text))
                else:
                    other.append((pid, text, v))
            out['valid'] = len(valid)
            solo = [b for b in valid if not _preparse_ok(b[1])] if len(valid) > 1 else []
            if solo:
                ids = {b[0] for b in solo}
                valid = [b for b in valid if b[0] not in ids]
            out['preparse_failed'] = len(solo)
            if valid or solo:
                st = dict(name='m%d' % job['id'], n=0, header=job.get('header', ''), ext='.py', wd=wd, cplus=cplus, compiles=0, ok=0,
                          bad=[], helpers=set())
                size = job.get('pack', PACK)
                for i in range(0, len(valid), size):
                    _solve(st, valid[i:i + size])
                for b in solo:
                    _solve(st, [b])
                out['compiles'] += st['compiles']
                out['ok'] += st['ok']
                out['helpers'] |= st['helpers']
                out['outcomes']['valid:ok'] += st['ok']
                texts = dict(valid + solo)
                for pid, r in st['bad']:
                    c = _classify_valid(r, bydesign=job['fam'].startswith('a5'), src=texts.get(pid))
                    if c is None:
                        out['ok'] += 1
                        out['outcomes']['valid:ok'] += 1
                    elif c[0] == 'allow':
                        out['allow'] += 1
                        out['outcomes']['valid:allowlisted ' + re.sub(r'_\d+', '_N', r['msgs'][0][2])[:90]] += 1
                    elif c[0] == 'bydesign':
                        out['bydesign'] += 1
                        out['outcomes']['valid:by-design static rejection ' + _norm_msg(r['msgs'][0][2])] += 1
                    else:
                        out['bad'].append((pid, c[0], c[1], r.get('text', '')))
            accepted = []
            for k, (pid, text, v) in enumerate(other):
                if v is None:
                    out['undecided'] += 1
                else:
                    out['invalid'] += 1
                packable = isinstance(text, str)
                data = text if isinstance(text, bytes) else (job.get('header', '') + text).encode('utf-8', 'surrogatepass')
                # the C of accepted-though-invalid blocks is checked in packs afterwards (one gcc run instead of one each)
                r = compile_one('s%d_%d' % (job['id'], k), data, '.py', wd, cplus=cplus, gcc=not packable)
                out['compiles'] += 1
                c = _classify_invalid(r)
                if c is None:
                    if r['status'] == 'ok':
                        out['accepted_invalid'] += 1
                        out['outcomes']['invalid:accepted'] += 1
                        if packable:
                            accepted.append((pid, text))
                    else:
                        out['rejected_invalid'] += 1
                        out['outcomes']['invalid:' + _norm_msg(r['msgs'][0][2])] += 1
                else:
                    out['bad'].append((pid, c[0], c[1], r.get('text', '')))
            if accepted:
                st = dict(name='x%d' % job['id'], n=0, header=job.get('header', ''), ext='.py', wd=wd, cplus=cplus, compiles=0, ok=0,
                          bad=[], helpers=set())
                for i in range(0, len(accepted), job.get('pack', PACK)):
                    _solve(st, accepted[i:i + job.get('pack', PACK)])
                out['compiles'] += st['compiles']
                for pid, r in st['bad']:
                    c = _classify_invalid(r)
                    if c is not None:
                        out['bad'].append((pid, c[0], c[1], r.get('text', '')))
        else:
            cache = {}
            for k, (pid, ext, data) in enumerate(job['items']):
                # family (c) carries the robustness oracle; acceptance is demanded of the unmodified .py seeds only
                # (mutants that happen to stay valid Python trip Cython's by-design static checks, e.g. len() without arguments)
                v = ext == '.py' and job['fam'] == 'c-seed' and G.cpython_ok(data)
                r = compile_one('f%d_%d' % (job['id'], k), data, ext, wd, cplus=cplus, gcc=job.get('gcc', True), gcc_cache=cache)
                out['compiles'] += 1
                if r.get('gcc_dedup'):
                    out['gcc_dedup'] += 1
                if v:
                    out['valid'] += 1
                    c = _classify_valid(r, src=data)
                    if c is None:
                        out['ok'] += 1
                        out['outcomes']['valid:ok'] += 1
                    elif c[0] == 'allow':
                        out['allow'] += 1
                        out['outcomes']['valid:allowlisted ' + re.sub(r'_\d+', '_N', r['msgs'][0][2])[:90]] += 1
                    else:
                        out['bad'].append((pid, c[0], c[1], r.get('text', '')))
                else:
                    out['invalid'] += 1
                    c = _classify_invalid(r)
                    if c is None:
                        if r['status'] == 'ok':
                            out['accepted_invalid'] += 1
                            out['outcomes']['invalid:accepted'] += 1
                        else:
                            out['rejected_invalid'] += 1
                            out['outcomes']['invalid:' + _norm_msg(r['msgs'][0][2])] += 1
                    else:
                        out['bad'].append((pid, c[0], c[1], r.get('text', '')))
    finally:
        shutil.rmtree(wd, ignore_errors=True)
    ch1 = os.times()
    out['cpu'] = (time.process_time() - t0) + (ch1.children_user + ch1.children_system - ch0.children_user - ch0.children_system)
    out['outcomes'] = dict(out['outcomes'])
    return out


# ---------------------------------------------------------------------------- enumeration -> jobs
GROUP = {'a': 'grammar', 'b': 'literal', 'c': 'mutant'}


def build_jobs(tier):
    """Returns (programs, jobs).  programs[pid] = (family, tag, ext, text|bytes)."""
    programs = []
    jobs = []

    def new_job(**kw):
        kw['id'] = len(jobs)
        jobs.append(kw)

    # (a)
    by_fam = collections.OrderedDict()
    # Bound of the thorough tier (the widened grammar - 327 000 programs, 1 668 packed jobs - is ~10x the tier budget):
    # families (a) and (b) are enumerated with the SAME bounds in both tiers; thorough adds the full 63-program seed
    # corpus for (c), gcc on every accepted mutant, and a C++-mode pass (cython --cplus + g++) over families
    # a1 / a3 / a6 / b-nest / b-chain / c-seed.
    gtier = 'quick'
    for fam, tag, ctxs, body in G.family_a(gtier) + G.family_closure(gtier) + G.family_scope(gtier):
        for c in ctxs:
            pid = len(programs)
            programs.append((fam, '[%s] %s' % (c, tag), '.py', G.wrap(c, pid, body)))
            by_fam.setdefault(fam, []).append(pid)
    for fam, pids in by_fam.items():
        for i in range(0, len(pids), PACK):
            new_job(kind='blocks', fam=fam, items=[(p, '.py', programs[p][3]) for p in pids[i:i + PACK]], header='')
    # (b)
    by_fam = collections.OrderedDict()
    for fam, tag, src in G.family_b(gtier):
        pid = len(programs)
        programs.append((fam, tag, '.py', src))
        by_fam.setdefault(fam, []).append(pid)
    per = {'b-int': (12, 12), 'b-float': (40, 40), 'b-escape': (60, 20), 'b-string': (2, 2), 'b-nest': (8, 8), 'b-chain': (4, 4)}
    for fam, pids in by_fam.items():
        n, pack = per[fam]
        for i in range(0, len(pids), n):
            new_job(kind='blocks', fam=fam, items=[(p, '.py', programs[p][3]) for p in pids[i:i + n]], header='', pack=pack,
                    risky=fam in ('b-nest', 'b-chain'))
    # (c)
    by_fam = collections.OrderedDict()
    for fam, tag, ext, data, seed in G.family_c(tier):
        pid = len(programs)
        programs.append((fam, tag, ext, data))
        by_fam.setdefault(fam, []).append(pid)
    for fam, pids in by_fam.items():
        for i in range(0, len(pids), 100):
            # quick: the C-acceptance half of the oracle is applied to the seeds only (gcc costs ~0.6 s per accepted mutant);
            # thorough applies it to every accepted mutant
            new_job(kind='files', fam=fam, items=[(p, programs[p][2], programs[p][3]) for p in pids[i:i + 100]],
                    gcc=(tier != 'quick' or fam == 'c-seed'))
    only = os.environ.get('C43_FAMILIES')        # debugging aid only: restricts the families (evidence then says exhaustive: false)
    if only:
        jobs = [j for j in jobs if j['fam'].startswith(tuple(only.split(',')))]
        for k, j in enumerate(jobs):
            j['id'] = k
    return programs, jobs


def warm_up(scratch):
    """Compile a few diverse seed programs in the parent so that forked workers inherit the scanner tables and the
    utility-code cache (a cold worker spends ~5 s on them).  Failures here are ignored: the same programs are inputs
    of family (c) and get reported there."""
    wd = os.path.join(scratch, 'c43', 'warm')
    texts = ['\n'.join(G.SEEDS_PY[:43]), G.SEEDS_PYX[0] + G.SEEDS_PYX[1], G.SEEDS_PYX[5], G.SEEDS_PYX[6], G.SEEDS_PYX[12]]
    for k, t in enumerate(texts):
        try:
            compile_one('warm%d' % k, t.encode(), '.py' if k == 0 else '.pyx', wd, gcc=False)
            compile_one('warmx%d' % k, t.encode(), '.py' if k == 0 else '.pyx', wd, gcc=False, cplus=True)
        except BaseException:
            pass
    shutil.rmtree(wd, ignore_errors=True)


def _as_text(x):
    return x if isinstance(x, str) else x.decode('utf-8', 'backslashreplace')


def run(ctx):
    os.makedirs(os.path.join(ctx.scratch, 'c43'), exist_ok=True)
    t0 = time.time()
    programs, jobs = build_jobs(ctx.tier)
    ctx.log('enumerated %d programs in %d jobs (%.1fs)' % (len(programs), len(jobs), time.time() - t0))
    warm_up(ctx.scratch)
    ctx.log('compiler warmed up')
    configs = [False] if ctx.quick else [False, True]
    alljobs = []
    for cplus in configs:
        for j in jobs:
            if cplus and not j['fam'].startswith(('a1', 'a3', 'a6', 'b-nest', 'b-chain', 'c-seed')):
                continue                      # the C++ pass covers one family per kind of generated code
            jj = dict(j)
            jj['cplus'] = cplus
            jj['id'] = len(alljobs)
            alljobs.append(jj)
    order = list(range(len(alljobs)))
    # biggest jobs first, seed permutes only the order among equals
    random.Random(ctx.seed).shuffle(order)
    order.sort(key=lambda i: -len(alljobs[i]['items']) if alljobs[i]['kind'] == 'blocks' else 0)
    results = []
    step = 48                                    # batches only to be able to log progress
    for b in range(0, len(order), step):
        results.extend(runner.run_cases(run_job, [alljobs[i] for i in order[b:b + step]], chunk=1, timeout=6 * 3600))
        ctx.log('jobs %d/%d done' % (min(b + step, len(order)), len(order)))
    tot = collections.Counter()
    outcomes = collections.Counter()
    helpers = set()
    fam_counts = collections.defaultdict(collections.Counter)
    viol = []
    for i, res in zip(order, results):
        job = alljobs[i]
        fam = job['fam']
        grp = GROUP[fam[0]] + ('-c++' if job['cplus'] else '')
        if res[0] != 'ok':
            # the whole worker died / hung / raised: attribute to the job (cannot happen when the oracle holds)
            kind = {'crash': 'signal %s' % res[1], 'timeout': 'worker timeout', 'exc': 'harness exception'}[res[0]]
            key = '%s|%s|%s' % (grp, 'process', kind)
            pid = job['items'][0][0]
            viol.append((key, '%s while compiling a job of family %s (%d programs): %s' % (kind, fam, len(job['items']), str(res[-1])[-400:]),
                         dict(job_programs=[_as_text(x[2]) for x in job['items']][:200], ext=job['items'][0][1], fam=fam, cplus=job['cplus'],
                              kind='job', pack=job.get('pack', PACK), header=job.get('header', ''), risky=bool(job.get('risky')))))
            continue
        r = res[1]
        for k in ('n', 'valid', 'invalid', 'undecided', 'ok', 'allow', 'rejected_invalid', 'accepted_invalid', 'compiles', 'gcc_dedup',
                  'preparse_failed', 'bydesign'):
            tot[k] += r[k]
            fam_counts[fam + ('-c++' if job['cplus'] else '')][k] += r[k]
        tot['cpu'] += r['cpu']
        fam_counts[fam + ('-c++' if job['cplus'] else '')]['cpu_s'] += int(round(r['cpu']))
        helpers |= r['helpers']
        for k, v in r['outcomes'].items():
            outcomes[k] += v
        for pid, kind, key, text in r['bad']:
            pfam, tag, ext, src = programs[pid]
            vkey = '%s|%s|%s' % (grp, {'internal': 'crash', 'crashtext': 'crash'}.get(kind, kind), key)
            viol.append((vkey, '%s [%s] %s: %s' % (kind, pfam, tag[:160], (text or '').strip().split('\n')[-1][:300]),
                         dict(source=_as_text(src), ext=ext, fam=pfam, tag=tag, cplus=job['cplus'], kind=kind, key=key,
                              binary=not isinstance(src, str), hexsource=src.hex() if isinstance(src, bytes) and len(src) < 4000 else None,
                              detail=(text or '')[-1500:])))
    for vkey, what, case in sorted(viol, key=lambda v: (v[0], len(v[2].get('source', '') or ''))):
        ctx.violation(vkey, what, case)
        outcomes['VIOLATION ' + vkey] += 1
    distinct = len(outcomes)
    samples = []
    for fam in ('a2-nest', 'a5-expr', 'a6-closure', 'b-nest', 'c-token', 'c-byte'):
        for p in programs:
            if p[0] == fam:
                samples.append({'family': fam, 'tag': p[1][:200], 'source': _as_text(p[3])[:400]})
                break
    cov = {
        'evaluations': tot['n'], 'distinct_nontrivial': distinct,
        'rule': 'every program of the three enumerated families is one evaluation (x2 in thorough: C and C++ mode for the '
                'code-generating families); distinct_nontrivial counts the distinct OUTCOME classes observed (accepted, each '
                'normalised error-message class, each allowlisted rejection class, each violation key) - programs with the same outcome class collapse',
        'programs': len(programs), 'jobs': len(alljobs), 'compilations': tot['compiles'],
        'cpython_valid': tot['valid'], 'cpython_invalid': tot['invalid'], 'cpython_crashed_on': tot['undecided'],
        'valid_accepted': tot['ok'], 'allowlist_hits': tot['allow'], 'by_design_static_rejections': tot['bydesign'], 'invalid_rejected_with_position': tot['rejected_invalid'],
        'invalid_accepted_c_ok': tot['accepted_invalid'], 'gcc_dedup_hits': tot['gcc_dedup'],
        'per_family': {k: dict(v) for k, v in sorted(fam_counts.items())},
        'distinct_outcomes': distinct, 'top_outcomes': dict(outcomes.most_common(40)),
        'reach': {'distinct___Pyx_helpers_in_emitted_C': len(helpers), 'sample': sorted(helpers)[:40]},
        'worker_cpu_s': round(tot['cpu'], 1), 'samples': samples, 'exhaustive': not os.environ.get('C43_FAMILIES'),
    }
    assumptions = ['CPython compile() decides validity; programs on which CPython itself crashes get only the no-crash oracle',
                   'generated C is checked by gcc/g++ -fsyntax-only, not executed',
                   'pure-Python staged compiler with default options, language_level=3']
    return cov, assumptions


def replay(ctx, case):
    wd = ctx.workdir('replay')
    os.environ.setdefault('VERIF_SCRATCH_DIR', ctx.scratch)
    if case.get('kind') == 'job':
        items = [(i, case['ext'], s) for i, s in enumerate(case['job_programs'])]
        job = dict(id=0, kind='blocks' if case['fam'][0] in 'ab' else 'files', fam=case['fam'], cplus=case['cplus'], items=items,
                   header=case.get('header', ''), pack=case.get('pack', PACK), risky=case.get('risky'))
        if job['kind'] == 'files':
            job['items'] = [(i, e, s.encode('utf-8', 'surrogatepass')) for i, e, s in items]
        r = runner.forked(run_job, job, timeout=1500)
        if r.kind != 'ok':
            return 'worker %s %r' % (r.kind, r.value)
        return ('%d violations in job' % len(r.value['bad'])) if r.value['bad'] else False
    if case.get('hexsource'):
        data = bytes.fromhex(case['hexsource'])
    else:
        data = case['source'].encode('utf-8', 'surrogatepass')
    valid = case['ext'] == '.py' and case.get('fam', 'a')[0] in 'ab' + ('c' if case.get('fam') == 'c-seed' else '') and _cpython_ok_safe(data, True)
    r = runner.forked(compile_one, 'replay', data, case['ext'], wd, cplus=case.get('cplus', False), timeout=600)
    if r.kind != 'ok':
        return 'compiler process %s %r' % (r.kind, r.value)
    c = _classify_valid(r.value, bydesign=case.get('fam', '').startswith('a5'), src=data) if valid else _classify_invalid(r.value)
    if c is None or c[0] == 'allow':
        return False
    return '%s %s: %s' % (c[0], c[1], r.value.get('text', '')[-600:])
