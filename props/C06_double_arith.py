"""C06 - C double arithmetic and float() parsing match CPython.

(a) Arithmetic: every operator/form cell (+ - * / // %, six comparisons, unary - + abs int round bool not
    truth-test float(); result returned directly / through a typed local / in-place; variable and constant
    right and left operands; double, mixed double/long, C float (thorough)) is its own compiled function and is run
    on ALL PAIRS of support.FLOATS (31 x 31) resp. all of FLOATS; the oracle is CPython float arithmetic on the
    same operands (a hand model of C semantics for the cdivision=True cells).
(b) float(x) for x statically typed str / bytes / bytearray / object: the COMPLETE product
    sign x intpart x frac x exponent of a numeric-literal grammar (underscores in every position, non-ASCII digits,
    missing parts), a list of inf/nan spellings and malformed forms, digit/underscore strings around the 40-byte
    stack-buffer boundary, each under every whitespace wrapper; oracle: CPython float() on the same object.
"""
import math, struct, random
from vlib import e2, support
from props._g3b_common import warm, Collector, permute, fcls as _fcls

LEVEL = 'exploration'
ENGINE = 'E2 diffexplore'
TECHNIQUE = ('exhaustive all-pairs sweep of compiled C double operators over the special-double alphabet and complete '
             'numeric-literal grammar product for float() parsing, compiled vs CPython float semantics')
LEVEL_TEXT = ('Every (operator, form, operand type) cell of typed double arithmetic/comparison/% // int() round() bool() is '
              'compiled as its own function and evaluated on all 961 ordered pairs of a 31-value special-double alphabet '
              '(+-0, +-inf, nan, subnormal, +-max, 2**53 neighbours, halves); float(x) with x typed str/bytes/bytearray/object '
              'is evaluated on the complete product sign(4) x intpart(10) x frac(6) x exponent(11) of a literal grammar plus '
              'inf/nan/malformed spellings and 40-byte-boundary strings, each under every whitespace wrapper; value, sign '
              'of zero, nan-ness, result type and exception type must equal CPython on the same operands.')
LEVEL_NOTE = ('Operands are a boundary alphabet, not all doubles; strings are a grammar product, not all strings.  `**` is '
              'left to C07.  cdivision=True cells are held to a hand model of C semantics (IEEE division, fmod, floor(a/b)), '
              'not to CPython.  C float cells (thorough) are modelled as CPython arithmetic on float32-rounded operands with the '
              'result rounded to float32.  long double is not covered.  Trusted: CPython 3.12 float, gcc/libm.')

F = support.FLOATS

ARITH = [('+', 'add'), ('-', 'sub'), ('*', 'mul'), ('/', 'div'), ('//', 'fdiv'), ('%', 'mod')]
CMPS = [('<', 'lt'), ('<=', 'le'), ('==', 'eq'), ('!=', 'ne'), ('>=', 'ge'), ('>', 'gt')]
CONSTS = ['2.0', '-2.0', '0.1', '0.0', '1e308', '-0.5']
LONGS = ['0', '1', '-1', '2', '-2', '3', '-7', '9007199254740993', '-9223372036854775808', '9223372036854775807']

REACH = ['__Pyx_mod_double', 'floor(', 'PyLong_FromDouble', '__Pyx_PyUnicode_AsDouble', '__Pyx_PyBytes_AsDouble',
         '__Pyx_PyByteArray_AsDouble', '__Pyx_PyObject_AsDouble', '__Pyx__PyBytes_AsDouble', 'fmod(']
REACH_T = REACH + ['__Pyx_mod_float', 'fmodf(']


# ------------------------------------------------------------------------------------------- model
def _f32(x):
    """Round a Python float to C float (round-to-nearest-even, overflow -> inf) as a C cast does."""
    try:
        return struct.unpack('f', struct.pack('f', x))[0]
    except OverflowError:
        return math.copysign(math.inf, x)


def _c_div(a, b):
    if b == 0:
        if a == 0 or a != a:
            return math.nan
        return math.copysign(math.inf, a) * math.copysign(1.0, b)
    return a / b


def _c_floor(q):
    if q != q or math.isinf(q) or q == 0:
        return q
    return float(math.floor(q)) if not (-1 < q < 0) else -1.0


def _c_fmod(a, b):
    try:
        return math.fmod(a, b)
    except ValueError:
        return math.nan


_PYOPS = {
    'add': lambda a, b: a + b, 'sub': lambda a, b: a - b, 'mul': lambda a, b: a * b, 'div': lambda a, b: a / b,
    'fdiv': lambda a, b: a // b, 'mod': lambda a, b: a % b,
    'lt': lambda a, b: a < b, 'le': lambda a, b: a <= b, 'eq': lambda a, b: a == b, 'ne': lambda a, b: a != b,
    'ge': lambda a, b: a >= b, 'gt': lambda a, b: a > b,
}
_COPS = {'div': _c_div, 'fdiv': lambda a, b: _c_floor(_c_div(a, b)), 'mod': _c_fmod}
_UNARY = {
    'neg': lambda a: -a, 'pos': lambda a: +a, 'abs': abs, 'int': int, 'round': round, 'bool': bool,
    'not': lambda a: not a, 'truth': lambda a: 1 if a else 0, 'float': float, 'selfne': lambda a: a != a,
}


def model(tag, *args):
    """Expected result of the compiled function with this tag, by CPython semantics.

    tag: 'parse/<container>' | 'un/<name>/<ctype>' | 'bin/<op>/<form>/<ctype>[/<const>]' | 'cdiv/<op>/double'
         | 'mix/<op>/<dl|ld>' | 'cmp/<op>/<form>/<ctype>'"""
    t = tag.split('/')
    kind = t[0]
    if kind == 'parse':
        return float(args[0])
    if kind == 'un':
        a = float(args[0])
        if t[2] == 'float':
            a = _f32(a)
        return _UNARY[t[1]](a)
    if kind == 'cdiv':
        return _COPS[t[1]](float(args[0]), float(args[1]))
    if kind == 'mix':
        a, b = args
        return _PYOPS[t[1]](float(a), float(b))
    if kind in ('bin', 'cmp'):
        op, form, ctype = t[1], t[2], t[3]
        if form == 'xc':
            a, b = float(args[0]), float(t[4])
        elif form == 'cx':
            a, b = float(t[4]), float(args[0])
        else:
            a, b = float(args[0]), float(args[1])
        if ctype == 'float':
            a, b = _f32(a), _f32(b)
        r = _PYOPS[op](a, b)
        if kind == 'cmp':
            return (1 if r else 0) if form == 'if' else r
        return _f32(r) if ctype == 'float' else r
    raise AssertionError(tag)


# ------------------------------------------------------------------------------------------- programs
def arith_parts(tier):
    parts = []
    n = [0]

    def add(sig, body, tag, key, deco=''):
        name = 'f%d' % n[0]
        n[0] += 1
        parts.append(e2.Part('%sdef %s(%s):\n%s\n' % (deco, name, sig, body), [e2.Func(name, tag, key)]))

    ctypes = ['double'] + (['float'] if tier == 'thorough' else [])
    for ct in ctypes:
        sig2 = '%s a, %s b' % (ct, ct)
        for op, on in ARITH:
            add(sig2, '    return a %s b' % op, 'bin/%s/ret/%s' % (on, ct), 'pairs')
            add(sig2, '    cdef %s r = a %s b\n    return r' % (ct, op), 'bin/%s/loc/%s' % (on, ct), 'pairs')
            add(sig2, '    a %s= b\n    return a' % op, 'bin/%s/ip/%s' % (on, ct), 'pairs')
        for op, on in CMPS:
            add(sig2, '    return a %s b' % op, 'cmp/%s/ret/%s' % (on, ct), 'pairs')
            add(sig2, '    if a %s b:\n        return 1\n    return 0' % op, 'cmp/%s/if/%s' % (on, ct), 'pairs')
        for un, expr in [('neg', '-a'), ('pos', '+a'), ('abs', 'abs(a)'), ('int', 'int(a)'), ('round', 'round(a)'),
                         ('bool', 'bool(a)'), ('not', 'not a'), ('float', 'float(a)'), ('selfne', 'a != a')]:
            add('%s a' % ct, '    return %s' % expr, 'un/%s/%s' % (un, ct), 'single')
        add('%s a' % ct, '    if a:\n        return 1\n    return 0', 'un/truth/%s' % ct, 'single')
    # constant operands (the helpers take a b_is_constant flag; zero-division checks are decided at compile time)
    for op, on in ARITH:
        for c in CONSTS:
            add('double a', '    return a %s %s' % (op, c), 'bin/%s/xc/double/%s' % (on, c), 'single')
            add('double a', '    return %s %s a' % (c, op), 'bin/%s/cx/double/%s' % (on, c), 'single')
    # mixed double/long operands widen to double
    for op, on in ARITH[2:]:
        add('double a, long b', '    return a %s b' % op, 'mix/%s/dl' % on, 'dl')
        add('long a, double b', '    return a %s b' % op, 'mix/%s/ld' % on, 'ld')
    # cdivision=True: documented C semantics (no exception, fmod sign, floor of the IEEE quotient)
    for op, on in ARITH[3:]:
        add('double a, double b', '    return a %s b' % op, 'cdiv/%s/double' % on, 'pairs', deco='@cython.cdivision(True)\n')
    return parts


SIGNS = ['', '+', '-', '+-']
INTS = ['', '0', '1', '00', '1_0', '_1', '1_', '1__0', '\u0661\u0662', '\uff11']
FRACS = ['', '.', '.5', '._5', '.5_', '.5_0']
EXPS = ['', 'e5', 'E+5', 'e-5', 'e', 'e_5', 'e5_', 'e1_0', 'e+_5', 'e-5_0', 'e_+5']
SPECIALS = ['inf', '-inf', '+Infinity', 'nan', '-nan', 'NaN', 'infinit', 'in', 'na', '1e400', '-1e400', '1e-400',
            '-1e-400', '', '1 1', '1\x00', '\x001', '1\x001', 'infinity', 'INFINITY', 'iNf', '+iNfInItY', 'nan_', 'in_f',
            'i_nf', 'infinityx', 'infx', 'nanx', 'nana', 'n', 'i', '+', '-', '_', '1e', '0x10', '1j', '1.5.5', '1e5e5',
            '\u2212' + '1', '\u0661.\u0665', '1\u0660', 'in\uff46', '--1', '++1', '-+1', '- 1', '1 e5', '1e 5', '. 5',
            '1._', 'infinity_', '+nan', '-NAN', 'Nan1', '1nan', '0_0', '0_.5', '1_e5', '1e5_e', '1__', '9' * 310,
            '1' + '0' * 309, '0.' + '0' * 330 + '1']
WRAP_ASCII = [('', ''), (' ', ''), ('', ' '), (' ', ' '), ('\t\n\r\x0b\x0c', '\x0c\x0b\r\n\t')]
WRAP_UNI = [('\u2003', ''), ('', '\u2003'), ('\u2003', '\u2003'), ('\xa0', '\xa0'), ('\x1c', '\x1f'), ('\x85', '\u3000'),
            (' ', '\u2003'), ('\u2003', ' ')]


def long_strings(tier):
    out = []
    rng = range(36, 45) if tier == 'quick' else range(30, 52)
    for k in rng:
        out.append(('d', k, '1' * k))
        out.append(('d_', k, '1_' + '0' * (k - 1)))                     # k digits, k+1 chars
        out.append(('_alt', k, '_'.join('1' * k)))                      # k digits, 2k-1 chars
        out.append(('frac', k, '0.' + '5' * (k - 2)))
        out.append(('frac_', k, '0.5_' + '5' * (k - 3)))
        out.append(('exp', k, '1' * (k - 3) + '_1e5'))
        out.append(('bad_', k, '1' * (k - 1) + '_'))                    # trailing underscore: invalid
        out.append(('bad__', k, '1__' + '0' * (k - 1)))                 # double underscore: invalid
    return out


def parse_strings(tier):
    """-> list of (coords, core string).  coords identify the grammar cell (used to normalise keys)."""
    out = []
    for s in SIGNS:
        for i in INTS:
            for f in FRACS:
                for x in EXPS:
                    out.append((('g', s, i, f, x), s + i + f + x))
    for sp in SPECIALS:
        out.append((('s', sp), sp))
    for kind, k, st in long_strings(tier):
        out.append((('l', kind, k), st))
    return out


def parse_inputs(tier):
    """-> (input_sets, meta) where meta[(setkey, expr)] = (container, wrapper index, coords)."""
    cores = parse_strings(tier)
    sets = {'str': [], 'bytes': [], 'bytearray': [], 'obj': []}
    meta = {}

    def put(setkey, expr, info):
        sets[setkey].append((expr,))
        meta[(setkey, expr)] = info

    for coords, core in cores:
        wraps = list(WRAP_ASCII)
        wraps_u = list(WRAP_UNI)
        if coords[0] == 'g' and tier == 'quick':
            # quick: the grammar product takes the ASCII wrappers and one non-ASCII wrapper pair; specials and
            # boundary strings take them all
            wraps_u = WRAP_UNI[2:3]
        for wi, (l, r) in enumerate(wraps + wraps_u):
            s = l + core + r
            put('str', repr(s), ('str', wi, coords))
            put('obj', repr(s), ('obj:str', wi, coords))
            if wi < len(wraps):
                b = s.encode('utf-8')
                put('bytes', repr(b), ('bytes', wi, coords))
                put('bytearray', 'bytearray(%r)' % b, ('bytearray', wi, coords))
                put('obj', repr(b), ('obj:bytes', wi, coords))
                if coords[0] != 'g' or wi == 0:
                    put('obj', 'bytearray(%r)' % b, ('obj:bytearray', wi, coords))
    # non-string operands of float(object) and None for the typed containers
    for e in ['None', 'True', '5', '2**70', '10**400', '1.5', "float('nan')", 'IntSub(5)', 'FloatSub(1.5)', 'FloatOnly(2.5)',
              'FloatOnly(3)', 'IndexOnly(3)', 'IntOnly(3)', '1j', '[]', "StrSub('1_0')", "StrSub(' 1e+_5')", "memoryview(b'1.5')",
              "Fraction(1, 3)", "Decimal('1.5')"]:
        put('obj', e, ('obj:other', 0, ('o', e)))
    for k in ('str', 'bytes', 'bytearray'):
        put(k, 'None', (k, 0, ('o', 'None')))
    return sets, meta


PARSE_SRC = [
    ('str', 'str s', 'parse/str'), ('bytes', 'bytes s', 'parse/bytes'), ('bytearray', 'bytearray s', 'parse/bytearray'),
    ('obj', 's', 'parse/obj'),
]


def parse_parts():
    parts = []
    for key, sig, tag in PARSE_SRC:
        name = 'p_%s' % key
        parts.append(e2.Part('def %s(%s):\n    return float(s)\n' % (name, sig), [e2.Func(name, tag, key)]))
        name = 'pc_%s' % key
        parts.append(e2.Part('def %s(%s):\n    cdef double d = float(s)\n    return d\n' % (name, sig),
                             [e2.Func(name, tag + '/c', key)]))
    return parts


# ------------------------------------------------------------------------------------------- key normalisation
def _val(o):
    """float value from an outcome ('ok', ('float', repr)) or None."""
    try:
        if o[0] == 'ok' and o[1][0] == 'float':
            return float(o[1][1])
    except Exception:
        pass
    return None


def arith_root(exp, got):
    d = e2.divclass(exp, got)
    if d != 'value':
        return d
    e, g = _val(exp), _val(got)
    if e is None or g is None:
        return 'value'
    if e != e:
        return 'exp-nan,got-' + _fcls(g)
    if g != g:
        return 'got-nan'
    if e == 0 and g == 0:
        return 'zero-sign'
    if math.isinf(e) or math.isinf(g):
        return 'inf'
    if abs(e - g) == 1:
        return 'off-by-one'
    return 'value'


def arith_key(tag, inp, exp, got):
    t = tag.split('/')
    ns = support.namespace()
    try:
        vals = [float(eval(x, ns)) for x in inp]
    except Exception:
        vals = []
    if t[0] in ('bin', 'cmp') and len(t) > 4:
        c = float(t[4])
        vals = [vals[0], c] if t[2] == 'xc' else [c, vals[0]]
    if t[0] == 'un':
        return 'arith|%s|%s|a:%s|%s' % (t[1], t[2], _fcls(vals[0]) if vals else '?', arith_root(exp, got))
    # mixed double/long cells widen to double and use the double helpers: same key family as 'double'
    ctype = t[3] if t[0] in ('bin', 'cmp') else 'double'
    fam = 'arith' if t[0] != 'cdiv' else 'arith-cdivision'
    root = arith_root(exp, got)
    if t[1] == 'fdiv' and t[0] != 'cdiv' and len(vals) == 2 and _val(got) is not None and vals[1] != 0:
        # the compiled value is what C gives for floor(a / b): one root cause whatever the operand classes
        if ctype == 'float':
            c = _f32(_c_floor(_f32(_c_div(_f32(vals[0]), _f32(vals[1])))))
        else:
            c = _c_floor(_c_div(vals[0], vals[1]))
        if repr(c) == repr(_val(got)):
            return '%s|fdiv|%s|floor-of-rounded-quotient' % (fam, ctype)
    bcls = _fcls(vals[1]) if len(vals) > 1 else '?'
    return '%s|%s|%s|b:%s|%s' % (fam, t[1], ctype, bcls, root)


SIMPLEST = {1: '', 2: '1', 3: '', 4: ''}     # sign, intpart, frac, exponent of grammar coords


def reduce_parse_keys(fails):
    """fails: dict (func tag, container, wrapper index, coords, divclass) -> record.
    Set-based delta reduction over the enumerated product: a failing cell is replaced by the simplest value of one
    coordinate whenever that simpler case failed the same way too.  Returns dict key -> list of records."""
    have = set(fails)

    def simpler(k):
        tag, cont, wi, coords, div = k
        if tag.endswith('/c'):
            yield (tag[:-2], cont, wi, coords, div)
        if wi != 0:
            yield (tag, cont, 0, coords, div)
        if coords[0] == 'g':
            for pos, simple in SIMPLEST.items():
                if coords[pos] != simple:
                    c2 = coords[:pos] + (simple,) + coords[pos + 1:]
                    yield (tag, cont, wi, c2, div)
        if cont.startswith('obj:'):
            yield ('parse/' + cont[4:], cont[4:], wi, coords, div)
        elif cont in ('str', 'bytearray'):
            yield ('parse/bytes', 'bytes', wi, coords, div)

    out = {}
    for k, rec in fails.items():
        cur = k
        changed = True
        while changed:
            changed = False
            for s in simpler(cur):
                if s in have:
                    cur = s
                    changed = True
                    break
        tag, cont, wi, coords, div = cur
        if coords[0] == 'g':
            text = ''.join(coords[1:])
        elif coords[0] == 'l':
            text = 'long:%s' % coords[1]       # boundary strings: the length is not part of the key
        else:
            text = coords[1]
        key = 'parse|%s|w%d|%s|%s' % (cont, wi, ascii(text), div)
        out.setdefault(key, []).append(rec)
    return out


# ------------------------------------------------------------------------------------------- sanitizer family
ASAN_DRIVER = r'''
import sys, json, importlib.machinery, importlib.util
so, name, fn, start = sys.argv[1], sys.argv[2], sys.argv[3], int(sys.argv[4])
with open(fn) as f:
    items = json.load(f)
loader = importlib.machinery.ExtensionFileLoader(name, so)
spec = importlib.util.spec_from_file_location(name, so, loader=loader)
mod = importlib.util.module_from_spec(spec)
loader.exec_module(mod)
from vlib import support
ns = support.namespace()
err = sys.stderr
for i in range(start, len(items)):
    fname, expr = items[i]
    err.write('\n@@%d\n' % i)
    err.flush()
    try:
        getattr(mod, fname)(eval(expr, ns))
    except Exception:
        pass
err.write('\n@@done\n')
err.flush()
'''
# recover mode: the sanitizer reports and continues, so one process attributes every report to its input
ASAN_CFLAGS = ('-fsanitize=address', '-fsanitize-recover=address', '-g', '-fno-omit-frame-pointer')
MAX_ASAN_RESTARTS = 20


def _asan_env():
    import subprocess, os
    lib = subprocess.run(['gcc', '-print-file-name=libasan.so'], stdout=subprocess.PIPE, text=True).stdout.strip()
    if not os.path.isabs(lib) or not os.path.exists(lib):
        return None
    return {'LD_PRELOAD': lib, 'ASAN_OPTIONS': 'detect_leaks=0:halt_on_error=0:exitcode=86'}


def _asan_source():
    return 'cimport cython\n' + '\n'.join(p.src for p in parse_parts()) + '\n'


def _asan_run(so, name, items_file, start):
    '''-> (reports: list of (item index, summary), index of the item that killed the process or None, tail of stderr)'''
    import re
    from vlib import runner
    rc, out, err = runner.py_subprocess(ASAN_DRIVER, env=_asan_env(), timeout=1500, args=(so, name, items_file, str(start)))
    reports, cur, done = [], None, False
    for line in err.splitlines():
        if line.startswith('@@'):
            if line == '@@done':
                done = True
            else:
                cur = int(line[2:])
            continue
        m = re.match(r'SUMMARY: AddressSanitizer: (\S+) \S+ in (\S+)', line)
        if m and cur is not None:
            reports.append((cur, '%s:%s' % (m.group(1), m.group(2))))
    died = None if done else (cur if cur is not None else -1)
    return reports, died, 'rc=%s %s' % (rc, err[-600:])


def asan_family(ctx, psets, meta, tier):
    '''float() parsing of the boundary/special strings (thorough: every string) in an AddressSanitizer build.
    Returns (stats, set of (input set key, expr) whose evaluation has a memory error).'''
    import json, os
    from vlib import farm
    stats = {'asan_evaluations': 0, 'asan_reports': 0, 'asan_available': True, 'asan_exhaustive': True}
    bad = set()
    if _asan_env() is None:
        stats['asan_available'] = False
        ctx.log('WARN libasan not found: sanitizer family skipped')
        return stats, bad
    src = _asan_source()
    r = farm.build('c06asan', src, ctx.workdir('asan'), ext='.pyx', cflags=ASAN_CFLAGS)
    if not r.ok:
        ctx.violation('build-failure|asan|%s' % r.stage, 'sanitizer build failed: %s' % r.errors[-600:],
                      {'kind': 'build', 'source': src, 'ext': '.pyx', 'cflags': list(ASAN_CFLAGS)})
        return stats, bad
    items = []
    for key in ('str', 'bytes', 'bytearray', 'obj'):
        for (expr,) in psets[key]:
            info = meta.get((key, expr))
            if tier == 'quick' and info and info[2][0] == 'g':
                continue
            items.append(('p_%s' % key, expr))
    fn = os.path.join(ctx.workdir('asan'), 'items.json')
    with open(fn, 'w') as f:
        json.dump(items, f)
    start, restarts = 0, 0
    while start < len(items):
        reports, died, tail = _asan_run(r.so, 'c06asan', fn, start)
        for idx, summary in reports:
            fname, expr = items[idx]
            if (fname[2:], expr) in bad:
                continue
            bad.add((fname[2:], expr))
            stats['asan_reports'] += 1
            ctx.violation('parse-asan|%s' % summary, 'float(%s) in %s: AddressSanitizer %s' % (expr, fname, summary),
                          {'kind': 'asan', 'source': src, 'fname': fname, 'expr': expr, 'summary': summary})
        if died is None:
            stats['asan_evaluations'] += len(items) - start
            break
        if died < 0:
            ctx.violation('harness-exc|asan', 'sanitizer driver did not start: %s' % tail, {'kind': 'harness'})
            break
        # the process died (signal) while running items[died]
        stats['asan_evaluations'] += died - start + 1
        fname, expr = items[died]
        bad.add((fname[2:], expr))
        ctx.violation('parse-asan|process-died', 'float(%s) in %s killed the sanitizer process: %s' % (expr, fname, tail[-300:]),
                      {'kind': 'asan', 'source': src, 'fname': fname, 'expr': expr, 'summary': 'process-died'})
        start = died + 1
        restarts += 1
        if restarts >= MAX_ASAN_RESTARTS:
            stats['asan_exhaustive'] = False
            ctx.log('sanitizer family stopped after %d process deaths (%d strings not run)' % (restarts, len(items) - start))
            break
    return stats, bad


# ------------------------------------------------------------------------------------------- run
def build_mods(tier, seed, bad=()):
    pairs = permute([(a, b) for a in F for b in F], seed, 'pairs')
    single = permute([(a,) for a in F], seed, 'single')
    dl = permute([(a, b) for a in F for b in LONGS], seed, 'dl')
    ld = permute([(a, b) for a in LONGS for b in F], seed, 'ld')
    asets = {'pairs': pairs, 'single': single, 'dl': dl, 'ld': ld}
    aparts = arith_parts(tier)
    psets, meta = parse_inputs(tier)
    psets = {k: permute([x for x in v if (k, x[0]) not in bad], seed, k) for k, v in psets.items()}
    prelude = 'cimport cython\n'
    configs = [('d', ())]
    if tier == 'thorough':
        configs += [('nosafe', ('-DCYTHON_ASSUME_SAFE_MACROS=0',)), ('noslots', ('-DCYTHON_USE_TYPE_SLOTS=0',)),
                    ('O2', ())]
    mods = []
    per = 40
    for cname, cflags in configs:
        opt = '-O2' if cname == 'O2' else '-O0'
        if cname in ('d', 'O2'):
            for i in range(0, len(aparts), per):
                mods.append(e2.Mod('c06a%s_%d' % (cname, i // per), prelude, aparts[i:i + per], asets, ext='.pyx',
                                   ref=('model', 'props.C06_double_arith:model'), cflags=cflags, opt=opt))
        pp = parse_parts()
        for i in range(0, len(pp), 2):
            mods.append(e2.Mod('c06p%s_%d' % (cname, i // 2), prelude, pp[i:i + 2], psets, ext='.pyx',
                               ref=('model', 'props.C06_double_arith:model'), cflags=cflags, opt=opt))
    return mods, meta, aparts, psets


def run(ctx):
    warm(ctx)
    psets0, meta0 = parse_inputs(ctx.tier)
    # 1. sanitizer family first: an input whose evaluation has a memory error (undefined behaviour, possibly latent heap
    #    corruption) is reported under its parse-asan key and leaves the value sweep, which would be meaningless for it
    ast, bad = asan_family(ctx, psets0, meta0, ctx.tier)
    mods, meta, aparts, psets = build_mods(ctx.tier, ctx.seed, bad)
    col = Collector(ctx)
    st = e2.run_diff(col, mods, keyfn=lambda tag, inp, exp, got: (tag, tuple(inp), e2.divclass(exp, got), exp, got),
                     reach=REACH_T if ctx.tier == 'thorough' else REACH)
    # normalise keys: arithmetic by operator/root class, parsing by set-based reduction over the grammar cells
    fails = {}
    for key, what, case in col.items:
        if not isinstance(key, tuple):
            ctx.violation(key, what, case)          # build failure / harness problem
            continue
        tag, inp, div, exp, got = key
        if not tag.startswith('parse/'):
            ctx.violation(arith_key(tag, inp, exp, got), what, case)
            continue
        setkey = tag.split('/')[1]
        info = meta.get((setkey, inp[0]))
        if info is None:
            ctx.violation('parse|%s|?|%s' % (tag, div), what, case)
            continue
        cont, wi, coords = info
        fails.setdefault((tag, cont, wi, coords, div), (what, case))
    for key, recs in sorted(reduce_parse_keys(fails).items()):
        for what, case in recs:
            ctx.violation(key, what, case)
    cov = {
        'evaluations': st['evaluations'], 'distinct_nontrivial': st['pairs'],
        'rule': 'a case is counted once per distinct (compiled function, reference outcome) pair: operands/strings with the '
                'same expected outcome for the same function collapse',
        'programs': st['programs'], 'modules_built': st['modules_built'], 'arith_cells': len(aparts),
        'float_alphabet': len(F), 'pairs_per_binary_cell': len(F) ** 2,
        'parse_strings_per_container': {k: len(v) for k, v in psets.items()},
        'parse_grammar_product': len(SIGNS) * len(INTS) * len(FRACS) * len(EXPS),
        'mismatches': st['mismatches'], 'crashes': st['crashes'], 'build_failures': st['build_failures'],
        'asan_evaluations': ast['asan_evaluations'], 'asan_reports': ast['asan_reports'],
        'asan_available': ast['asan_available'], 'inputs_removed_from_value_sweep_after_sanitizer_report': len(bad),
        'reach': st.get('reach'), 'reach_gaps': st.get('reach_gaps'),
        'samples': [{'function': aparts[15].src, 'operands': [F[1], F[10]]},
                    {'function': 'def p_str(str s):\n    return float(s)\n', 'operand': psets['str'][7][0]},
                    {'function': 'def p_bytes(bytes s):\n    return float(s)\n', 'operand': psets['bytes'][len(psets['bytes']) // 2][0]}],
        'exhaustive': bool(ast['asan_exhaustive']),
    }
    return cov, ['doubles outside the 31-value alphabet and strings outside the grammar product are not covered',
                 'model of C semantics for cdivision=True cells and float32 rounding model for C float cells are trusted']


def replay(ctx, case):
    if case.get('kind') == 'asan':
        import json, os
        from vlib import farm
        r = farm.build('c06asan', case['source'], ctx.workdir('replay'), ext='.pyx', cflags=ASAN_CFLAGS)
        if not r.ok:
            return 'sanitizer build failed: %s' % r.errors[-600:]
        fn = os.path.join(ctx.workdir('replay'), 'items.json')
        with open(fn, 'w') as f:
            json.dump([(case['fname'], case['expr'])], f)
        reports, died, tail = _asan_run(r.so, 'c06asan', fn, 0)
        if reports:
            return 'float(%s): AddressSanitizer %s' % (case['expr'], reports[0][1])
        return False if died is None else 'float(%s): sanitizer process died: %s' % (case['expr'], tail[-300:])
    return e2.replay(ctx, case)
