"""C32 - C function exception declarations propagate errors faithfully.

Complete product: exception specification {implicit, except V, except? V, except *, noexcept} x return type {int,
double, int*, struct, void, object, bint} (legal combinations per the user guide) x body {returns the sentinel value
legitimately, returns another value, raises ValueError, raises inside a nested Python call, raises inside a nested
cdef call} x declaration/caller {cdef called from a Python def, cdef called through a second cdef function with the
same specification, cdef called through a function-pointer typedef with the same specification, nogil cdef raising
inside `with gil:` called from a `with nogil:` block, cpdef called from C, cpdef called from Python}.
Additionally: return types {unsigned char, unsigned short, unsigned int, char, short, long long, size_t, Py_ssize_t, float}
x sentinel {-1, 0, 255 (where representable)} x every specification x body {sentinel return, other value, raise} x caller
{cdef from def, nogil, cpdef from Python} (narrow unsigned types: the error test must compare with the sentinel cast
to the return type); and declaration/definition splits: a function or a cdef class method declared in the module's
.pxd with GIL clause D and defined in the .pyx with clause F, (D, F) in {(nogil, with gil), (nogil, nogil), (with gil,
with gil), (none, none)} x {except? -1, except -1, except *, implicit} x {int, void} x {sentinel return, raise} x
{called from def, from a nogil block}.  Every generated function is executed (crash-isolated per program).
Oracle: a rule table transcribed from the user guide section "Error return values" (docs/src/userguide/
language_basics.rst): under every specification except `noexcept` a raised exception reaches the Python caller
(ValueError); under `noexcept` the exception is reported exactly once through sys.unraisablehook (type ValueError), the
function returns normally with the default value (0 / 0.0 / NULL / False / None) and the caller continues; a returned
value - including the sentinel under `except? V`, `except *` and the implicit specification - comes back unchanged
with no exception pending (PyErr_Occurred() probed right after the call) and no unraisable report.
Returning the sentinel under plain `except V` is a documented user error and is not generated.
"""
import sys, os
from vlib.diff import canon, short
from props import _g8_drive as drive

LEVEL = 'exploration'
ENGINE = 'E2 diffexplore'
TECHNIQUE = ('exhaustive product (exception specification x return type x body x declaration/caller), every function executed, '
             'outcome + unraisable-hook calls + pending-error probe vs the rule table of the user guide')
LEVEL_TEXT = ('The full product of exception specification {implicit, except V, except? V, except *, noexcept} x return type '
              '{int, double, int*, struct, void, object, bint} x body {legitimate sentinel return, other value, raise, raise in '
              'nested Python call, raise in nested cdef call} x declaration/caller {cdef from def, via second cdef, via function '
              'pointer typedef, nogil + with gil from a nogil block, cpdef from C, cpdef from Python}, plus 9 further numeric '
              'return types x sentinels {-1, 0, 255} and .pxd-declaration/.pyx-definition splits with differing GIL clauses '
              '(functions and cdef class methods), is compiled and every '
              'function executed; propagation vs unraisable reporting (sys.unraisablehook calls), returned value and a '
              'PyErr_Occurred() probe after the call must match the rule table transcribed from the user guide.')
LEVEL_NOTE = ('`except +` (C++) is not covered (quick and thorough use the C build only); the value returned by a noexcept '
              'struct function after an error is unspecified and not compared; returning the sentinel under plain `except V` '
              'is a documented user error and not generated; legacy_implicit_noexcept off only.  The oracle is a hand-written '
              'table, trusted to transcribe docs/src/userguide/language_basics.rst "Error return values".')

SPECS = ['none', 'exc', 'excq', 'star', 'noexcept']
RTYPES = ['int', 'double', 'ptr', 'struct', 'void', 'object', 'bint']
BODIES = ['ret_sentinel', 'ret_other', 'raise', 'raise_nested_py', 'raise_nested_c']
CALLERS = ['cdef-py', 'cdef-chain', 'cdef-fptr', 'cdef-nogil', 'cpdef-c', 'cpdef-py']

CTYPE = {'int': 'int', 'double': 'double', 'ptr': 'int*', 'struct': 'S', 'void': 'void', 'object': 'object', 'bint': 'bint'}
SENTINEL = {'int': '-1', 'double': '-1.0', 'ptr': 'NULL', 'bint': '-1'}
SENTINEL_PY = {'int': -1, 'double': -1.0, 'ptr': False, 'bint': True, 'struct': 0, 'object': None}
OTHER = {'int': '5', 'double': '2.5', 'ptr': '&_cell', 'struct': '_mk(3)', 'void': '', 'object': "'obj'", 'bint': 'True'}
OTHER_PY = {'int': 5, 'double': 2.5, 'ptr': True, 'struct': 3, 'void': None, 'object': 'obj', 'bint': True}
DEFAULT_PY = {'int': 0, 'double': 0.0, 'ptr': False, 'struct': 'ANY', 'void': None, 'bint': False}

# extra numeric return types x sentinel values: key '<type>/<sentinel>' (narrow unsigned types make `r == -1` differ from
# `r == (T)-1` after integer promotion)
NUMTYPES = {'uchar': ('unsigned char', 8, False), 'ushort': ('unsigned short', 16, False), 'uint': ('unsigned int', 32, False),
            'char': ('char', 8, True), 'short': ('short', 16, True), 'longlong': ('long long', 64, True),
            'size_t': ('size_t', 64, False), 'ssize_t': ('Py_ssize_t', 64, True), 'float': ('float', 0, True)}
SENTINEL_RET = {}
RTYPES_X = []
for _b, (_ct, _bits, _signed) in NUMTYPES.items():
    for _sent in (-1, 0, 255):
        if _b == 'char' and _sent == 255:
            continue                                   # not representable
        _k = '%s/%d' % (_b, _sent)
        RTYPES_X.append(_k)
        CTYPE[_k] = _ct
        if _b == 'float':
            SENTINEL[_k] = '%d.0' % _sent
            SENTINEL_PY[_k] = float(_sent)
            OTHER[_k], OTHER_PY[_k], DEFAULT_PY[_k] = '2.5', 2.5, 0.0
        else:
            SENTINEL[_k] = str(_sent)
            SENTINEL_PY[_k] = _sent if _signed else _sent % (1 << _bits)
            OTHER[_k], OTHER_PY[_k], DEFAULT_PY[_k] = '5', 5, 0
        SENTINEL_RET[_k] = repr(SENTINEL_PY[_k])
CALLERS_X = ['cdef-py', 'cdef-nogil', 'cpdef-py']
BODIES_X = ['ret_sentinel', 'ret_other', 'raise']

PRELUDE = '''
from cpython.exc cimport PyErr_Occurred
cdef struct S:
    int a
    int b
cdef int _cell = 7
cdef S _mk(int a) noexcept nogil:
    cdef S s
    s.a = a
    s.b = 0
    return s
def pyboom():
    raise ValueError('boom')
cdef int cboom() except -1:
    raise ValueError('boom')
'''


def spec_text(spec, rtype):
    if spec == 'none':
        return ''
    if spec == 'noexcept':
        return ' noexcept'
    if spec == 'star':
        return ' except *'
    return ' except%s %s' % ('?' if spec == 'excq' else '', SENTINEL[rtype])


def legal(spec, rtype, body, caller):
    if '/' in rtype:
        if caller not in CALLERS_X or body not in BODIES_X:
            return False
        if spec in ('none', 'star', 'noexcept') and not rtype.endswith('/-1'):
            return False                       # the sentinel value only matters for except V / except? V
        return not (body == 'ret_sentinel' and spec == 'exc')
    if rtype == 'object' and spec != 'none':
        return False
    if rtype in ('struct', 'void') and spec in ('exc', 'excq'):
        return False
    if body == 'ret_sentinel':
        if rtype == 'void':
            return False
        if spec == 'exc':
            return False                       # documented user error
    if caller.startswith('cpdef') and rtype in ('ptr', 'struct'):
        return False                           # not convertible to Python
    if caller == 'cdef-nogil' and rtype == 'object':
        return False
    if caller == 'cdef-nogil' and body == 'raise_nested_c':
        return False                           # same error path as raise inside `with gil:`
    return True


def body_lines(rtype, body, nogil):
    ind = '        ' if nogil else '    '
    out = ['    with gil:'] if nogil else []
    if body == 'ret_sentinel':
        v = {'struct': '_mk(0)', 'object': 'None'}.get(rtype) or SENTINEL_RET.get(rtype) or SENTINEL[rtype]
        if nogil:
            return ['    return %s' % v]
        return ['    return %s' % v]
    if body == 'ret_other':
        return ['    return %s' % OTHER[rtype] if rtype != 'void' else '    return']
    if body == 'raise':
        out.append(ind + "raise ValueError('boom')")
    elif body == 'raise_nested_py':
        out.append(ind + 'pyboom()')
    else:
        out.append(ind + 'cboom()')
    if rtype != 'void':
        out.append('    return %s' % OTHER[rtype])
    return out


def conv_lines(rtype, callexpr, nogil=False):
    """Lines of the Python-visible caller: call, probe PyErr_Occurred, convert."""
    ct = CTYPE[rtype]
    out = []
    if rtype == 'void':
        if nogil:
            out += ['    with nogil:', '        %s' % callexpr]
        else:
            out += ['    %s' % callexpr]
        out += ['    pending = PyErr_Occurred() != NULL', '    return (None, pending)']
        return out
    out.append('    cdef %s r' % ct)
    if nogil:
        out += ['    with nogil:', '        r = %s' % callexpr]
    else:
        out += ['    r = %s' % callexpr]
    out.append('    pending = PyErr_Occurred() != NULL')
    val = {'ptr': '(r != NULL)', 'struct': 'r.a'}.get(rtype, 'r')
    out.append('    return (%s, pending)' % val)
    return out


def program(k, spec, rtype, body, caller):
    ct = CTYPE[rtype]
    st = spec_text(spec, rtype)
    kw = 'cpdef' if caller.startswith('cpdef') else 'cdef'
    nogil = caller == 'cdef-nogil'
    src = ['%s %s f%d()%s%s:' % (kw, ct, k, st, ' nogil' if nogil else '')]
    src += body_lines(rtype, body, nogil)
    callexpr = 'f%d()' % k
    if caller == 'cdef-chain':
        src += ['cdef %s g%d()%s:' % (ct, k, st)]
        src += ['    f%d()' % k] if rtype == 'void' else ['    return f%d()' % k]
        callexpr = 'g%d()' % k
    elif caller == 'cdef-fptr':
        src += ['ctypedef %s (*fp%d_t)()%s' % (ct, k, st), 'cdef fp%d_t p%d = f%d' % (k, k, k)]
        callexpr = 'p%d()' % k
    if caller == 'cpdef-py':
        return '\n'.join(src) + '\n', 'f%d' % k
    src += ['def call%d():' % k] + conv_lines(rtype, callexpr, nogil)
    return '\n'.join(src) + '\n', 'call%d' % k


def model(spec, rtype, body, caller):
    """Rule table: (outcome, unraisable exception type names).  outcome value 'ANY' = unspecified."""
    if body.startswith('raise'):
        if spec == 'noexcept':
            return ('ok', DEFAULT_PY[rtype]), ['ValueError']
        return ('exc', 'ValueError'), []
    v = SENTINEL_PY[rtype] if body == 'ret_sentinel' else OTHER_PY[rtype]
    return ('ok', v), []


def _cgroup(caller):
    if caller.startswith('pxd-'):
        kind, gil, call = caller.split(':')
        decl, defn = gil.split('>')
        return 'pxd-split' if decl != defn else 'pxd-agree'
    return caller if caller in ('cdef-nogil', 'cpdef-py') else 'c-caller'


def all_cases():
    out = []
    k = 0
    for spec in SPECS:
        for rtype in RTYPES:
            for body in BODIES:
                for caller in CALLERS:
                    if legal(spec, rtype, body, caller):
                        out.append((k, spec, rtype, body, caller))
                        k += 1
    for spec in SPECS:
        for rtype in RTYPES_X:
            for body in BODIES_X:
                for caller in CALLERS_X:
                    if legal(spec, rtype, body, caller):
                        out.append((k, spec, rtype, body, caller))
                        k += 1
    return out


# ---- declaration / definition split: declared in the module's .pxd (function or cdef class method) with one GIL clause,
#      defined in the .pyx with another one; the exception specification must survive the merge of the two types
PXD_GIL = [('nogil', 'with gil'), ('nogil', 'nogil'), ('with gil', 'with gil'), ('', '')]


def pxd_cases(k0):
    out = []
    k = k0
    for kind in ('func', 'meth'):
        for decl, defn in PXD_GIL:
            for spec, rtype in [('excq', 'int'), ('exc', 'int'), ('star', 'int'), ('none', 'int'), ('star', 'void'), ('none', 'void')]:
                for body in ('ret_sentinel', 'raise'):
                    if body == 'ret_sentinel' and (spec == 'exc' or rtype == 'void'):
                        continue
                    for call in (['def', 'nogil-block'] if decl else ['def']):
                        out.append((k, spec, rtype, body, 'pxd-%s:%s>%s:%s' % (kind, decl or '-', defn or '-', call)))
                        k += 1
    return out


def pxd_program(k, spec, rtype, body, caller):
    """-> (pyx source, pxd source, name of the Python-visible caller)"""
    kind, gil, call = caller.split(':')
    decl, defn = [x if x != '-' else '' for x in gil.split('>')]
    ct, st = CTYPE[rtype], spec_text(spec, rtype)
    blk = defn == 'nogil'                       # body runs without the GIL: raise inside `with gil:`
    lines = body_lines(rtype, body, blk)
    if kind == 'pxd-func':
        pxd = ['cdef %s f%d()%s%s' % (ct, k, st, ' ' + decl if decl else '')]
        src = ['cdef %s f%d()%s%s:' % (ct, k, st, ' ' + defn if defn else '')] + lines
        callexpr = 'f%d()' % k
        pre = []
    else:
        pxd = ['cdef class K%d:' % k, '    cdef %s m(self)%s%s' % (ct, st, ' ' + decl if decl else '')]
        src = ['cdef class K%d:' % k, '    cdef %s m(self)%s%s:' % (ct, st, ' ' + defn if defn else '')] + ['    ' + l for l in lines]
        callexpr = 'o.m()'
        pre = ['    cdef K%d o = K%d()' % (k, k)]
    conv = conv_lines(rtype, callexpr, call == 'nogil-block')
    src += ['def call%d():' % k] + pre + conv
    return '\n'.join(src) + '\n', '\n'.join(pxd) + '\n', 'call%d' % k


# ------------------------------------------------------------------------------------------ child side
def sweep(cns, rns, work, cfg):
    fname, spec, rtype, body, caller = work
    exp, exp_unr = model(spec, rtype, body, caller)
    seen = []

    def hook(u):
        seen.append(type(u.exc_value).__name__ if u.exc_value is not None else getattr(u.exc_type, '__name__', '?'))
    old = sys.unraisablehook
    sys.unraisablehook = hook
    try:
        try:
            v = cns[fname]()
            if caller == 'cpdef-py':
                v = (v, False)
            got = ('ok', v)
        except BaseException as e:
            if isinstance(e, (KeyboardInterrupt, SystemExit)):
                raise
            got = ('exc', type(e).__name__)
    finally:
        sys.unraisablehook = old
    mism = []
    ok = True
    if exp[0] == 'exc':
        ok = got == exp
    else:
        if got[0] != 'ok':
            ok = False
        else:
            val, pending = got[1]
            if pending:
                ok = False
            if exp[1] != 'ANY' and canon(val) != canon(exp[1]):
                ok = False
    if seen != exp_unr:
        ok = False
    h = {hash((spec, rtype, body, repr(exp), tuple(exp_unr)))}
    cnt = {'expect_' + ('propagate' if exp[0] == 'exc' else ('unraisable' if exp_unr else 'value')): 1}
    if not ok:
        if got[0] == 'exc' and exp[0] == 'ok':
            d = 'extra-exc:' + got[1]
        elif got[0] == 'ok' and exp[0] == 'exc':
            d = 'missing-exc'
        elif seen != exp_unr:
            d = 'unraisable:%d->%d' % (len(exp_unr), len(seen))
        elif got[0] == 'ok' and got[1][1]:
            d = 'error-pending'
        elif got[0] == 'exc' and exp[0] == 'exc':
            d = 'exc-type:%s->%s' % (exp[1], got[1])
        else:
            d = 'value'
        key = 'c32|%s|%s|%s|%s|%s' % (spec, 'void' if rtype == 'void' else ('object' if rtype == 'object' else 'ctype'),
                                     'raise' if body.startswith('raise') else body, _cgroup(caller), d)
        mism.append((key, '%s: spec=%s rtype=%s body=%s caller=%s: expected %s unraisable %s; got %s unraisable %s' % (
            fname, spec, rtype, body, caller, short(exp), exp_unr, short(got), seen),
            {'expected': [exp, exp_unr], 'got': [got, seen]}))
    return 1, mism, h, cnt


# ------------------------------------------------------------------------------------------ parent side
REACH = ['PyErr_Occurred()', '__Pyx_WriteUnraisable', '__Pyx_ErrOccurredWithGIL', 'PyGILState_Ensure']


def run(ctx):
    cases = all_cases()
    units = []
    for k, spec, rtype, body, caller in cases:
        src, fname = program(k, spec, rtype, body, caller)
        units.append(drive.Unit(src, '', [(fname, spec, rtype, body, caller)]))
    per = 60
    mods = [drive.make_mod('c32_%d' % (i // per), PRELUDE, '', units[i:i + per]) for i in range(0, len(units), per)]
    # declaration/definition split programs: one module with an accompanying .pxd (crash-isolated per program by the driver)
    pcases = pxd_cases(len(cases))
    punits, pxd_text = [], ['cdef struct S:', '    int a', '    int b']
    for k, spec, rtype, body, caller in pcases:
        src, pxd, fname = pxd_program(k, spec, rtype, body, caller)
        punits.append(drive.Unit(src, '', [(fname, spec, rtype, body, caller)]))
        pxd_text.append(pxd)
    pprelude = PRELUDE.replace('cdef struct S:\n    int a\n    int b\n', '')
    pper = 80
    for i in range(0, len(punits), pper):
        name = 'c32pxd_%d' % (i // pper)
        chunk = punits[i:i + pper]
        ptxt = '\n'.join(pxd_text[:3] + [x for u, x in zip(punits, pxd_text[3:]) if u in chunk]) + '\n'
        mods.append(drive.make_mod(name, pprelude, '', chunk, extra_files={name + '.pxd': ptxt}))
    units = units + punits
    ctx.log('%d programs in %d modules' % (len(units), len(mods)))
    st = drive.run(ctx, mods, 'props.C32_except_decl:sweep', 'c32', reach=REACH,
                   crash_tag=lambda w: '%s|%s|%s|%s' % (w[1], 'void' if w[2] == 'void' else ('object' if w[2] == 'object' else 'ctype'),
                                                        'raise' if w[3].startswith('raise') else w[3], _cgroup(w[4])))
    cov = {
        'evaluations': st['evaluations'], 'distinct_nontrivial': st['pairs'],
        'rule': 'complete legal product spec x return type x body x declaration/caller, one evaluation per program; '
                'distinct_nontrivial counts distinct (spec, return type, body, expected outcome, expected unraisable reports), '
                'i.e. the declaration/caller axis is collapsed',
        'programs': len(units), 'modules_built': st['modules_built'], 'build_failures': st['build_failures'],
        'expectation_classes': st['counters'], 'mismatches': st['mismatches'], 'crashes': st['crashes'],
        'reach': st.get('reach'), 'reach_gaps': st.get('reach_gaps'),
        'samples': [{'program': units[3].src, 'work': units[3].work[0]}, {'program': units[-5].src, 'work': units[-5].work[0]},
                    {'program': units[len(units) // 2].src, 'work': units[len(units) // 2].work[0]}],
        'exhaustive': True,
    }
    return cov, ['except + (C++) not covered', 'oracle table transcribed by hand from the user guide']


def replay(ctx, case):
    return drive.replay(ctx, case)
