"""g11 helper: the child side of C36.  Runs in a FRESH interpreter started with LD_PRELOAD=libasan:libubsan
(sanitizer runtimes must be loaded before the first instrumented module), evaluates every case of its job and
writes one JSON line per finished unit.  Before every evaluation a progress token is written, so that the parent
can attribute a sanitizer abort / crash to the exact case and restart after it.

job (JSON): {'units': [unit...], 'out': path, 'progress': path, 'resume': [unit_idx, case_idx]}
unit kinds:
  'diff':  {'name','so','ref': ['exec', src] | ['model', 'module:function'], 'work': [[fname, tag, [[expr,...],...]],...]}
           compares (type, repr)/exception type of compiled vs reference for every input tuple
  'fault': {'name','so','source', 'work': [[fname, argexpr], ...]}   the C35 portfolio with every single injection k
"""
import sys, os, json, importlib


def _outcome(f, args):
    from vlib.diff import canon
    try:
        return ('ok', canon(f(*args)))
    except BaseException as e:
        if isinstance(e, (KeyboardInterrupt, SystemExit)):
            raise
        return ('exc', type(e).__name__)


def _load(so_path, name):
    import importlib.machinery, importlib.util
    loader = importlib.machinery.ExtensionFileLoader(name, so_path)
    spec = importlib.util.spec_from_file_location(name, so_path, loader=loader)
    mod = importlib.util.module_from_spec(spec)
    sys.modules[name] = mod
    loader.exec_module(mod)
    return mod


def main(argv):
    with open(argv[0]) as f:
        job = json.load(f)
    from vlib import support
    pfd = os.open(job['progress'], os.O_RDWR | os.O_CREAT, 0o600)

    def progress(ui, fi, ci):
        # three integers only (json/repr of the operands is slow under ASan); the parent looks the case up in the job
        os.pwrite(pfd, b'%d %d %d\n                    ' % (ui, fi, ci), 0)

    out = open(job['out'], 'a')
    r_unit, r_func, r_case = job.get('resume') or [0, 0, 0]
    for ui, unit in enumerate(job['units']):
        if ui < r_unit:
            continue
        start = (r_func, r_case) if ui == r_unit else (0, 0)
        progress(ui, -1, -1)
        mod = _load(unit['so'], unit['name'])
        if unit['kind'] == 'diff':
            res = run_diff_unit(unit, mod, ui, start, progress, support)
        else:
            res = run_fault_unit(unit, mod, ui, start, progress)
        res['unit'] = ui
        res['start'] = list(start)
        out.write(json.dumps(res) + '\n')
        out.flush()
    progress(len(job['units']), -1, -1)
    return 0


def run_diff_unit(unit, mod, ui, start, progress, support):
    kind, what = unit['ref']
    if kind == 'exec':
        g = {'__name__': unit['name'] + '_ref', '__builtins__': __builtins__}
        exec(compile(what, '<ref:%s>' % unit['name'], 'exec'), g)
        ref = g.get
    else:
        m, fn = what.split(':')
        model = getattr(importlib.import_module(m), fn)
        ref = None
    ns = support.namespace()
    codes = {}

    def ev(e):
        c = codes.get(e)
        if c is None:
            c = codes[e] = compile(e, '<operand>', 'eval')     # compile once: the parser is slow under ASan
        return eval(c, ns)
    evals, mism, pairs = 0, [], set()
    for fi, (fname, tag, inputs) in enumerate(unit['work']):
        if fi < start[0]:
            continue
        fc = getattr(mod, fname)
        fr = ref(fname) if ref else None
        for ci, inp in enumerate(inputs):
            if fi == start[0] and ci < start[1]:
                continue
            progress(ui, fi, ci)
            a1 = [ev(e) for e in inp]
            a2 = [ev(e) for e in inp]
            exp = _outcome(model, [tag] + a2) if fr is None else _outcome(fr, a2)
            got = _outcome(fc, a1)
            if exp == ('exc', 'SkipOutcome'):
                exp = got
            evals += 1
            pairs.add(hash((fname, repr(exp))))
            if got != exp and len(mism) < 200:
                mism.append([fname, tag, inp, exp, got])
    return {'kind': 'diff', 'evals': evals, 'mismatches': mism, 'pairs': len(pairs)}


def run_fault_unit(unit, mod, ui, start, progress):
    from props import _g11_inject as J
    g = {'__name__': unit['name'] + '_ref', '__builtins__': __builtins__}
    exec(compile(unit['source'], '<ref:%s>' % unit['name'], 'exec'), g)
    evals, mism, pairs = 0, [], set()
    ns = J.namespace()
    for fi, (fname, argexpr) in enumerate(unit['work']):
        if fi < start[0]:
            continue
        cf, rf = getattr(mod, fname), g[fname]
        code = compile(argexpr, '<args>', 'eval')
        mk = lambda: eval(code, ns)
        k0 = start[1] if fi == start[0] else 0
        # N = number of fallible calls of the reference run (deviation 0 of the compiled run may be the crashing case)
        n = J.run_one(rf, mk, ())['n']
        for k in range(k0, n + 1):
            t = (k,) if k else ()
            progress(ui, fi, k)
            rc = J.run_one(cf, mk, t)
            rr = J.run_one(rf, mk, t)
            evals += 1
            pairs.add(hash((fname, repr(rr['outcome']))))
            same_prefix = (rc['log'] == rr['log']) if not k else (rc['log'][:k] == rr['log'][:k])
            if same_prefix and rc['outcome'] != rr['outcome'] and len(mism) < 200:
                mism.append([fname, 'k=%d' % k, [argexpr], rr['outcome'], rc['outcome']])
    return {'kind': 'fault', 'evals': evals, 'mismatches': mism, 'pairs': len(pairs)}


if __name__ == '__main__':
    sys.exit(main(sys.argv[1:]))
