"""C26 world: compiled module with global/builtin read sites vs the same source run by CPython.
Imported by the zygote engine (_g7_zygote.py) in a fresh interpreter; also imported by the check for MOD_SRC/OPS."""
import sys, os, builtins, importlib.machinery, importlib.util, types

MOD_SRC = '''
X = 'x0'
Y = 'y0'

def rdX1():
    return X

def rdX2():
    return X

def rdXX():
    return (X, X)

def rdY():
    return Y

def rdoct():
    return oct

def calloct():
    return oct(8)

def rdund():
    return divmod

def callund():
    return round(7)

def rdloop():
    r = []
    for i in range(3):
        r.append(X)
    return r

def setX(v):
    global X
    X = v

def delX():
    global X
    del X

def setoct(v):
    global oct
    oct = v

def deloct():
    global oct
    del oct

def set_then_read(v):
    global X
    a = X
    X = v
    return (a, X)
'''


class Fake:
    def __init__(self, tag):
        self.tag = tag

    def __repr__(self):
        return '<fake %s>' % self.tag

    def __call__(self, *a):
        return ('called', self.tag) + a


FAKE_M, FAKE_C, FAKE_B, FAKE_U = Fake('mod'), Fake('cmod'), Fake('builtins'), Fake('und')
ORIG_OCT, ORIG_DIVMOD, ORIG_ROUND = builtins.oct, builtins.divmod, builtins.round

# read groups: A = one site alone, B = all other sites (distinct static caches each)
GROUP_A = ['rdX1']
GROUP_B = ['rdX2', 'rdXX', 'rdY', 'rdoct', 'calloct', 'rdloop']
GROUP_U = ['rdund', 'callund']          # undeclared builtin name: only with Options.cache_builtins = False

WRITES = ['w_sXa', 'w_sXb', 'w_dX', 'w_dictXa', 'w_popX', 'c_sXc', 'c_dX', 'c_str', 'w_Z', 'w_soct', 'w_doct', 'c_soct',
          'c_doct', 'b_sX', 'b_dX', 'b_soct', 'b_roct']
WRITES_T = []
WRITES_U = ['b_sund', 'b_rund']
READS = ['RA', 'RB']

CFG = {}
IMPL = REF = None


def init(cfg):
    global IMPL, REF
    CFG.update(cfg)
    loader = importlib.machinery.ExtensionFileLoader(cfg['modname'], cfg['so'])
    spec = importlib.util.spec_from_file_location(cfg['modname'], cfg['so'], loader=loader)
    IMPL = importlib.util.module_from_spec(spec)
    loader.exec_module(IMPL)
    REF = types.ModuleType('c26ref')
    exec(compile(MOD_SRC, '<c26ref>', 'exec'), REF.__dict__)


def ops_enabled(cfg=None):
    """Operations enabled in the CURRENT state of the reference (presence-dependent deletes)."""
    cfg = cfg or CFG
    d = REF.__dict__
    ops = []
    for o in WRITES + (WRITES_T if cfg.get('thorough') else []) + (WRITES_U if cfg.get('nocache') else []):
        if o in ('w_dX', 'w_popX') and 'X' not in d:
            continue
        if o in ('w_doct', 'c_doct') and 'oct' not in d:
            continue
        if o == 'c_dX' and 'X' not in d:
            continue            # `del X` of a missing global is not a lookup (Cython: AttributeError, CPython: NameError)
        if o == 'b_dX' and not hasattr(builtins, 'X'):
            continue
        if o == 'b_sX' and hasattr(builtins, 'X'):
            continue
        if o == 'b_roct' and builtins.oct is ORIG_OCT:
            continue
        if o == 'b_soct' and builtins.oct is not ORIG_OCT:
            continue
        if o == 'b_rund' and builtins.divmod is ORIG_DIVMOD:
            continue
        if o == 'b_sund' and builtins.divmod is not ORIG_DIVMOD:
            continue
        ops.append(o)
    return ops + READS


def _call(f, *a):
    try:
        return ('ok', repr(f(*a)))
    except Exception as e:
        return ('exc', type(e).__name__)


def _write(m, op):
    """Apply a module-level write to module m (compiled or reference).  Returns an outcome."""
    if op == 'w_sXa':
        return _call(setattr, m, 'X', 'a')
    if op == 'w_sXb':
        return _call(setattr, m, 'X', 'b')
    if op == 'w_dX':
        return _call(delattr, m, 'X')
    if op == 'w_dictXa':
        return _call(m.__dict__.__setitem__, 'X', 'a')
    if op == 'w_popX':
        return _call(m.__dict__.pop, 'X', None)
    if op == 'c_sXc':
        return _call(m.setX, 'c')
    if op == 'c_dX':
        return _call(m.delX)
    if op == 'c_str':
        return _call(m.set_then_read, 'd')
    if op == 'w_Z':
        setattr(m, 'Z', object())
        return ('ok', 'None')
    if op == 'w_soct':
        return _call(setattr, m, 'oct', FAKE_M)
    if op == 'w_doct':
        return _call(delattr, m, 'oct')
    if op == 'c_soct':
        return _call(m.setoct, FAKE_C)
    if op == 'c_doct':
        return _call(m.deloct)
    raise ValueError(op)


def _bwrite(op):
    if op == 'b_sX':
        builtins.X = 'q'
    elif op == 'b_dX':
        del builtins.X
    elif op == 'b_soct':
        builtins.oct = FAKE_B
    elif op == 'b_roct':
        builtins.oct = ORIG_OCT
    elif op == 'b_sund':
        builtins.divmod = builtins.round = FAKE_U
    elif op == 'b_rund':
        builtins.divmod = ORIG_DIVMOD
        builtins.round = ORIG_ROUND
    else:
        raise ValueError(op)


def _sites(op):
    g = GROUP_A if op == 'RA' else GROUP_B + (GROUP_U if CFG.get('nocache') else [])
    return g


def reset():
    """Restore the initial bindings in builtins, the compiled module and the reference.  The final write of a fresh
    object guarantees a dict-version bump, so every per-site cache of the compiled module is invalid afterwards."""
    if builtins.oct is not ORIG_OCT:
        builtins.oct = ORIG_OCT
    if builtins.divmod is not ORIG_DIVMOD:
        builtins.divmod = ORIG_DIVMOD
        builtins.round = ORIG_ROUND
    if hasattr(builtins, 'X'):
        del builtins.X
    for m in (IMPL, REF):
        d = m.__dict__
        d.pop('oct', None)
        d.pop('Z', None)
        m.X = 'x0'
        m.Y = 'y0'
        d['_reset'] = object()


def replay(hist):
    """Reset, then run hist on the compiled module and the reference; compare after every step."""
    reset()
    outs = []
    last = {'RA': None, 'RB': None}
    fresh = {'RA': False, 'RB': False}
    div = None
    for i, op in enumerate(hist):
        if op in READS:
            a = tuple((s, _call(getattr(IMPL, s))) for s in _sites(op))
            b = tuple((s, _call(getattr(REF, s))) for s in _sites(op))
            last[op] = b
            fresh[op] = True
        elif op.startswith('b_'):
            _bwrite(op)
            a = b = ('ok', 'None')
        else:
            a = _write(IMPL, op)
            b = _write(REF, op)
            fresh['RA'] = fresh['RB'] = False
        outs.append(b)
        if a != b:
            div = (i, op, b, a)
            break
    d = REF.__dict__
    key = (repr(d.get('X')), repr(d.get('oct')), repr(getattr(builtins, 'X', None)), repr(builtins.oct),
           repr(builtins.divmod), last['RA'], fresh['RA'], last['RB'], fresh['RB'])
    return {'div': div, 'outs': outs, 'key': key, 'enabled': ops_enabled() if div is None else []}


def _vclass(v):
    """Reduce a read outcome to its class."""
    if v[0] == 'exc':
        return v[1]
    r = v[1]
    if 'fake' in r:
        return 'shadow'
    if 'built-in' in r:
        return 'builtin'
    return 'value'


def div_class(div):
    """(index, op, ref outcome, got outcome) -> 'site:expected-class->got-class'"""
    i, op, ref, got = div
    if op in READS:
        for (s, rv), (_, gv) in zip(ref, got):
            if rv != gv:
                rc, gc = _vclass(rv), _vclass(gv)
                if rc == gc:
                    rc, gc = 'current-' + rc, 'stale-' + gc
                return '%s:%s->%s' % (s, rc, gc)
    return '%s:%s->%s' % (op, _vclass(ref), _vclass(got))
