"""Reference model for C17: PEP-3118 / struct-module format strings -> leaf layout, and the matcher against a
declared dtype.  Independent of Cython's parser: a format is an AST generated from the grammar (never parsed back),
its layout is computed with the struct module's rules (native sizes+alignment for '@', native sizes without
alignment for '^', standard sizes without alignment for '=' and '<'), cross-checked against struct.calcsize for
every format the struct module itself understands."""
import struct, itertools

NATIVE = {'c': 1, 'b': 1, 'B': 1, '?': 1, 'h': 2, 'H': 2, 'i': 4, 'I': 4, 'l': struct.calcsize('l'), 'L': struct.calcsize('L'),
          'q': 8, 'Q': 8, 'n': struct.calcsize('n'), 'N': struct.calcsize('N'), 'e': 2, 'f': 4, 'd': 8, 'g': 16,
          'Zf': 8, 'Zd': 16, 'Zg': 32, 'P': struct.calcsize('P'), 'O': struct.calcsize('P'), 's': 1, 'p': 1}
NATIVE_ALIGN = dict(NATIVE, Zf=4, Zd=8, Zg=16)
STANDARD = {'c': 1, 'b': 1, 'B': 1, '?': 1, 'h': 2, 'H': 2, 'i': 4, 'I': 4, 'l': 4, 'L': 4, 'q': 8, 'Q': 8, 'e': 2, 'f': 4, 'd': 8,
            'Zf': 8, 'Zd': 16, 's': 1, 'p': 1}       # no standard size: g Zg n N P (O: not a struct code at all)
GROUP = {'c': 'H', 'b': 'I', 'h': 'I', 'i': 'I', 'l': 'I', 'q': 'I', 'n': 'I', 'B': 'U', 'H': 'U', 'I': 'U', 'L': 'U', 'Q': 'U', 'N': 'U',
         '?': 'U', 'e': 'R', 'f': 'R', 'd': 'R', 'g': 'R', 'Zf': 'C', 'Zd': 'C', 'Zg': 'C', 'O': 'O', 'P': 'P', 's': 'S', 'p': 'S'}
STRUCT_CODES = set('xcbB?hHiIlLqQnNefdspP')


def mode_of(prefix):
    return {'': '@', '@': '@', '^': '^', '=': '=', '<': '=', '>': 'BE', '!': 'BE'}[prefix]


def cnt(c):
    return 1 if c == '' else int(c)


def render(prefix, items, style=0):
    """style 0: plain; 1: ':name:' after every code item; 2: a blank between items."""
    k = [0]

    def one(it):
        if it[0] == 'T':
            return '%sT{%s}' % (it[1], join(it[2]))
        s = '%s%s' % (it[1], it[0])
        if style == 1 and it[0] != 'x':
            k[0] += 1
            s += ':f%d:' % k[0]
        return s

    def join(its):
        return (' ' if style == 2 else '').join(one(i) for i in its)
    return prefix + join(items)


class Unsizable(Exception):
    pass


def _size_align(code, mode):
    if mode == '@':
        return NATIVE[code], NATIVE_ALIGN[code]
    if mode == '^':
        return NATIVE[code], 1
    if code not in STANDARD:
        raise Unsizable(code)
    return STANDARD[code], 1


def _max_align(items, mode):
    m = 1
    for it in items:
        if it[0] == 'x':
            continue
        if it[0] == 'T':
            m = max(m, _max_align(it[2], mode))
        else:
            m = max(m, _size_align(it[0], mode)[1])
    return m


def _first_align(items, mode):
    for it in items:
        if it[0] == 'x':
            continue
        if it[0] == 'T':
            return _first_align(it[2], mode)
        return _size_align(it[0], mode)[1]
    return 1


def _walk(items, mode, rule, off, leaves):
    for it in items:
        if it[0] == 'x':
            off += cnt(it[1])
        elif it[0] == 'T':
            for _ in range(cnt(it[1])):
                if rule == 'c':
                    a = _max_align(it[2], mode)
                    off += -off % a
                off = _walk(it[2], mode, rule, off, leaves)
                a = {'c': _max_align, 'first': _first_align}.get(rule, lambda *_: 1)(it[2], mode)
                off += -off % a
        else:
            size, align = _size_align(it[0], mode)
            for _ in range(cnt(it[1])):
                off += -off % align
                leaves.append((off, GROUP[it[0]], size))
                off += size
    return off


def layout(prefix, items):
    """-> dict(status='ok'|'bigendian'|'unsizable'|'ambiguous', leaves=[(offset, group, size)], size=int)."""
    mode = mode_of(prefix)
    if mode == 'BE':
        try:
            lv = []
            size = _walk(items, '=', 'none', 0, lv)
        except Unsizable:
            size = None
        return dict(status='bigendian', leaves=None, size=size)
    res = []
    try:
        for rule in ('c', 'first', 'none'):
            lv = []
            size = _walk(items, mode, rule, 0, lv)
            res.append((lv, size))
    except Unsizable:
        return dict(status='unsizable', leaves=None, size=None)
    if res[0] != res[1] or res[0] != res[2]:
        return dict(status='ambiguous', leaves=res[1][0], size=res[1][1])
    return dict(status='ok', leaves=res[0][0], size=res[0][1])


def struct_calcsize(prefix, items):
    """struct.calcsize for formats inside the struct module's own grammar (no T{}, no Z, no g/O, prefix not '^'), else None."""
    if prefix == '^':
        return None
    for it in items:
        if it[0] not in STRUCT_CODES:
            return None
    try:
        return struct.calcsize(render(prefix, items))
    except struct.error:
        return None


# ------------------------------------------------------------------------------------------ declared dtypes
def _L(code, off=0):
    return (off, GROUP[code], NATIVE[code])


DTYPES = {
    # name: (cython type text, leaves, sizeof, signed-ness per leaf for value decoding)
    'char': ('char', [_L('c')], 1),
    'schar': ('signed char', [_L('b')], 1),
    'uchar': ('unsigned char', [_L('B')], 1),
    'short': ('short', [_L('h')], 2),
    'ushort': ('unsigned short', [_L('H')], 2),
    'int': ('int', [_L('i')], 4),
    'uint': ('unsigned int', [_L('I')], 4),
    'long': ('long', [_L('l')], NATIVE['l']),
    'ulong': ('unsigned long', [_L('L')], NATIVE['L']),
    'longlong': ('long long', [_L('q')], 8),
    'ulonglong': ('unsigned long long', [_L('Q')], 8),
    'float': ('float', [_L('f')], 4),
    'double': ('double', [_L('d')], 8),
    'longdouble': ('long double', [_L('g')], 16),
    'cfloat': ('float complex', [_L('Zf')], 8),
    'cdouble': ('double complex', [_L('Zd')], 16),
    'PK': ('PK', [_L('c', 0), _L('i', 1), _L('d', 5)], 13),
    'AL': ('AL', [_L('c', 0), _L('i', 4), _L('d', 8)], 16),
    'NS': ('NS', [_L('c', 0), _L('i', 4), _L('h', 8), _L('d', 16)], 24),
    'CS': ('CS', [(0, 'R2', 8), (8, 'R2', 8)], 16),
    'T3': ('T3', [_L('i', 0), _L('i', 4), _L('i', 8)], 12),      # struct {int a, b, c}: repeat counts / pooling          # struct {double re; double im}: matches 'dd' and 'Zd'
}
DTYPE_FIELDS = {'T3': ['a', 'b', 'c'], 'CS': ['re', 'im'], 'PK': ['c', 'i', 'd'], 'AL': ['c', 'i', 'd'], 'NS': ['a', ('inner', ['x', 'y']), 'd']}
SIGNED_CHAR = True      # plain char is signed on this platform (x86-64 gcc)


def leaf_match(f, d):
    return f[0] == d[0] and f[2] == d[2] and (f[1] == d[1] or 'H' in (f[1], d[1]))


def match(fl, dl):
    """Format leaves vs dtype leaves.  A struct of two equal floats (dtype leaves marked 'R2') also matches one complex
    leaf (documented special case in Buffer.py: such structs are encoded as complex numbers with fields)."""
    i = 0
    k = 0
    while k < len(dl):
        d = dl[k]
        if d[1] == 'R2':
            if i < len(fl) and fl[i] == (d[0], 'C', 2 * d[2]):
                i += 1
                k += 2
                continue
            d = (d[0], 'R', d[2])
        if i < len(fl) and leaf_match(fl[i], d):
            i += 1
            k += 1
        else:
            return False
    return i == len(fl)


def expect(lay, dtype_name, itemsize):
    """'accept' | 'reject' | None (no expectation: ambiguous layout)."""
    _, dl, dsize = DTYPES[dtype_name]
    if lay['status'] in ('bigendian', 'unsizable'):
        return 'reject'
    if not match(lay['leaves'], dl):
        return 'reject' if lay['status'] == 'ok' else None
    if lay['status'] != 'ok':
        return None
    return 'accept' if itemsize == dsize else 'reject'


# ------------------------------------------------------------------------------------------ value decoding
def _nan_eq(a, b):
    if isinstance(a, float) and isinstance(b, float):
        return a == b or (a != a and b != b)
    if isinstance(a, complex) and isinstance(b, complex):
        return _nan_eq(a.real, b.real) and _nan_eq(a.imag, b.imag)
    if isinstance(a, dict) and isinstance(b, dict):
        return a.keys() == b.keys() and all(_nan_eq(a[k], b[k]) for k in a)
    if isinstance(a, list) and isinstance(b, list):
        return len(a) == len(b) and all(_nan_eq(x, y) for x, y in zip(a, b))
    return type(a) is type(b) and a == b


def _decode_leaf(raw, base, leaf):
    off, grp, size = leaf
    b = raw[base + off: base + off + size]
    if grp in ('I', 'U', 'H'):
        signed = grp == 'I' or (grp == 'H' and SIGNED_CHAR)
        return int.from_bytes(b, 'little', signed=signed)
    if grp in ('R', 'R2'):
        if size == 16:
            import numpy as np
            return float(np.frombuffer(bytes(b), dtype=np.longdouble)[0])
        return struct.unpack_from('<f' if size == 4 else '<d', b)[0]
    if grp == 'C':
        h = size // 2
        return complex(_decode_leaf(raw, base, (off, 'R', h)), _decode_leaf(raw, base, (off + h, 'R', h)))
    raise ValueError(grp)


def decode(raw, base, dtype_name):
    _, dl, _ = DTYPES[dtype_name]
    vals = [_decode_leaf(raw, base, l) for l in dl]
    f = DTYPE_FIELDS.get(dtype_name)
    if f is None:
        return vals[0]
    it = iter(vals)

    def build(fields):
        out = {}
        for x in fields:
            if isinstance(x, tuple):
                out[x[0]] = build(x[1])
            else:
                out[x] = next(it)
        return out
    return build(f)
