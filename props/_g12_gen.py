"""Program generators for C43 (compiler robustness): grammar-bounded valid programs, literal-focused
programs, and the seed corpus + mutation operators for the invalid-input family.

Templates use placeholders:  $a $b $c $d  bound names (load and store allowed; expression slots),
$l fresh local (annotation target), $m $n fresh binders (match captures), $q def/class name,
$G module global, $N name of the enclosing function (nonlocal-able), $B1 $B2 .. block holes (own line).
A statement is instantiated with namespace 1 (a b c d ..) when it is the outer/first statement and with
namespace 2 (e f g h ..) when it is the inner/second one, so the two never interfere (no use-after-del,
no definitely-unbound local produced on purpose).
"""
import re, io, tokenize, sys

NS = {
    1: dict(a='a', b='b', c='c', d='d', l='l1', m='m1', n='n1', q='q1', G='G1', N='N1'),
    2: dict(a='e', b='f', c='g', d='h', l='l2', m='m2', n='n2', q='q2', G='G2', N='N2'),
}
_PH = re.compile(r'\$([abcdlmnqGN])(?![0-9A-Za-z_])')
_SLOT = re.compile(r'\$([abcd])(?![0-9A-Za-z_])')


LOCAL_MARK, GLOBAL_MARK = '\x01', '\x02'


def inst(t, ns):
    """Instantiate the placeholders with the names of namespace ns.  Every name is followed by a marker
    character that finish() later removes (function/class contexts) or turns into a per-program suffix
    (module-level programs and module globals), so that packed programs never share a module-level name."""
    d = NS[ns]
    return _PH.sub(lambda m: d[m.group(1)] + (GLOBAL_MARK if m.group(1) == 'G' else LOCAL_MARK), t)


def finish(text, idx, modlevel=False):
    suf = '_%d' % idx
    return text.replace(GLOBAL_MARK, suf).replace(LOCAL_MARK, suf if modlevel else '')


def fill(t, blocks):
    """Replace block holes ($B1..) by the given statement texts (missing -> pass).  A hole on its own line takes any
    statement (re-indented); an inline hole ('if $a: $B1') takes one-line statements only - None is returned when the
    requested filling is not expressible (a compound statement after the colon), and the caller skips it."""
    out = []
    prev = ''
    for line in t.split('\n'):
        s = line.strip()
        # an unfocused hole is 'pass', except the body of a try statement: a try body that cannot raise lets the
        # compiler drop the exception path (handlers, the exception copy of the finally clause), so it is a call
        filler = 'print()' if prev in ('try:', 'try: ') else 'pass'
        prev = s
        if s.startswith('$B'):
            ind = line[:len(line) - len(line.lstrip())]
            body = blocks.get(s[1:], filler)
            out.extend(ind + x for x in body.split('\n'))
        elif '$B' in line:
            m = re.search(r'\$(B\d)', line)
            body = blocks.get(m.group(1), 'print()' if s.startswith('try:') else 'pass')
            if '\n' in body or re.match(r'(if|while|for|try|with|async|def|class|match|@)\b', body):
                return None
            out.append(line[:m.start()] + body + line[m.end():])
        else:
            out.append(line)
    return '\n'.join(out)


def holes(t):
    return re.findall(r'\$(B\d)', t)


# ---------------------------------------------------------------------------- simple statements
AUG = ['+', '-', '*', '/', '//', '%', '@', '**', '>>', '<<', '&', '^', '|']
SIMPLE = [
    # assignment forms
    '$a = $b', '$a = $b = $c', '$a, $b = $c', '$a, *$b = $c', '[$a, $b] = $c', '($a, $b), $c = $d', '*$a, = $b',
    '$a.x = $b', '$a[$b] = $c', '$a[$b:$c] = $d', '$a.x, $b[0] = $c', '$a = $b, $c', '$a = *$b, $c', '$a = $b = $c, $d',
    '$a[$b], *$c = $d', '$a[::2] = $b', '$a[$b, $c] = $d', '$a = 1', '$a = "s"', '$a, $b = $b, $a', '$a, $b = 1, 2',
    '$a.x.y = $b', '$a[0][1] = $b', '$a().x = $b', '($a) = $b', '[$a] = $b', '$a, = $b',
] + ['$a %s= $b' % o for o in AUG] + [
    '$a.x += $b', '$a[$b] += $c', '$a[$b:$c] += $d', '$a.x **= 2', '$a[$b] //= 2', '$a[$b, $c] |= $d', '$a += 1', '$a += "s"',
    '$a -= 1.5', '$a *= $b, $c',
    # annotated assignment
    '$l: int', '$l: int = $b', '$l: "str" = $b', '$l: list[int] = $b', '$l: object', '$a.x: int = $b', '$a[$b]: int = $c',
    '$a.x: int', '($l): int = $b', '$l: $a = $b', '$l: $a.x', '$l: int = yield', '$l: float = 1', '$l: str = "s"',
    '$l: tuple[int, ...] = $b', '$l: None = None',
    # del
    'del $a', 'del $a.x', 'del $a[$b]', 'del $a[$b:$c]', 'del $a, $b', 'del ($a, $b)', 'del [$a]', 'del $a.x, $b[0]',
    'del $a[::2]', 'del ($a)',
    # pass / assert / raise
    'pass', 'assert $a', 'assert $a, $b', 'assert $a, "msg"', 'assert ($a, $b)', 'assert not $a', 'assert $a == $b, $c',
    'raise', 'raise $a', 'raise $a from $b', 'raise $a from None', 'raise $a($b)', 'raise ValueError', 'raise ValueError("x") from $a',
    # return / yield / await
    'return', 'return $a', 'return $a, $b', 'return *$a, $b', 'return None', 'return 1', 'return ($a)', 'return lambda: $a',
    'yield', 'yield $a', 'yield $a, $b', 'yield *$a, $b', '$a = yield $b', '$a = yield', 'yield from $a', '$a = yield from $b',
    '$a += yield', '$a += yield $b', '$a = $b = yield $c', '$a.x = yield', '$a[$b] = yield from $c',
    'await $a', '$a = await $b', '$a += await $b', 'return await $a', 'yield await $a', '$a = await $b, await $c',
    # global / nonlocal
    'global $G', 'global $G, G3', 'global $G; $G = $a', 'global $G; $G += 1', 'global $G; del $G', 'global $G; import $G',
    'global $G\nfor $G in $a:\n    pass', 'global $G\ndef $G():\n    pass', 'global $G\nclass $G:\n    pass',
    'global $G\nwith $a as $G:\n    pass', 'global $G; $G: int = 1',
    'nonlocal $N', 'nonlocal $N, N3', 'nonlocal $N; $N = $a', 'nonlocal $N; $N += 1', 'nonlocal $N\nfor $N in $a:\n    pass',
    'nonlocal $N\ndef $N():\n    pass', 'nonlocal $N; del $N', 'nonlocal $N\nwith $a as $N:\n    pass', 'nonlocal $N; import $N',
    # imports
    'import os', 'import os.path', 'import os as $a', 'import os, sys', 'import os.path as $a', 'import os.path, sys as $a',
    'from os import path', 'from os import path as $a', 'from os import (path, sep)', 'from os import (path,\n    sep,)',
    'from os import path as $a, sep as $b', 'from os.path import join', 'from . import x', 'from .. import x', 'from .m import x',
    'from ... import x', 'from .m.n import x as $a', 'from os import *', 'from . import *', 'from .... import x',
    'import a.b.c.d', 'import a.b.c as $a',
    # expression statements
    '$a', '$a($b)', '...', '"doc"', '$a.x', '$a if $b else $c', 'lambda: $a', '($a := $b)', '$a[$b]', '1', '$a, $b', '*$a, $b',
    '[$a for $a in $b]', 'b"doc"', 'f"{$a}"', '$a; $b', '$a = $b; $c = $d', 'pass; pass', '$a;', 'None', '$a == $b', '-$a',
    '$a.m($b).n($c)', 'print($a)', '$a and $b',
    # loop control (valid only inside loops; CPython decides)
    'break', 'continue',
]

# ---------------------------------------------------------------------------- compound statements
COMPOUND = [
    'if $a:\n    $B1', 'if $a:\n    $B1\nelse:\n    $B2', 'if $a:\n    $B1\nelif $b:\n    $B2\nelse:\n    $B3',
    'if $a:\n    $B1\nelif $b:\n    $B2', 'if $a:\n    $B1\nelif $b:\n    $B2\nelif $c:\n    $B3',
    'if $a: $B1', 'if True:\n    $B1\nelse:\n    $B2', 'if 0:\n    $B1', 'if not $a:\n    $B1', 'if $a is None:\n    $B1',
    'if ($a := $b):\n    $B1', 'if $a and $b or $c:\n    $B1\nelse:\n    $B2', 'if __debug__:\n    $B1',
    'while $a:\n    $B1', 'while $a:\n    $B1\nelse:\n    $B2', 'while True:\n    $B1', 'while 1:\n    $B1\nelse:\n    $B2',
    'while ($a := $b):\n    $B1', 'while not $a:\n    $B1', 'while 0:\n    $B1', 'while $a < $b:\n    $B1',
    'for $a in $b:\n    $B1', 'for $a in $b:\n    $B1\nelse:\n    $B2', 'for $a, $b in $c:\n    $B1', 'for $a.x in $b:\n    $B1',
    'for $a[0] in $b:\n    $B1', 'for $a, *$b in $c:\n    $B1', 'for $a in range($b):\n    $B1',
    'for $a in range($b, $c, 2):\n    $B1\nelse:\n    $B2', 'for $a in range($b, $c, -1):\n    $B1', 'for $a in range($b, $c, $d):\n    $B1',
    'for $a in $b, $c:\n    $B1', 'for $a in *$b, $c:\n    $B1', 'for $c, $a in enumerate($b):\n    $B1',
    'for $a in reversed($b):\n    $B1', 'for $a, $b in $c.items():\n    $B1', 'for $a in $c.keys():\n    $B1',
    'for $a in $c.values():\n    $B1', 'for $a in sorted($b):\n    $B1', 'for $a in "abc":\n    $B1', 'for $a in b"abc":\n    $B1',
    'for $a in [1, 2, 3]:\n    $B1', 'for $a in (1, 2):\n    $B1', 'for $a in {1, 2}:\n    $B1', 'for $a in []:\n    $B1',
    'for ($a, $b) in zip($c, $d):\n    $B1', 'for [$a, $b] in $c:\n    $B1', 'for $a, in $b:\n    $B1',
    'for ($a, $b), $c in $d:\n    $B1', 'for $a in reversed(range($b)):\n    $B1', 'for $a in enumerate($b, 1):\n    $B1',
    'for $a in iter($b):\n    $B1', 'for $a in (x for x in $b):\n    $B1', 'for $a in [x for x in $b]:\n    $B1',
    'for $a in $b[::2]:\n    $B1', 'for $a in $b if $c else $d:\n    $B1', 'for $a in lambda: $b:\n    $B1',
    'for $a in (yield):\n    $B1', 'for $a in await $b:\n    $B1', 'for $a in list($b):\n    $B1', 'for $a in dict($b):\n    $B1',
    'for $a in set($b):\n    $B1', 'for $a in tuple($b):\n    $B1', 'for $a in $b: $B1',
    'for $c, $a in enumerate($b, $d):\n    $B1', 'for $c, $a in enumerate($b, 1):\n    $B1', 'for $a in range($b, $c):\n    $B1',
    'for $a in reversed(range($b, $c, 2)):\n    $B1', 'for $c, ($a, $b) in enumerate(zip($c, $d)):\n    $B1',
    'for $a, $b in $c.iteritems():\n    $B1', 'for $a in reversed($b.items()):\n    $B1', 'for $a in sorted($b, key=$c, reverse=True):\n    $B1',
    'for $a in enumerate(reversed($b)):\n    $B1', 'for $a in bytearray($b):\n    $B1', 'for $a in $b.x[$c]:\n    $B1',
    'try:\n    $B1\nexcept:\n    $B2', 'try:\n    $B1\nexcept $a:\n    $B2', 'try:\n    $B1\nexcept $a as $b:\n    $B2',
    'try:\n    $B1\nexcept ($a, $b):\n    $B2', 'try:\n    $B1\nexcept ($a, $b) as $c:\n    $B2',
    'try:\n    $B1\nexcept $a:\n    $B2\nexcept $b as $c:\n    $B3\nexcept:\n    $B4',
    'try:\n    $B1\nexcept $a:\n    $B2\nelse:\n    $B3', 'try:\n    $B1\nfinally:\n    $B2',
    'try:\n    $B1\nexcept $a:\n    $B2\nelse:\n    $B3\nfinally:\n    $B4', 'try:\n    $B1\nexcept $a:\n    $B2\nfinally:\n    $B3',
    'try:\n    $B1\nexcept ValueError:\n    $B2', 'try:\n    $B1\nexcept (ValueError, TypeError) as $a:\n    $B2',
    'try:\n    $B1\nexcept $a.x:\n    $B2', 'try:\n    $B1\nexcept $a():\n    $B2', 'try:\n    $B1\nexcept BaseException:\n    $B2',
    'try:\n    $B1\nexcept* $a:\n    $B2', 'try:\n    $B1\nexcept* ($a, $b) as $c:\n    $B2',
    'try:\n    $B1\nexcept* $a:\n    $B2\nelse:\n    $B3\nfinally:\n    $B4', 'try: $B1\nfinally: $B2',
    'with $a:\n    $B1', 'with $a as $b:\n    $B1', 'with $a as $b, $c as $d:\n    $B1', 'with ($a as $b, $c as $d):\n    $B1',
    'with ($a, $b):\n    $B1', 'with $a as ($b, $c):\n    $B1', 'with $a as $b.x:\n    $B1', 'with $a as $b[0]:\n    $B1',
    'with ($a):\n    $B1', 'with $a, $b:\n    $B1', 'with $a():\n    $B1', 'with $a as [$b, $c]:\n    $B1', 'with ($a as $b):\n    $B1',
    'with (\n    $a as $b,\n    $c as $d,\n):\n    $B1', 'with ($a, $b) as $c:\n    $B1', 'with $a as $b, $c:\n    $B1',
    'with $a as (*$b, $c):\n    $B1', 'with open($a) as $b:\n    $B1', 'with $a: $B1', 'with (yield):\n    $B1', 'with await $a:\n    $B1',
    'with $a, $b, $c, $d:\n    $B1',
    'async for $a in $b:\n    $B1', 'async for $a in $b:\n    $B1\nelse:\n    $B2', 'async for $a, $b in $c:\n    $B1',
    'async for $a.x in $b:\n    $B1', 'async with $a:\n    $B1', 'async with $a as $b:\n    $B1', 'async with $a, $b:\n    $B1',
    'async with $a as $b, $c as $d:\n    $B1', 'async with ($a as $b, $c as $d):\n    $B1', 'async with $a as ($b, $c):\n    $B1',
    # def / class
    'def $q():\n    $B1', 'def $q(x, /, y, z=1, *args, k, k2=2, **kw):\n    $B1', 'def $q(*, k):\n    $B1', 'def $q(x, /):\n    $B1',
    'def $q(*args):\n    $B1', 'def $q(**kw):\n    $B1', 'def $q(x, y=$a, *, k=$b):\n    $B1', 'def $q(x, /, *, k):\n    $B1',
    'def $q(x: int, y: "s" = 1, *args: int, k: int = 2, **kw: int) -> int:\n    $B1', 'def $q(x: $a, y: $b.x = $c) -> $d:\n    $B1',
    'def $q(x=1, /, y=2):\n    $B1', 'def $q(x, y, /, z):\n    $B1', 'def $q(*args, k=1, **kw):\n    $B1', 'def $q(x,):\n    $B1',
    'def $q(self, x=None, *a, **k):\n    $B1', 'def $q() -> None:\n    $B1', 'def $q(x=lambda: $a):\n    $B1', 'def $q(x=[y for y in $a]):\n    $B1',
    'def $q(x: list[int] = None) -> "int":\n    $B1', 'def $q(x=(yield)):\n    $B1', 'def $q(x=$a, y=$b, z=$c, *args, k=$d):\n    $B1',
    '@$a\ndef $q():\n    $B1', '@$a.x\ndef $q():\n    $B1', '@$a($b)\ndef $q():\n    $B1', '@$a[0]\ndef $q():\n    $B1',
    '@(lambda f: f)\ndef $q():\n    $B1', '@$a\n@$b\ndef $q():\n    $B1', '@$a.x.y($b, k=$c)\ndef $q(x):\n    $B1',
    '@staticmethod\ndef $q():\n    $B1', '@classmethod\ndef $q(cls):\n    $B1', '@property\ndef $q(self):\n    $B1',
    '@$a if $b else $c\ndef $q():\n    $B1', '@($a := $b)\ndef $q():\n    $B1',
    'async def $q():\n    $B1', 'async def $q(x, *a, k=1, **kw):\n    $B1', '@$a\nasync def $q():\n    $B1', 'def $q(): $B1',
    'class $q:\n    $B1', 'class $q():\n    $B1', 'class $q($a):\n    $B1', 'class $q($a, $b):\n    $B1', 'class $q(metaclass=$a):\n    $B1',
    'class $q($a, metaclass=$b, k=1):\n    $B1', 'class $q(*$a):\n    $B1', 'class $q(**$a):\n    $B1', '@$a\nclass $q:\n    $B1',
    '@$a($b)\n@$c\nclass $q($d):\n    $B1', 'class $q(object):\n    $B1', 'class $q($a.x, $b[0]):\n    $B1', 'class $q($a, *$b, k=$c, **$d):\n    $B1',
    'class $q(Exception):\n    $B1', 'class $q($a()):\n    $B1', 'class $q: $B1', 'class $q(k=$a):\n    $B1',
    'class $q:\n    def m(self):\n        $B1', 'class $q:\n    x = $a\n    def m(self, y=x):\n        $B1',
    'class $q:\n    @staticmethod\n    def m():\n        $B1', 'class $q:\n    @classmethod\n    def m(cls):\n        $B1',
    'class $q:\n    @property\n    def m(self):\n        $B1', 'class $q($a):\n    def m(self):\n        super().m()\n        $B1',
    'class $q:\n    def __init__(self):\n        self.x = $a\n        $B1', 'class $q:\n    __slots__ = ("x",)\n    $B1',
    'class $q:\n    class Inner:\n        $B1', 'class $q:\n    async def m(self):\n        $B1', 'class $q:\n    x: int\n    y: int = 1\n    $B1',
    'class $q:\n    def m(self):\n        return __class__\n    $B1',
]

PATTERNS = [
    '1', '-1', '1.5', '-1.5', '1+2j', '-1-2j', '2j', '"s"', 'b"s"', '"a" "b"', 'None', 'True', 'False', '$m', '_', '$a.x', '$a.x.y',
    '($m)', '[$m, $n]', '($m, $n)', '$m, $n', '[$m, *$n]', '[*_]', '[*$n, $m]', '[$m, *_, $n]', '[]', '()', '{}', '{"k": $m}',
    '{"k": $m, **$n}', '{1: _, $a.x: $m}', '{**$n}', 'int()', 'int($m)', '$a.C($m, k=$n)', 'str(k=1)', '1 | 2', '[$m] | {"k": $m}',
    '1 as $m', '[$m, $n] as z', '(1 | 2) as $m', '$m if $b', '[1, 2] | [3]', 'int() | str()', '[[$m], ($n,)]', '{"a": [$m, {"b": $n}]}',
    'int($m) | str($m)', '$m,', '*$m,', '[1, "s", None]', '{"k": 1 | 2}', 'int(real=0)', '$a.C(1, 2)', '$a.C()', '[_, _, *_]',
    '{None: $m, True: $n}', '{-1: $m, 1.5: $n}', '(($m))', '[$m] if $m', '_ if $b and $c', '"s" | b"s"', '[$m, *$n] as z', '-0', '0x10', '1_000',
    '{"k": $m, "j": $n, **z}', 'bool()', 'float($m)', 'tuple(($m, $n))', 'list([$m, *_])', 'dict({"k": $m})', '[*$m]', '(*$m, _)',
    '_ as $m', '$a.x as $m', '$a.x | $a.y', 'r"s"', 'f"s"', '"""s"""',
]
MATCH = (['match $a:\n    case %s:\n        $B1' % p for p in PATTERNS] + [
    'match $a:\n    case 1:\n        $B1\n    case _:\n        $B2', 'match $a, $b:\n    case $m, $n:\n        $B1',
    'match $a:\n    case [$m]:\n        $B1\n    case {"k": $m}:\n        $B2\n    case int($m):\n        $B3',
    'match ($a):\n    case _:\n        $B1', 'match $a.x:\n    case _:\n        $B1', 'match $a($b):\n    case _:\n        $B1',
    'match *$a, $b:\n    case _:\n        $B1', 'match $a if $b else $c:\n    case _:\n        $B1', 'match [$a, $b]:\n    case [$m, $n]:\n        $B1',
    'match $a:\n    case $m if $m > $b:\n        $B1\n    case $m:\n        $B2', 'match $a:\n    case 1: $B1',
    'match $a:\n    case 1 | 2:\n        $B1\n    case "s":\n        $B2\n    case None:\n        $B3\n    case _:\n        $B4',
    'match = $a\nmatch $a:\n    case _:\n        $B1', 'match $a:\n    case case:\n        $B1', 'match (yield):\n    case _:\n        $B1',
    'match await $a:\n    case _:\n        $B1', 'match -$a:\n    case _:\n        $B1', 'match $a[$b]:\n    case _:\n        $B1',
    'match $a,:\n    case $m,:\n        $B1', 'match ($a := $b):\n    case _:\n        $B1', 'match lambda: $a:\n    case _:\n        $B1',
    'match {"k": $a}:\n    case {"k": $m}:\n        $B1', 'match match:\n    case _:\n        $B1',
])
COMPOUND = COMPOUND + MATCH

# structural representatives: one compound per kind of block slot (used as OUTER statement at full inner width in quick)
STRUCT = [
    'if $a:\n    $B1\nelif $b:\n    $B2\nelse:\n    $B3', 'while $a:\n    $B1\nelse:\n    $B2', 'for $a in $b:\n    $B1\nelse:\n    $B2',
    'try:\n    $B1\nexcept $a as $b:\n    $B2\nelse:\n    $B3\nfinally:\n    $B4', 'try:\n    $B1\nfinally:\n    $B2', 'with $a as $b:\n    $B1', 'async for $a in $b:\n    $B1\nelse:\n    $B2', 'async with $a as $b:\n    $B1',
    'def $q():\n    $B1', 'async def $q():\n    $B1', 'class $q:\n    $B1',
    'class $q:\n    def m(self):\n        $B1', 'match $a:\n    case [$m, *$n] if $b:\n        $B1\n    case _:\n        $B2',
    'match $a:\n    case {"k": $m}:\n        $B1', 'match $a:\n    case int($m) | str($m):\n        $B1',
]

# a reduced set of statements (one per category) for the quadratic families in the quick tier
REDUCED = [
    '$a = $b', '$a, *$b = $c', '$a.x = $b', '$a[$b:$c] = $d', '$a += $b', '$a[$b] += $c', '$l: int = $b', '$l: int', 'del $a', 'del $a[$b]',
    'pass', 'assert $a, $b', 'raise $a from $b', 'raise', 'return $a', 'return', 'yield $a', '$a = yield', 'yield from $a', 'await $a',
    'global $G; $G = $a', 'nonlocal $N; $N = $a', 'import os.path as $a', 'from os import path as $a', 'from os import *', '$a($b)',
    'lambda: $a', '($a := $b)', '[$a for $a in $b]', 'break', 'continue',
    'if $a:\n    pass\nelse:\n    pass', 'while $a:\n    pass', 'for $a in $b:\n    pass', 'try:\n    pass\nexcept $a as $b:\n    pass',
    'try:\n    pass\nfinally:\n    pass', 'with $a as $b:\n    pass', 'def $q(x=$a):\n    return $b', 'def $q():\n    yield $a',
    'async def $q():\n    await $a', 'class $q($a):\n    x = $b', 'match $a:\n    case [$m, *$n]:\n        pass\n    case _:\n        pass',
    '@$a\ndef $q():\n    pass',
]

# ---------------------------------------------------------------------------- expressions
BIN = ['+', '-', '*', '/', '//', '%', '@', '**', '>>', '<<', '&', '^', '|']
CMP = ['<', '>', '<=', '>=', '==', '!=', 'is', 'is not', 'in', 'not in']
EXPR = [
    '$a', '1', '1.5', '2j', '"s"', 'b"s"', 'None', 'True', '...', '"s" "t"', 'f"x{$a}y"', 'f"{$a!r:>{$b}}"', 'f"{$a=}"', 'f"{$a:{$b}.{$c}}"',
    '1000000000000000000000000000000', '0x7fffffffffffffff', '-1', '1e300', '__debug__', '__name__',
    '$a.x', '$a[$b]', '$a[$b:$c]', '$a[$b:$c:$d]', '$a[:]', '$a[::2]', '$a[$b, $c]', '$a[$b:$c, ...]', '$a[*$b]', '$a[-1]', '$a[0]', '$a[1:]',
    '$a[:-1]', '$a["k"]', '$a[$b][$c]', '$a.x.y', '$a[$b:]', '$a[:$b]', '$a[::$b]',
    '$a()', '$a($b)', '$a($b, k=$c)', '$a(*$b)', '$a(**$b)', '$a($b, *$c, k=1, **$d)', '$a(x for x in $b)', '$a.m($b)', '$a($b)($c)',
    '$a(*$b, *$c)', '$a(**$b, **$c)', '$a(k=$b, *$c)', '$a($b,)', '$a(k=$b, j=$c)', '$a.m()', '$a.m(*$b, **$c)', '$a($b, $c, $d)',
    '-$a', '+$a', '~$a', 'not $a', '- -$a', 'not not $a', '-(1)', '~1',
] + ['$a %s $b' % o for o in BIN] + ['$a ** -$b', '$a + $b * $c', '($a + $b) * $c', '$a + 1', '1 + $a', '$a * 2', '$a // 2', '$a % 2',
    '$a == 1', '$a << 1', '2 ** $a', '$a & 255', '1 + 2', '"s" + "t"', '"s" * 3', '$a - 1.5', '$a / 2.0',
    '$a and $b', '$a or $b', '$a and $b or $c', '$a and $b and $c', 'not $a or $b', '$a or 1', '$a and None',
] + ['$a %s $b' % o for o in CMP] + ['$a < $b < $c', '$a is None', '$a is not None', '$a in ($b, $c)', '$a in "abc"', '$a not in [1, 2]',
    '$a == $b == $c', '$a < $b > $c != $d', '$a in {1, 2}', '$a in []', '$a == "s"', '$a != b"s"', '$a is $b is $c', '1 < $a <= 2',
    '$a if $b else $c', '$a if $b else $c if $d else 1', '1 if $a else 2', 'lambda: $a', 'lambda x, /, y=1, *a, k, **kw: (x, $a)',
    'lambda x=$a: x', 'lambda *a, **k: $a', 'lambda x: lambda y: x + y + $a', 'lambda: (yield)', 'lambda: [x for x in $a]', 'lambda *, k=$a: k',
    '[]', '[$a]', '[$a, $b]', '($a,)', '($a, $b)', '()', '{$a}', '{$a, $b}', '{}', '{$a: $b}', '{$a: $b, **$c}', '[*$a, $b]', '(*$a, $b)',
    '{*$a, $b}', '{**$a}', '{**$a, "k": $b}', '[1, 2, 3]', '(1, "s", None)', '{"k": 1}', '{1, 2}', '[[$a]]', '[$a, [$b, ($c, {$d})]]',
    '[x for x in $a]', '[x for x in $a if $b]', '[x + y for x in $a for y in $b]', '{x for x in $a}', '{x: $b for x in $a}', '(x for x in $a)',
    '[x async for x in $a]', '[await x for x in $a]', '[[y for y in x] for x in $a]', '[x for x, y in $a]', '[(w := x) for x in $a]',
    '[x for x in $a if x if $b]', '{x: y for x, y in $a}', '(x async for x in $a)', '{x async for x in $a}', '{x: x async for x in $a}',
    '[x for x in range($a)]', '[x for x in $a for y in x for z in y]', '[lambda: x for x in $a]', '[x for x in (yield)]', '(await x for x in $a)',
    '[x for x in $a if (yield)]', '[$a for _ in $b]', '[x for x in [y for y in $a]]', '[x for x.y in $a]', '[x for x[0] in $a]', '[x for *x, y in $a]',
    'list(x for x in $a)', 'set(x for x in $a)', 'dict((x, x) for x in $a)', 'tuple(x for x in $a)', 'sum(x for x in $a)', 'any(x for x in $a)',
    'all(x for x in $a)', 'sorted(x for x in $a)', 'min(x for x in $a)', '"".join(x for x in $a)', 'sum([x for x in $a])', 'any([x for x in $a])',
    'await $a', '(yield)', '(yield $a)', '(yield from $a)', '(w := $a)', '(yield $a, $b)', 'await $a($b)', '(w := $a) + w',
    'len($a)', 'isinstance($a, $b)', 'getattr($a, "x", $b)', 'type($a)', 'abs($a)', 'int($a)', 'str($a)', '"%s %r" % ($a, $b)', '"{}".format($a)',
    '$a.append($b)', 'dict(k=$a)', 'list($a)', 'tuple($a)', 'sorted($a)', 'min($a, $b)', '$a.get($b)', '"".join($a)', 'super()', 'float($a)',
    'bool($a)', 'bytes($a)', 'repr($a)', 'hash($a)', 'iter($a)', 'next($a)', 'next($a, $b)', 'getattr($a, $b)', 'setattr($a, "x", $b)',
    'hasattr($a, "x")', 'callable($a)', 'ord($a)', 'chr($a)', 'divmod($a, $b)', 'pow($a, $b)', 'pow($a, $b, $c)', 'round($a)', 'max($a, $b, $c)',
    'isinstance($a, (int, str))', 'isinstance($a, int)', 'issubclass($a, $b)', 'type($a, $b, $c)', 'len($a) == 0', 'id($a)', 'dir()', 'locals()',
    'globals()', 'vars()', 'eval($a)', 'exec($a)', 'exec($a, $b)', 'exec($a, $b, $c)', 'dict($a)', 'dict($a, k=$b)', 'dict(**$a)', 'set($a)',
    'frozenset($a)', 'set()', 'list()', 'tuple()', 'dict()', 'str()', 'int()', 'float()', 'bytes()', 'object()', 'slice($a)', 'slice($a, $b, $c)',
    'range($a)', 'enumerate($a)', 'zip($a, $b)', 'map($a, $b)', 'filter($a, $b)', 'reversed($a)', 'memoryview($a)', 'bytearray($a)', 'complex($a, $b)',
    'int($a, 16)', 'str($a, "utf8")', '$a.decode("utf8")', '$a.encode()', '$a.encode("ascii", "replace")', '$a.decode()', '$a[1:].decode("utf8")',
    '$a.startswith($b)', '$a.endswith("s")', '$a.split()', '$a.split($b, 1)', '$a.strip()', '$a.join($b)', '$a.format($b)', '$a.items()',
    '$a.keys()', '$a.values()', '$a.pop()', '$a.pop($b)', '$a.pop($b, $c)', '$a.extend($b)', '$a.insert(0, $b)', '$a.sort()', '$a.reverse()',
    '$a.setdefault($b, $c)', '$a.setdefault($b)', '$a.get($b, $c)', '$a.update($b)', '$a.add($b)', '$a.discard($b)', '$a.copy()', '$a.clear()',
    '$a.index($b)', '$a.count($b)', '$a.__len__()', '$a.__class__', '$a.__dict__', '"s".join([$a, $b])', '"a,b".split(",")', '"%d" % $a', '"%s" % ($a,)',
    '"%5.2f|%-3s|%%" % ($a, $b)', 'b"%s" % $a', '"s %(k)s" % {"k": $a}', '"{0!r:>{1}}".format($a, $b)', 'f"{$a}{$b!s}{$c!a}"', 'f"{$a:>10}"', 'f"{$a:.3f}"',
    'f"{{}}{$a}"', 'f"""{$a}\n"""', 'rf"\\d{$a}"', 'f"{$a!r}"', 'f"{f"{$a}"}"', 'f"{$a["k"]}"', 'f"{lambda: $a}"', 'f"{$a if $b else $c}"', 'f"{*$a,}"',
    'f"{$a:{"x"}>{$b}}"', 'f"{ $a = }"', 'f"{$a=!r:>5}"', 'f"{(yield)}"', 'f"{await $a}"', 'f"{$a:%Y-%m}"', 'f"{$a:{$b:{$c}}}"', "f'{$a}' f'{$b}' 's'",
]
# one representative per AST node class (inner expressions of the quick pair sweep)
EXPR_REP = [
    '$a', 'f"{$a!r:>{$b}}"', '$a[$b]', '$a[$b:$c]', '$a($b, *$c, k=1, **$d)', '-$a', '$a + $b',
    '$a and $b', '$a < $b < $c', '$a in ($b, $c)', '$a if $b else $c', 'lambda x=$a: x + $b', '[$a, *$b]', '{$a: $b, **$c}',
    '[x for x in $a if $b]', '{x: $b for x in $a}', 'await $a', '(yield $a)', '(yield from $a)', '(w := $a)', 'len($a)',
    '"%s" % ($a,)', '$a.append($b)', '[x async for x in $a]', 'isinstance($a, $b)', 'super()', '"s"', '(x for x in $a)',
]
# the quick tier's inner expressions of the slot sweep (one per kind that interacts with scopes, targets, typing or generators)
EXPR_REP_Q = [
    '$a', '"s"', 'f"{$a!r:>{$b}}"', '$a[$b:$c]', '$a($b, *$c, k=1, **$d)', '$a < $b < $c', '$a in ($b, $c)', '$a if $b else $c',
    'lambda x=$a: x + $b', '{$a: $b, **$c}', '[x for x in $a if $b]', '(x for x in $a)', 'await $a', '(yield $a)', '(w := $a)', 'len($a)',
    'super()',
]
# hosts for expression slots that are not already statement templates
EXPR_HOSTS = ['$l = ' + e for e in EXPR if _SLOT.search(e)]


# ---------------------------------------------------------------------------- contexts
PARAMS = 'a, b, c, d, e, f, g, h'
HEADER = 'G1 = G2 = G3 = None\n'


def indent(text, n=4):
    return '\n'.join((' ' * n + l) if l else l for l in text.split('\n'))


def wrap(ctxname, idx, body):
    """Text of program number idx: the instantiated body wrapped in its context (a packable block)."""
    if ctxname == 'func':
        t = 'def p%d(%s):\n%s\n' % (idx, PARAMS, indent(body))
    elif ctxname == 'async':
        t = 'async def p%d(%s):\n%s\n' % (idx, PARAMS, indent(body))
    elif ctxname == 'nested':
        t = 'def p%d(N1, N2, N3):\n    def inner(%s):\n%s\n    return inner\n' % (idx, PARAMS, indent(body, 8))
    elif ctxname == 'anested':
        t = 'def p%d(N1, N2, N3):\n    async def inner(%s):\n%s\n    return inner\n' % (idx, PARAMS, indent(body, 8))
    elif ctxname == 'class':
        t = 'class P%d:\n    a = b = c = d = e = f = g = h = None\n%s\n' % (idx, indent(body))
    elif ctxname == 'method':
        t = 'class P%d:\n    def meth(self, %s):\n%s\n' % (idx, PARAMS, indent(body, 8))
    elif ctxname == 'module':
        names = [NS[k][x] + LOCAL_MARK for k in (1, 2) for x in 'abcd']
        t = ' = '.join(names) + ' = None\n' + body + '\n'
    else:
        raise ValueError(ctxname)
    return finish(t, idx, modlevel=(ctxname == 'module'))


def has_nonlocal(t):
    return '$N' in t


def has_await(t):
    return bool(re.search(r'\b(await|async)\b', t))


def cpython_ok(src):
    """CPython's verdict on a source text (str or bytes): True iff compile() accepts it."""
    import warnings
    try:
        with warnings.catch_warnings():
            warnings.simplefilter('ignore')
            compile(src, '<c43>', 'exec', dont_inherit=True)
        return True
    except (SyntaxError, ValueError, OverflowError, RecursionError, MemoryError):
        return False


def slots(t):
    """All ways of replacing ONE $a..$d occurrence of template t by the marker \\0."""
    out = []
    for m in _SLOT.finditer(t):
        out.append(t[:m.start()] + '\0' + t[m.end():])
    return out


# ---------------------------------------------------------------------------- family (a) enumeration
def ctx_for(*templates):
    nl = any(has_nonlocal(t) for t in templates)
    aw = any(has_await(t) for t in templates)
    return {(False, False): 'func', (False, True): 'async', (True, False): 'nested', (True, True): 'anested'}[(nl, aw)]


def _dedupe(seq):
    return list(dict.fromkeys(seq))


MINI = ['def $q():\n    return $a', 'class $q:\n    x = $a', '$l = lambda: $a', '$l = [x for x in $a]', 'yield $a', 'return $a',
        'try:\n    pass\nfinally:\n    $a = $b', 'del $a']
MINI_E = ['$a($b)', '[x for x in $a]', 'lambda: $a', '(yield $a)']


def family_a(tier):
    """Every grammar-bounded program of the tier as (family, tag, contexts, body-with-name-markers)."""
    quick = tier == 'quick'
    allst = _dedupe(SIMPLE + [fill(c, {}) for c in COMPOUND])          # every statement kind, blocks = pass
    kinds = _dedupe(SIMPLE + [fill(c, {}) for c in STRUCT] + REDUCED)   # every simple kind + one per compound kind
    progs = []

    def add(fam, tag, templates, body, ctxs=None):
        if body is not None:
            progs.append((fam, tag, ctxs or (ctx_for(*templates),), body))

    # A1: every statement kind alone, in every context (function, async, closure, class body, method, module)
    for s in allst:
        nl = has_nonlocal(s)
        add('a1-single', s, (s,), inst(s, 1), ['nested' if nl else 'func', 'anested' if nl else 'async', 'class', 'method', 'module'])
    # A2: nesting 2: outer compound, ONE focused block slot holding the inner statement (other slots: pass)
    for o in COMPOUND:
        wide = o in STRUCT or not quick
        hs = holes(o)
        for h in (hs if wide else sorted({hs[0], hs[-1]})):
            for s in (kinds if wide else MINI):
                add('a2-nest', '%s @%s <- %s' % (o, h, s), (o, s), fill(inst(o, 1), {h: inst(s, 2)}))
    # A2m: the same at module level and in a class body
    for o in STRUCT:
        hs = holes(o)
        for h in (sorted({hs[0], hs[-1]}) if quick else hs):
            for s in (REDUCED if quick else kinds):
                add('a2-nest-mod', '%s @%s <- %s' % (o, h, s), (o, s), fill(inst(o, 1), {h: inst(s, 2)}), ['class', 'module'])
    # A3: two statements in one block: all ordered pairs
    left = REDUCED if quick else kinds
    for s1 in left:
        for s2 in left:
            add('a3-pair', '%s ;; %s' % (s1, s2), (s1, s2), inst(s1, 1) + '\n' + inst(s2, 2))
    for s in allst:
        if s in left:
            continue
        add('a3-pair', '%s ;; %s' % ('$a = $b', s), (s,), inst('$a = $b', 1) + '\n' + inst(s, 2))
        add('a3-pair', '%s ;; %s' % (s, 'return $a'), (s,), inst(s, 1) + '\n' + inst('return $a', 2))
    # A4: nesting 3 on the structural set (thorough)
    if not quick:
        for o in STRUCT:
            for h in sorted({holes(o)[0], holes(o)[-1]}):
                for mid in STRUCT:
                    h2 = holes(mid)[-1]
                    for s in REDUCED:
                        inner = fill(inst(mid, 2), {h2: inst(s, 2)}) or 'pass'
                        add('a4-nest3', '%s @%s <- %s @%s <- %s' % (o, h, mid, h2, s), (o, mid, s), fill(inst(o, 1), {h: inner}))
    # A5: every expression kind in every expression slot
    rep_hosts = ['$l = ' + e for e in EXPR_REP if _SLOT.search(e)]
    for host in _dedupe([t for t in allst if _SLOT.search(t)] + EXPR_HOSTS):
        wide = host in kinds or host in rep_hosts
        inner = (EXPR_REP_Q if wide else MINI_E) if quick else (EXPR if wide else EXPR_REP)
        for sl in slots(host):
            for e in inner:
                ie = inst(e, 2)
                body = inst(sl, 1).replace('\0', '(' + ie + ')')
                add('a5-expr', '%s <- %s' % (sl.replace('\0', '<?>'), e), (host, e), body)
                if not quick and e in EXPR_REP:
                    body2 = inst(sl, 1).replace('\0', ie)
                    add('a5-expr-bare', '%s <- %s' % (sl.replace('\0', '<?>'), e), (host, e), body2)
    return progs


# ---------------------------------------------------------------------------- family (a7): name binding across comprehension scopes
def family_scope(tier):
    """Assignment expressions inside a comprehension that is itself directly inside another comprehension, for all 3x3
    list/set/dict nestings, in the element and in the condition, the target being bound nowhere else and READ after the
    statement (PEP 572: the target belongs to the enclosing function); plus single-level and generator variants."""
    progs = []
    inner_el = {'L': '[(W := x) for x in y]', 'S': '{(W := x) for x in y}', 'D': '{x: (W := x) for x in y}'}
    inner_if = {'L': '[x for x in y if (W := x)]', 'S': '{x for x in y if (W := x)}', 'D': '{x: x for x in y if (W := x)}'}
    outer = {'L': '[INNER for y in $a]', 'S': '{INNER for y in $a}', 'D': '{0: INNER for y in $a}'}
    exprs = []
    for o in 'LSD':
        for i in 'LSD':
            exprs.append(('nest %s%s element' % (o, i), outer[o].replace('INNER', inner_el[i])))
            exprs.append(('nest %s%s condition' % (o, i), outer[o].replace('INNER', inner_if[i])))
    for i in 'LSD':
        exprs.append(('single %s element' % i, inner_el[i].replace(' in y', ' in $a')))
        exprs.append(('single %s condition' % i, inner_if[i].replace(' in y', ' in $a')))
    exprs += [('genexp in list', '[list((W := x) for x in y) for y in $a]'), ('list in genexp', 'list([(W := x) for x in y] for y in $a)'),
              ('triple nest', '[[[(W := x) for x in y] for y in z] for z in $a]'), ('outer condition', '[[x for x in y] for y in $a if (W := y)]'),
              ('single genexp element', 'list((W := x) for x in $a)'), ('single genexp condition', 'list(x for x in $a if (W := x))'),
              ('genexp in genexp', 'list(list((W := x) for x in y) for y in $a)'),
              ('both levels', '[[(W := x) for x in y if (V := y)] for y in $a]')]
    readers = ['$b = W', 'return W', 'def $q():\n    return W', 'W += 1']
    for k, (tag, e) in enumerate(exprs):
        for r in (readers if tier != 'quick' else readers[:3]):
            name = 'w%d' % k
            body = (inst('$l = ' + e, 1) + '\n' + inst(r, 1)).replace('W', name).replace('V', name + 'v')
            if 'V' in e:
                body += '\n' + inst('$c = ', 1) + name + 'v'
            progs.append(('a7-scope', '%s ;; %s' % (tag, r), ('func', 'async', 'method', 'nested', 'module'), body))
    return progs


# ---------------------------------------------------------------------------- family (a6): closures over header-bound names
def family_closure(tier):
    """A def / generator / async def / class / lambda / each comprehension kind nested in EVERY block slot of
    EVERY compound statement (incl. each match case body), referring to the names the compound header binds."""
    inners = [
        'def $q():\n    return NAMES', 'def $q():\n    yield NAMES', 'async def $q():\n    return NAMES', 'class $q:\n    x = NAMES',
        'class $q:\n    def m(self):\n        return NAMES', '$l = lambda: NAMES', '$l = [x for x in NAMES]', '$l = (x for x in NAMES)',
        '$l = {x for x in NAMES}', '$l = {x: x for x in NAMES}', '$l = [lambda: (x, NAMES) for x in NAMES]',
        'def $q(x=NAMES):\n    def r():\n        return x, NAMES\n    return r',
    ]
    if tier == 'quick':
        inners = inners[:8]
    progs = []
    for o in COMPOUND:
        used = sorted(set(re.findall(r'\$([abcdmn])(?![0-9A-Za-z_])', o)))
        # names deleted by CPython at the end of the handler would hit the deliberate rejection
        # "can not delete variable referenced in nested scope": keep except-as targets out of the closure
        exc = set(re.findall(r'except\*?[^\n]* as \$([abcd])', o))
        names = '(' + ', '.join(['$' + u for u in used if u not in exc] or ['1']) + ',)'
        for h in holes(o):
            for s in inners:
                body = fill(inst(o, 1), {h: inst(s.replace('NAMES', names), 1).replace('q1', 'q9').replace('l1', 'l9')})
                if body is None:
                    continue
                progs.append(('a6-closure', '%s @%s <- %s' % (o, h, s), (ctx_for(o, s),), body))
    return progs


# ---------------------------------------------------------------------------- family (b): literal-focused programs
BS = chr(92)


def int_blocks(tier):
    """One block per digit count n: the n-digit literal in every base and three digit patterns, in several uses."""
    if tier == 'quick':
        lens = list(range(1, 41)) + [50, 63, 64, 65, 77, 78, 79, 100, 128, 155, 256, 309, 500, 640, 1000, 1233, 1234, 2000, 4299, 4300,
                                     4301, 5000]
    else:
        lens = sorted(set(list(range(1, 401)) + list(range(400, 5001, 37)) + [4299, 4300, 4301, 5000]))
    out = []
    for n in lens:
        lits = []
        for pre, digs in (('', '0123456789'), ('0x', '0123456789abcdef'), ('0X', '0123456789ABCDEF'), ('0o', '01234567'), ('0O', '01234567'),
                          ('0b', '01'), ('0B', '01')):
            top = digs[-1]
            pats = [top * n, '1' + '0' * (n - 1), ('1' + digs[len(digs) // 2] * n)[:n]]
            for p in pats:
                lits.append(pre + p)
            if n > 1:
                lits.append(pre + '_'.join(pats[0]) if n <= 64 else pre + pats[0][:n // 2] + '_' + pats[0][n // 2:])
        lits = list(dict.fromkeys(lits))
        body = ['def I%d(x):' % n]
        for k in range(0, len(lits), 4):
            body.append('    v%d = [%s]' % (k, ', '.join(lits[k:k + 4])))
        body.append('    return v0')
        out.append(('b-int', 'int digits=%d: literals in every base' % n, '\n'.join(body) + '\n'))
        d, hx, o, b = lits[0], lits[4 if n > 1 else 3], lits[-6], lits[-2]
        body = ['def IU%d(x):' % n]
        body.append('    y = (x + %s, %s - x, x == %s, x & %s, x[%s], {%s: x}, +%s)' % (d, hx, hx, b, o, d, hx))
        body.append('    z = %s * 2 + 1' % d)
        body.append('    if x == %s or x < %s: return %s' % (d, hx, b))
        body.append('    return %sj' % d if n < 300 else '    return 0')
        out.append(('b-int', 'int digits=%d: literals as operands' % n, '\n'.join(body) + '\n'))
        out.append(('b-int', 'int digits=%d: negated/inverted literals' % n,
                    'def IN%d(x):\n    return (-%s, -%s, -%s, -%s, ~%s, ~%s, x < -%s, - -%s)\n' % (n, d, hx, o, b, d, hx, b, d)))
        # invalid-looking variants judged by CPython: leading zeros, trailing underscore, doubled underscore, bad digit
        for k, bad in enumerate(['0' + lits[1], lits[0] + '_', lits[0][:1] + '__' + lits[0][1:], '0b' + '2' * n, '0o' + '8' * n, '0x' + 'g' * n,
                                 lits[0] + 'L', lits[0] + 'l', lits[0] + 'u', '0_' + lits[0], '0' * n, '0' * n + '_0', '0x', '0b_', '0o_7' * 1]):
            if n in (1, 2, 17, 20, 40, 100, 4300):
                out.append(('b-int', 'int-variant digits=%d #%d' % (n, k), 'def IV%d_%d(x):\n    return %s\n' % (n, k, bad)))
    return out


FLOATS = [
    '0.0', '0.', '.0', '1e0', '1E0', '1e+0', '1e-0', '1e308', '1.7976931348623157e308', '1.7976931348623159e308', '1e309', '1e400',
    '1e-307', '2.2250738585072014e-308', '5e-324', '4.9e-324', '2e-324', '1e-400', '1e-9999', '1e9999', '1e99999', '0e99999', '1e-99999',
    '0.' + '0' * 400 + '1', '1' + '0' * 400 + '.0', '1' * 400 + 'e-400', '1_0.0_1e1_0', '1_000.000_1', '00.5', '0_0.5', '1e1_0', '9' * 309 + '.',
    '.' + '9' * 400, '123456789012345678901234567890.123456789012345678901234567890e-30', '0.1', '1.5', '3.141592653589793', '1e22', '1e23',
    '9007199254740993.0', '0.30000000000000004', '1e16', '1.0e+16', '5e-1', '1.e5', '.5e5', '.5E-5', '0e0', '00e5', '00.0', '0_0e0_0',
    '1' + '0' * 5000 + '.0', '1e' + '9' * 50, '1e-' + '9' * 50, '0.' + '0' * 5000 + '1e5000',
    # judged invalid by CPython (must be rejected with a position, not crash)
    '0x1p3', '1e', '1e+', '1_e5', '1._5', '1__0.0', '1.0_', '._5', '1e_5', '1.e', '1e5.5', '1.2.3', '1e5e5', '0x.8', '1f', '1.0f', '1d',
]


def float_blocks(tier):
    out = []
    for k, f in enumerate(FLOATS):
        src = ('def F%d(x):\n    y = (%s, -%s, x + %s, %s * 2.0, x == %s, %sj, -%sJ, {%s: 1}, x[%s:])\n    return %s\n'
               % (k, f, f, f, f, f, f, f, f, f, f))
        out.append(('b-float', 'float %s' % (f if len(f) < 40 else f[:20] + '..%d chars' % len(f)), src))
    return out


def escape_forms():
    e = [BS + x for x in ['n', BS, "'", '"', 'a', 'b', 'f', 'r', 't', 'v', '0', '7', '77', '377', '400', '777', '8', '08', '1234', 'x00', 'xff',
                          'xFF', 'x7f', 'x0', 'x', 'xg0', 'N{LATIN SMALL LETTER A}', 'N{BAD NAME}', 'N{DIGIT ONE}', 'N{}', 'N{', 'N',
                          'u0041', 'u00e9', 'ud800', 'udfff', 'uffff', 'u004', 'u', 'U0001F600', 'U0010FFFF', 'U00110000', 'U0001f60', 'U',
                          '\n', '\r\n', 'd', 'w', '.', '/', 'z', '{', '}', ' ', '\t', 'e', 'E', 'c', '%', 'N{latin small letter a}',
                          'ud83d' + BS + 'ude00', 'x41' + BS + 'x42', '0' + BS + '0', BS + BS, BS + 'n']]
    e += ['\t', chr(0x7f), chr(0xa0), chr(0xe9), chr(0x2028), chr(0x1F600), '\x0c', '\x00', '\r', chr(0xd800), chr(0xfffe), '%s', '%%', '%(k)s',
          '{{', '}}', '{x}', '{x!r}', '{', '}', '{x:{y}}', '{x=}', '#', '$', '`', "'", '"', '""', "''", '\n', '']
    return e


PREFIXES = ['', 'r', 'b', 'rb', 'br', 'f', 'rf', 'fr', 'u', 'R', 'B', 'F', 'U', 'Rb', 'bR', 'BR', 'rB', 'Fr', 'fR', 'RF', 'ur', 'bu', 'fb', 'bf', 'ff']
QUOTES = ["'", '"', "'''", '"""']


def escape_blocks(tier):
    """Every escape form inside every prefix/quote combination.  CPython decides each literal's validity; the valid ones
    of one (prefix, quote) are packed in one block, the invalid ones become one program each."""
    out = []
    forms = escape_forms()
    k = 0
    for p in PREFIXES:
        for q in QUOTES:
            if p in ('ur', 'bu', 'fb', 'bf', 'ff') and q != '"':
                continue          # prefixes CPython rejects: one quote style is enough
            good = []
            for i, e in enumerate(forms):
                lit = '%s%sa%sz%s' % (p, q, e, q)
                one = 'def E%d(x, y):\n    return %s\n' % (k, lit)
                k += 1
                try:
                    one.encode('utf-8')
                except UnicodeEncodeError:
                    lit_b = one.encode('utf-8', 'surrogatepass')
                    out.append(('b-escape', 'escape prefix=%r quote=%s form#%d (lone surrogate char)' % (p, q, i), lit_b))
                    continue
                if cpython_ok(one):
                    good.append(lit)
                else:
                    out.append(('b-escape', 'escape prefix=%r quote=%s form#%d %r' % (p, q, i, e), one))
            if good:
                body = 'def EG%d(x, y):\n' % k + ''.join('    v%d = %s\n' % (j, l) for j, l in enumerate(good))
                body += '    return [%s]\n' % ', '.join(good[:12]) + '    # end\n'
                out.append(('b-escape', 'escape prefix=%r quote=%s: %d valid forms' % (p, q, len(good)), body))
    return out


def string_blocks(tier):
    n = 10 ** 5
    out = []

    def add(tag, src):
        out.append(('b-string', tag, src))
    add('str 1e5 ascii', 'def S0():\n    return "%s"\n' % ('a' * n))
    add('bytes 1e5', 'def S1():\n    return b"%s"\n' % ('a' * n))
    add('str 1e5 latin1', 'def S2():\n    return "%s"\n' % (chr(0xe9) * n))
    add('str 1e5 non-BMP', 'def S3():\n    return "%s"\n' % (chr(0x1F600) * n))
    add('str 1e5 escapes', 'def S4():\n    return "%s"\n' % ((BS + 'n') * (n // 2)))
    add('str 1e5 hex escapes', 'def S5():\n    return "%s", b"%s"\n' % ((BS + 'xff') * (n // 4), (BS + 'xff') * (n // 4)))
    add('triple-quoted 1e5 with newlines', 'def S6():\n    return """%s"""\n' % ('line of text\n' * (n // 13)))
    add('f-string 1e5 literal part', 'def S7(x):\n    return f"{x}%s{x!r}"\n' % ('a' * n))
    add('f-string 2000 fields', 'def S8(x):\n    return f"%s"\n' % ('{x}-' * 2000))
    add('raw 1e5 backslashes', 'def S9():\n    return r"%s"\n' % ((BS + 'd') * (n // 2)))
    add('1e4 line docstring', 'def S10():\n    """%s"""\n' % ('doc\n    ' * 10 ** 4))
    add('identifier 1e5 chars', 'def S11():\n    %s = 1\n    return %s\n' % ('v' * n, 'v' * n))
    add('comment 1e5 chars', 'def S12():\n    # %s\n    return 1\n' % ('c' * n))
    add('1e5 spaces inside a line', 'def S13(x):\n    return x +%s1\n' % (' ' * n))
    add('1e4 continuation lines', 'def S14(x):\n    return x + %s1\n' % ((BS + '\n') * 10 ** 4))
    add('1e5 blank lines', 'def S15(x):\n%s    return x\n' % ('\n' * n))
    add('str 1e5 mixed quotes', "def S16():\n    return '%s'\n" % ('"' * n))
    add('1000 adjacent string pieces', 'def S17():\n    return (%s)\n' % (' '.join('"p%d"' % i for i in range(1000))))
    add('1000 adjacent mixed f/str pieces', 'def S18(x):\n    return (%s)\n' % (' '.join(('f"{x}%d"' if i % 2 else '"p%d"') % i for i in range(1000))))
    add('bytes every byte value', 'def S19():\n    return b"%s"\n' % ''.join(BS + 'x%02x' % i for i in range(256)))
    add('str every BMP boundary', 'def S20():\n    return "%s"\n' % ''.join(chr(c) for c in (1, 0x7f, 0x80, 0xff, 0x100, 0x7ff, 0x800, 0xfffd, 0x10000, 0x10ffff)))
    add('str 1e5 percent formats', 'def S21(x):\n    return "%s" %% x\n' % ('%%s' * 3 + 'a' * n))
    add('bytes 1e5 NUL escapes', 'def S22():\n    return b"%s"\n' % ((BS + '0') * (n // 2)))
    return out


def nest_shapes(n):
    a = 'a'
    ind = lambda k: '    ' * k
    stm = lambda head, tail='pass': ''.join(ind(i + 1) + head + '\n' for i in range(n)) + ind(n + 1) + tail + '\n'
    return {
        'parens': 'return ' + '(' * n + a + ')' * n, 'list': 'return ' + '[' * n + a + ']' * n, 'tuple': 'return ' + '(' * n + a + ',)' * n,
        'dict': 'return ' + '{1:' * n + a + '}' * n, 'set': 'return ' + '{' * n + a + '}' * n, 'neg': 'return ' + '-' * n + a, 'not': 'return ' + 'not ' * n + a,
        'invert': 'return ' + '~' * n + a, 'plusminus': 'return ' + '+-' * n + a, 'subscript-chain': 'return a' + '[0]' * n, 'attr-chain': 'return a' + '.x' * n,
        'call-chain': 'return a' + '()' * n, 'call-nest': 'return ' + 'a(' * n + a + ')' * n, 'subscript-nest': 'return ' + 'a[' * n + '0' + ']' * n,
        'lambda': 'return ' + 'lambda: ' * n + a, 'ifexp': 'return ' + 'a if a else ' * n + a, 'ifexp-mid': 'return ' + 'a if (' * n + a + ') else a' * n,
        'pow': 'return ' + 'a**' * n + a, 'listcomp': 'return ' + '[' * n + a + ' for a in a]' * n, 'genexp': 'return ' + '(' * n + a + ' for a in a)' * n,
        'kwcall-nest': 'return ' + 'a(k=' * n + a + ')' * n, 'star-nest': 'return ' + '[*' * n + a + ']' * n, 'await-paren': 'return ' + '(' * n + 'yield' + ')' * n,
        'walrus': 'return ' + '(w:=' * n + a + ')' * n, 'slice-nest': 'return ' + 'a[' * n + ':' + ']' * n, 'target-nest': '(' * n + 'a' + ',)' * n + ' = a',
        'target-list': '[' * n + 'a' + ']' * n + ' = a', 'fstring-nest': 'return ' + 'f"{' * n + a + '}"' * n,
        'fstring-spec-nest': 'return f"{a:' + '{a:' * n + '}' * n + '}"', 'pattern-nest': 'match a:\n        case ' + '[' * n + 'x' + ']' * n + ':\n            pass',
        'pattern-or': 'match a:\n        case ' + '(' * n + '1' + ' | 2)' * n + ':\n            pass', 'annotation-nest': 'x: ' + 'a[' * n + 'a' + ']' * n + ' = a',
        'decorator-nest': '@' + 'a(' * n + 'a' + ')' * n + '\n    def g(): pass', 'default-lambda': 'def g(x=' + 'lambda x=' * n + 'a' + ': x' * n + '): pass',
        'if-nest': '\n' + stm('if a:')[4:].rstrip('\n'), 'for-nest': '\n' + stm('for a in a:')[4:].rstrip('\n'), 'while-nest': '\n' + stm('while a:')[4:].rstrip('\n'),
        'with-nest': '\n' + stm('with a:')[4:].rstrip('\n'), 'def-nest': '\n' + stm('def g():', 'return a')[4:].rstrip('\n'),
        'class-nest': '\n' + stm('class G:')[4:].rstrip('\n'), 'try-nest': '\n' + ''.join(ind(i + 1) + 'try:\n' for i in range(n))[4:] + ind(n + 1) + 'pass\n'
                      + ''.join(ind(n - i) + 'finally:\n' + ind(n - i + 1) + 'pass\n' for i in range(n)).rstrip('\n'),
        'match-nest': '\n' + ''.join(ind(2 * i + 1) + 'match a:\n' + ind(2 * i + 2) + 'case _:\n' for i in range(n))[4:] + ind(2 * n + 1) + 'pass',
        'else-if-nest': '\n' + ''.join(ind(i + 1) + 'if a:\n' + ind(i + 2) + 'pass\n' + ind(i + 1) + 'else:\n' for i in range(n))[4:] + ind(n + 1) + 'pass',
        'async-nest': '\n' + stm('async def g():', 'await a')[4:].rstrip('\n'), 'except-nest': '\n' + ''.join(
            ind(2 * i + 1) + 'try:\n' + ind(2 * i + 2) + 'pass\n' + ind(2 * i + 1) + 'except a:\n' for i in range(n))[4:] + ind(2 * n + 1) + 'pass',
    }


def chain_shapes():
    j = lambda sep, item, k: sep.join([item] * k)
    return {
        'add x1000': 'return ' + j('+', 'a', 1000), 'and x1000': 'return ' + j(' and ', 'a', 1000), 'or x1000': 'return ' + j(' or ', 'a', 1000),
        'compare x1000': 'return ' + j(' < ', 'a', 1000), 'mixed-ops x1000': 'return ' + ''.join('a' + ['+', '-', '*', '//', '%', '|', '&', '^'][i % 8] for i in range(1000)) + 'a',
        'const-add x1000': 'return ' + j('+', '1', 1000), 'str-add x1000': 'return ' + j('+', '"s"', 1000), 'tuple x1000': 'return (' + j(', ', 'a', 1000) + ')',
        'list x1000': 'return [' + j(', ', 'a', 1000) + ']', 'set x1000': 'return {' + j(', ', 'a', 1000) + '}', 'dict x1000': 'return {' + ', '.join('%d: a' % i for i in range(1000)) + '}',
        'const-list x1000': 'return [' + ', '.join(str(i) for i in range(1000)) + ']', 'call args x300': 'return a(' + j(', ', 'a', 300) + ')',
        'call kwargs x300': 'return a(' + ', '.join('k%d=a' % i for i in range(300)) + ')', 'call star x300': 'return a(' + j(', ', '*a', 300) + ')',
        'call dstar x300': 'return a(' + j(', ', '**a', 300) + ')', 'def params x300': 'def g(' + ', '.join('p%d' % i for i in range(300)) + '): return p0, p299',
        'def defaults x300': 'def g(' + ', '.join('p%d=a' % i for i in range(300)) + '): return p0', 'def kwonly x300': 'def g(*, ' + ', '.join('p%d=%d' % (i, i) for i in range(300)) + '): return p0',
        'lambda params x300': 'return lambda ' + ', '.join('p%d' % i for i in range(300)) + ': p0', 'elif x300': 'if a: pass\n    ' + ''.join('elif a == %d: a = %d\n    ' % (i, i) for i in range(300)) + 'else: pass',
        'except x300': 'try: pass\n    ' + ''.join('except E%d: a = %d\n    ' % (i, i) for i in range(300)).replace('E', 'a.E') + 'finally: pass',
        'case x300': 'match a:\n' + ''.join('        case %d: a = %d\n' % (i, i) for i in range(300)) + '        case _: pass',
        'with items x300': 'with ' + j(', ', 'a', 300) + ': pass', 'decorators x300': '@a\n    ' * 300 + 'def g(): pass', 'assign targets x300': j(' = ', 'a', 300),
        'statements x1000': 'a = 1\n    ' * 1000 + 'return a', 'semicolons x1000': j('; ', 'a = 1', 1000), 'unpack x300': ', '.join('u%d' % i for i in range(300)) + ' = a',
        'del x300': 'del ' + ', '.join('a[%d]' % i for i in range(300)), 'global x300': 'global ' + ', '.join('GL%d' % i for i in range(300)),
        'import x300': 'import ' + ', '.join('m%d' % i for i in range(300)), 'from-import x300': 'from m import ' + ', '.join('n%d' % i for i in range(300)),
        'bases x300': 'class G(' + j(', ', 'a', 300) + '): pass', 'fstring fields x1000': 'return f"' + '{a}' * 1000 + '"', 'percent-format x300': 'return "' + '%s' * 300 + '" % (' + 'a, ' * 300 + ')',
        'subscript tuple x300': 'return a[' + j(', ', 'a', 300) + ']', 'or-pattern x300': 'match a:\n        case ' + ' | '.join(str(i) for i in range(300)) + ': pass',
        'sequence pattern x300': 'match a:\n        case [' + ', '.join('c%d' % i for i in range(300)) + ']: pass', 'mapping pattern x300': 'match a:\n        case {' + ', '.join('%d: c%d' % (i, i) for i in range(300)) + '}: pass',
        'class pattern kw x300': 'match a:\n        case a.C(' + ', '.join('k%d=c%d' % (i, i) for i in range(300)) + '): pass', 'comprehension fors x50': 'return [a ' + 'for a in a ' * 50 + ']',
        'comprehension ifs x300': 'return [a for a in a ' + 'if a ' * 300 + ']', 'in-tuple x300': 'return a in (' + ', '.join(str(i) for i in range(300)) + ')',
        'is-chain x300': 'return ' + j(' is ', 'a', 300), 'yield x1000': 'yield a\n    ' * 1000 + 'return', 'nested-call-args 30x30': 'return a(' + ', '.join('a(' + j(', ', 'a', 30) + ')' for _ in range(30)) + ')',
        'ifexp chain x300': 'return ' + 'a if a else ' * 300 + 'a', 'str concat-mod': 'return ' + j(' + ', '"%s" % a', 300), 'aug-assign x1000': 'a += 1\n    ' * 1000 + 'return a',
        'defs x300': ''.join('def g%d(): return a\n    ' % i for i in range(300)) + 'return g0', 'lambdas x300': 'return [' + ', '.join('lambda: a' for _ in range(300)) + ']',
        'genexps x100': 'return [' + ', '.join('(x for x in a)' for _ in range(100)) + ']', 'try-finally seq x100': 'try: pass\n    finally: pass\n    ' * 100 + 'return a',
        'with seq x100': 'with a: pass\n    ' * 100 + 'return a', 'for seq x100': 'for a in a: pass\n    ' * 100 + 'return a',
    }


def nest_blocks(tier):
    depths = [20, 50, 90, 200] if tier == 'quick' else [20, 50, 90, 99, 100, 101, 199, 200, 201, 300]
    out = []
    k = 0
    for n in depths:
        for name, body in nest_shapes(n).items():
            for ctxk, head in (('def', 'def N%d(a):'), ('async def', 'async def N%d(a):')):
                if ctxk == 'async def' and name not in ('listcomp', 'genexp', 'with-nest', 'for-nest', 'def-nest', 'async-nest', 'parens', 'lambda'):
                    continue
                out.append(('b-nest', 'nest %s depth=%d in %s' % (name, n, ctxk), (head % k) + '\n    ' + body + '\n'))
                k += 1
    for name, body in chain_shapes().items():
        out.append(('b-chain', 'chain %s' % name, 'def C%d(a):\n    %s\n' % (k, body)))
        k += 1
    return out


def family_b(tier):
    return int_blocks(tier) + float_blocks(tier) + escape_blocks(tier) + string_blocks(tier) + nest_blocks(tier)


# ---------------------------------------------------------------------------- family (c): seed corpus and mutation operators
SEEDS_PY = [
    'x = 1\ny = x + 2\nprint(x, y)\n',
    'def f(a, b=1, *args, c, d=2, **kw):\n    return a + b + c + d\n',
    'def g(x, /, y):\n    """doc"""\n    if x:\n        return y\n    elif y:\n        return x\n    else:\n        return None\n',
    'class A(object, metaclass=type):\n    x: int = 1\n    def m(self):\n        return self.x\n',
    'for i in range(10):\n    if i % 2:\n        continue\n    print(i)\nelse:\n    i = 0\n',
    'def w(n):\n    while n > 0:\n        n -= 1\n        if n == 5:\n            break\n    else:\n        n = -1\n    return n\n',
    'def t(f):\n    try:\n        f()\n    except (ValueError, TypeError) as e:\n        raise RuntimeError("x") from e\n    except Exception:\n        pass\n    else:\n        return 1\n    finally:\n        f = None\n',
    'def c(p):\n    with open(p) as f, open(p, "w") as g:\n        g.write(f.read())\n',
    'async def co(a):\n    async with a as b:\n        async for x in b:\n            await x\n    return [y async for y in a]\n',
    'def gen(n):\n    for i in range(n):\n        x = yield i\n        yield from x\n',
    'import os, sys as s\nfrom os.path import join as j, sep\nfrom . import sibling\nprint(os, s, j, sep, sibling)\n',
    'def m(p):\n    match p:\n        case [1, x, *rest] if x > 1:\n            return rest\n        case {"k": v, **kw}:\n            return v, kw\n        case str(s) | bytes(s):\n            return s\n        case _:\n            return None\n',
    'def lam(a):\n    f = lambda x, *y, z=1, **k: (x, y, z, k)\n    return f(a, *a, z=2, **{"q": a})\n',
    'def comp(a):\n    l = [x * 2 for x in a if x]\n    s = {x for x in a}\n    d = {k: v for k, v in a}\n    g = (x for x in a for y in x)\n    return l, s, d, g\n',
    'def fs(a, w):\n    return f"{a!r:>{w}} {a=} {{}} {a:.2f}" + "%s %d" % (a, w) + "{}".format(a)\n',
    'def sl(a, i, j):\n    a[i:j] = a[j:i:-1]\n    del a[::2], a[0]\n    return a[..., i], a[i, j], a[:]\n',
    'def un(a):\n    x, *y = a\n    (p, q), [r, s] = y\n    x = y = a\n    return [*a, *y], {**a, "k": x}, (*a,)\n',
    'def glob():\n    global G\n    G = 1\n    def inner():\n        nonlocal_x = 1\n        def deeper():\n            nonlocal nonlocal_x\n            nonlocal_x += 1\n        return deeper\n    return inner\n',
    'def ops(a, b):\n    return (a + b - a * b / a // b % a ** b @ a, a << b >> a & b | a ^ b, ~a, -a, +a, not a)\n',
    'def cmp(a, b, c):\n    return a < b <= c > a >= b == c != a, a is b, a is not c, a in b, a not in c\n',
    'def boo(a, b, c):\n    return a and b or c, a if b else c, (a := b), not (a or b)\n',
    'def lit():\n    return 0x1f, 0o17, 0b11, 1_000, 1.5e-3, 2j, "s" "t", b"b", r"\\d", """tq""", None, True, False, ...\n',
    '@staticmethod\n@(lambda f: f)\ndef deco(): pass\n\n@type.__call__\nclass D: pass\n',
    'def aug(a, b):\n    a += b; a -= b; a *= b; a /= b; a //= b; a %= b; a **= b\n    a <<= b; a >>= b; a &= b; a |= b; a ^= b; a @= b\n    return a\n',
    'def asr(a):\n    assert a, "msg"\n    assert a\n    raise\n',
    'class P:\n    @property\n    def v(self):\n        return self._v\n    @v.setter\n    def v(self, x):\n        self._v = x\n    def __init__(self):\n        super().__init__()\n',
    'def ann(a: int, b: "str" = "x", *c: float, d: list[int] = None, **e: dict) -> tuple[int, ...]:\n    v: int = a\n    w: str\n    return (v,)\n',
    'def star(f, a, k):\n    return f(*a, **k), f(*a, *a, x=1, **k, **k), f(x for x in a)\n',
    'def dele(a, b):\n    del a\n    del b.x, b[0]\n    del (b.y), [b.z]\n',
    'if __name__ == "__main__":\n    import sys\n    sys.exit(0)\n',
    'def ret():\n    return\n\ndef ret2():\n    return 1, 2\n\ndef ret3(a):\n    return *a, 1\n',
    'x = [1, 2,\n     3, 4]  # comment\ny = (x\n     + x)\nz = x + \\\n    y\n',
    'def trywith(a):\n    try:\n        with a:\n            return 1\n    finally:\n        for x in a:\n            try:\n                continue\n            finally:\n                pass\n',
    'def cls():\n    class L(Exception):\n        __slots__ = ()\n        def __repr__(self): return "L"\n    return L\n',
    'async def ag(a):\n    yield await a\n    await (yield)\n    return\n',
    'def chained(a):\n    return a.b.c(1)(2)[3].d[4:5](x=6).e\n',
    'from __future__ import annotations\ndef fut(a: Undefined) -> Whatever:\n    x: AlsoUndefined = a\n    return x\n',
    'def dictset():\n    return {}, {1}, {1: 2}, {1, 2}, {**{}}, [], (), [()], {(): []}\n',
    'def nested_fn(a):\n    def one(b):\n        def two(c):\n            return a + b + c\n        return two\n    return one\n',
    'def semis(a): a = 1; b = 2; return a, b\nclass E: pass\nclass F(E): x = 1; y = 2\n',
    'def tryelse(a):\n    for x in a:\n        try:\n            break\n        except:\n            raise\n    while a:\n        try:\n            return\n        finally:\n            a = 0\n',
    'def walrus(a):\n    if (n := len(a)) > 1:\n        return n\n    while (c := a.pop()):\n        print(c)\n    return [y for x in a if (y := x)]\n',
    'def bigm(cmd):\n    match cmd.split():\n        case ["go", ("n" | "s") as d]:\n            return d\n        case Point(x=0, y=0) | Point(0, 0):\n            return 0\n        case {"a": [1, 2, {"b": z}]}:\n            return z\n        case -1 | 1.5 | 2j | "s" | None | True:\n            return 1\n',
    'def unicode_names(\u00e9, \u5909\u6570=1):\n    \u03b1 = "\u00fc\u4e2d\U0001F600"\n    return \u00e9, \u5909\u6570, \u03b1\n',
    'def tabs(a):\n\tif a:\n\t\treturn 1\n\treturn 2\n',
]

SEEDS_PYX = [
    'cdef int add(int a, int b) nogil:\n    return a + b\n\ndef call(x, y):\n    return add(x, y)\n',
    'cdef class C:\n    cdef int x\n    cdef public object o\n    cdef readonly double d\n    def __cinit__(self, int x=0):\n        self.x = x\n    cpdef int get(self) except -1:\n        return self.x\n',
    'cdef extern from "math.h":\n    double sin(double x) nogil\n    ctypedef struct S:\n        int a\n\ndef s(x):\n    return sin(x)\n',
    'ctypedef unsigned long long ull\ncdef struct P:\n    int x\n    double* y\ncdef union U:\n    int i\n    float f\ncdef enum E:\n    A = 1\n    B, C\n',
    'def loop(int n):\n    cdef int i, total = 0\n    cdef double[10] arr\n    for i in range(n):\n        total += i\n    for i from 0 <= i < n:\n        arr[i % 10] = <double>i\n    return total\n',
    'cimport cython\n\n@cython.boundscheck(False)\n@cython.wraparound(False)\ndef mv(double[:, ::1] a):\n    cdef Py_ssize_t i\n    with nogil:\n        for i in range(a.shape[0]):\n            a[i, 0] = 0\n',
    'ctypedef fused num:\n    int\n    double\n\ncpdef num twice(num x):\n    return x * 2\n',
    'cdef int* p = NULL\ncdef int v = 3\np = &v\nprint(p[0], sizeof(int), <long>p != 0)\n',
    'cdef inline bint even(long n) noexcept nogil:\n    return n % 2 == 0\n\ncdef void cb(void (*f)(int) noexcept, int n) except *:\n    f(n)\n',
    'from libc.stdlib cimport malloc, free\ncdef char* buf = <char*>malloc(10)\ntry:\n    buf[0] = c"a"\nfinally:\n    free(buf)\n',
    'DEF N = 10\nIF N > 5:\n    x = 1\nELSE:\n    x = 2\ncdef int arr[N]\n',
    'cdef class Base:\n    cdef int f(self): return 1\ncdef class Derived(Base):\n    cdef int f(self): return 2\n    def __dealloc__(self): pass\n    property p:\n        def __get__(self): return self.f()\n',
    'from cython.parallel import prange\ndef par(int n):\n    cdef int i, s = 0\n    for i in prange(n, nogil=True, schedule="static"):\n        s += i\n    return s\n',
    'cdef object o = None\ncdef list l = []\ncdef dict d = {}\ncdef str s = "x"\ncdef bytes b = b"y"\ncdef tuple t = (1, 2)\nl.append(s); d[s] = b; print(t[0], o)\n',
    'cdef extern from *:\n    """\n    #define SQ(x) ((x)*(x))\n    """\n    int SQ(int)\nprint(SQ(3))\n',
    'cdef int f(int x) except? -1:\n    if x < 0:\n        raise ValueError(x)\n    return x\ncdef double g(double x=1.0, int *out=NULL):\n    return x\n',
    'cdef class It:\n    cdef int n\n    def __iter__(self): return self\n    def __next__(self):\n        if self.n <= 0: raise StopIteration\n        self.n -= 1\n        return self.n\n',
    'cpdef enum Color:\n    RED, GREEN = 5, BLUE\ncdef Color c = RED\nprint(<int>c, Color.GREEN)\n',
]

BYTE_FILES = [
    ('.py', b'# c\xc3\xa9\ndef f(a, b=\'x\'):\n\ts = "q\\n" + f"{a!r}" \\\n\t\t+ r\'\\d\'\n\treturn [s, b"\\x00", 1.5e3, a[1:2]]\n'),
    ('.pyx', b'cdef int f(int* p, char c=c\'a\') except -1:\n    """d"""\n    return <int>p[0] + c\n'),
]
REPLACEMENTS = [b'\x00', b'\xff', b'\t', b'\\', b'"', b"'"]


def token_spans(text):
    """(start, end) character offsets of the lexical tokens of text (Python's tokenizer; a regex splitter when the
    tokenizer gives up on Cython-only syntax).  Zero-width tokens are dropped."""
    spans = []
    try:
        lines = text.split('\n')
        offs = [0]
        for l in lines:
            offs.append(offs[-1] + len(l) + 1)
        for tok in tokenize.generate_tokens(io.StringIO(text).readline):
            s = offs[tok.start[0] - 1] + tok.start[1]
            e = offs[tok.end[0] - 1] + tok.end[1]
            if e > s and e <= len(text):
                spans.append((s, e))
    except (tokenize.TokenError, SyntaxError, IndentationError, IndexError):
        spans = [(m.start(), m.end()) for m in re.finditer(
            r'(?:[rbufRBUF]{0,2})(?:"""[\s\S]*?"""|\'\'\'[\s\S]*?\'\'\'|"(?:\\.|[^"\\\n])*"|\'(?:\\.|[^\'\\\n])*\')|\d[\w.]*|[^\W\d]\w*|'
            r'\*\*=|//=|>>=|<<=|->|:=|\*\*|//|>>|<<|<=|>=|==|!=|\+=|-=|\*=|/=|%=|&=|\|=|\^=|@=|\.\.\.|\n[ \t]*|#[^\n]*|[^\w\s]', text)]
    return sorted(set(spans))


def mutants(text):
    """Every truncation at a token boundary, every single-token deletion, every adjacent-token swap."""
    sp = token_spans(text)
    out = []
    for k, (s, e) in enumerate(sp):
        out.append(('trunc@%d' % k, text[:s]))
        out.append(('del@%d' % k, text[:s] + text[e:]))
        if k + 1 < len(sp):
            s2, e2 = sp[k + 1]
            if s2 >= e:
                out.append(('swap@%d' % k, text[:s] + text[s2:e2] + text[e:s2] + text[s:e] + text[e2:]))
    return out


def byte_mutants(data):
    out = []
    for i in range(len(data)):
        for r in REPLACEMENTS:
            if data[i:i + 1] != r:
                out.append(('byte@%d=%r' % (i, r), data[:i] + r + data[i + 1:]))
    return out


def family_c(tier):
    """(family, tag, ext, bytes, is_seed)"""
    out = []
    seen = set()

    def add(fam, tag, ext, data, seed=False):
        key = (ext, data)
        if key in seen:
            return
        seen.add(key)
        out.append((fam, tag, ext, data, seed))
    if tier == 'quick':
        # a smaller complete corpus: the first 24 .py seeds and the 10 .pyx seeds without memoryview/fused/prange machinery
        seeds = [('.py', s) for s in SEEDS_PY[:24]] + [('.pyx', SEEDS_PYX[i]) for i in (0, 1, 2, 3, 4, 7, 8, 10, 11, 15)]
    else:
        seeds = [('.py', s) for s in SEEDS_PY] + [('.pyx', s) for s in SEEDS_PYX]
    for k, (ext, s) in enumerate(seeds):
        add('c-seed', 'seed#%d%s' % (k, ext), ext, s.encode('utf-8'), True)
    for k, (ext, s) in enumerate(seeds):
        for tag, m in mutants(s):
            add('c-token', 'seed#%d%s %s' % (k, ext, tag), ext, m.encode('utf-8'))
    for k, (ext, data) in enumerate(BYTE_FILES):
        add('c-seed', 'bytefile#%d%s' % (k, ext), ext, data, True)
        for tag, m in byte_mutants(data):
            add('c-byte', 'bytefile#%d%s %s' % (k, ext, tag), ext, m)
    return out
