"""C49 - generated code is assembled in insertion-point order.

Explicit-state search over operation histories of the real (staged, pure-Python) StringIOTree driven
through the real CCodeWriter, in lock-step with a list-of-holes reference model.  Every history up
to the depth bound is explored (BFS, dedup on canonical (model, implementation-shape) state); the
oracle is evaluated on every live buffer after every step.
"""
import io, itertools, collections
from vlib import farm

LEVEL = 'model_checking'
ENGINE = 'E3 histexplore'
TECHNIQUE = 'explicit-state BFS over all operation histories of the real StringIOTree/CCodeWriter vs list-of-holes model'
LEVEL_TEXT = ('Every history of writes/insertion points/insertions/commits up to depth 6 (7 thorough) over <= 3 buffers is '
              'executed on the real buffer classes in lock-step with a reference model; text, copyto, empty() and the '
              'per-line markers are compared on every live buffer after every step.')
LEVEL_NOTE = ('Bounded depth and buffer count; dedup abstraction assumes data independence of fragment contents '
              '(audited by a no-dedup run).  Drives the pure-Python StringIOTree.py and Code.CCodeWriter of the working tree.')
MAXBUF = 3


# ---------------------------------------------------------------------------- reference model
class MBuf:
    """A buffer is a list of items: ['t', text, [markers]] or ['h', MBuf]."""
    def __init__(self, ident):
        self.ident = ident
        self.items = []

    def write(self, s, marker):
        self.items.append(['t', s, [marker] * s.count('\n')])

    def hole(self, other):
        self.items.append(['h', other])

    def text(self):
        return ''.join(i[1] if i[0] == 't' else i[1].text() for i in self.items)

    def markers(self):
        out = []
        for i in self.items:
            out.extend(i[2] if i[0] == 't' else i[1].markers())
        return out

    def contains(self, other):
        return other is self or any(i[0] == 'h' and i[1].contains(other) for i in self.items)

    def canon(self, seen):
        """Data-independent abstraction: adjacent texts merged to (nonempty, nlines)."""
        if self.ident in seen:
            return ('ref', self.ident)
        seen.add(self.ident)
        out = []
        for i in self.items:
            if i[0] == 't':
                if out and out[-1][0] == 't':
                    out[-1] = ('t', out[-1][1] or bool(i[1]), out[-1][2] + len(i[2]))
                else:
                    out.append(('t', bool(i[1]), len(i[2])))
            else:
                out.append(('h', i[1].canon(seen)))
        return (self.ident, tuple(out))


class _GS:
    code_config = None


def impl_shape(tree, ids, seen):
    if id(tree) in seen:
        return ('ref', ids.get(id(tree)))
    seen.add(id(tree))
    return (ids.get(id(tree)), tuple(impl_shape(c, ids, seen) for c in tree.prepended_children),
            bool(tree.stream.tell()), len(tree.markers))


# ---------------------------------------------------------------------------- operations
FRAGS = {'wl': '%d\n', 'wp': '%d', 'we': '', 'w2': '%da\n%db\n'}


class World:
    def __init__(self):
        from Cython.Compiler.Code import CCodeWriter
        from Cython.StringIOTree import StringIOTree
        self.W = CCodeWriter
        root = CCodeWriter()
        root.globalstate = _GS()
        self.writers = [root]
        self.models = [MBuf(0)]
        self.inserted = [True]     # root counts as placed; detached writers may be inserted once
        self.step = 0

    def enabled(self, thorough):
        ops = []
        n = len(self.writers)
        for b in range(n):
            for f in ('wl', 'wp', 'we', 'w2'):
                ops.append((f, b))
            ops.append(('commit', b))
            if n < MAXBUF:
                ops.append(('ip', b))
                ops.append(('insnew', b))
                ops.append(('new', b))
            for d in range(n):
                if not self.inserted[d] and not self.models[d].contains(self.models[b]):
                    ops.append(('ins', b, d))
            if thorough:
                ops.append(('reset', b))
        return ops

    def apply(self, op):
        self.step += 1
        k = self.step
        kind, b = op[0], op[1]
        w, m = self.writers[b], self.models[b]
        if kind in FRAGS:
            s = FRAGS[kind].replace('%d', str(k))
            pos = ('src', k, 0)
            w.last_marked_pos = pos
            w.write(s)
            m.write(s, pos[:2])
        elif kind == 'commit':
            w.buffer.commit()
        elif kind == 'ip':
            nw = w.insertion_point()
            nm = MBuf(len(self.models))
            m.hole(nm)
            self.writers.append(nw); self.models.append(nm); self.inserted.append(True)
        elif kind == 'new':
            nw = w.new_writer()
            self.writers.append(nw); self.models.append(MBuf(len(self.models))); self.inserted.append(False)
        elif kind == 'insnew':
            nw = w.new_writer()
            w.insert(nw)
            nm = MBuf(len(self.models))
            m.hole(nm)
            self.writers.append(nw); self.models.append(nm); self.inserted.append(True)
        elif kind == 'ins':
            d = op[2]
            w.insert(self.writers[d])
            m.hole(self.models[d])
            self.inserted[d] = True
        elif kind == 'reset':
            w.buffer.reset()
            for i in m.items:
                if i[0] == 'h':
                    self.inserted[i[1].ident] = True   # a dropped child stays out of play for insert
            m.items = []
        else:
            raise ValueError(op)

    def check(self):
        """Oracle on every live buffer.  Returns None or a description."""
        for b, (w, m) in enumerate(zip(self.writers, self.models)):
            want = m.text()
            got = w.getvalue()
            if got != want:
                return 'buffer %d getvalue %r != model %r' % (b, got, want)
            out = io.StringIO()
            w.copyto(out)
            if out.getvalue() != want:
                return 'buffer %d copyto %r != model %r' % (b, out.getvalue(), want)
            if w.buffer.empty() != (want == ''):
                return 'buffer %d empty()=%r but text=%r' % (b, w.buffer.empty(), want)
            mk = [tuple(x) for x in w.buffer.allmarkers()]
            if mk != m.markers():
                return 'buffer %d allmarkers %r != model %r' % (b, mk, m.markers())
            if len(mk) != got.count('\n'):
                return 'buffer %d has %d markers for %d lines' % (b, len(mk), got.count('\n'))
        return None

    def key(self):
        ids = {id(w.buffer): i for i, w in enumerate(self.writers)}
        seen = set()
        mseen = set()
        return (tuple(m.canon(mseen) for m in self.models),
                tuple(impl_shape(w.buffer, ids, seen) for w in self.writers),
                tuple(self.inserted))


def build(hist):
    w = World()
    for op in hist:
        w.apply(op)
    return w


def explore(first_ops, depth, thorough, dedup=True):
    """BFS below the given prefix.  Returns (states, transitions, violations, maxdepth, dedup_hits, keys)."""
    seen = set()
    frontier = collections.deque([tuple(first_ops)])
    transitions = 0
    hits = 0
    viol = []
    maxd = len(first_ops)
    w0 = build(first_ops)
    seen.add(w0.key())
    while frontier:
        hist = frontier.popleft()
        base = build(hist)
        ops = base.enabled(thorough)
        for op in ops:
            nh = hist + (op,)
            try:
                w = build(nh)
                bad = w.check()
            except Exception as e:    # the implementation must not raise on a legal history
                bad = 'exception %s: %s' % (type(e).__name__, e)
                w = None
            transitions += 1
            if bad:
                viol.append((nh, bad))
                continue        # do not extend a diverged history
            k = w.key()
            if dedup and k in seen:
                hits += 1
                continue
            seen.add(k)
            maxd = max(maxd, len(nh))
            if len(nh) < depth:
                frontier.append(nh)
    return len(seen), transitions, viol, maxd, hits, seen


def _job(arg):
    prefix, depth, thorough, dedup = arg
    st, tr, viol, maxd, hits, seen = explore(prefix, depth, thorough, dedup)
    return st, tr, viol[:50], len(viol), maxd, hits, {hash(k) for k in seen} if dedup else None


def run(ctx):
    thorough = ctx.tier == 'thorough'
    depth = 7 if thorough else 6
    # partition the search on all length-2 prefixes (each prefix is itself checked)
    prefixes = []
    w0 = World()
    for a in w0.enabled(thorough):
        w1 = build((a,))
        for b in w1.enabled(thorough):
            prefixes.append((a, b))
    viols = []
    # the prefixes themselves
    pre_tr = 0
    for p in [(a,) for a in w0.enabled(thorough)] + prefixes:
        pre_tr += 1
        try:
            bad = build(p).check()
        except Exception as e:
            bad = 'exception %s: %s' % (type(e).__name__, e)
        if bad:
            viols.append((p, bad))
    ctx.log('%d prefixes, depth %d' % (len(prefixes), depth))
    res = farm.pmap(_job, [(p, depth, thorough, True) for p in prefixes])
    allkeys = set()
    transitions = pre_tr
    hits = 0
    maxd = 0
    nviol = len(viols)
    for st, tr, v, nv, md, h, seen in res:
        allkeys |= seen
        transitions += tr
        hits += h
        maxd = max(maxd, md)
        viols.extend(v)
        nviol += nv
    # dedup audit: re-explore a smaller bound without dedup, verdicts must agree
    audit_depth = 4
    ares = farm.pmap(_job, [(p, audit_depth, thorough, False) for p in prefixes])
    audit_tr = sum(r[1] for r in ares)
    audit_viol = sum(r[3] for r in ares)
    dres = farm.pmap(_job, [(p, audit_depth, thorough, True) for p in prefixes])
    audit_ok = (audit_viol > 0) == (sum(r[3] for r in dres) > 0)
    if not audit_ok:
        ctx.violation('dedup-audit', 'exploration with and without dedup disagree at depth %d' % audit_depth,
                      {'history': [], 'audit': True})
    for hist, bad in viols:
        # root key: the op kinds of the minimal history (indices dropped) and the failing observer
        key = 'hist:' + '/'.join(o[0] for o in hist) + ':' + bad.split(' ')[2 if bad.startswith('buffer') else 0]
        ctx.violation(key, bad, {'history': [list(o) for o in hist]})
    samples = [[list(o) for o in p] for p in prefixes[:2]]
    samples.append({'history': [['wl', 0], ['ip', 0], ['wl', 0], ['wp', 1], ['new', 0], ['ins', 1, 2]],
                    'note': 'kind of history explored: write/insertion_point/new_writer/insert on buffers by index'})
    cov = {
        'states': len(allkeys), 'transitions': transitions,
        'traces_validated_against_impl': transitions,
        'max_depth': maxd, 'dedup_hits': hits, 'depth_bound': depth, 'max_buffers': MAXBUF,
        'alphabet': sorted(FRAGS) + ['commit', 'ip', 'new', 'insnew', 'ins'] + (['reset'] if thorough else []),
        'dedup_audit': {'depth': audit_depth, 'transitions_without_dedup': audit_tr, 'agree': audit_ok},
        'violating_histories': nviol,
        'samples': samples,
        'exhaustive': True,
    }
    return cov, ['StringIOTree/CCodeWriter behaviour is independent of fragment content beyond emptiness and '
                 'newline count (dedup abstraction; audited by a no-dedup run at depth %d)' % audit_depth,
                 'each tree is inserted at most once and never into its own subtree (API contract)']


def replay(ctx, case):
    hist = [tuple(o) for o in case['history']]
    w = World()
    for i, op in enumerate(hist):
        try:
            w.apply(op)
            bad = w.check()
        except Exception as e:
            bad = 'exception %s: %s' % (type(e).__name__, e)
        if bad:
            return 'step %d %r: %s' % (i + 1, op, bad)
    return False
