"""C23 - generators, coroutines and async generators follow CPython's protocol on every history.

Explicit-state search over operation histories of live compiled generator / coroutine / async
generator objects.  ~95 bodies (one source text; incl. the complete product outer-except-handler x {nested try/except
that catches, nested try/except that does not raise, nested with} x suspension x {bare raise, log sys.exc_info(), raise
other} for sync generators, coroutines and async generators) are compiled with the staged Cython and also
executed by CPython.  For every body, EVERY history over the operation alphabet up to the depth
bound is executed in lock-step on a fresh compiled object and a fresh CPython object; the step
outcome (yielded value | StopIteration value | StopAsyncIteration | exception type (+ user args, __cause__ type,
__context__ type chain)),
the cleanup/delegation log written during the step and the sys.unraisablehook events are compared
after every step.  A history is not extended past its first divergent step, so every reported
history is a minimal divergent one; it is then delta-minimised and keyed by
(kind | body class | op classes of the minimal prefix | divergence class).

Alphabets
  sync generator : next, send(None), send(7), throw(ValueError), throw(ValueError('v')),
                   throw(GeneratorExit), throw(StopIteration(3)), close, iter(g) is g, drop(del+gc)
  coroutine      : send(None), send(7), throw(ValueError), throw(ValueError('v')), throw(GeneratorExit),
                   close, await2 (next(c.__await__())), drop
  async generator: create awaitable {__anext__(), asend(7), athrow(ValueError), aclose()} into slot 0/1,
                   drive slot 0/1 with send(None) / throw(ValueError('v')) (event-loop discipline, see enabled()), drop(all);
                   sys.set_asyncgen_hooks firstiter/finalizer calls are part of the compared step outcome
Bounds: quick = all histories <= 5 (sync) / <= 4 (coroutine, async generator), no dedup;
        thorough = all histories <= 6 / <= 6 / <= 6 without dedup, plus sync histories <= 8 with dedup on the
        canonical (CPython generator state, compiled visible state) pair, audited against the no-dedup run of bound 5.
A partition whose exploration kills the worker is refined until the crashing history is isolated exactly; violations are
delta-minimised, canonically ordered and keyed by (kind | body class or "unstarted" | op classes | divergence class);
a divergence after a non-empty prefix on an object whose body has not started yet is keyed by the SET of prefix op classes
("state-diverged"), >= 3 different diverging continuations of one prefix collapse to "prefix/*|state-diverged".
"""
import sys, gc, re, inspect, itertools, warnings, types
from vlib import farm, runner
from props import _g7_c23 as H

LEVEL = 'model_checking'
ENGINE = 'E3 histexplore'
TECHNIQUE = 'exhaustive lock-step execution of all operation histories on fresh compiled vs CPython generator objects'
LEVEL_TEXT = ('For each of ~95 generator/coroutine/async-generator bodies every history of protocol operations up to '
              'length 5 (sync generators; 6 thorough, 8 with state dedup) / 4 (coroutines, async generators; 6 thorough) is '
              'executed on a fresh compiled object and a fresh CPython object created from the same source; yielded '
              'values, StopIteration values, exception types + __context__ type chains, cleanup/delegation logs (incl. logged '
              'sys.exc_info) and unraisable events are '
              'compared after every step; histories are pruned at the first divergence.')
LEVEL_NOTE = ('Bounded history length and a fixed body set. Excluded by design: gi_frame/gi_code/tracebacks, exception message '
              'texts of runtime-generated errors (types only; args compared for user-raised exceptions), "never awaited" '
              'RuntimeWarnings, the __context__ that CPython >= 3.9 gives to exceptions injected by throw()/close() (bpo-29587; the '
              'chain of exceptions raised by the body is compared). Alphabet restrictions (CPython-version-specific corners, not Cython defects): '
              'throw(StopIteration) while suspended in `yield from <iterator without throw()>` (CPython >= 3.12 turns it into '
              'the iterator result, PEP 380 says raise); close() of asend()/athrow() awaitables (3.12 and 3.13 differ); throw() '
              'into a never-started awaitable while another awaitable of the same async generator is pending; any continuation '
              'after a throw() into a never-started awaitable that made the generator yield, and re-driving an awaitable whose '
              'send() was rejected (CPython 3.12.1 keeps both in the initial state, 3.12.4+/3.13 gh-117881 and Cython do not); '
              're-driving a finished awaitable except one extra send() after it finished normally through send(); a pending '
              'awaitable is never discarded. The deeper thorough search uses a state abstraction (audited against the no-dedup run of a smaller '
              'bound). Trusted: CPython 3.12 generator objects as the reference.')

SYNC_OPS = ['next', 'send(None)', 'send(7)', 'throw(VE)', 'throw(VE())', 'throw(GE)', 'throw(SI(3))', 'close', 'iter', 'drop']
CORO_OPS = ['send(None)', 'send(7)', 'throw(VE)', 'throw(VE())', 'throw(GE)', 'close', 'await2', 'drop']
AG_MK = ['anext', 'asend(7)', 'athrow(VE)', 'aclose']
AG_DRV = ['send(None)', 'throw(VE())']
# op classes for violation keys (arguments reduced to classes)
OPCLASS = {'send(7)': 'send(obj)', 'throw(VE)': 'throw(cls)', 'throw(VE())': 'throw(inst)',
           'throw(GE)': 'throw(GeneratorExit)', 'throw(SI(3))': 'throw(StopIteration)', 'asend(7)': 'asend(obj)',
           'athrow(VE)': 'athrow(cls)'}

_UNRAISABLE = []
_MOD = {}          # 'impl' / 'ref' -> namespace with the factories


def _hook(u):
    _UNRAISABLE.append((type(u.exc_value).__name__ if u.exc_value is not None else getattr(u.exc_type, '__name__', None),))


def _user_args(args):
    for a in args:
        if isinstance(a, str):
            if not (a.startswith('u:') or a == 'v'):
                return False
        elif isinstance(a, tuple):
            if not _user_args(a):
                return False
        elif not isinstance(a, (int, type(None))):
            return False
    return True


def _exc(e):
    if isinstance(e, StopIteration):
        return ('stop', repr(e.value))
    if isinstance(e, StopAsyncIteration):
        return ('astop', repr(e.args))
    args = repr(e.args) if _user_args(e.args) else '<msg>'
    cause = type(e.__cause__).__name__ if e.__cause__ is not None else None
    # __context__ type chain of exceptions raised BY THE BODY.  The chain is cut at an exception that was injected by
    # throw()/close() (recognisable: ValueError/GeneratorExit/StopIteration with args (), ('v',) or (3,)): CPython >= 3.9
    # chains an injected exception to the exception the generator is handling (bpo-29587), Cython does not.
    chain = []
    c = e
    while c is not None and len(chain) < 4:
        if isinstance(c, (ValueError, GeneratorExit, StopIteration)) and c.args in ((), ('v',), (3,)):
            break
        c = c.__context__
        if c is not None:
            chain.append(type(c).__name__)
    return ('exc', type(e).__name__, args, cause, tuple(chain))


class Machine:
    """One live object (compiled or interpreted) plus its log."""
    def __init__(self, ns, body, kind):
        self.log = []
        self.box = [None]
        self.kind = kind
        self.obj = ns[body](self.log.append, H, self.box)
        self.box[0] = self.obj
        self.slots = [None, None]
        if kind == 'agen':
            self.hooklog = self.log

    def step(self, op):
        """Apply op; return (outcome, log delta, unraisable events)."""
        n0 = len(self.log)
        del _UNRAISABLE[:]
        try:
            out = self._apply(op)
        except BaseException as e:
            if isinstance(e, (KeyboardInterrupt, SystemExit, MemoryError)):
                raise
            out = _exc(e)
            e = None
        return (out, tuple(self.log[n0:]), tuple(_UNRAISABLE))

    def _apply(self, op):
        g = self.obj
        if op == 'next':
            return ('y', repr(next(g)))
        if op == 'send(None)':
            return ('y', repr(g.send(None)))
        if op == 'send(7)':
            return ('y', repr(g.send(7)))
        if op == 'throw(VE)':
            return ('y', repr(g.throw(ValueError)))
        if op == 'throw(VE())':
            return ('y', repr(g.throw(ValueError('v'))))
        if op == 'throw(GE)':
            return ('y', repr(g.throw(GeneratorExit)))
        if op == 'throw(SI(3))':
            return ('y', repr(g.throw(StopIteration(3))))
        if op == 'close':
            return ('val', repr(g.close()))
        if op == 'iter':
            return ('val', repr(iter(g) is g))
        if op == 'await2':
            return ('y', repr(next(g.__await__())))
        if op == 'drop':
            self.obj = g = None
            del self.box[:]
            self.slots = [None, None]
            gc.collect()
            return ('val', 'dropped')
        # async generator ops: 'mk:<kind>:<slot>' / 'drv:<op>:<slot>'
        what, arg, slot = op.split(':')
        slot = int(slot)
        if what == 'mk':
            if arg == 'anext':
                aw = g.__anext__()
            elif arg == 'asend(7)':
                aw = g.asend(7)
            elif arg == 'athrow(VE)':
                aw = g.athrow(ValueError)
            else:
                aw = g.aclose()
            self.slots[slot] = aw
            return ('val', 'awaitable')
        aw = self.slots[slot]
        if arg == 'send(None)':
            return ('y', repr(aw.send(None)))
        if arg == 'throw(VE())':
            return ('y', repr(aw.throw(ValueError('v'))))
        return ('val', repr(aw.close()))


def _ref_state(obj, depth=0):
    """Canonical state of the CPython object (dedup key part)."""
    if obj is None:
        return None
    if isinstance(obj, types.GeneratorType):
        fr = obj.gi_frame
        if fr is None:
            return ('gen', 'closed')
        loc = tuple(sorted((k, repr(v)) for k, v in fr.f_locals.items() if k not in ('L', 'H', 'box')))
        return ('gen', inspect.getgeneratorstate(obj), fr.f_lasti, loc,
                _ref_state(obj.gi_yieldfrom, depth + 1) if depth < 4 else '...')
    d = getattr(obj, '__dict__', None)
    if d is not None:
        return (type(obj).__name__, tuple(sorted((k, repr(v)) for k, v in d.items() if k != 'L')))
    if hasattr(obj, '__length_hint__'):
        return (type(obj).__name__, obj.__length_hint__())        # position of a list / tuple / range iterator
    return type(obj).__name__


def _impl_state(obj):
    if obj is None:
        return None
    yf = getattr(obj, 'gi_yieldfrom', None)
    return (bool(getattr(obj, 'gi_running', False)), type(yf).__name__)


def _si_quirk(g):
    """CPython >= 3.12 treats a StopIteration thrown into `yield from <iterator without throw()>` as that
    iterator's return value (CLEANUP_THROW); PEP 380 / Cython raise it inside the generator (-> RuntimeError)."""
    n = 0
    while isinstance(g, types.GeneratorType) and n < 8:
        yf = g.gi_yieldfrom
        if yf is None:
            return False
        if isinstance(yf, types.GeneratorType):
            g = yf
            n += 1
            continue
        return not hasattr(yf, 'throw')
    return False


def slot_status(hist, outs):
    """async generator awaitable slots: None | 'fresh' | 'pending' | 'done-send' | 'done-exc' | 'reused' | 'quirk'
    ('quirk' = throw() into a never-started awaitable made the generator yield: the awaitable is pending although it
    never left its initial state in CPython 3.12.1)"""
    st = [None, None]
    for op, o in zip(hist, outs):
        if op == 'drop':
            return [None, None]
        w, a, s_ = op.split(':')
        s_ = int(s_)
        if w == 'mk':
            st[s_] = 'fresh'
        else:
            kind = o[0][0]
            if kind == 'y':
                st[s_] = 'quirk' if (a != 'send(None)' and st[s_] == 'fresh') else 'pending'
            elif st[s_] == 'done-send':
                st[s_] = 'reused'
            elif a == 'send(None)' and kind in ('stop', 'astop'):
                st[s_] = 'done-send'
            else:
                st[s_] = 'done-exc'
    return st


def enabled(kind, hist, outs, quirk=False):
    """Operations that may extend hist (outs = CPython step outcomes of hist)."""
    if kind == 'gen':
        return [o for o in SYNC_OPS if o != 'throw(SI(3))'] if quirk else SYNC_OPS
    if kind == 'coro':
        return CORO_OPS
    # async generator: slot 1 may only be filled once slot 0 is.  An awaitable is driven like an event loop would:
    # send(None) while not finished; throw() while it is pending (cancellation) or before its first step provided no
    # other awaitable of the generator is pending; a finished awaitable is awaited once more only if it finished
    # NORMALLY through send() ("await twice"), not when its send() was rejected (e.g. "already running").  A history
    # in which throw() into a never-started awaitable made the generator yield is executed and compared but not
    # extended: CPython 3.12.1 leaves such an awaitable (and ag_running_async) in its initial state, 3.12.4+/3.13
    # (gh-117881) and Cython mark it running, so every continuation differs between CPython versions themselves.
    st = slot_status(hist, outs)
    if 'quirk' in st:
        return ['drop']
    ops = []
    for s in (0, 1):
        if s == 1 and st[0] is None:
            continue
        if st[s] == 'pending':
            continue            # a pending awaitable is not discarded (the generator would stay "running" for ever)
        for k in AG_MK:
            ops.append('mk:%s:%d' % (k, s))
    for s in (0, 1):
        if st[s] in ('fresh', 'pending', 'done-send'):
            ops.append('drv:send(None):%d' % s)
        if st[s] == 'pending' or (st[s] == 'fresh' and st[1 - s] != 'pending'):
            ops.append('drv:throw(VE()):%d' % s)
    ops.append('drop')
    return ops


def run_history(body, kind, hist, want_state=False, strict=False):
    """Execute hist on fresh objects in lock-step.
    Returns (divergence or None, steps executed, CPython outcomes, state, quirk flag); divergence = 'invalid' when
    strict and an operation is not enabled at its position."""
    mi = Machine(_MOD['impl'], body, kind)
    mr = Machine(_MOD['ref'], body, kind)
    outs = []
    for i, op in enumerate(hist):
        if strict and op not in enabled(kind, hist[:i], outs, kind == 'gen' and _si_quirk(mr.obj)):
            mi.step('drop'); mr.step('drop')
            return 'invalid', i, outs, None, False
        a = mi.step(op)
        b = mr.step(op)
        outs.append(b)
        if a != b:
            mi.step('drop'); mr.step('drop')
            return (i, b, a), i + 1, outs, None, False
    state = None
    if want_state:
        rs = _ref_state(mr.obj)
        # values on the interpreter stack and pending exceptions are invisible: keep the payload-carrying operations
        # (everything except next / send(None) / iter) in the key unless the generator is finished
        payload = () if rs == ('gen', 'closed') else tuple(o for o in hist if o not in ('next', 'send(None)', 'iter'))
        state = (rs, payload, _impl_state(mi.obj))
    quirk = kind == 'gen' and _si_quirk(mr.obj)
    # silent cleanup (not part of the history)
    mi.step('drop'); mr.step('drop')
    return None, len(hist), outs, state, quirk


def div_class(ref, got):
    (ro, rl, ru), (go, gl, gu) = ref, got
    if ro != go:
        if ro[0] == 'exc' and go[0] == 'exc':
            if ro[1] != go[1]:
                return 'exc:%s->%s' % (ro[1], go[1])
            if ro[2] != go[2]:
                return 'exc-args:%s' % ro[1]
            if ro[3] != go[3]:
                return 'exc-cause:%s:%s->%s' % (ro[1], ro[3], go[3])
            return 'exc-context:%s:%s->%s' % (ro[1], '>'.join(ro[4]) or 'none', '>'.join(go[4]) or 'none')
        if ro[0] != go[0]:
            r = ro[0] if ro[0] != 'exc' else 'exc:' + ro[1]
            g = go[0] if go[0] != 'exc' else 'exc:' + go[1]
            return '%s->%s' % (r, g)
        return 'wrong-%s-value' % {'y': 'yield', 'stop': 'stop', 'val': 'result', 'astop': 'astop'}[ro[0]]
    if rl != gl:
        return 'log'
    return 'unraisable'


def opclasses(hist):
    out = []
    for op in hist:
        if ':' in op:
            w, a, s = op.split(':')
            out.append('%s:%s:%s' % (w, OPCLASS.get(a, a), s))
        else:
            out.append(OPCLASS.get(op, op))
    return '/'.join(out)


# ---------------------------------------------------------------------------- exploration (runs in workers)
def _setup(so_path, src):
    warnings.simplefilter('ignore')
    sys.unraisablehook = _hook
    mod = farm.load(so_path, 'c23bodies')
    ns = {'__name__': 'c23ref'}
    exec(compile(src, '<c23bodies>', 'exec'), ns)
    _MOD['impl'] = mod.__dict__
    _MOD['ref'] = ns

    # async generator hooks: first iteration / finalisation are recorded with the step's unraisable events
    def firstiter(ag):
        _UNRAISABLE.append(('hook:firstiter',))

    def finalizer(ag):
        _UNRAISABLE.append(('hook:finalizer',))
    sys.set_asyncgen_hooks(firstiter=firstiter, finalizer=finalizer)
    gc.collect()
    gc.freeze()
    return True


def explore(state, case):
    """DFS below a prefix.  case = (body, kind, prefix, depth, dedup).  The prefix itself is executed first (it must be
    a valid history); 'ext' = the operations enabled after the prefix (used to refine a crashing partition)."""
    body, kind, prefix, depth, dedup = case
    stack = [tuple(prefix)]
    histories = steps = nviol = hits = maxd = 0
    viol = {}
    outcomes = set()
    states = set()
    ext = None
    while stack:
        h = stack.pop()
        div, n, outs, st, quirk = run_history(body, kind, h, want_state=dedup)
        histories += 1
        steps += n
        outcomes.add(outs[-1])
        if div is not None:
            i, ref, got = div
            if i < len(h) - 1:
                continue            # diverges inside the partition prefix: reported by the shorter prefix's own case
            nviol += 1
            k = (opclasses(h), div_class(ref, got))
            if k not in viol:
                viol[k] = (list(h), ref, got)
            continue
        maxd = max(maxd, len(h))
        if h[-1] == 'drop':
            continue
        ops = enabled(kind, h, outs, quirk)
        if ext is None:
            ext = list(ops)
        if len(h) >= depth:
            continue
        if dedup:
            if st in states:
                hits += 1
                continue
            states.add(st)
        for op in reversed(ops):
            stack.append(h + (op,))
    return {'histories': histories, 'steps': steps, 'nviol': nviol, 'viol': viol, 'ext': ext or [],
            'outcomes': {hash(o) for o in outcomes}, 'states': {hash(s) for s in states}, 'hits': hits, 'maxd': maxd}


SIMPLER = {'send(None)': ['next'], 'send(7)': ['next', 'send(None)'], 'throw(VE())': ['throw(VE)'],
           'await2': ['send(None)'], 'mk:asend(7)': ['mk:anext']}


def _slot(op):
    return int(op[-1]) if (op.startswith('mk:') or op.startswith('drv:')) else None


def _canon_slots(h):
    """Rename awaitable slots in order of first creation."""
    m = {}
    out = []
    for op in h:
        s_ = _slot(op)
        if s_ is None:
            out.append(op)
            continue
        if s_ not in m:
            m[s_] = len(m)
        out.append(op[:-1] + str(m[s_]))
    return out


def minimise_with(hist, bad):
    """Delta-minimise hist under predicate bad(list) (True = still shows the same failure at its LAST step):
    drop operations, move drives in front of unrelated creations, merge awaitable slots, replace non-final
    operations by simpler ones of the same role."""
    hist = list(hist)
    changed = True
    while changed:
        changed = False
        for i in range(len(hist) - 1):
            cand = _canon_slots(hist[:i] + hist[i + 1:])
            if bad(cand):
                hist = cand
                changed = True
                break
    # async generators: canonical order = the valid failing permutation of the non-final operations in which every
    # awaitable is driven as soon as possible after its creation (then lexicographically least); then reuse slot 0
    if any(_slot(op) is not None for op in hist) and 2 < len(hist) <= 6:
        def measure(h):
            m = 0
            for i, op in enumerate(h):
                if op.startswith('mk:'):
                    nxt = [j for j in range(i + 1, len(h)) if h[j].startswith('drv:') and _slot(h[j]) == _slot(op)]
                    m += (nxt[0] - i) if nxt else 0
            return m
        cands = {tuple(_canon_slots(list(p) + hist[-1:])) for p in itertools.permutations(hist[:-1])}
        cur = (measure(hist), tuple(hist))
        for c in sorted(cands, key=lambda c: (measure(c), c)):
            if (measure(c), c) >= cur:
                break
            if bad(list(c)):
                hist = list(c)
                break
    if any(_slot(op) == 1 for op in hist):
        for cut in range(len(hist)):
            # ops on slot 1 from position `cut` on use slot 0 instead
            cand = [op[:-1] + '0' if (j >= cut and _slot(op) == 1) else op for j, op in enumerate(hist)]
            if cand != hist and not any(_slot(op) == 1 for op in cand) and bad(cand):
                hist = cand
                break
    for i in range(len(hist) - 1):
        op = hist[i]
        base, _, slot = op.rpartition(':') if op.startswith('mk:') else (op, '', '')
        for simp in SIMPLER.get(base, []):
            cand = list(hist)
            cand[i] = simp + (':' + slot if slot else '')
            if bad(cand):
                hist = cand
                break
    return hist


def minimise(body, kind, hist, dclass):
    def bad(h):
        if not h:
            return False
        try:
            div = run_history(body, kind, tuple(h), strict=True)[0]
        except Exception:
            return False
        return div is not None and div != 'invalid' and div[0] == len(h) - 1 and div_class(div[1], div[2]) == dclass
    return minimise_with(hist, bad)


def _minimise_job(state, case):
    body, kind, hist, dclass = case
    return minimise(body, kind, hist, dclass)


def _crash_probe(so, body, kind, hist):
    """Runs in a forked child: 'invalid' | 'survived' (the parent sees a crash as Result.kind == 'crash')."""
    _setup(so, H.BODY_SRC)
    div = run_history(body, kind, tuple(hist), strict=True)[0]
    return 'invalid' if div == 'invalid' else 'survived'


def minimise_crash(so, body, kind, hist):
    def bad(h):
        if not h:
            return False
        r = runner.forked(_crash_probe, so, body, kind, list(h), timeout=120)
        return r.kind in ('crash', 'timeout')
    return minimise_with(hist, bad)


def _unstarted(body, kind, hist):
    """True if the CPython object has not started executing its body before the last step."""
    m = Machine(_MOD['ref'], body, kind)
    for op in hist[:-1]:
        m.step(op)
    o = m.obj
    try:
        if kind == 'gen':
            r = o is not None and inspect.getgeneratorstate(o) == 'GEN_CREATED'
        elif kind == 'coro':
            r = o is not None and inspect.getcoroutinestate(o) == 'CORO_CREATED'
        else:
            r = o is not None and inspect.getasyncgenstate(o) == 'AGEN_CREATED'
    except Exception:
        r = False
    m.step('drop')
    return r


def _classify_job(state, case):
    body, kind, hist = case
    return _unstarted(body, kind, hist)


# ---------------------------------------------------------------------------- driver
def build_bodies(ctx, cflags=()):
    r = farm.build('c23bodies', H.BODY_SRC, ctx.workdir('c23'), ext='.py', cflags=cflags)
    if not r.ok:
        raise RuntimeError('C23 bodies do not build: %s %s' % (r.stage, r.errors[-3000:]))
    return r


def bounds(tier):
    if tier == 'quick':
        return {'gen': 5, 'coro': 4, 'agen': 4}
    return {'gen': 6, 'coro': 6, 'agen': 6}


KINDS = [('gen', H.SYNC), ('coro', H.CORO), ('agen', H.AGEN)]


def first_cases(kind, bodies, depth, dedup):
    """One search partition per (body, first operation)."""
    return [(body, kind, (op,), depth, dedup) for body in bodies for op in enabled(kind, (), [])]


class Totals:
    def __init__(self):
        self.histories = self.steps = self.nviol = self.hits = self.maxd = 0
        self.outcomes = set()
        self.states = set()
        self.per_kind = {}
        self.raw = {}          # (body, kind, opclasses, dclass) -> (hist, ref, got)
        self.crashes = []      # (case, result) for single-history cases that crash
        self.refined = 0

    def add(self, case, v):
        body, kind = case[0], case[1]
        self.histories += v['histories']; self.steps += v['steps']; self.nviol += v['nviol']; self.hits += v['hits']
        self.maxd = max(self.maxd, v['maxd'])
        pk = self.per_kind.setdefault(kind, {'histories': 0, 'steps': 0})
        pk['histories'] += v['histories']; pk['steps'] += v['steps']
        self.outcomes |= v['outcomes']
        self.states |= v['states']
        for (oc, dc), (h, ref, got) in v['viol'].items():
            self.raw.setdefault((body, kind, oc, dc), (h, ref, got))


def sweep(ctx, b, cases, tot, timeout=900):
    """Run all partitions; a partition that kills its worker is refined (prefix alone, then prefix+op for every enabled
    op) until the crashing histories are isolated exactly."""
    order = list(range(len(cases)))
    if ctx.seed:
        import random
        random.Random(ctx.seed).shuffle(order)
    todo = [cases[i] for i in order]
    rounds = 0
    while todo:
        rounds += 1
        res = runner.run_cases(explore, todo, setup=_setup, setup_args=(b.so, H.BODY_SRC),
                               chunk=max(1, -(-len(todo) // (farm.NPROC * 2))), timeout=timeout)
        nxt = []
        for case, r in zip(todo, res):
            body, kind, prefix, depth, dedup = case
            if r[0] == 'ok':
                tot.add(case, r[1])
                if case[-1:] == ('expand',):
                    pass
                continue
            if len(prefix) >= depth:
                tot.crashes.append((case, r))          # a single history: the crash is attributed exactly
                continue
            tot.refined += 1
            # run the prefix alone; if that survives, its enabled extensions become partitions of their own
            alone = runner.run_cases(explore, [(body, kind, prefix, len(prefix), False)], setup=_setup,
                                     setup_args=(b.so, H.BODY_SRC), timeout=timeout)[0]
            if alone[0] != 'ok':
                tot.crashes.append(((body, kind, prefix, len(prefix), False), alone))
                continue
            tot.add(case, alone[1])
            for op in alone[1]['ext']:
                nxt.append((body, kind, tuple(prefix) + (op,), depth, dedup))
        todo = nxt
    return rounds


def report(ctx, b, tot):
    """Minimise one representative per raw class and report by root key; report isolated crashes."""
    seen_crash = set()
    for case, r in tot.crashes:
        body, kind, prefix, depth, dedup = case
        sig = r[1] if r[0] == 'crash' else r[0]
        mh = minimise_crash(b.so, body, kind, list(prefix)) if len(seen_crash) < 12 else list(prefix)
        key = '%s|%s|%s|crash' % (kind, H.BODY_CLASS[body], opclasses(mh))
        seen_crash.add(key)
        ctx.violation(key, '%s %s history %s: compiled object kills the process (%s %s)' % (kind, body, mh, r[0], sig),
                      {'body': body, 'kind': kind, 'history': list(mh), 'crash': str(sig), 'found_as': list(prefix)})
    items = sorted(tot.raw.items())
    if not items:
        return 0
    jobs = [(body, kind, h, dc) for (body, kind, oc, dc), (h, ref, got) in items]
    mins = runner.run_cases(_minimise_job, jobs, setup=_setup, setup_args=(b.so, H.BODY_SRC), timeout=600,
                            chunk=max(1, -(-len(jobs) // farm.NPROC)))
    hists = [m[1] if m[0] == 'ok' else j[2] for j, m in zip(jobs, mins)]
    uns = runner.run_cases(_classify_job, [(j[0], j[1], h) for j, h in zip(jobs, hists)], setup=_setup,
                           setup_args=(b.so, H.BODY_SRC), timeout=600, chunk=max(1, -(-len(jobs) // farm.NPROC)))
    found = []     # (kind, bclass, [op classes], dclass, what, case)
    for ((body, kind, oc, dc), (h, ref, got)), mh, u in sorted(zip(items, hists, uns), key=lambda t: (len(t[1]), t[0][0])):
        unstarted = (u[0] == 'ok' and u[1])
        what = '%s %s history %s: CPython %r, compiled %r' % (kind, body, mh, ref, got)
        case = {'body': body, 'kind': kind, 'history': list(mh), 'expected': repr(ref), 'got': repr(got), 'found_as': list(h)}
        if unstarted and len(mh) > 1:
            # The CPython object has not started its body before the last step, so every earlier operation was a
            # rejected or no-op request; a divergence now means those operations changed the compiled object's state.
            # Root key: the set of operation classes of the prefix (order, slots and the revealing operation dropped).
            ops = sorted({re.sub(r':[01]$', '', o) for o in opclasses(mh[:-1]).split('/')})
            ctx.violation('%s|unstarted|{%s}|state-diverged' % (kind, ','.join(ops)), what, case)
            continue
        bclass = 'unstarted' if unstarted else H.BODY_CLASS[body]
        found.append((kind, bclass, opclasses(mh).split('/'), dc, what, case))
    for key, what, case in collapse(found):
        ctx.violation(key, what, case)
    return len(items)


def collapse(found):
    """Latent state divergence: when, after the same non-empty minimal prefix, >= 3 different (next operation, divergence
    class) continuations diverge, the two machines were already in different states after the prefix; those findings
    are reported under ONE key 'prefix/*|state-diverged' (applied repeatedly towards shorter prefixes)."""
    entries = [(k, b, tuple(ops[:-1]), (ops[-1], dc), what, case) for k, b, ops, dc, what, case in found]
    while True:
        groups = {}
        for e in entries:
            groups.setdefault((e[0], e[1], e[2]), set()).add(e[3])
        big = {g for g, members in groups.items() if g[2] and len(members) >= 3}
        if not big:
            break
        out = []
        done = set()
        for e in entries:
            g = (e[0], e[1], e[2])
            if g in big:
                if g not in done:
                    done.add(g)
                    out.append((e[0], e[1], e[2][:-1], (e[2][-1] + '/*', 'state-diverged'), e[4], e[5]))
            else:
                out.append(e)
        entries = out
    res = []
    for k, b, prefix, (last, dc), what, case in entries:
        res.append(('%s|%s|%s|%s' % (k, b, '/'.join(prefix + (last,)), dc), what, case))
    return res


REACH = ('__Pyx_Coroutine_SendEx', '__Pyx_Coroutine_Throw', '__Pyx_Coroutine_Close', '__Pyx_Coroutine_del',
         '__Pyx_async_gen_asend_send', '__Pyx_async_gen_athrow_send', '__Pyx_async_gen_athrow_throw',
         '__Pyx_Generator_Yield_From', '__Pyx_Coroutine_Yield_From', '__Pyx_Coroutine_AlreadyRunningError')


def run(ctx):
    b = build_bodies(ctx)
    c_text = b.c_text()
    reach = {n: (n in c_text) for n in REACH}
    bd = bounds(ctx.tier)
    cases = []
    import os
    only = os.environ.get('VERIF_C23_KINDS', 'gen,coro,agen').split(',')     # development aid: restrict the kinds swept
    only_bodies = os.environ.get('VERIF_C23_BODIES')                         # development aid: restrict the bodies swept
    for kind, bodies in KINDS:
        if kind in only:
            if only_bodies:
                bodies = [b_ for b_ in bodies if b_ in only_bodies.split(',')]
            cases += first_cases(kind, bodies, bd[kind], False)
    ctx.log('%d bodies, %d search partitions, bounds %s' % (sum(len(x[1]) for x in KINDS), len(cases), bd))
    tot = Totals()
    rounds = sweep(ctx, b, cases, tot)
    ctx.log('swept: %d histories, %d steps, %d divergent, %d crash histories' % (tot.histories, tot.steps, tot.nviol, len(tot.crashes)))
    n_raw = report(ctx, b, tot)
    cov = {
        'states': tot.histories, 'transitions': tot.steps * 2,
        'traces_validated_against_impl': tot.histories,
        'states_rule': 'distinct histories (each executed from fresh objects on both machines; no dedup in this bound); '
                       'transitions = steps executed on the compiled plus on the CPython object',
        'max_depth': tot.maxd, 'bounds': bd, 'per_kind': tot.per_kind,
        'bodies': {k: len(v) for k, v in KINDS}, 'distinct_step_outcomes': len(tot.outcomes),
        'divergent_histories_raw': tot.nviol, 'divergent_classes_before_minimisation': n_raw,
        'crash_histories': len(tot.crashes), 'partitions_refined_after_crash': tot.refined, 'reach': reach,
        'reach_gaps': [n for n, ok in reach.items() if not ok],
        'alphabet': {'gen': SYNC_OPS, 'coro': CORO_OPS,
                     'agen': ['mk:%s:<slot>' % k for k in AG_MK] + ['drv:%s:<slot>' % d for d in AG_DRV] + ['drop']},
        'samples': [{'body': 's_finally_yield', 'history': ['next', 'throw(VE())', 'close', 'next', 'drop']},
                    {'body': 'c_with', 'history': ['send(None)', 'throw(VE)', 'await2', 'close']},
                    {'body': 'a_finally_await', 'history': ['mk:anext:0', 'drv:send(None):0', 'mk:aclose:1', 'drv:send(None):1']}],
        'exhaustive': True,
    }
    assumptions = ['protocol behaviour for histories longer than the bound and for bodies outside the fixed set is not covered',
                   'exception message texts of interpreter-generated errors are not compared; __context__ chains are compared as type names',
                   'by-design alphabet restrictions: see LEVEL_NOTE']
    if ctx.tier == 'thorough' and 'gen' in only and not only_bodies:
        # deeper bound with state dedup; the abstraction is audited by comparing a dedup run and the no-dedup run on bound 5
        deep = Totals()
        sweep(ctx, b, first_cases('gen', H.SYNC, 8, True), deep, timeout=1500)
        report(ctx, b, deep)
        aud = Totals()
        sweep(ctx, b, first_cases('gen', H.SYNC, 5, True), aud)
        nod = Totals()
        sweep(ctx, b, first_cases('gen', H.SYNC, 5, False), nod)
        agree = (bool(aud.raw) == bool(nod.raw)) and aud.outcomes == nod.outcomes
        cov['dedup'] = {'depth': 8, 'histories': deep.histories, 'steps': deep.steps, 'states': len(deep.states),
                        'dedup_hits': deep.hits, 'audit_depth': 5, 'audit_histories_dedup': aud.histories,
                        'audit_histories_nodedup': nod.histories, 'audit_same_step_outcomes': aud.outcomes == nod.outcomes,
                        'audit_agree': agree}
        if not agree:
            ctx.violation('dedup-audit', 'dedup and no-dedup exploration disagree at depth 5 (abstraction hides behaviour)',
                          {'audit': True})
        cov['states'] += len(deep.states)
        cov['transitions'] += deep.steps * 2
        cov['traces_validated_against_impl'] += deep.histories
        cov['dedup_hits'] = deep.hits
        cov['max_depth'] = max(cov['max_depth'], deep.maxd)
    return cov, assumptions


def replay(ctx, case):
    if case.get('audit'):
        return 'dedup audit disagreement (re-run the thorough tier)'
    b = build_bodies(ctx)
    r = runner.forked(_replay_child, b.so, case['body'], case['kind'], tuple(case['history']))
    if r.kind != 'ok':
        return '%s %r while replaying %s %s' % (r.kind, r.value, case['body'], case['history'])
    return r.value


def _replay_child(so, body, kind, hist):
    _setup(so, H.BODY_SRC)
    div, n, outs, st, quirk = run_history(body, kind, hist)
    if div is None:
        return False
    i, ref, got = div
    return 'step %d %s of %s: CPython %r, compiled %r (%s)' % (i + 1, hist[i], body, ref, got, div_class(ref, got))
