"""C23 - generators, coroutines and async generators follow CPython's protocol on every history.

Explicit-state search over operation histories of live compiled generator / coroutine / async
generator objects.  ~65 bodies (one source text) are compiled with the staged Cython and also
executed by CPython.  For every body, EVERY history over the operation alphabet up to the depth
bound is executed in lock-step on a fresh compiled object and a fresh CPython object; the step
outcome (yielded value | StopIteration value | StopAsyncIteration | exception type (+ user args)),
the cleanup/delegation log written during the step and the sys.unraisablehook events are compared
after every step.  A history is not extended past its first divergent step, so every reported
history is a minimal divergent one; it is then delta-minimised and keyed by
(kind | body class | op classes of the minimal prefix | divergence class).

Alphabets
  sync generator : next, send(None), send(7), throw(ValueError), throw(ValueError('v')),
                   throw(GeneratorExit), throw(StopIteration(3)), close, iter(g) is g, drop(del+gc)
  coroutine      : send(None), send(7), throw(ValueError), throw(ValueError('v')), throw(GeneratorExit),
                   close, await2 (next(c.__await__())), drop
  async generator: create awaitable {__anext__(), asend(7), athrow(ValueError), aclose()} into slot 0/1,
                   drive slot 0/1 with send(None) / throw(ValueError('v')) / close(), drop(all)
Bounds: quick = all histories <= 5 (sync) / <= 4 (coroutine, async generator), no dedup;
        thorough = all histories <= 6 / <= 6 / <= 5 without dedup, plus sync histories <= 8 with dedup on the
        canonical (CPython generator state, compiled visible state) pair, audited against the no-dedup run.
"""
import sys, gc, inspect, itertools, warnings, types
from vlib import farm, runner
from props import _g7_c23 as H

LEVEL = 'model_checking'
ENGINE = 'E3 histexplore'
TECHNIQUE = 'exhaustive lock-step execution of all operation histories on fresh compiled vs CPython generator objects'
LEVEL_TEXT = ('For each of ~65 generator/coroutine/async-generator bodies every history of protocol operations up to '
              'length 5 (sync generators; 6 thorough, 8 with state dedup) / 4 (coroutines, async generators; 6 / 5 thorough) is '
              'executed on a fresh compiled object and a fresh CPython object created from the same source; yielded '
              'values, StopIteration values, exception types, cleanup/delegation logs and unraisable events are '
              'compared after every step; histories are pruned at the first divergence.')
LEVEL_NOTE = ('Bounded history length and a fixed body set. Excluded by design: gi_frame/gi_code/tracebacks, exception message '
              'texts of runtime-generated errors (types only; args compared for user-raised exceptions), "never awaited" '
              'RuntimeWarnings, __context__ chains. Deeper thorough search uses a state abstraction (audited by the '
              'no-dedup run of the smaller bound). Trusted: CPython 3.12 generator objects as the reference.')

SYNC_OPS = ['next', 'send(None)', 'send(7)', 'throw(VE)', 'throw(VE())', 'throw(GE)', 'throw(SI(3))', 'close', 'iter', 'drop']
CORO_OPS = ['send(None)', 'send(7)', 'throw(VE)', 'throw(VE())', 'throw(GE)', 'close', 'await2', 'drop']
AG_MK = ['anext', 'asend(7)', 'athrow(VE)', 'aclose']
AG_DRV = ['send(None)', 'throw(VE())', 'close']
# op classes for violation keys (arguments reduced to classes)
OPCLASS = {'send(7)': 'send(obj)', 'throw(VE)': 'throw(cls)', 'throw(VE())': 'throw(inst)',
           'throw(GE)': 'throw(GeneratorExit)', 'throw(SI(3))': 'throw(StopIteration)', 'asend(7)': 'asend(obj)',
           'athrow(VE)': 'athrow(cls)'}

_UNRAISABLE = []
_MOD = {}          # 'impl' / 'ref' -> namespace with the factories


def _hook(u):
    _UNRAISABLE.append((type(u.exc_value).__name__ if u.exc_value is not None else getattr(u.exc_type, '__name__', None),))


def _user_args(args):
    for a in args:
        if isinstance(a, str):
            if not (a.startswith('u:') or a == 'v'):
                return False
        elif isinstance(a, tuple):
            if not _user_args(a):
                return False
        elif not isinstance(a, (int, type(None))):
            return False
    return True


def _exc(e):
    if isinstance(e, StopIteration):
        return ('stop', repr(e.value))
    if isinstance(e, StopAsyncIteration):
        return ('astop', repr(e.args))
    args = repr(e.args) if _user_args(e.args) else '<msg>'
    cause = type(e.__cause__).__name__ if e.__cause__ is not None else None
    return ('exc', type(e).__name__, args, cause)


class Machine:
    """One live object (compiled or interpreted) plus its log."""
    def __init__(self, ns, body, kind):
        self.log = []
        self.box = [None]
        self.kind = kind
        self.obj = ns[body](self.log.append, H, self.box)
        self.box[0] = self.obj
        self.slots = [None, None]
        if kind == 'agen':
            self.hooklog = self.log

    def step(self, op):
        """Apply op; return (outcome, log delta, unraisable events)."""
        n0 = len(self.log)
        del _UNRAISABLE[:]
        try:
            out = self._apply(op)
        except BaseException as e:
            if isinstance(e, (KeyboardInterrupt, SystemExit, MemoryError)):
                raise
            out = _exc(e)
            e = None
        return (out, tuple(self.log[n0:]), tuple(_UNRAISABLE))

    def _apply(self, op):
        g = self.obj
        if op == 'next':
            return ('y', repr(next(g)))
        if op == 'send(None)':
            return ('y', repr(g.send(None)))
        if op == 'send(7)':
            return ('y', repr(g.send(7)))
        if op == 'throw(VE)':
            return ('y', repr(g.throw(ValueError)))
        if op == 'throw(VE())':
            return ('y', repr(g.throw(ValueError('v'))))
        if op == 'throw(GE)':
            return ('y', repr(g.throw(GeneratorExit)))
        if op == 'throw(SI(3))':
            return ('y', repr(g.throw(StopIteration(3))))
        if op == 'close':
            return ('val', repr(g.close()))
        if op == 'iter':
            return ('val', repr(iter(g) is g))
        if op == 'await2':
            return ('y', repr(next(g.__await__())))
        if op == 'drop':
            self.obj = g = None
            del self.box[:]
            self.slots = [None, None]
            gc.collect()
            return ('val', 'dropped')
        # async generator ops: 'mk:<kind>:<slot>' / 'drv:<op>:<slot>'
        what, arg, slot = op.split(':')
        slot = int(slot)
        if what == 'mk':
            if arg == 'anext':
                aw = g.__anext__()
            elif arg == 'asend(7)':
                aw = g.asend(7)
            elif arg == 'athrow(VE)':
                aw = g.athrow(ValueError)
            else:
                aw = g.aclose()
            self.slots[slot] = aw
            return ('val', 'awaitable')
        aw = self.slots[slot]
        if arg == 'send(None)':
            return ('y', repr(aw.send(None)))
        if arg == 'throw(VE())':
            return ('y', repr(aw.throw(ValueError('v'))))
        return ('val', repr(aw.close()))


def _ref_state(obj, depth=0):
    """Canonical state of the CPython object (dedup key part)."""
    if obj is None:
        return None
    if isinstance(obj, types.GeneratorType):
        fr = obj.gi_frame
        if fr is None:
            return ('gen', 'closed')
        loc = tuple(sorted((k, repr(v)) for k, v in fr.f_locals.items() if k not in ('L', 'H', 'box')))
        return ('gen', inspect.getgeneratorstate(obj), fr.f_lasti, loc,
                _ref_state(obj.gi_yieldfrom, depth + 1) if depth < 4 else '...')
    d = getattr(obj, '__dict__', None)
    if d is not None:
        return (type(obj).__name__, tuple(sorted((k, repr(v)) for k, v in d.items() if k != 'L')))
    return type(obj).__name__


def _impl_state(obj):
    if obj is None:
        return None
    yf = getattr(obj, 'gi_yieldfrom', None)
    return (bool(getattr(obj, 'gi_running', False)), type(yf).__name__)


def enabled(kind, hist):
    if kind == 'gen':
        return SYNC_OPS
    if kind == 'coro':
        return CORO_OPS
    # async generator: slot 1 may only be filled once slot 0 is; drive only filled slots
    filled = [False, False]
    for op in hist:
        if op.startswith('mk:'):
            filled[int(op[-1])] = True
    ops = []
    for s in (0, 1):
        if s == 1 and not filled[0]:
            continue
        for k in AG_MK:
            ops.append('mk:%s:%d' % (k, s))
    for s in (0, 1):
        if filled[s]:
            for d in AG_DRV:
                ops.append('drv:%s:%d' % (d, s))
    ops.append('drop')
    return ops


def run_history(body, kind, hist, want_state=False):
    """Execute hist on fresh objects in lock-step.  Returns (divergence or None, steps executed, outcomes, state)."""
    mi = Machine(_MOD['impl'], body, kind)
    mr = Machine(_MOD['ref'], body, kind)
    outs = []
    for i, op in enumerate(hist):
        a = mi.step(op)
        b = mr.step(op)
        outs.append(b)
        if a != b:
            mi.step('drop'); mr.step('drop')
            return (i, b, a), i + 1, outs, None
    state = None
    if want_state:
        state = (_ref_state(mr.obj), _impl_state(mi.obj))
    # silent cleanup (not part of the history)
    mi.step('drop'); mr.step('drop')
    return None, len(hist), outs, state


def div_class(ref, got):
    (ro, rl, ru), (go, gl, gu) = ref, got
    if ro != go:
        if ro[0] == 'exc' and go[0] == 'exc':
            if ro[1] != go[1]:
                return 'exc:%s->%s' % (ro[1], go[1])
            if ro[2] != go[2]:
                return 'exc-args:%s' % ro[1]
            return 'exc-cause:%s:%s->%s' % (ro[1], ro[3], go[3])
        if ro[0] != go[0]:
            r = ro[0] if ro[0] != 'exc' else 'exc:' + ro[1]
            g = go[0] if go[0] != 'exc' else 'exc:' + go[1]
            return '%s->%s' % (r, g)
        return 'wrong-%s-value' % {'y': 'yield', 'stop': 'stop', 'val': 'result', 'astop': 'astop'}[ro[0]]
    if rl != gl:
        return 'log'
    return 'unraisable'


def opclasses(hist):
    out = []
    for op in hist:
        if ':' in op:
            w, a, s = op.split(':')
            out.append('%s:%s:%s' % (w, OPCLASS.get(a, a), s))
        else:
            out.append(OPCLASS.get(op, op))
    return '/'.join(out)


# ---------------------------------------------------------------------------- exploration (runs in workers)
def _setup(so_path, src):
    warnings.simplefilter('ignore')
    sys.unraisablehook = _hook
    mod = farm.load(so_path, 'c23bodies')
    ns = {'__name__': 'c23ref'}
    exec(compile(src, '<c23bodies>', 'exec'), ns)
    _MOD['impl'] = mod.__dict__
    _MOD['ref'] = ns
    # async generator hooks: log first iteration / finalisation into the object's own log
    def firstiter(ag):
        _UNRAISABLE.append(('hook:firstiter',))
    def finalizer(ag):
        _UNRAISABLE.append(('hook:finalizer',))
    sys.set_asyncgen_hooks(firstiter=firstiter, finalizer=finalizer)
    gc.collect()
    gc.freeze()
    return True


def explore(state, case):
    """DFS below a prefix.  case = (body, kind, prefix, depth, dedup).  The prefix itself is executed too."""
    body, kind, prefix, depth, dedup = case
    stack = [tuple(prefix)]
    histories = 0
    steps = 0
    viol = {}
    nviol = 0
    outcomes = set()
    states = set()
    hits = 0
    maxd = 0
    while stack:
        h = stack.pop()
        div, n, outs, st = run_history(body, kind, h, want_state=dedup)
        histories += 1
        steps += n
        outcomes.add(outs[-1])
        if div is not None:
            nviol += 1
            i, ref, got = div
            k = (opclasses(h), div_class(ref, got))
            if k not in viol:
                viol[k] = (list(h), ref, got)
            continue
        maxd = max(maxd, len(h))
        if h[-1] == 'drop' or len(h) >= depth:
            continue
        if dedup:
            if st in states:
                hits += 1
                continue
            states.add(st)
        ops = enabled(kind, h)
        for op in reversed(ops):
            stack.append(h + (op,))
    return {'histories': histories, 'steps': steps, 'nviol': nviol, 'viol': viol,
            'outcomes': {hash(o) for o in outcomes}, 'states': {hash(s) for s in states}, 'hits': hits, 'maxd': maxd}


def minimise(body, kind, hist, dclass):
    """Delta-minimise: drop operations while the LAST step still diverges first, with the same divergence class."""
    hist = list(hist)

    def bad(h):
        if not h:
            return False
        try:
            div, n, outs, st = run_history(body, kind, tuple(h))
        except Exception:
            return False
        return div is not None and div[0] == len(h) - 1 and div_class(div[1], div[2]) == dclass
    changed = True
    while changed:
        changed = False
        for i in range(len(hist) - 1):
            cand = hist[:i] + hist[i + 1:]
            if kind == 'agen' and not _ag_valid(cand):
                continue
            if bad(cand):
                hist = cand
                changed = True
                break
    # argument simplification inside an op class is not needed: every class has one representative
    return hist


def _ag_valid(h):
    for i, op in enumerate(h):
        if op not in enabled('agen', h[:i]):
            return False
    return True


def _minimise_job(state, case):
    body, kind, hist, dclass = case
    return minimise(body, kind, hist, dclass)


def _unstarted(body, kind, hist):
    """True if the CPython object has not started executing its body before the last step."""
    m = Machine(_MOD['ref'], body, kind)
    for op in hist[:-1]:
        m.step(op)
    o = m.obj
    try:
        if kind == 'gen':
            r = o is not None and inspect.getgeneratorstate(o) == 'GEN_CREATED'
        elif kind == 'coro':
            r = o is not None and inspect.getcoroutinestate(o) == 'CORO_CREATED'
        else:
            r = o is not None and o.ag_frame is not None and o.ag_frame.f_lasti < 0 and not o.ag_running
    except Exception:
        r = False
    m.step('drop')
    return r


def _classify_job(state, case):
    body, kind, hist = case
    return _unstarted(body, kind, hist)


# ---------------------------------------------------------------------------- driver
def build_bodies(ctx, cflags=()):
    r = farm.build('c23bodies', H.BODY_SRC, ctx.workdir('c23'), ext='.py', cflags=cflags)
    if not r.ok:
        raise RuntimeError('C23 bodies do not build: %s %s' % (r.stage, r.errors[-3000:]))
    return r


def bounds(tier):
    if tier == 'quick':
        return {'gen': 5, 'coro': 4, 'agen': 4}
    return {'gen': 6, 'coro': 6, 'agen': 5}


def cases_for(kind, bodies, depth, dedup, split):
    """Partition the search of each body on all prefixes of length `split` (shorter prefixes are cases of their own,
    with depth == their own length so that they are only executed, not extended)."""
    out = []
    for body in bodies:
        level = [()]
        for d in range(1, split + 1):
            nxt = []
            for p in level:
                if p and p[-1] == 'drop':
                    continue
                for op in enabled(kind, p):
                    nxt.append(p + (op,))
            level = nxt
            for p in level:
                out.append((body, kind, p, depth if d == split else d, dedup))
    return out


def run(ctx):
    b = build_bodies(ctx)
    c_text = b.c_text()
    reach = {n: (n in c_text) for n in ('__Pyx_Coroutine_Send', '__Pyx_Coroutine_Throw', '__Pyx_Coroutine_Close',
                                        '__Pyx_Coroutine_del', '__Pyx_async_gen_asend_send', '__Pyx_async_gen_athrow_send',
                                        '__Pyx_Generator_Yield_From', '__Pyx_Coroutine_Yield_From')}
    bd = bounds(ctx.tier)
    kinds = [('gen', H.SYNC), ('coro', H.CORO), ('agen', H.AGEN)]
    cases = []
    for kind, bodies in kinds:
        cases += cases_for(kind, bodies, bd[kind], False, 2)
    deep = []
    if ctx.tier == 'thorough':
        deep = cases_for('gen', H.SYNC, 8, True, 2)
        audit = cases_for('gen', H.SYNC, 5, True, 2)
    order = list(range(len(cases)))
    if ctx.seed:
        import random
        random.Random(ctx.seed).shuffle(order)
    ctx.log('%d bodies, %d search partitions, bounds %s' % (sum(len(x[1]) for x in kinds), len(cases), bd))
    res = runner.run_cases(explore, [cases[i] for i in order], setup=_setup, setup_args=(b.so, H.BODY_SRC),
                           chunk=max(1, len(cases) // (farm.NPROC * 6)), timeout=900)
    tot = {'histories': 0, 'steps': 0, 'nviol': 0, 'hits': 0, 'maxd': 0}
    outcomes = set()
    raw = {}       # (body, kind, opclasses, dclass) -> (hist, ref, got)
    per_kind = {}
    crashes = []
    for idx, r in zip(order, res):
        body, kind, prefix, depth, dedup = cases[idx]
        if r[0] != 'ok':
            crashes.append((cases[idx], r))
            continue
        v = r[1]
        for k in ('histories', 'steps', 'nviol', 'hits'):
            tot[k] += v[k]
        pk = per_kind.setdefault(kind, {'histories': 0, 'steps': 0})
        pk['histories'] += v['histories']; pk['steps'] += v['steps']
        tot['maxd'] = max(tot['maxd'], v['maxd'])
        outcomes |= v['outcomes']
        for (oc, dc), (h, ref, got) in v['viol'].items():
            raw.setdefault((body, kind, oc, dc), (h, ref, got))
    for case, r in crashes:
        body, kind, prefix, depth, dedup = case
        sig = r[1] if r[0] == 'crash' else r[0]
        ctx.violation('%s|%s|%s|crash' % (kind, H.BODY_CLASS[body], opclasses(prefix)),
                      '%s: %s below prefix %s (%s)' % (body, r[0], list(prefix), str(r[1:])[:300]),
                      {'body': body, 'kind': kind, 'history': list(prefix), 'crash': str(sig), 'explore_depth': depth})
    n_raw = report(ctx, b, raw)

    cov = {
        'states': tot['histories'], 'transitions': tot['steps'] * 2,
        'traces_validated_against_impl': tot['histories'],
        'states_rule': 'distinct histories (each executed from fresh objects; no dedup in this bound)',
        'max_depth': tot['maxd'], 'bounds': bd, 'per_kind': per_kind,
        'bodies': {k: len(v) for k, v in kinds}, 'distinct_step_outcomes': len(outcomes),
        'divergent_histories_raw': tot['nviol'], 'divergent_classes_before_minimisation': n_raw,
        'crashed_partitions': len(crashes), 'reach': reach,
        'alphabet': {'gen': SYNC_OPS, 'coro': CORO_OPS, 'agen': ['mk:%s:slot' % k for k in AG_MK] + ['drv:%s:slot' % d for d in AG_DRV] + ['drop']},
        'samples': [{'body': 's_finally_yield', 'history': ['next', 'throw(VE())', 'close', 'next', 'drop']},
                    {'body': 'c_with', 'history': ['send(None)', 'throw(VE)', 'await2', 'close']},
                    {'body': 'a_finally_await', 'history': ['mk:anext:0', 'drv:send(None):0', 'mk:aclose:1', 'drv:send(None):1']}],
        'exhaustive': True,
    }
    assumptions = ['protocol behaviour for histories longer than the bound and for bodies outside the fixed set is not covered',
                   'exception message texts of interpreter-generated errors and __context__ chains are not compared']
    if ctx.tier == 'thorough':
        # deeper bound with state dedup + audit of the abstraction on the bound 5 (same violation keys, same outcomes)
        r2 = runner.run_cases(explore, deep, setup=_setup, setup_args=(b.so, H.BODY_SRC),
                              chunk=max(1, len(deep) // (farm.NPROC * 6)), timeout=1500)
        dstates = set(); dh = ds = dhits = 0
        raw2 = {}
        for c, r in zip(deep, r2):
            if r[0] != 'ok':
                ctx.violation('gen|%s|%s|crash' % (H.BODY_CLASS[c[0]], opclasses(c[2])), 'crash in deep search %r' % (r[1:],),
                              {'body': c[0], 'kind': 'gen', 'history': list(c[2]), 'crash': str(r[1])})
                continue
            v = r[1]
            dstates |= v['states']; dh += v['histories']; ds += v['steps']; dhits += v['hits']
            for (oc, dc), (h, ref, got) in v['viol'].items():
                raw2.setdefault((c[0], 'gen', oc, dc), (h, ref, got))
        report(ctx, b, raw2)
        r3 = runner.run_cases(explore, audit, setup=_setup, setup_args=(b.so, H.BODY_SRC),
                              chunk=max(1, len(audit) // (farm.NPROC * 6)), timeout=900)
        a_keys = set(); a_out = set()
        for c, r in zip(audit, r3):
            if r[0] == 'ok':
                a_keys |= {(c[0],) + k for k in r[1]['viol']}
                a_out |= r[1]['outcomes']
        n_keys = {k for k in raw if k[1] == 'gen' and len(k[2].split('/')) <= 5}
        n_keys = {(k[0], k[2], k[3]) for k in n_keys}
        # the dedup run prunes histories, so it may find a subset of raw classes, but: no violation in one and not the other
        agree = (bool(a_keys) == bool(n_keys))
        cov['dedup'] = {'depth': 8, 'histories': dh, 'steps': ds, 'states': len(dstates), 'dedup_hits': dhits,
                        'audit_depth': 5, 'audit_agree': agree}
        if not agree:
            ctx.violation('dedup-audit', 'dedup and no-dedup exploration disagree at depth 5', {'audit': True})
        cov['states'] += len(dstates)
        cov['transitions'] += ds * 2
        cov['traces_validated_against_impl'] += dh
        cov['dedup_hits'] = dhits
    return cov, assumptions


def report(ctx, b, raw):
    """Minimise one representative per raw class and report by root key."""
    items = sorted(raw.items())
    if not items:
        return 0
    jobs = [(body, kind, h, dc) for (body, kind, oc, dc), (h, ref, got) in items]
    mins = runner.run_cases(_minimise_job, jobs, setup=_setup, setup_args=(b.so, H.BODY_SRC), timeout=600)
    hists = []
    for j, m in zip(jobs, mins):
        hists.append(m[1] if m[0] == 'ok' else j[2])
    uns = runner.run_cases(_classify_job, [(j[0], j[1], h) for j, h in zip(jobs, hists)], setup=_setup,
                           setup_args=(b.so, H.BODY_SRC), timeout=600)
    seen = {}
    for ((body, kind, oc, dc), (h, ref, got)), mh, u in sorted(zip(items, hists, uns), key=lambda t: (len(t[1]), t[0][0])):
        unstarted = (u[0] == 'ok' and u[1])
        bclass = 'unstarted' if unstarted else H.BODY_CLASS[body]
        key = '%s|%s|%s|%s' % (kind, bclass, opclasses(mh), dc)
        ctx.violation(key, '%s %s history %s: CPython %r, compiled %r' % (kind, body, mh, ref, got),
                      {'body': body, 'kind': kind, 'history': mh, 'expected': repr(ref), 'got': repr(got), 'found_as': h})
        seen[key] = seen.get(key, 0) + 1
    return len(items)


def replay(ctx, case):
    if case.get('audit'):
        return 'dedup audit disagreement (re-run the thorough tier)'
    b = build_bodies(ctx)
    r = runner.forked(_replay_child, b.so, case['body'], case['kind'], tuple(case['history']), case.get('explore_depth'))
    if r.kind != 'ok':
        return '%s %r while replaying %s %s' % (r.kind, r.value, case['body'], case['history'])
    return r.value


def _replay_child(so, body, kind, hist, explore_depth=None):
    _setup(so, H.BODY_SRC)
    if explore_depth:
        v = explore(None, (body, kind, hist, explore_depth, False))
        if v['nviol']:
            return 'divergences below prefix: %s' % sorted(v['viol'])[:3]
        return False
    div, n, outs, st = run_history(body, kind, hist)
    if div is None:
        return False
    i, ref, got = div
    return 'step %d %s of %s: CPython %r, compiled %r (%s)' % (i + 1, hist[i], body, ref, got, div_class(ref, got))
