"""C38 - pure-Python mode: interpreted (Cython.Shadow) = compiled.

(a) Shadow semantics vs real C: cython.cdiv(a, b), cython.cmod(a, b) and cython.cast(T, v) are compiled in pure-mode
    sweep functions (@cython.locals typed operands, the loop runs in compiled code) and run on ALL 65280 pairs of
    signed/unsigned 8-bit values (b != 0) and all pairs of the 16/32/64-bit boundary grids; the very same .py text
    is imported uncompiled with the staged Cython.Shadow as `cython` and must give the same list.  A third opinion
    (Python model of C truncation) names the side that is wrong.
(b) Pure-mode programs: the complete product (declaration style x C type x expression) - 13 styles (cython.locals,
    argument annotations, cython.declare with value, local annotations, cfunc+returns+locals, ccall with return
    annotation, cfunc+exceptval, cclass attribute+method, and five styles that STACK @cython.locals decorators: x above y,
    y above x, three stacked, split around @cython.returns under @cython.cfunc, split around @cython.ccall/@cython.returns) x {int, long, short, double} x ~30 expressions (arithmetic,
    cdiv/cmod, casts, comparisons, builtins, cython.compiled branches) - is compiled and also executed uncompiled;
    every function is run on all pairs of an in-range input grid; results (type, repr) and exception types must agree.
"""
import os, re, types
from vlib import e2
from props import _g3_cint as g

LEVEL = 'exploration'
ENGINE = 'E2 diffexplore'
TECHNIQUE = 'exhaustive small-scope sweep: same pure-mode .py source compiled vs imported uncompiled with the staged Cython.Shadow; all 8-bit operand pairs + boundary grids for cdiv/cmod/cast, complete (style x type x expression) program product'
LEVEL_TEXT = ('cython.cdiv/cmod: all signed and unsigned 8-bit operand pairs (b != 0) and all pairs of the 16/32/64-bit boundary '
              'grids, cython.cast(T, v) for every integer/float/bint typedef x in-range values, each run compiled (real C) and '
              'uncompiled (staged Shadow) from the same source, plus a C-truncation model as third opinion.  Pure-mode programs: '
              'complete product of 13 declaration styles (incl. 5 with stacked @cython.locals decorators) x 4 C types x ~30 expressions, every function on all pairs of an in-range '
              'grid, compiled vs the same file imported uncompiled.')
LEVEL_NOTE = ('Inputs are restricted to the property\'s precondition: values and intermediates inside the declared C ranges, no zero '
              'divisor and no MIN/-1 for cdiv/cmod (C undefined behaviour), no bool where an int type is declared, floats exactly '
              'representable in the declared float type, no -0.0/inf/nan (C06), no float object cast to Py_ssize_t/Py_hash_t (__index__ '
              'protocol rejects floats by design), every operand of cdiv/cmod is declared (on untyped Python objects compiled '
              'cdiv/cmod are the Python operators / and %, not C division: cdivision only affects C operands).  Struct/union/pointer helpers and fused types are '
              'not covered (not in the property\'s helper list).  Trusted: CPython, the 10-line truncation model.')

JUDGE = 'props.C38_pure_mode:judge'
KEEP = 'props.C38_pure_mode:keep'
SHADOW_INT = {'schar': 'cython.schar', 'uchar': 'cython.uchar', 'char': 'cython.char', 'short': 'cython.short',
              'ushort': 'cython.ushort', 'int': 'cython.int', 'uint': 'cython.uint', 'long': 'cython.long',
              'ulong': 'cython.ulong', 'longlong': 'cython.longlong', 'ulonglong': 'cython.ulonglong',
              'ssize_t': 'cython.Py_ssize_t', 'size_t': 'cython.size_t'}


# ------------------------------------------------------------------------------ (a) sweeps
def py_sweep(name, decls, result):
    lines = ['@cython.locals(%s)' % ', '.join('%s=%s' % d for d in decls)] if decls else []
    lines += ['def %s(tuples):' % name, '    out = []', '    for t in tuples:', '        try:']
    for i, (v, d) in enumerate(decls):
        lines.append('            %s = t[%d]' % (v, i))
    lines += ['            out.append(%s)' % result, '        except Exception as e:',
              '            out.append(type(e).__name__)', '    return out']
    return '\n'.join(lines) + '\n'


def keep(tag, t):
    if tag['kind'] in ('cdiv', 'cmod'):
        T = g.promote(g.TYPES[tag['ta']], g.TYPES[tag['tb']])
        a, b = t
        if b == 0 or not (T.fits(a) and T.fits(b)):
            return False
        if T.signed and a == T.lo and b == -1:
            return False
    return True


_refs = {}


def _ref(path):
    m = _refs.get(path)
    if m is None:
        with open(path) as f:
            src = f.read()
        m = types.ModuleType('c38_ref')
        exec(compile(src, path, 'exec'), m.__dict__)
        import cython
        if getattr(cython, 'compiled', None) is not False:
            raise RuntimeError('the uncompiled reference did not get the pure-Python shadow module')
        _refs[path] = m
    return m


def _canon(x):
    return (type(x).__name__, repr(x))


def judge(tag, tuples, got):
    v = g.Verdict()
    ref = getattr(_ref(tag['ref_path']), tag['fn'])(list(tuples))
    ident = tag['id']
    kind = tag['kind']
    for t, c, s in zip(tuples, got, ref):
        v.evals += 1
        v.outcomes.add(hash((ident, _canon(s))))
        if _canon(c) != _canon(s):
            who = ''
            if kind in ('cdiv', 'cmod'):
                m = g.cdiv(*t) if kind == 'cdiv' else g.cmod(*t)
                who = 'shadow-wrong' if c == m else 'compiled-wrong' if s == m else 'both-wrong'
            v.bad(t, 'shadow: %r' % (s,), 'compiled: %r' % (c,), who or 'differs')
    return v.pack()


def keyfn(tag, inp, exp, got, div):
    if tag['kind'] in ('cdiv', 'cmod'):
        T = g.promote(g.TYPES[tag['ta']], g.TYPES[tag['tb']])
        cls = 'a:%s,b:%s' % (('neg' if inp[0] < 0 else 'nonneg'), ('neg' if inp[1] < 0 else 'pos'))
        exact = 'exact' if inp[0] % inp[1] == 0 else 'inexact'
        return '%s|%s|%s|%s' % (tag['kind'], cls, exact, div)
    cls = ','.join(type(x).__name__ + (':neg' if x < 0 else ':nonneg') for x in inp)
    return '%s|%s|%s' % (tag['id'], cls, div)


def crashfn(tag, inp):
    return '%s|crash' % tag['id']


CAST_TARGETS = [('char', 'schar'), ('schar', 'schar'), ('uchar', 'uchar'), ('short', 'short'), ('ushort', 'ushort'),
                ('int', 'int'), ('uint', 'uint'), ('long', 'long'), ('ulong', 'ulong'), ('longlong', 'longlong'),
                ('ulonglong', 'ulonglong'), ('Py_ssize_t', 'ssize_t'), ('size_t', 'size_t'), ('Py_hash_t', 'long')]
FLOATS = [0.0, 0.5, -0.5, 1.0, -1.0, 2.5, -2.5, 3.75, -3.75, 100.0, -100.0, 127.0, 0.999999, -0.999999, 1e9, -1e9, 1e15,
          123456789.125]
F32 = [0.0, 0.5, -0.5, 1.0, 2.5, -3.75, 100.0, 16777216.0, 1e9 - 1e9 % 64, 0.999999 - 0.999999 % 2**-20]


SWEEP_PRELUDE = 'import cython\nTD1 = cython.typedef(cython.longlong)\nTD2 = cython.typedef(TD1)\n'


def sweep_functions(tier):
    fns = []

    def add(kind, tag, decls, result, gen):
        name = 's%d' % len(fns)
        tag = dict(tag, kind=kind, fn=name)
        tag['id'] = '%s/%s' % (kind, tag.pop('what'))
        gen = dict(gen, keep=KEEP, arg=tag)
        fns.append(g.Fn(name, py_sweep(name, decls, result), tag, gen))

    pairs = [(k, k) for k in ['schar', 'uchar', 'short', 'ushort', 'int', 'uint', 'long', 'ulong', 'longlong', 'ulonglong']]
    pairs += [('schar', 'int'), ('int', 'long'), ('short', 'schar'), ('ssize_t', 'ssize_t'), ('char', 'char')]
    for ka, kb in pairs:
        for kind in ('cdiv', 'cmod'):
            add(kind, {'what': '%s.%s' % (ka, kb), 'ta': ka, 'tb': kb},
                [('a', SHADOW_INT[ka]), ('b', SHADOW_INT[kb])], 'cython.%s(a, b)' % kind,
                {'types': [ka, kb], 'dense': tier == 'thorough'})
    # cython.cast(T, v): v an int object in range, a typed C long long / double in range, a float object
    for sname, k in CAST_TARGETS:
        T = g.TYPES[k]
        ints = list(g.alphabet(k))
        add('cast', {'what': '%s<-int object' % sname}, [], 'cython.cast(cython.%s, t[0])' % sname, {'values': [ints]})
        wide = 'cython.ulonglong' if not T.signed else 'cython.longlong'
        add('cast', {'what': '%s<-C %s' % (sname, wide)}, [('w', wide)], 'cython.cast(cython.%s, w)' % sname,
            {'values': [ints]})
        fl = [f for f in FLOATS if T.lo <= int(f) <= T.hi and (T.signed or f >= 0)]
        add('cast', {'what': '%s<-C double' % sname}, [('d', 'cython.double')], 'cython.cast(cython.%s, d)' % sname,
            {'values': [fl]})
        if sname not in ('Py_ssize_t', 'Py_hash_t'):
            # Py_ssize_t / Py_hash_t convert objects through __index__ and reject float objects by design
            add('cast', {'what': '%s<-float object' % sname}, [], 'cython.cast(cython.%s, t[0])' % sname, {'values': [fl]})
    small = list(g.alphabet('int'))
    add('cast', {'what': 'double<-int object'}, [], 'cython.cast(cython.double, t[0])', {'values': [small]})
    add('cast', {'what': 'double<-C int'}, [('i', 'cython.int')], 'cython.cast(cython.double, i)', {'values': [small]})
    add('cast', {'what': 'double<-C double'}, [('d', 'cython.double')], 'cython.cast(cython.double, d)', {'values': [FLOATS]})
    add('cast', {'what': 'float<-C double'}, [('d', 'cython.double')], 'cython.cast(cython.float, d)', {'values': [F32]})
    add('cast', {'what': 'float<-int object'}, [], 'cython.cast(cython.float, t[0])', {'values': [[0, 1, -1, 100, 16777216, -65536]]})
    add('cast', {'what': 'bint<-int object'}, [], 'cython.cast(cython.bint, t[0])', {'values': [[0, 1, -1, 2, 5, 256, 2**31, 2**64]]})
    add('cast', {'what': 'bint<-C int'}, [('i', 'cython.int')], 'cython.cast(cython.bint, i)', {'values': [[0, 1, -1, 2, 5, 256, 65536]]})
    add('cast', {'what': 'bint<-C double'}, [('d', 'cython.double')], 'cython.cast(cython.bint, d)', {'values': [[0.0, 0.5, -2.0]]})
    add('cast', {'what': 'object<-int object'}, [], 'cython.cast(object, t[0])', {'values': [[0, -1, 2**70]]})
    add('cast', {'what': 'longlong<-typedef chain'}, [('i', 'cython.int')],
        'cython.cast(TD2, i)', {'values': [small]})
    return fns


# ------------------------------------------------------------------------------ (b) programs
EXPRS_INT = [('add', 'x + y', 1), ('sub', 'x - y', 1), ('mul', 'x * y', 1), ('fdiv', 'x // y', 1), ('mod', 'x % y', 1),
             ('tdiv', 'x / y', 0), ('cdiv', 'cython.cdiv(x, y)', 1), ('cmod', 'cython.cmod(x, y)', 1), ('neg', '-x', 1),
             ('shl', 'x << 2', 1), ('shr', 'x >> 1', 1), ('and', 'x & y', 1), ('or', 'x | y', 1), ('xor', 'x ^ y', 1),
             ('inv', '~x', 1), ('abs', 'abs(x)', 1), ('eq', 'x == y', 0), ('lt', 'x < y', 0),
             ('castd', 'cython.cast(cython.double, x) / 4', 0), ('casti', 'cython.cast(cython.int, x / 8.0)', 1),
             ('pow2', 'x ** 2', 1), ('divmod', 'divmod(x, y)', 0), ('minmax', 'min(x, y) - max(x, y)', 1),
             ('int', 'int(x) + 1', 1), ('float', 'float(x)', 0), ('bool', 'bool(x)', 0), ('cond', 'x if x > y else y', 1),
             ('chain', '0 <= x < y', 0), ('mix', '(x + y) * 2 - cython.cdiv(x, 3) + cython.cmod(y, 5)', 1),
             ('compiled', '(x + 1) if cython.compiled else (1 + x)', 1)]
EXPRS_DBL = [('add', 'x + y', 1), ('sub', 'x - y', 1), ('mul', 'x * y', 1), ('tdiv', 'x / y', 1), ('fdiv', 'x // y', 1),
             ('mod', 'x % y', 1), ('neg', '-x', 1), ('abs', 'abs(x)', 1), ('eq', 'x == y', 0), ('lt', 'x < y', 0),
             ('int', 'int(x)', 0), ('casti', 'cython.cast(cython.longlong, x)', 0), ('cond', 'x if x > y else y', 1),
             ('pow2', 'x ** 2', 1), ('castd', 'cython.cast(cython.double, x) + 1', 1)]
STYLES = ['locals', 'annot', 'declare', 'localannot', 'cfunc', 'ccall', 'exceptval', 'cclass',
          # stacked decorators of the same dict-valued directive (their keyword dicts must be merged)
          'stack_xy', 'stack_yx', 'stack3', 'stack_cfunc', 'stack_ccall']
VALUE_STYLES = ('cfunc', 'ccall', 'exceptval', 'stack_cfunc', 'stack_ccall')       # declare a C return type: only for expressions of that type


def program(name, style, T, RT, expr):
    t, rt = 'cython.' + T, 'cython.' + RT
    if style == 'locals':
        return '@cython.locals(x=%s, y=%s)\ndef %s(x, y):\n    return %s\n' % (t, t, name, expr)
    if style == 'annot':
        return 'def %s(x: %s, y: %s):\n    return %s\n' % (name, t, t, expr)
    if style == 'declare':
        return ('def %s(x0, y0):\n    x = cython.declare(%s, x0)\n    y = cython.declare(%s, y0)\n    return %s\n'
                % (name, t, t, expr))
    if style == 'localannot':
        return 'def %s(x0, y0):\n    x: %s = x0\n    y: %s\n    y = y0\n    return %s\n' % (name, t, t, expr)
    if style == 'cfunc':
        return ('@cython.cfunc\n@cython.returns(%s)\n@cython.locals(x=%s, y=%s)\ndef %s_h(x, y):\n    return %s\n\n'
                'def %s(x, y):\n    return %s_h(x, y)\n' % (rt, t, t, name, expr, name, name))
    if style == 'ccall':
        return '@cython.ccall\ndef %s(x: %s, y: %s) -> %s:\n    return %s\n' % (name, t, t, rt, expr)
    if style == 'exceptval':
        return ('@cython.cfunc\n@cython.exceptval(-1, check=True)\ndef %s_h(x: %s, y: %s) -> %s:\n    return %s\n\n'
                'def %s(x, y):\n    return %s_h(x, y)\n' % (name, t, t, rt, expr, name, name))
    if style == 'cclass':
        return ('@cython.cclass\nclass %s_K:\n    k = cython.declare(%s, visibility="public")\n\n'
                '    def __init__(self, k: %s):\n        self.k = k\n\n'
                '    @cython.locals(x=%s, y=%s)\n    def m(self, x):\n        y = self.k\n        return %s\n\n'
                'def %s(x, y):\n    return %s_K(y).m(x)\n' % (name, t, t, t, t, expr, name, name))
    if style == 'stack_xy':
        return '@cython.locals(x=%s)\n@cython.locals(y=%s)\ndef %s(x, y):\n    return %s\n' % (t, t, name, expr)
    if style == 'stack_yx':
        return '@cython.locals(y=%s)\n@cython.locals(x=%s)\ndef %s(x, y):\n    return %s\n' % (t, t, name, expr)
    if style == 'stack3':
        # three stacked decorators; the expression reads y through the local t typed by the middle one
        e3 = re.sub(r'\by\b', 't', expr)
        return ('@cython.locals(x=%s)\n@cython.locals(t=%s)\n@cython.locals(y=%s)\ndef %s(x, y):\n    t = y\n    return %s\n'
                % (t, t, t, name, e3))
    if style == 'stack_cfunc':
        return ('@cython.cfunc\n@cython.locals(x=%s)\n@cython.returns(%s)\n@cython.locals(y=%s)\ndef %s_h(x, y):\n    return %s\n\n'
                'def %s(x, y):\n    return %s_h(x, y)\n' % (t, rt, t, name, expr, name, name))
    if style == 'stack_ccall':
        return ('@cython.locals(y=%s)\n@cython.ccall\n@cython.returns(%s)\n@cython.locals(x=%s)\ndef %s(x, y):\n    return %s\n'
                % (t, rt, t, name, expr))
    raise ValueError(style)


INT_IN = {'int': [-46340, -100, -7, -3, -2, -1, 0, 1, 2, 3, 7, 100, 46340],
          'long': [-3037000499, -2**31 - 1, -100, -7, -2, -1, 0, 1, 2, 3, 100, 2**31, 3037000499],
          'short': [-181, -100, -7, -3, -2, -1, 0, 1, 2, 3, 7, 100, 181]}
DBL_IN = [-100.0, -2.5, -1.0, -0.5, 0.0, 0.5, 1.0, 2.5, 3.75, 100.0, 1e15]


def program_parts(tier):
    parts, sets = [], {}
    n = 0
    for T in ['int', 'long', 'short', 'double']:
        exprs = EXPRS_DBL if T == 'double' else EXPRS_INT
        RT = 'double' if T == 'double' else 'long'
        vals = DBL_IN if T == 'double' else INT_IN[T]
        sets['all_' + T] = [(repr(a), repr(b)) for a in vals for b in vals]
        sets['nz_' + T] = [(repr(a), repr(b)) for a in vals for b in vals if b != 0]
        for style in STYLES:
            for ename, expr, valued in exprs:
                if style in VALUE_STYLES and not valued:
                    continue
                name = 'p%d' % n
                n += 1
                key = ('nz_' if 'cdiv' in expr or 'cmod' in expr else 'all_') + T
                parts.append(e2.Part(program(name, style, T, RT, expr),
                                     [e2.Func(name, '%s/%s/%s' % (style, T, ename), key)]))
    return parts, sets


def prog_key(tag, inp, exp, got):
    cls = ','.join(('zero' if float(e) == 0 else 'neg' if float(e) < 0 else 'pos') for e in inp)
    return 'prog|%s|%s|%s' % (tag, cls, e2.divclass(exp, got))


# ------------------------------------------------------------------------------ driver
def run(ctx):
    # (a)
    fns = sweep_functions(ctx.tier)
    mods = g.pack('c38s', fns, 40, prelude=SWEEP_PRELUDE, ext='.py')
    wd = ctx.workdir('c38')
    for m in mods:
        path = os.path.join(wd, m.name + '_ref.py')
        with open(path, 'w') as f:
            f.write(m.source)
        for fn in m.fns:
            fn.tag['ref_path'] = path
            fn.gen['arg'] = fn.tag
    built = g.build(ctx, mods, wd)
    ctx.log('built %d/%d sweep modules' % (len(built), len(mods)))
    st = g.run_sweeps(ctx, built, JUDGE, keyfn, crashfn, slice_size=8192)
    ctx.log('sweeps: %d evaluations, %d mismatches' % (st['evaluations'], st['mismatches']))
    # (b)
    parts, sets = program_parts(ctx.tier)
    per = 80
    pmods = [e2.Mod('c38p_%d' % (i // per), 'import cython\n', parts[i:i + per], sets, ext='.py')
             for i in range(0, len(parts), per)]
    st2 = e2.run_diff(ctx, pmods, keyfn=prog_key)
    cov = {
        'evaluations': st['evaluations'] + st2['evaluations'],
        'distinct_nontrivial': st['distinct_outcomes'] + st2['pairs'],
        'rule': 'a case is counted once per distinct (function, reference outcome) pair: operand tuples giving the same shadow '
                'result for the same sweep function / program collapse',
        'sweep_functions': st['functions'], 'sweep_evaluations': st['evaluations'], 'sweep_mismatches': st['mismatches'],
        'sweep_crashes': st['crashes'], 'programs': st2['programs'], 'program_evaluations': st2['evaluations'],
        'program_mismatches': st2['mismatches'], 'program_crashes': st2['crashes'], 'build_failures': st2['build_failures'],
        'modules_built': st['modules_built'] + st2['modules_built'], 'styles': STYLES,
        'samples': [{'function': fns[0].src, 'operands': [-128, 127]},
                    {'function': fns[-1].src, 'operands': [5]},
                    {'function': parts[len(parts) // 2].src, 'operands': sets['all_int'][17]}],
        'exhaustive': not st['storm_skipped'], 'crash_storms': st['storms'],
        'not_run_after_crash_storm': st['storm_skipped'],
    }
    return cov, ['inputs restricted to the declared C ranges (the precondition of the property)',
                 '16/32/64-bit cdiv/cmod operands are boundary grids']


def replay(ctx, case):
    if case.get('kind') == 'sweep':
        wd = ctx.workdir('replay')
        path = os.path.join(wd, 'c38_replay_ref.py')
        with open(path, 'w') as f:
            f.write(case['source'])
        case = dict(case, tag=dict(case['tag'], ref_path=path))
        return g.replay(ctx, case)
    return e2.replay(ctx, case)
