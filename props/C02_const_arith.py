"""C02 - object arithmetic with constant operands matches CPython.

Complete product: every (operator, form, constant) is one compiled function; every function is run
on the complete boundary alphabet of operands (all PyLong digit-count boundaries, C type bounds,
special floats, bool, subclasses, objects with only reflected/NotImplemented dunders) and compared
with CPython executing the identical source.
"""
from vlib import e2, support

LEVEL = 'exploration'
ENGINE = 'E2 diffexplore'
TECHNIQUE = 'exhaustive product (operator x form x constant) x complete boundary operand alphabet, compiled vs CPython on identical source'
LEVEL_TEXT = ('Every combination of operator (+ - * / // % & | ^ << >> == !=), operand form (x op c, c op x, x op= c, '
              'if x == c) and constant from a boundary set of the optimised range is compiled as its own function and run on '
              'every operand of a ~230-value alphabet covering every PyLong digit-count boundary, C type bounds, special '
              'floats, bools, int/float subclasses and reflected-only objects; result type, repr and exception type '
              'must equal CPython on the same source.')
LEVEL_NOTE = ('Constants are a boundary subset of |c| <= 2**30 (not all 2**31 values); operands are a boundary alphabet, not all '
              'integers.  Trusted: CPython 3.12 as reference, gcc.')

OPS = ['+', '-', '*', '/', '//', '%', '&', '|', '^', '==', '!=']
SHIFTS = ['<<', '>>']
CONSTS_Q = ['0', '1', '-1', '2', '-2', '3', '7', '8', '255', '-255', '32767', '32768', '1073741823', '-1073741823',
            '1073741824', '-1073741824', '1073741825', '0.0', '0.5', '-0.5', '1.0', '2.0', '1e300']
CONSTS_T = CONSTS_Q + ['-3', '-7', '-8', '10', '100', '-100', '65535', '65536', '-32768', '536870912', '-2.0', '3.0',
                       '1e16', '4294967296']
SHIFT_COUNTS = ['1', '2', '7', '14', '15', '16', '29', '30', '31', '32', '62', '63']
SHIFT_COUNTS_T = SHIFT_COUNTS + ['0', '3', '8', '33', '59', '60', '61', '64', '65']

REACH = ['__Pyx_PyLong_AddObjC', '__Pyx_PyLong_AddCObj', '__Pyx_PyLong_SubtractObjC', '__Pyx_PyLong_SubtractCObj',
         '__Pyx_PyLong_MultiplyObjC', '__Pyx_PyLong_TrueDivideObjC', '__Pyx_PyLong_FloorDivideObjC',
         '__Pyx_PyLong_RemainderObjC', '__Pyx_PyLong_AndObjC', '__Pyx_PyLong_OrObjC', '__Pyx_PyLong_XorObjC',
         '__Pyx_PyLong_LshiftObjC', '__Pyx_PyLong_RshiftObjC', '__Pyx_PyLong_EqObjC', '__Pyx_PyLong_NeObjC',
         '__Pyx_PyLong_BoolEqObjC', '__Pyx_PyFloat_AddObjC', '__Pyx_PyFloat_TrueDivideObjC', '__Pyx_PyFloat_EqObjC']


def programs(tier):
    consts = CONSTS_Q if tier == 'quick' else CONSTS_T
    shifts = SHIFT_COUNTS if tier == 'quick' else SHIFT_COUNTS_T
    parts = []
    n = 0

    def add(body, tag):
        nonlocal n
        name = 'f%d' % n
        n += 1
        # sequence repetition by a huge constant is a memory/time bomb in CPython itself: not an arithmetic case
        big = tag.startswith('*/') and abs(float(tag.split('/')[2])) > 1000
        key = 'noseq' if big else 'ops'
        if tag.startswith('<</cx/'):
            key = 'smallshift'    # c << x with x ~ 2**31 builds a 256 MiB integer in CPython itself
        parts.append(e2.Part('def %s(x):\n%s\n' % (name, body), [e2.Func(name, tag, key)]))

    for op in OPS + SHIFTS:
        cs = shifts if op in SHIFTS else consts
        for c in cs:
            is_float = '.' in c or 'e' in c
            if is_float and op in ('&', '|', '^', '<<', '>>'):
                continue
            add('    return x %s %s' % (op, c), '%s/xc/%s' % (op, c))
            add('    return %s %s x' % (c, op), '%s/cx/%s' % (op, c))
            if op not in ('==', '!='):
                add('    x %s= %s\n    return x' % (op, c), '%s/ip/%s' % (op, c))
            else:
                add('    if x %s %s:\n        return 1\n    return 0' % (op, c), '%s/if/%s' % (op, c))
                add('    if %s %s x:\n        return 1\n    return 0' % (c, op), '%s/ifc/%s' % (op, c))
                add('    return 5 if x %s %s else 6' % (op, c), '%s/cond/%s' % (op, c))
    return parts


PAIR_VALUES = ['0', '1', '-1', '2', '-3', '255', '1073741823', '-1073741824', '1073741824', '2**31', '-2**31', '2**62',
               '2**63', '-2**63', '2**64', '2**70', '-2**70', '2**1100', 'True', 'False', '0.0', '-0.0', '1.5', '-2.5',
               "float('inf')", "float('-inf')", "float('nan')", '1e308', '5e-324', 'IntSub(5)', 'FloatSub(1.5)',
               'IntSub(0)', 'FloatSub(-0.0)', "'a'", '[1]', 'None', 'Refl()']


def typed_pair_programs():
    """Binary operators whose operand *Python* types are known statically (PyNumberBinop helpers):
    every (operator, left typing, right typing) is one function, run on all pairs of PAIR_VALUES."""
    parts = []
    n = 0
    conv = {'o': '%s', 'i': 'int(%s)', 'f': 'float(%s)'}
    for op in ['+', '-', '*', '&', '|', '^']:
        for t1 in 'oif':
            for t2 in 'oif':
                if t1 == t2 == 'o':
                    continue
                if op in '&|^' and 'f' in (t1, t2):
                    continue
                for inplace in (False, True):
                    name = 'g%d' % n
                    n += 1
                    body = '    x = %s\n    y = %s\n' % (conv[t1] % 'a', conv[t2] % 'b')
                    body += ('    x %s= y\n    return x\n' % op) if inplace else ('    return x %s y\n' % op)
                    tag = 'bin%s/%s/%s_%s' % ('ip' if inplace else '', op, t1, t2)
                    parts.append(e2.Part('def %s(a, b):\n%s' % (name, body), [e2.Func(name, tag, 'pairs_' + t1 + t2)]))
    return parts


def run(ctx):
    parts = programs(ctx.tier)
    inputs = [(e,) for e in support.INTS + support.FLOATS + support.OBJS]
    noseq = [(e,) for e in support.INTS + support.FLOATS + support.OBJS
             if support.classify(e) not in ('str', 'bytes', 'tuple', 'list')]
    smallshift = [(e,) for e in support.INTS + support.FLOATS + support.OBJS
                  if not (support.classify(e).startswith(('int:+', 'IntSub:+')) and eval(e, support.namespace()) > 70000)]
    per = 150
    prelude = 'from vlib.support import IntSub, FloatSub\n'
    mods = []
    configs = [('d', ())]
    if ctx.tier == 'thorough':
        configs.append(('nopl', ('-DCYTHON_USE_PYLONG_INTERNALS=0',)))
    for cname, cflags in configs:
        for i in range(0, len(parts), per):
            mods.append(e2.Mod('c02%s_%d' % (cname, i // per), prelude, parts[i:i + per], {'ops': inputs, 'noseq': noseq, 'smallshift': smallshift},
                               ext='.py', cflags=cflags, use_log=True))
    def _bomb(a, b):
        # sequence repetition by a huge count is a memory bomb in CPython itself
        seq = ("'a'", '[1]')
        big = lambda e: e not in seq and e[0] in '-0123456789' and 'e' not in e and '.' not in e and abs(eval(e)) > 1000
        return (a in seq and big(b)) or (b in seq and big(a))
    pair_inputs = [(a, b) for a in PAIR_VALUES for b in PAIR_VALUES if not _bomb(a, b)]
    # operands on which the static-typing conversion int()/float() itself fails are not binop cases (and would race
    # two errors whose order the property does not fix): keep only convertible operands per typing
    ns = support.namespace()

    def _conv_ok(t, e):
        if t == 'o':
            return True
        try:
            (int if t == 'i' else float)(eval(e, ns))
            return True
        except Exception:
            return False
    pair_sets = {'pairs_' + t1 + t2: [(a, b) for a, b in pair_inputs if _conv_ok(t1, a) and _conv_ok(t2, b)]
                 for t1 in 'oif' for t2 in 'oif'}
    tparts = typed_pair_programs()
    for cname, cflags in configs:
        mods.append(e2.Mod('c02%s_pairs' % cname, prelude, tparts, pair_sets, ext='.py', cflags=cflags,
                           use_log=True))
    st = e2.run_diff(ctx, mods, reach=REACH + ['__Pyx__PyNumber_Multiply_float_object', '__Pyx__PyNumber_Add_int_object'])
    cov = {
        'evaluations': st['evaluations'], 'distinct_nontrivial': st['pairs'],
        'rule': 'complete product (op, form, constant) x operand alphabet; a case is counted once per distinct '
                '(function, reference outcome) pair, i.e. operands giving the same outcome for the same function collapse',
        'programs': st['programs'], 'modules_built': st['modules_built'], 'operands': len(inputs),
        'mismatches': st['mismatches'], 'crashes': st['crashes'], 'reach': st.get('reach'),
        'reach_gaps': st.get('reach_gaps'),
        'configs': [c[0] for c in configs],
        'samples': [{'function': parts[0].src, 'operand': inputs[40][0]},
                    {'function': parts[len(parts) // 2].src, 'operand': inputs[-3][0]},
                    {'function': parts[-1].src, 'operand': inputs[170][0]}],
        'exhaustive': True,
    }
    cov['typed_pair_programs'] = len(tparts)
    cov['typed_pair_inputs'] = len(pair_inputs)
    return cov, ['constants outside the listed boundary set and operands outside the alphabet are not covered']


def replay(ctx, case):
    return e2.replay(ctx, case)
