"""C39 - identical behaviour across build configurations.

A portfolio of ~470 (quick) / ~860 (thorough) pure-Python functions (props/_g11_c39portfolio.py: arithmetic with constants via C02's generator,
str/bytes methods, formatting, indexing incl. the complete wraparound window [-3*len-1, 2*len+1] with C-int and object indices, comparisons, exceptions, generators, argument binding, classes, closures) with
complete small input sets is built under EVERY single deviation from the default build configuration:
language C++; -O2, -O3; each feature macro flipped (CYTHON_USE_PYLONG_INTERNALS=0, CYTHON_USE_UNICODE_INTERNALS=0,
CYTHON_VECTORCALL=0, CYTHON_AVOID_BORROWED_REFS=1, CYTHON_ASSUME_SAFE_MACROS=0, CYTHON_ASSUME_SAFE_SIZE=0,
CYTHON_USE_TYPE_SLOTS=0, CYTHON_USE_TYPE_SPECS=1, CYTHON_USE_PYLIST_INTERNALS=0, CYTHON_FAST_THREAD_STATE=0,
CYTHON_USE_EXC_INFO_STACK=0, CYTHON_UNPACK_METHODS=0, CYTHON_USE_MODULE_STATE=1, CYTHON_USE_DICT_VERSIONS=1, Limited API,
CYTHON_COMPRESS_STRINGS in 0/1/2/90); each semantics-neutral directive flipped (binding, always_allow_keywords, auto_pickle,
optimize.use_switch, optimize.unpack_method_calls, optimize.inline_defnode_calls).  Thorough adds every PAIR among the eight
most interacting macros and the language x -O x Limited-API product.
Every (cell, function, input) is executed in crash-isolated children; the outcome (type, repr / exception type) must equal
CPython's on the identical source - hence every cell equals the default cell.  A cell whose probe module does not build is
recorded as unsupported (calibrated on the unchanged tree), a function that fails to build with a documented `#error` too;
any other build failure in a supported cell is a violation.
"""
import os, re, collections
from vlib import e2, farm, support
from props import _g11_c39portfolio as PF

LEVEL = 'exploration'
ENGINE = 'E2 diffexplore'
TECHNIQUE = 'complete single-deviation (thorough: pair) configuration matrix x complete portfolio x complete input sets, every cell vs CPython on the identical source'
LEVEL_TEXT = ('About 470 (quick) / 860 (thorough) pure-Python functions (constant arithmetic, str/bytes methods, formatting, indexing, comparisons, exceptions, '
              'generators, argument binding, classes, closures) with complete small input sets are compiled under every single '
              'deviation from the default configuration (C++, -O2, -O3, 19 feature-macro cells incl. Limited API and the four '
              'string-compression settings, 6 directive cells; thorough: all pairs among 8 interacting macros plus language x '
              '-O x Limited API) and every (cell, function, input) outcome is compared with CPython on the same source, which '
              'implies equality with the default cell.')
LEVEL_NOTE = ('Quick explores single deviations only; pairs only among 8 macros (thorough).  Portfolio restrictions (by-design '
              'differences): no keyword calls of 0/1-argument functions (always_allow_keywords=False documents them as rejected), '
              'no pickling/copying of extension types (auto_pickle), no introspection of function objects beyond __name__/__doc__ '
              '(binding=False gives builtin functions), exception messages not compared.  Cells that cannot build their probe module '
              'are recorded as unsupported, not compared.  Trusted: CPython 3.12 reference, gcc/g++.')

# (cell name, cflags, cplus, opt, directives)
MACROS = [
    ('pylong0', '-DCYTHON_USE_PYLONG_INTERNALS=0'), ('unicode0', '-DCYTHON_USE_UNICODE_INTERNALS=0'), ('vectorcall0', '-DCYTHON_VECTORCALL=0'),
    ('avoidborrowed1', '-DCYTHON_AVOID_BORROWED_REFS=1'), ('safemacros0', '-DCYTHON_ASSUME_SAFE_MACROS=0'), ('safesize0', '-DCYTHON_ASSUME_SAFE_SIZE=0'),
    ('typeslots0', '-DCYTHON_USE_TYPE_SLOTS=0'), ('typespecs1', '-DCYTHON_USE_TYPE_SPECS=1'), ('pylist0', '-DCYTHON_USE_PYLIST_INTERNALS=0'),
    ('fastthread0', '-DCYTHON_FAST_THREAD_STATE=0'), ('excinfostack0', '-DCYTHON_USE_EXC_INFO_STACK=0'), ('unpackmethods0', '-DCYTHON_UNPACK_METHODS=0'),
    ('modulestate1', '-DCYTHON_USE_MODULE_STATE=1'), ('dictversions1', '-DCYTHON_USE_DICT_VERSIONS=1'),
    ('compress0', '-DCYTHON_COMPRESS_STRINGS=0'), ('compress1', '-DCYTHON_COMPRESS_STRINGS=1'), ('compress2', '-DCYTHON_COMPRESS_STRINGS=2'),
    ('compress90', '-DCYTHON_COMPRESS_STRINGS=90'),
]
LIMITED = ('limited', ['-DCYTHON_LIMITED_API', '-DPy_LIMITED_API=0x030C0000'])
DIRECTIVES = [('binding0', {'binding': False}), ('allowkw0', {'always_allow_keywords': False}), ('autopickle0', {'auto_pickle': False}),
              ('useswitch0', {'optimize.use_switch': False}), ('unpackcalls0', {'optimize.unpack_method_calls': False}),
              ('inlinedef0', {'optimize.inline_defnode_calls': False})]
PAIR_MACROS = ['pylong0', 'unicode0', 'vectorcall0', 'avoidborrowed1', 'safemacros0', 'typeslots0', 'pylist0', 'unpackmethods0']


def cells(tier):
    out = [('default', [], False, '-O0', None), ('cplus', [], True, '-O0', None), ('O2', [], False, '-O2', None), ('O3', [], False, '-O3', None)]
    out += [(n, [f], False, '-O0', None) for n, f in MACROS]
    out.append((LIMITED[0], LIMITED[1], False, '-O0', None))
    out += [(n, [], False, '-O0', d) for n, d in DIRECTIVES]
    if tier != 'quick':
        md = dict(MACROS)
        for i, a in enumerate(PAIR_MACROS):
            for bb in PAIR_MACROS[i + 1:]:
                out.append(('%s+%s' % (a, bb), [md[a], md[bb]], False, '-O0', None))
        for cp in (False, True):
            for opt in ('-O0', '-O2'):
                for lim in (False, True):
                    if (cp, opt, lim) in ((False, '-O0', False), (True, '-O0', False), (False, '-O2', False), (False, '-O0', True)):
                        continue
                    out.append(('%s%s%s' % ('cplus+' if cp else 'c+', opt[1:], '+limited' if lim else ''), list(LIMITED[1]) if lim else [], cp, opt, None))
    return out


PROBE = PF.PRELUDE + '''
def probe(x, *a, k=1, **kw):
    l = [x, *a]
    try:
        with P() as p:
            l.append(p.m(k=x))
            raise KeyError(x)
    except KeyError as e:
        l.append(e.args)
    finally:
        l.append(f"{x!r}:{k}")
    return [l, sorted(kw), list(i + 1 for i in range(3)), x + 1 if isinstance(x, int) else None, "%5s" % (x,)]

def gen(n):
    try:
        for i in range(n):
            yield i
    finally:
        pass

class P:
    def m(self, a=1, *, k):
        return [a, k]
    def __enter__(self):
        return self
    def __exit__(self, *a):
        return False
'''

PER_MODULE = 130


class Collector:
    """Stands in for ctx inside e2.run_diff so that keys can be normalised over cells before they are reported."""
    def __init__(self, ctx):
        self.ctx, self.items = ctx, []
        self.scratch, self.tier, self.seed = ctx.scratch, ctx.tier, ctx.seed

    def violation(self, key, what, case):
        self.items.append((key, what, case))

    def log(self, msg):
        self.ctx.log(msg)

    def workdir(self, name):
        return self.ctx.workdir(name)


def make_mods(cell, prelude, parts, sets):
    name, cflags, cplus, opt, directives = cell
    safe = re.sub(r'\W', '_', name)
    mods = []
    for n in range(0, len(parts), PER_MODULE):
        chunk = [e2.Part(p.src, [e2.Func(f.name, f.tag, f.inputs) for f in p.funcs]) for p in parts[n:n + PER_MODULE]]
        mods.append(e2.Mod('c39_%s_%d' % (safe, n // PER_MODULE), prelude, chunk, sets, ext='.py', cflags=cflags, cplus=cplus, opt=opt,
                           directives=directives))
    return mods


def run(ctx):
    prelude, parts, sets = PF.build(ctx.tier)
    allcells = cells(ctx.tier)
    if ctx.seed:
        k = ctx.seed % len(allcells)
        allcells = allcells[:1] + allcells[1 + k:] + allcells[1:1 + k]
    # ---- calibration: which cells can build at all
    probes = farm.build_many([dict(name='c39probe_%s' % re.sub(r'\W', '_', c[0]), source=PROBE, workdir=ctx.workdir('probe'), ext='.py',
                                   cflags=c[1], cplus=c[2], opt='-O0', directives=c[4]) for c in allcells])
    supported, unsupported = [], {}
    for c, r in zip(allcells, probes):
        if r.ok:
            supported.append(c)
        else:
            m = re.search(r'#error (.*)', r.errors) or re.search(r'error: (.*)', r.errors)
            unsupported[c[0]] = (m.group(1) if m else r.errors[-200:]).strip()[:200]
            ctx.log('cell %s unsupported (probe does not build: %s)' % (c[0], unsupported[c[0]]))
    if 'default' in unsupported:
        ctx.violation('build-failure|default|probe', 'the default configuration cannot build the probe module: %s' % unsupported['default'],
                      {'kind': 'build', 'source': PROBE, 'ext': '.py'})
    mods, cell_of = [], {}
    for c in supported:
        for m in make_mods(c, prelude, parts, sets):
            mods.append(m)
            cell_of[m.name.rsplit('_', 1)[0]] = c
    col = Collector(ctx)
    st = e2.run_diff(col, mods, on_build_failure='reject', reach=REACH, workdir=ctx.workdir('c39'))

    def cell_name(modname):
        best = None
        for k, c in cell_of.items():
            if (modname.startswith(k + '_') or modname == k) and (best is None or len(k) > len(best[0])):
                best = (k, c[0])
        return best[1] if best else '?'

    # ---- normalise: a (tag, input class, divergence) seen in the default cell is keyed 'all-cells' (not a configuration
    #      difference but a portfolio/compiler difference to CPython); otherwise the key carries the deviating cell(s)
    by_root = collections.defaultdict(dict)
    for key, what, case in col.items:
        kp = key.split('|')
        if kp[-1] == 'crash':
            key = '%s|crash' % kp[0].split('/')[0]       # one key per (cell, family): a crash does not depend on the operand class
        cn = cell_name(case.get('name', '')) if isinstance(case, dict) else '?'
        by_root[key].setdefault(cn, (what, case))
    for key, percell in sorted(by_root.items()):
        if 'default' in percell:
            what, case = percell['default']
            ctx.violation('all-cells|%s' % key, '[every cell incl. default] %s' % what, case)
        else:
            for cn, (what, case) in sorted(percell.items()):
                ctx.violation('%s|%s' % (cn, key), '[cell %s] %s' % (cn, what), case)
    # ---- rejected builds inside supported cells
    unsupported_funcs = []
    for tags, stage_, errs in st['rejected']:
        m = re.search(r'/(c39_\w+?)/', errs)
        cn = cell_name(m.group(1)) if m else '?'
        if '#error' in errs:
            unsupported_funcs.append([cn, tags[0] if tags else '?', (re.search(r'#error (.*)', errs).group(1))[:160]])
        else:
            em = re.search(r'error: (.*)', errs)
            ctx.violation('%s|build-failure|%s|%s' % (cn, stage_, (tags[0] if tags else '?').split('/')[0]),
                          '[cell %s] portfolio function %s does not build (%s): %s' % (cn, tags[:1], stage_, (em.group(1) if em else errs[-300:])[:300]),
                          {'kind': 'build-info', 'cell': cn, 'tags': tags, 'errors': errs})
    ncell = len(supported)
    cov = {
        'evaluations': st['evaluations'], 'distinct_nontrivial': st['pairs'],
        'rule': 'one evaluation = one (cell, function, input tuple) run compiled and compared with CPython; distinct_nontrivial = '
                'distinct (cell module, function, reference outcome) pairs',
        'programs': len(parts), 'functions_x_cells': st['programs'], 'cells': [c[0] for c in allcells], 'cells_supported': ncell,
        'cells_unsupported': unsupported, 'functions_unsupported_in_some_cell': unsupported_funcs[:40], 'modules_built': st['modules_built'],
        'mismatches': st['mismatches'], 'crashes': st['crashes'], 'reach': st.get('reach'), 'reach_gaps': st.get('reach_gaps'),
        'samples': [{'cell': allcells[1][0], 'function': parts[0].src, 'input': list(sets[parts[0].funcs[0].inputs][3])},
                    {'cell': 'limited', 'function': parts[len(parts) // 2].src, 'input': list(sets[parts[len(parts) // 2].funcs[0].inputs][0])},
                    {'cell': 'binding0', 'function': parts[-5].src, 'input': list(sets[parts[-5].funcs[0].inputs][1])}],
        'exhaustive': True,
    }
    return cov, ['single deviations (thorough: pairs among 8 macros) only; higher-order interactions are not explored',
                 'cells listed in cells_unsupported could not build the probe module and were not compared']


REACH = ['__Pyx_PyLong_AddObjC', '__Pyx_PyUnicode_Join', '__Pyx_PyObject_FastCallDict', '__Pyx_ParseKeywords', '__Pyx_Generator_New',
         '__Pyx_GetItemInt_Fast', '__Pyx_PyObject_GetSlice', '__Pyx_PyUnicode_Tailmatch', '__Pyx_Py3MetaclassPrepare', '__Pyx_CyFunction_New',
         '__Pyx_PyObject_Format', '__Pyx_DecompressString', '__Pyx_PyList_Append', '__Pyx_PyDict_GetItem', '__Pyx_CallUnboundCMethod0']


def replay(ctx, case):
    return e2.replay(ctx, case)
