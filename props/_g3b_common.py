"""Shared helpers of the C06/C07/C08 checks (group g3b)."""
import math, random


def warm(ctx):
    """Compile one trivial module in the parent so that forked build workers inherit a warm compiler
    (utility-code caches, parsed Cython includes) instead of each paying the warm-up."""
    from vlib import farm
    farm.build('warm', 'cimport cython\ndef f(double a, double complex z, str s):\n    return float(s) + a % 2.0, z * z, a ** 2\n',
               ctx.workdir('warm'), ext='.pyx', cc=False)


class Collector:
    """ctx stand-in handed to e2.run_diff: collects violations so that keys can be normalised over the
    whole failing set before they are reported through the real ctx."""
    def __init__(self, ctx):
        self.ctx = ctx
        self.items = []
        self.scratch, self.tier, self.seed = ctx.scratch, ctx.tier, ctx.seed

    def workdir(self, name):
        return self.ctx.workdir(name)

    def log(self, msg):
        self.ctx.log(msg)

    def violation(self, key, what, case):
        self.items.append((key, what, case))


def raw_key(tag, inp, exp, got):
    """keyfn for e2.run_diff that keeps the raw facts; the props module normalises afterwards."""
    return (tag, tuple(inp), exp, got)


def permute(seq, seed, salt):
    """Seed-dependent ORDER of a complete enumeration (the set never changes)."""
    seq = list(seq)
    if seed:
        random.Random('%s/%s' % (seed, salt)).shuffle(seq)
    return seq


def fcls(v):
    """Class of a double: nan / inf / zero / fin."""
    if v != v:
        return 'nan'
    if math.isinf(v):
        return 'inf'
    if v == 0:
        return 'zero'
    return 'fin'


def sfcls(v):
    """Signed class of a double: nan / +inf / -inf / +0 / -0 / +fin / -fin."""
    if v != v:
        return 'nan'
    s = '-' if math.copysign(1.0, v) < 0 else '+'
    if math.isinf(v):
        return s + 'inf'
    if v == 0:
        return s + '0'
    return s + 'fin'


# ------------------------------------------------------------------------------------------------
# Judged sweep: like e2.run_diff, but the oracle is a function judge(tag, args, outcome) -> None | (divclass, expected)
# instead of plain equality with a reference value (needed where the specification leaves part of the result
# open: "any integer type", "unspecified when it does not fit", tolerance for libm complex functions).
def _judged_sweep(case):
    import importlib
    from vlib import e2, support
    from vlib.diff import canon
    light, judge_path, work = case
    mod = e2._get(dict(light, ref=('model', 'props._g3b_common:_noop')))[0]
    m, fn = judge_path.split(':')
    judge = getattr(importlib.import_module(m), fn)
    ns = support.namespace()
    evals, mism, more, seen, excluded, perkey = 0, [], 0, set(), {}, {}
    for fname, tag, inputs in work:
        fc = getattr(mod, fname)
        for inp in inputs:
            args = [eval(e, ns) for e in inp]
            try:
                got = ('ok', canon(fc(*args)))
            except BaseException as e:
                if isinstance(e, (KeyboardInterrupt, SystemExit)):
                    raise
                got = ('exc', type(e).__name__)
            evals += 1
            seen.add(hash((fname, got)))
            verdict = judge(tag, [eval(e, ns) for e in inp], got)
            if verdict is not None and verdict[0] == 'EXCLUDED':
                # by-design deviation measured on this very case: counted, never reported
                excluded[verdict[1]] = excluded.get(verdict[1], 0) + 1
            elif verdict is not None:
                # keep a few examples per (function, divergence class) so that every class gets its key reported
                k = (fname, verdict[0])
                perkey[k] = perkey.get(k, 0) + 1
                if perkey[k] <= 3 and len(mism) < 2000:
                    mism.append((fname, tag, inp, verdict[0], verdict[1], got))
                else:
                    more += 1
    return {'evals': evals, 'mismatches': mism, 'more': more, 'pairs': len(seen), 'excluded': excluded}


def _noop(*a):
    return None


def run_judged(ctx, mods, judge_path, reach=None, timeout=900):
    """Build e2.Mod objects and sweep every (function, input) through `judge`.  Returns (stats, raw) where raw is a
    list of (tag, inp, divclass, expected, got, what, case); nothing is reported: the caller normalises keys."""
    from vlib import e2, runner
    built, failures = e2.build_all(ctx, mods, ctx.workdir('e2'))
    stats = {'evaluations': 0, 'pairs': 0, 'programs': 0, 'modules_built': len(built), 'mismatches': 0, 'crashes': 0,
             'build_failures': len(failures), 'excluded': {}}
    raw = []
    ctx.log('built %d modules (%d failures)' % (len(built), len(failures)))
    for m, r in failures:
        tags = [f.tag for f in m.funcs]
        raw.append((tags[0] if tags else m.name, (), 'build-failure:%s' % r.stage, None, None,
                    'program does not build (%s): %s' % (r.stage, r.errors[-800:]),
                    {'kind': 'build', 'source': m.source, 'ext': m.ext, 'directives': m.directives,
                     'cflags': list(m.cflags), 'cplus': m.cplus, 'stage': r.stage, 'errors': r.errors[-3000:]}))
    if reach:
        found = {k: 0 for k in reach}
        for m in built:
            try:
                with open(m.c_file, encoding='utf-8', errors='replace') as f:
                    txt = f.read()
            except OSError:
                continue
            for k in reach:
                if k in txt:
                    found[k] += 1
        stats['reach'] = found
        stats['reach_gaps'] = sorted(k for k, v in found.items() if not v)
        for k in stats['reach_gaps']:
            ctx.log('WARN reach gap: no built module mentions %s' % k)
    cases, owners = [], []
    for m in built:
        light = m.light()
        fl = m.funcs
        stats['programs'] += len(fl)
        total = sum(len(m.input_sets[f.inputs]) for f in fl)
        target = max(1, total // 4)
        cur, curn = [], 0
        for f in fl:
            ins = m.input_sets[f.inputs]
            cur.append((f.name, f.tag, ins))
            curn += len(ins)
            if curn >= target:
                cases.append((light, judge_path, cur)); owners.append(m); cur, curn = [], 0
        if cur:
            cases.append((light, judge_path, cur)); owners.append(m)
    results = runner.run_cases(_judged_sweep, cases, chunk=1, timeout=timeout, scratch=ctx.scratch)

    def case_of(m, fname, tag, inp, exp, got):
        return {'kind': 'judged', 'name': m.name, 'source': m.source, 'ext': m.ext, 'directives': m.directives,
                'cflags': list(m.cflags), 'cplus': m.cplus, 'opt': m.opt, 'judge': judge_path, 'fname': fname, 'tag': tag,
                'input': list(inp), 'expected': exp, 'got': got}

    def handle(m, r):
        stats['evaluations'] += r['evals']
        stats['pairs'] += r['pairs']
        stats['mismatches'] += len(r['mismatches']) + r['more']
        for k, v in r.get('excluded', {}).items():
            stats['excluded'][k] = stats['excluded'].get(k, 0) + v
        for fname, tag, inp, div, exp, got in r['mismatches']:
            raw.append((tag, tuple(inp), div, exp, got, '%s%r: expected %s got %r' % (tag, tuple(inp), exp, got),
                        case_of(m, fname, tag, inp, exp, got)))

    refine = []
    for (light, _, work), m, r in zip(cases, owners, results):
        if r[0] == 'ok':
            handle(m, r[1])
        elif r[0] == 'exc':
            raw.append((m.name, (), 'harness-exc', None, None, 'driver exception: %s' % r[1][-1500:],
                        {'kind': 'harness', 'source': m.source, 'trace': r[1][-3000:]}))
        else:
            for fname, tag, ins in work:
                for inp in ins:
                    refine.append(((light, judge_path, [(fname, tag, [inp])]), m, fname, tag, inp))
    if refine:
        ctx.log('refining %d evaluations after crash/timeout' % len(refine))
        rr = runner.run_cases(_judged_sweep, [x[0] for x in refine], timeout=60, scratch=ctx.scratch)
        for (case, m, fname, tag, inp), r in zip(refine, rr):
            if r[0] == 'ok':
                handle(m, r[1])
            elif r[0] in ('crash', 'timeout'):
                stats['crashes'] += 1
                stats['evaluations'] += 1
                got = ('crash', r[0], r[1])
                raw.append((tag, tuple(inp), 'crash', None, got,
                            '%s%r: %s %s; output tail: %s' % (tag, tuple(inp), r[0], r[1], (r[2] or '')[-400:]),
                            case_of(m, fname, tag, inp, None, got)))
            else:
                raw.append((m.name, (), 'harness-exc', None, None, 'driver exception: %s' % r[1][-1500:],
                            {'kind': 'harness', 'source': m.source, 'trace': r[1][-3000:]}))
    return stats, raw


def replay_judged(ctx, case):
    from vlib import e2, farm, runner
    if case.get('kind') == 'build':
        return e2.replay(ctx, case)
    if case.get('kind') != 'judged':
        return 'not replayable generically'
    r = farm.build(case['name'], case['source'], ctx.workdir('replay'), ext=case['ext'], directives=case.get('directives'),
                   cflags=case.get('cflags') or (), cplus=case.get('cplus', False), opt=case.get('opt', '-O0'))
    if not r.ok:
        return 'does not build (%s): %s' % (r.stage, r.errors[-600:])
    light = dict(name=case['name'], so=r.so, ref=('model', 'props._g3b_common:_noop'), exc_args=False, use_log=False, env=None)
    res = runner.run_cases(_judged_sweep, [(light, case['judge'], [(case['fname'], case['tag'], [tuple(case['input'])])])],
                           timeout=120, scratch=ctx.scratch)[0]
    if res[0] == 'ok':
        mm = res[1]['mismatches']
        if mm:
            return '%s%r: expected %s got %r' % (case['tag'], tuple(case['input']), mm[0][4], mm[0][5])
        return False
    return '%s: %r' % (res[0], res[1:])
