"""C27 world: cdef class hierarchy with cpdef methods + Python subclasses, compiled vs the same pure-Python-mode source
interpreted by CPython (where plain attribute lookup decides every call).  Used by the zygote engine (_g7_zygote.py)."""
import sys, os, types, importlib.machinery, importlib.util

MOD_SRC = '''
import cython

@cython.cclass
class Base:
    @cython.ccall
    def f(self):
        return 'Base.f'

    @cython.ccall
    def g(self, x):
        return ('Base.g', x)

@cython.cclass
class Mid(Base):
    @cython.ccall
    def f(self):
        return 'Mid.f'

def call_f(o: Base):
    return o.f()

def call_g(o: Base, x):
    return o.g(x)

def call_f_mid(o: Mid):
    return o.f()
'''


class World:
    """Python subclasses and instances on top of module m (compiled or interpreted)."""
    def __init__(self, m):
        self.m = m
        self.P1 = type('P1', (m.Mid,), {})
        self.P2 = type('P2', (self.P1,), {})
        self.Q1 = type('Q1', (m.Base,), {})
        self.S1 = type('S1', (m.Mid,), {'__slots__': ()})
        self.S2 = type('S2', (self.S1,), {'__slots__': ()})
        self.a = self.P1()
        self.b = self.P2()
        self.q = self.Q1()
        self.c = self.S2()

    def reset(self):
        for cls in (self.P1, self.P2, self.Q1, self.S1, self.S2):
            for n in ('f', 'g', 'z'):
                if n in cls.__dict__:
                    delattr(cls, n)
            cls._r = object()              # guarantees a type-dict version bump
        self.b.__class__ = self.P2
        for o in (self.a, self.b, self.q):
            o.__dict__.clear()
            o.__dict__['_r'] = object()    # guarantees an instance-dict version bump


def py1(self):
    return 'P1.py'


def py2(self):
    return 'P2.py'


def pyg(self, x):
    return ('P1.pyg', x)


def pyq(self):
    return 'Q1.py'


def pys(self):
    return 'S1.py'


def pyi():
    return 'inst.py'


def pystatic():
    return 'static.py'


CLASS_WRITES = ['P1.f=py', 'P1.f=static', 'P1.f=orig', 'del P1.f', 'P2.f=py', 'del P2.f', 'P1.z', 'P2.z', 'P1.g=py', 'del P1.g',
                'Q1.f=py', 'S1.f=py', 'del S1.f']
INST_WRITES = ['b.f=py', 'del b.f', 'b.z', 'b.cls']
CALLS = ['C(b)', 'Py(b)', 'C(a)', 'C(q)', 'C(c)']

CFG = {}
IMPL = REF = None


def init(cfg):
    global IMPL, REF
    CFG.update(cfg)
    loader = importlib.machinery.ExtensionFileLoader(cfg['modname'], cfg['so'])
    spec = importlib.util.spec_from_file_location(cfg['modname'], cfg['so'], loader=loader)
    im = importlib.util.module_from_spec(spec)
    loader.exec_module(im)
    rm = types.ModuleType('c27ref')
    exec(compile(MOD_SRC, '<c27ref>', 'exec'), rm.__dict__)
    IMPL, REF = World(im), World(rm)


def reset():
    IMPL.reset()
    REF.reset()


def ops_enabled():
    w = REF
    ops = []
    for o in CLASS_WRITES + INST_WRITES:
        if o == 'del P1.f' and 'f' not in w.P1.__dict__:
            continue
        if o == 'del P2.f' and 'f' not in w.P2.__dict__:
            continue
        if o == 'del P1.g' and 'g' not in w.P1.__dict__:
            continue
        if o == 'del S1.f' and 'f' not in w.S1.__dict__:
            continue
        if o == 'del b.f' and 'f' not in w.b.__dict__:
            continue
        if o == 'Q1.f=py' and 'f' in w.Q1.__dict__:
            continue
        ops.append(o)
    return ops + CALLS


def _call(f, *a):
    try:
        return ('ok', repr(f(*a)))
    except Exception as e:
        return ('exc', type(e).__name__)


def apply(w, op):
    m = w.m
    if op == 'P1.f=py':
        w.P1.f = py1
    elif op == 'P1.f=static':
        w.P1.f = staticmethod(pystatic)
    elif op == 'P1.f=orig':
        w.P1.f = m.Mid.f
    elif op == 'del P1.f':
        del w.P1.f
    elif op == 'P2.f=py':
        w.P2.f = py2
    elif op == 'del P2.f':
        del w.P2.f
    elif op == 'P1.z':
        w.P1.z = object()
    elif op == 'P2.z':
        w.P2.z = object()
    elif op == 'P1.g=py':
        w.P1.g = pyg
    elif op == 'del P1.g':
        del w.P1.g
    elif op == 'Q1.f=py':
        w.Q1.f = pyq
    elif op == 'S1.f=py':
        w.S1.f = pys
    elif op == 'del S1.f':
        del w.S1.f
    elif op == 'b.f=py':
        w.b.f = pyi
    elif op == 'del b.f':
        del w.b.f
    elif op == 'b.z':
        w.b.z = object()
    elif op == 'b.cls':
        w.b.__class__ = w.P1 if type(w.b) is w.P2 else w.P2
    elif op.startswith('C('):
        o = getattr(w, op[2])
        return (_call(m.call_f, o), _call(m.call_g, o, 5), _call(m.call_f_mid, o) if op[2] != 'q' else None)
    elif op == 'Py(b)':
        return (_call(lambda: w.b.f()), _call(lambda: w.b.g(5)))
    else:
        raise ValueError(op)
    return ('ok', 'None')


def replay(hist):
    reset()
    outs = []
    div = None
    lastC = None
    fresh = False
    for i, op in enumerate(hist):
        a = apply(IMPL, op)
        b = apply(REF, op)
        outs.append(b)
        if op.startswith('C('):
            lastC = (op, b)
            fresh = True
        elif not op.startswith('Py('):
            fresh = False
        if a != b:
            div = (i, op, b, a)
            break
    w = REF
    key = (tuple(sorted((c.__name__, n, getattr(c.__dict__[n], '__name__', type(c.__dict__[n]).__name__))
                        for c in (w.P1, w.P2, w.Q1, w.S1) for n in ('f', 'g') if n in c.__dict__)),
           'f' in w.b.__dict__, type(w.b).__name__, lastC, fresh)
    return {'div': div, 'outs': outs, 'key': key, 'enabled': ops_enabled() if div is None else []}


def div_class(div):
    """'<call op>:<expected impl kind>-><got impl kind>' (which method and which override object are reduced away)."""
    i, op, ref, got = div
    if isinstance(ref, (tuple, list)) and ref and isinstance(ref[0], (tuple, list)):
        for r, g in zip(ref, got):
            if r != g:
                return '%s:%s->%s' % (op, _kind(r), _kind(g))
    return '%s:%s->%s' % (op, _kind(ref), _kind(got))


def _kind(v):
    if v is None:
        return 'none'
    if v[0] == 'exc':
        return v[1]
    r = v[1]
    for k in ('P1.py', 'P2.py', 'Q1.py', 'S1.py', 'inst.py', 'static.py'):
        if k in r:
            return 'override'
    if 'Base.' in r or 'Mid.' in r:
        return 'cimpl'
    return 'other'
