"""C24 - argument binding matches CPython for every signature and call.

Alphabet.  Signatures: ALL parameter lists with <= 3 (quick) / <= 4 (thorough) named parameters where every
parameter has a kind in {positional-only, positional-or-keyword, keyword-only} (legal order) and default in
{none, literal} (legal: defaults form a suffix of the positionals, free for keyword-only) x *args in {absent,
present} x **kw in {absent, present} (344 / 1000 signatures) + 8 wide 6-parameter signatures.
Function kinds: module def, method of a Python class (bound, unbound, called through a compiled `o.m(...)`),
staticmethod (via class and instance), classmethod, cpdef (@cython.ccall, signatures without stars), closure,
lambda, method/staticmethod/classmethod of an extension type (@cython.cclass), closure called from its defining
compiled function (InlinedDefNodeCallNode).
Call shapes (per function): positional count 0..n+1 x EVERY subset of the parameter names + one unknown name passed
as keywords (duplicates positional+keyword arise) x call mode in {direct f(a, k=v), direct with reversed keyword
order, f(*t, **d) with keyword-name objects {interned literal, run-time built equal str, str subclass, str subclass
with overridden consistent __eq__/__hash__}, reversed order, extra non-str key {1: ..}, functools.partial (keywords
bound / keywords late), call from compiled code (direct shape, f(*t, **d) with three name kinds, o.m(...))}
(all 15 modes for def / bound method / extension-type method / cpdef; the kinds that share the generated argument
parsing code with them - staticmethod, classmethod, closure, lambda, unbound methods - get 6 modes: direct,
f(*t,**d) with run-time built / str-subclass / non-str names, compiled direct, compiled f(*t,**d)).
Builds: default, -DCYTHON_VECTORCALL=0 (METH_VARARGS tuple/dict parsing path), always_allow_keywords=False
(METH_O/METH_NOARGS; keyword-free shapes only), thorough: also binding=False.
Oracle.  CPython executing the identical source (functions AND compiled callers): the returned tuple of bound
values (recursively type+repr, **kw order included) or the exception type.  Also: the caller's **dict must be
unchanged after the call.
"""
import itertools, functools, os, sys
from vlib import e2, farm, runner, support
from vlib.diff import canon, short

LEVEL = 'exploration'
ENGINE = 'E2 diffexplore'
TECHNIQUE = ('exhaustive product (all signatures <= 3/4 parameters x function kinds) x (all positional counts x all keyword '
             'subsets x call syntaxes x keyword-name object kinds) x builds, compiled vs CPython on identical source')
LEVEL_TEXT = ('Every signature with <= 3 (thorough <= 4) named parameters over kinds posonly/normal/kwonly x default or not x '
              '*args x **kw, plus 8 wide 6-parameter signatures, is compiled as def, Python-class method/staticmethod/'
              'classmethod, extension-type method/staticmethod/classmethod, cpdef, closure and lambda; each is called with '
              'every positional count 0..n+1 x every subset of parameter names (+ an unknown name) as keywords through '
              'direct calls, f(*t, **d) with interned / run-time built / str-subclass / eq-hash-overriding keyword names '
              'and a non-str key, functools.partial and calls from compiled code, in the default, CYTHON_VECTORCALL=0 and '
              'always_allow_keywords=False builds; bound values (or TypeError) must equal CPython on the same source.')
LEVEL_NOTE = ('Bounded to <= 3 (4) parameters + 8 wide signatures; function kinds that share the generated parsing code of def '
              '(static/class methods, closures, lambdas, unbound methods) get 6 of the 15 call modes; the CYTHON_VECTORCALL=0 build '
              'covers def, Python-class and extension-type methods, staticmethods and cpdef only; modules built with different C '
              'macros are swept in separate processes (they would share one CyFunction type object); exception types only (messages differ by design); '
              'always_allow_keywords=False is checked on keyword-free shapes only (rejecting keywords for METH_O/NOARGS '
              'functions is the documented purpose of the directive); the eq/hash-overriding str subclass is consistent '
              'with str equality (inconsistent keys are outside the property) and its call log is not compared; '
              'cpdef only for signatures without *args/**kw and with trailing defaults (language restrictions).  Trusted: CPython 3.12, gcc.')

NAMES = ['aa', 'bb', 'cc', 'dd', 'ee', 'ff']   # >= 2 characters: 1-character strings are always interned singletons
UNKNOWN = 'zz'

REACH = ['__Pyx_ParseKeywordsTuple', '__Pyx_ParseKeywordDict', '__Pyx_ParseKeywordDictToDict', '__Pyx_MatchKeywordArg',
         '__Pyx_RaiseArgtupleInvalid', '__Pyx_RaiseDoubleKeywordsError', '__Pyx_RaiseKeywordRequired',
         '__Pyx_CyFunction_Vectorcall_FASTCALL_KEYWORDS', '__Pyx_CyFunction_Vectorcall_O',
         '__Pyx_CyFunction_Vectorcall_NOARGS', '__Pyx_RejectKeywords', '__Pyx_CheckKeywordStrings']


class EqStr(str):
    """str subclass overriding __eq__/__hash__ consistently with str (the calls are counted, not compared)."""
    calls = 0

    def __eq__(self, other):
        EqStr.calls += 1
        return str.__eq__(self, other)

    def __ne__(self, other):
        EqStr.calls += 1
        return str.__ne__(self, other)

    def __hash__(self):
        EqStr.calls += 1
        return str.__hash__(self)


# ------------------------------------------------------------------------------------------ signatures
class Sig:
    __slots__ = ('params', 'star', 'kw', 'text', 'ret', 'names', 'tag')

    def __init__(self, params, star, kw):
        """params: list of (name, kind in 'PNK', has_default)"""
        self.params, self.star, self.kw = params, star, kw
        self.names = [p[0] for p in params]
        out = []
        npos_only = sum(1 for p in params if p[1] == 'P')
        seen_k = False
        for i, (name, kind, dflt) in enumerate(params):
            if kind == 'K' and not seen_k:
                seen_k = True
                out.append('*args' if star else '*')
            out.append("%s='d%s'" % (name, name) if dflt else name)
            if kind == 'P' and i == npos_only - 1:
                out.append('/')
        if star and not seen_k:
            out.append('*args')
        if kw:
            out.append('**kw')
        self.text = ', '.join(out)
        self.ret = ', '.join(self.names + (['args'] if star else []) + (['kw'] if kw else []))
        self.tag = self.text.replace(' ', '') or '()'

    @property
    def plain(self):
        return not self.star and not self.kw

    @property
    def stars(self):
        return ('*' if self.star else '') + ('**' if self.kw else '') or '-'


def signatures(maxn):
    out = []
    for total in range(maxn + 1):
        for p in range(total + 1):
            for n in range(total - p + 1):
                k = total - p - n
                kinds = 'P' * p + 'N' * n + 'K' * k
                for dpos in range(p + n + 1):
                    for kd in itertools.product((0, 1), repeat=k):
                        dflt = [0] * (p + n - dpos) + [1] * dpos + list(kd)
                        params = [(NAMES[i], kinds[i], dflt[i]) for i in range(total)]
                        for star in (0, 1):
                            for kw in (0, 1):
                                out.append(Sig(params, star, kw))
    return out


def wide_signatures():
    N = NAMES
    def mk(kinds, dflt, star, kw):
        return Sig([(N[i], kinds[i], dflt[i]) for i in range(6)], star, kw)
    return [mk('NNNNNN', [0, 0, 0, 0, 0, 0], 0, 0),
            mk('NNNNNN', [0, 0, 0, 1, 1, 1], 0, 0),
            mk('PPNNKK', [0, 0, 0, 0, 0, 0], 0, 0),
            mk('PPPNNN', [0, 0, 0, 1, 1, 1], 1, 1),
            mk('KKKKKK', [0, 0, 0, 0, 0, 0], 0, 0),
            mk('KKKKKK', [1, 0, 1, 0, 1, 0], 0, 1),
            mk('PPPPPP', [0, 0, 0, 0, 1, 1], 0, 0),
            mk('PNKKKK', [0, 0, 0, 1, 0, 1], 1, 1)]


def part_for(i, sig, wide=False, lean=False):
    """Source for every function kind of one signature + list of accessors (kind, expr, needs_self_prefix).
    lean: only def / Python-class method / extension-type method+staticmethod / cpdef."""
    src, acc = _part_for(i, sig, wide, lean)
    return src, acc


def _part_for(i, sig, wide, lean):
    s, r = sig.text, sig.ret
    rr = (r + ',') if r else ''
    ss = (', ' + s) if s else ''
    src = ['def f%d(%s): return (%s)' % (i, s, rr)]
    acc = [('def', 'f%d' % i, 0)]
    src += ['class K%d:' % i,
            '    def m(self%s): return ("m", type(self).__name__, %s)' % (ss, rr)]
    acc += [('meth', 'K%d().m' % i, 0)]
    if lean:
        acc += [('umeth', 'K%d.m' % i, 1), ('obj', 'K%d()' % i, 0)]
        src += ['@cython.cclass', 'class E%d:' % i,
                '    def m(self%s): return ("m", type(self).__name__, %s)' % (ss, rr),
                '    @staticmethod',
                '    def s(%s): return ("s", %s)' % (s, rr)]
        acc += [('xmeth', 'E%d().m' % i, 0), ('xumeth', 'E%d.m' % i, 1), ('xstatic', 'E%d.s' % i, 0), ('xobj', 'E%d()' % i, 0)]
    elif not wide:
        src += ['    @staticmethod',
                '    def s(%s): return ("s", %s)' % (s, rr),
                '    @classmethod',
                '    def c(cls%s): return ("c", cls.__name__, %s)' % (ss, rr)]
        acc += [('umeth', 'K%d.m' % i, 1), ('static', 'K%d.s' % i, 0), ('static', 'K%d().s' % i, 0),
                ('class', 'K%d.c' % i, 0), ('obj', 'K%d()' % i, 0)]
        src += ['@cython.cclass', 'class E%d:' % i,
                '    def m(self%s): return ("m", type(self).__name__, %s)' % (ss, rr),
                '    @staticmethod',
                '    def s(%s): return ("s", %s)' % (s, rr),
                '    @classmethod',
                '    def c(cls%s): return ("c", cls.__name__, %s)' % (ss, rr)]
        acc += [('xmeth', 'E%d().m' % i, 0), ('xumeth', 'E%d.m' % i, 1), ('xstatic', 'E%d.s' % i, 0),
                ('xclass', 'E%d.c' % i, 0), ('xobj', 'E%d()' % i, 0)]
        src += ['def mk%d():' % i, '    x = "x"', '    def g(%s): return (x, %s)' % (s, rr), '    return g',
                'cl%d = mk%d()' % (i, i),
                'lm%d = lambda %s: (%s)' % (i, s, rr)]
        acc += [('closure', 'cl%d' % i, 0), ('lambda', 'lm%d' % i, 0)]
    if not wide:
        dfl = [p[2] for p in sig.params]
        if sig.plain and dfl == sorted(dfl):     # C-level optional arguments must be trailing (language restriction)
            src += ['@cython.ccall', 'def cp%d(%s): return (%s)' % (i, s, rr)]
            acc += [('cpdef', 'cp%d' % i, 0)]
        if sig.plain and not lean and not any(p[1] == 'K' for p in sig.params):
            if True:
                n = len(sig.params)
                for c in (n - 1, n, n + 1):
                    if c < 0:
                        continue
                    src += ['def inl%d_%d():' % (i, c), '    x = "x"', '    def g(%s): return (x, %s)' % (s, rr),
                            '    return (g(%s),)' % ', '.join('"p%d"' % j for j in range(c))]
                    acc += [('inline', 'inl%d_%d' % (i, c), 0)]
    return '\n'.join(src) + '\n', acc


# ------------------------------------------------------------------------------------------ call shapes
def shapes_for(names, maxpos):
    """All (npos, keyword-name tuple) with npos in 0..maxpos and every subset of names + UNKNOWN."""
    allk = list(names) + [UNKNOWN]
    out = []
    for npos in range(maxpos + 1):
        for mask in range(1 << len(allk)):
            out.append((npos, tuple(k for j, k in enumerate(allk) if mask >> j & 1)))
    return out


def shape_id(shape):
    return '%d_%s' % (shape[0], '_'.join(shape[1]) or 'x')


def direct_text(shape, fn='f', rev=False, pre=''):
    npos, kws = shape
    kws = list(reversed(kws)) if rev else list(kws)
    args = ['"p%d"' % j for j in range(npos)] + ['%s="k%s"' % (k, k) for k in kws]
    return '%s(%s%s)' % (fn, pre, ', '.join(args))


def callers_source(shapes):
    """Pure-Python module with the compiled callers (one per shape) - also executed by CPython as reference."""
    src = ['def cstar(f, t, d): return f(*t, **d)']
    for sh in shapes:
        sid = shape_id(sh)
        src.append('def cd_%s(f): return %s' % (sid, direct_text(sh)))
        src.append('def cm_%s(o): return %s' % (sid, direct_text(sh, fn='o.m')))
    return '\n'.join(src) + '\n'


MODES_PY = ['direct', 'direct-rev', 'star:interned', 'star:runtime', 'star:strsub', 'star:eqstr', 'star-rev:runtime',
            'star:nonstr', 'partial', 'partial-late']
MODES_C = ['cdirect', 'cstar:interned', 'cstar:runtime', 'cstar:strsub', 'cstar:nonstr']
MODES_SHORT = ['direct', 'star:runtime', 'star:strsub', 'star:nonstr', 'cdirect', 'cstar:runtime']
MODES_UNBOUND = ['direct', 'star:runtime', 'star:strsub', 'star:nonstr', 'cstar:runtime']
FULL_MODE_KINDS = ('def', 'meth', 'xmeth', 'cpdef')       # the other kinds share the generated argument parsing code
MODES_WIDE = ['direct', 'star:runtime', 'star:strsub', 'cstar:runtime']


def _mkname(kind, k):
    if kind == 'interned':
        return sys.intern(k)
    if kind == 'runtime':
        s = ''.join([k[:1], k[1:]])
        assert s is not k and s == k
        return s
    if kind == 'strsub':
        return support.StrSub(k)
    if kind == 'eqstr':
        return EqStr(k)
    raise ValueError(kind)


class Callers:
    """Per-process table: (mode, shape, self_prefix) -> callable(fc, callers_module) performing the call."""

    def __init__(self):
        self.cache = {}

    def get(self, mode, shape, pre):
        key = (mode, shape, pre)
        c = self.cache.get(key)
        if c is None:
            c = self.cache[key] = self.make(mode, shape, pre)
        return c

    @staticmethod
    def make(mode, shape, pre):
        npos, kws = shape
        t = tuple('p%d' % j for j in range(npos))
        if mode in ('direct', 'direct-rev'):
            txt = 'lambda f, cm, s=None: ' + direct_text(shape, rev=(mode == 'direct-rev'), pre='s, ' if pre else '')
            return eval(txt, {})
        if mode == 'cdirect':
            name = 'cd_' + shape_id(shape)
            return lambda f, cm, s=None: getattr(cm, name)(f)
        if mode == 'cmeth':
            name = 'cm_' + shape_id(shape)
            return lambda o, cm, s=None: getattr(cm, name)(o)
        if mode == 'pymeth':
            return eval('lambda o, cm, s=None: ' + direct_text(shape, fn='o.m'), {})
        base, _, kind = mode.partition(':')
        kk = list(reversed(kws)) if base.endswith('-rev') else list(kws)
        if kind == 'nonstr':
            items = [(sys.intern(k), 'k' + k) for k in kk] + [(1, 'k1')]
        elif kind:
            items = [(_mkname(kind, k), 'k' + k) for k in kk]
        else:
            items = [(sys.intern(k), 'k' + k) for k in kk]
        items = tuple(items)

        def check(d):
            if tuple(d.items()) != items or any(a is not b[0] for a, b in zip(d, items)):
                raise AssertionError('caller dict was modified by the call')

        if base in ('star', 'star-rev'):
            def call(f, cm, s=None):
                d = dict(items)
                tt = (s,) + t if pre else t
                try:
                    return f(*tt, **d)
                finally:
                    check(d)
        elif base == 'cstar':
            def call(f, cm, s=None):
                d = dict(items)
                tt = (s,) + t if pre else t
                try:
                    return cm.cstar(f, tt, d)
                finally:
                    check(d)
        elif base == 'partial':
            def call(f, cm, s=None):
                tt = (s,) + t if pre else t
                return functools.partial(f, *tt, **dict(items))()
        elif base == 'partial-late':
            def call(f, cm, s=None):
                tt = (s,) + t if pre else t
                return functools.partial(f, *tt)(**dict(items))
        else:
            raise ValueError(mode)
        return call


_CALLERS = Callers()


def modes_for(kind, cfg_kwfree, wide, cfg=None):
    if kind in ('obj', 'xobj'):
        return ['cmeth', 'pymeth']
    if wide:
        return MODES_WIDE
    if kind in FULL_MODE_KINDS:
        return MODES_PY + MODES_C
    if kind in ('umeth', 'xumeth') and cfg == 'nobind':
        # the compiled direct callers cannot pass the instance, so the first argument becomes self; with binding=False
        # unbound extension-type methods are builtin method descriptors that (by design) type-check self
        return MODES_UNBOUND
    return MODES_SHORT


# ------------------------------------------------------------------------------------------ child side
_loaded = {}


def _load(light):
    k = light['so']
    if k not in _loaded:
        mod = farm.load(light['so'], light['name'])
        cmod = farm.load(light['callers_so'], light['callers_name'])
        g = {'__name__': light['name'] + '_ref', '__builtins__': __builtins__}
        exec(compile(light['source'], '<ref:%s>' % light['name'], 'exec'), g)
        cg = {'__name__': 'callers_ref', '__builtins__': __builtins__}
        exec(compile(light['callers_source'], '<ref:callers>', 'exec'), cg)
        _loaded[k] = (mod, cmod, g, _NS(cg))
    return _loaded[k]


class _NS:
    def __init__(self, d):
        self.__dict__.update(d)


def _outcome(call, f, cm, s):
    try:
        v = call(f, cm, s)
        return ('ok', canon(v))
    except BaseException as e:
        if isinstance(e, (KeyboardInterrupt, SystemExit)):
            raise
        return ('exc', type(e).__name__)


def _sweep(case):
    """case: (light, [(sigtag, kind, accessor, pre, names, maxpos, kwfree, wide)])"""
    light, work = case
    mod, cmod, ref, cref = _load(light)
    mvars = vars(mod)
    evals = 0
    mism = []
    more = 0
    pairs = set()
    oks = excs = 0
    for sigtag, kind, accessor, pre, names, maxpos, kwfree, wide in work:
        if kind == 'inline':
            got = _outcome(lambda f, cm, s: f(), eval(accessor, mvars), None, None)
            exp = _outcome(lambda f, cm, s: f(), eval(accessor, ref), None, None)
            evals += 1
            pairs.add(hash((accessor, exp)))
            if got != exp:
                mism.append((sigtag, kind, accessor, 'call0', (0, ()), exp, got))
            continue
        acode = compile(accessor, '<accessor>', 'eval')
        pcode = compile(accessor.split('.')[0] + '()', '<accessor>', 'eval') if pre else None
        shapes = shapes_for(names, maxpos)
        if kwfree:
            shapes = [sh for sh in shapes if not sh[1]]
        for mode in modes_for(kind, kwfree, wide, light.get('cfg')):
            if kwfree and mode.endswith(':nonstr'):
                continue
            for sh in shapes:
                call = _CALLERS.get(mode, sh, pre)
                # fresh function object / instance for each side and call
                fc = eval(acode, mvars)
                fr = eval(acode, ref)
                sc = sr = None
                if pre:
                    sc = eval(pcode, mvars)
                    sr = eval(pcode, ref)
                exp = _outcome(call, fr, cref, sr)
                got = _outcome(call, fc, cmod, sc)
                evals += 1
                pairs.add(hash((accessor, exp)))
                if exp[0] == 'ok':
                    oks += 1
                else:
                    excs += 1
                if got != exp:
                    if len(mism) < 300:
                        mism.append((sigtag, kind, accessor, mode, sh, exp, got))
                    else:
                        more += 1
    return {'evals': evals, 'mismatches': mism, 'more': more, 'pairs': len(pairs), 'ok': oks, 'exc': excs}


# ------------------------------------------------------------------------------------------ parent side
KINDGROUP = {'def': 'pyfunc', 'meth': 'pyfunc', 'umeth': 'pyfunc', 'static': 'pyfunc', 'class': 'pyfunc', 'obj': 'pyfunc',
             'closure': 'pyfunc', 'lambda': 'pyfunc', 'cpdef': 'cpdef', 'inline': 'inline',
             'xmeth': 'cclass', 'xumeth': 'cclass', 'xstatic': 'cclass', 'xclass': 'cclass', 'xobj': 'cclass'}


def key_for(cfg, sig_stars, kind, mode, shape, exp, got):
    """Normalised root key: build | function-kind group | call path (keyword order / late binding collapsed) |
    whether the signature has **kw | divergence class."""
    mode = mode.replace('-rev', '').replace('-late', '')
    return '%s|%s|%s|stars=%s|%s' % (cfg, KINDGROUP[kind], mode, '**' if '**' in sig_stars else '-', e2.divclass(exp, got))


CONFIGS = {
    'default': dict(cflags=(), directives=None, kwfree=False),
    'novec': dict(cflags=('-DCYTHON_VECTORCALL=0',), directives=None, kwfree=False, lean=True),
    'aak0': dict(cflags=(), directives={'always_allow_keywords': False}, kwfree=True),
    'nobind': dict(cflags=(), directives={'binding': False}, kwfree=False),
}
PRELUDE = 'import cython\n'
PER_MOD = 24


def plan(tier):
    maxn = 3 if tier == 'quick' else 4
    sigs = signatures(maxn)
    if os.environ.get('C24_DEV_STEP'):      # development aid only: evidence is then marked non-exhaustive
        sigs = sigs[::int(os.environ['C24_DEV_STEP'])]
    cfgs = ['default', 'novec', 'aak0'] + (['nobind'] if tier != 'quick' else [])
    return maxn, sigs, cfgs


def run(ctx):
    maxn, sigs, cfgs = plan(ctx.tier)
    wides = wide_signatures()
    names_small = NAMES[:maxn]
    shapes_small = shapes_for(names_small, maxn + 1)
    csrc = callers_source(shapes_small)
    workdir = ctx.workdir('c24')
    mods, meta = [], {}
    sigstars = {}
    for cfg in cfgs:
        c = CONFIGS[cfg]
        use = [s for s in sigs if len(s.params) <= 1] if cfg == 'aak0' else sigs
        parts = []
        for i, s in enumerate(use):
            src, acc = part_for(i, s, lean=c.get('lean', False))
            sigstars[s.tag] = s.stars
            funcs = [(s.tag, kind, expr, pre, tuple(names_small), maxn + 1, c['kwfree'], False) for kind, expr, pre in acc]
            parts.append((e2.Part(src, []), funcs))
        if cfg in ('default', 'novec'):
            for j, s in enumerate(wides):
                src, acc = part_for(9000 + j, s, wide=True)
                sigstars[s.tag] = s.stars
                funcs = [(s.tag, kind, expr, pre, tuple(NAMES), 7, False, True) for kind, expr, pre in acc]
                parts.append((e2.Part(src, []), funcs))
        for b in range(0, len(parts), PER_MOD):
            chunk = parts[b:b + PER_MOD]
            m = e2.Mod('c24%s_%d' % (cfg, b // PER_MOD), PRELUDE, [p for p, _ in chunk], {}, ext='.py',
                       cflags=c['cflags'], directives=c['directives'])
            m.cfg = cfg
            m.partfuncs = {id(p): f for p, f in chunk}
            mods.append(m)
        cm = e2.Mod('c24callers_%s' % cfg, '', [e2.Part(csrc, [])], {}, ext='.py', cflags=c['cflags'],
                    directives=c['directives'])
        cm.cfg = cfg
        cm.partfuncs = {}
        cm.is_callers = True
        mods.append(cm)
    ctx.log('%d signatures (+%d wide), %d shapes, %d modules to build' % (len(sigs), len(wides), len(shapes_small), len(mods)))
    built, failures = e2.build_all(ctx, mods, workdir)
    ctx.log('built %d modules, %d failures' % (len(built), len(failures)))
    for m, r in failures:
        ctx.violation('build-failure|%s|%s' % (m.cfg, r.stage), 'program does not build (%s): %s' % (r.stage, r.errors[-800:]),
                      {'kind': 'build', 'source': m.source, 'ext': '.py', 'directives': m.directives,
                       'cflags': list(m.cflags), 'cplus': False, 'stage': r.stage, 'errors': r.errors[-3000:]})
    callers = {m.cfg: m for m in built if getattr(m, 'is_callers', False)}
    reach = {k: 0 for k in REACH}
    cases, owners = [], []
    nfuncs = 0
    for m in built:
        try:
            with open(m.c_file, encoding='utf-8', errors='replace') as f:
                txt = f.read()
            for k in REACH:
                if k in txt:
                    reach[k] += 1
        except OSError:
            pass
        if getattr(m, 'is_callers', False) or m.cfg not in callers:
            continue
        cm = callers[m.cfg]
        light = dict(name=m.name, so=m.so, source=m.source, callers_so=cm.so, callers_name=cm.name, callers_source=csrc, cfg=m.cfg)
        for p in m.parts:
            funcs = m.partfuncs[id(p)]
            nfuncs += len(funcs)
            # wide signatures are heavy: one case per accessor
            if funcs and funcs[0][7]:
                for f in funcs:
                    cases.append((light, [f])); owners.append((m, p))
            else:
                cases.append((light, funcs)); owners.append((m, p))
    order = list(range(len(cases)))
    if ctx.seed:
        import random
        random.Random(ctx.seed).shuffle(order)
    cases = [cases[i] for i in order]
    owners = [owners[i] for i in order]
    ctx.log('sweeping %d function objects in %d cases' % (nfuncs, len(cases)))
    # modules built with different C macros must never be loaded into one process: the CyFunction type object is
    # shared between all Cython modules of a process through the ABI module, whatever CYTHON_VECTORCALL they were built with
    results = [None] * len(cases)
    groups = {}
    for i, (m, p) in enumerate(owners):
        groups.setdefault(tuple(m.cflags), []).append(i)
    for cf in sorted(groups):
        idx = groups[cf]
        rs = runner.run_cases(_sweep, [cases[i] for i in idx], timeout=1500, scratch=ctx.scratch)
        for i, r in zip(idx, rs):
            results[i] = r
    st = {'evaluations': 0, 'pairs': 0, 'mismatches': 0, 'crashes': 0, 'ref_ok': 0, 'ref_typeerror': 0}
    for (light, work), (m, p), r in zip(cases, owners, results):
        if r[0] == 'ok':
            v = r[1]
            st['evaluations'] += v['evals']
            st['pairs'] += v['pairs']
            st['mismatches'] += len(v['mismatches']) + v['more']
            st['ref_ok'] += v['ok']
            st['ref_typeerror'] += v['exc']
            for sigtag, kind, accessor, mode, sh, exp, got in v['mismatches']:
                ctx.violation(key_for(m.cfg, sigstars.get(sigtag, '?'), kind, mode, sh, exp, got),
                              '[%s] def(%s) %s via %s %s: expected %s got %s' % (m.cfg, sigtag, accessor, mode,
                                                                             direct_text(tuple(sh)), short(exp), short(got)),
                              {'kind': 'c24', 'cfg': m.cfg, 'source': PRELUDE + p.src, 'callers_source': csrc,
                               'work': [w for w in work if w[2] == accessor][0], 'mode': mode, 'shape': [sh[0], list(sh[1])],
                               'expected': exp, 'got': got})
        elif r[0] in ('crash', 'timeout'):
            st['crashes'] += 1
            ctx.violation('%s|crash|%s' % (m.cfg, r[0]), '[%s] %s (%s) while sweeping def(%s): %s' % (
                m.cfg, r[0], r[1], work[0][0], (r[2] or '')[-500:]),
                {'kind': 'c24-crash', 'cfg': m.cfg, 'source': PRELUDE + p.src, 'callers_source': csrc, 'work': work})
        else:
            ctx.violation('harness-exc|%s' % m.cfg, 'driver exception: %s' % r[1][-1500:],
                          {'kind': 'harness', 'trace': r[1][-3000:]})
    gaps = sorted(k for k, v in reach.items() if not v)
    for k in gaps:
        ctx.log('WARN reach gap: %s' % k)
    ex_sig = sigs[len(sigs) // 2]
    cov = {
        'evaluations': st['evaluations'], 'distinct_nontrivial': st['pairs'],
        'rule': 'complete product (signature x function kind) x (call mode x positional count x keyword subset) x build; '
                'counted once per distinct (function object accessor, reference outcome) pair',
        'signatures': len(sigs), 'wide_signatures': len(wides), 'max_params': maxn, 'function_objects': nfuncs,
        'shapes_per_function': len(shapes_small), 'modes': MODES_PY + MODES_C + ['cmeth', 'pymeth', 'call0'],
        'modes_for_kinds_sharing_parsing_code': MODES_SHORT,
        'configs': cfgs, 'modules_built': len(built), 'build_failures': len(failures),
        'reference_ok_outcomes': st['ref_ok'], 'reference_typeerror_outcomes': st['ref_typeerror'],
        'mismatches': st['mismatches'], 'crashes': st['crashes'], 'reach': reach, 'reach_gaps': gaps,
        'samples': [{'signature': 'def f(%s)' % ex_sig.text, 'call': direct_text(shapes_small[37]), 'mode': 'star:strsub'},
                    {'signature': 'def f(%s)' % sigs[-1].text, 'call': direct_text(shapes_small[-1]), 'mode': 'cdirect'},
                    {'signature': 'def f(%s)' % wides[3].text, 'call': direct_text((4, ('aa', 'dd', 'zz'))), 'mode': 'direct'}],
        'exhaustive': not os.environ.get('C24_DEV_STEP'),
    }
    return cov, ['signatures with more than %d parameters are covered only by the 8 wide signatures' % maxn,
                 'exception messages are not compared']


def replay(ctx, case):
    if case.get('kind') == 'build':
        return e2.replay(ctx, case)
    if case.get('kind') not in ('c24', 'c24-crash'):
        return 'not replayable'
    c = CONFIGS[case['cfg']]
    wd = ctx.workdir('replay')
    r = farm.build('c24replay', case['source'], wd, ext='.py', cflags=c['cflags'], directives=c['directives'])
    rc = farm.build('c24replay_callers', case['callers_source'], wd, ext='.py', cflags=c['cflags'], directives=c['directives'])
    if not (r.ok and rc.ok):
        return 'does not build: %s %s' % (r.errors[-400:], rc.errors[-400:])
    light = dict(name='c24replay', so=r.so, source=case['source'], callers_so=rc.so, callers_name='c24replay_callers',
                 callers_source=case['callers_source'], cfg=case['cfg'])
    work = case['work'] if case['kind'] == 'c24-crash' else [case['work']]
    work = [tuple(tuple(x) if isinstance(x, list) else x for x in w) for w in work]
    res = runner.run_cases(_sweep, [(light, work)], timeout=600, scratch=ctx.scratch)[0]
    if res[0] != 'ok':
        return '%s: %r' % (res[0], res[1:])
    want = None
    if case['kind'] == 'c24':
        want = (case['mode'], (case['shape'][0], tuple(case['shape'][1])))
    for sigtag, kind, accessor, mode, sh, exp, got in res[1]['mismatches']:
        if want is None or (mode, (sh[0], tuple(sh[1]))) == want:
            return 'def(%s) %s via %s %s: expected %s got %s' % (sigtag, accessor, mode, direct_text(tuple(sh)), short(exp), short(got))
    return False
