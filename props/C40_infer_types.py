"""C40 - safe type inference never changes pure-Python results.

Small-scope enumeration: ALL functions `f(n)` made of one initialisation of the untyped local x (int / bool / float
literals, the argument, results of typed helpers such as len(), ord(), float(), abs(), a comparison) followed by
every sequence of <= 2 transformer templates (thorough adds: every init x every single transformer, the 7 extra inits x all
pairs over 12 transformers, triples over 4 transformers for 4 inits; ~5k programs): loops that grow x
(x = x * 2, x *= 2, x += x, x = x * x, x = x * 10 + d, x = x * 3 + 1, x += i * i with a while counter, Fibonacci
tuple swap, x += 0.5), conditional rebinds to another type (float / int / str on a branch), / // ** % << unary minus,
constant offsets around 2**31, bool mixing, reuse of x as a loop variable or as a while counter, capture of x by a
closure.  Every function runs for ALL iteration counts n in {0, 1, 2, 31, 32, 62, 63, 64, 65, 100}, so integers cross
2**31 and 2**62..2**64.  Each function is compiled twice: infer_types=None (default, safe) and infer_types=False.
Oracle: the two builds must give identical (type, value) outcomes; CPython on the same source is run as well and
only serves to say which build is wrong (a divergence from CPython that both builds share is not a C40 matter and is
only counted).
"""
import itertools
from vlib import e2, farm
from props._g6_common import ConfirmCtx, run_diff, storm_note

LEVEL = 'exploration'
ENGINE = 'E2 diffexplore'
TECHNIQUE = 'exhaustive init x transformer-template sequences x boundary iteration counts, infer_types=None build vs infer_types=False build (CPython as arbiter)'
LEVEL_TEXT = ('Every function made of one initialisation of an untyped local (literals, argument, typed-helper results) and every '
              'sequence of <= 2 transformer templates (21 quick / 31 thorough: growing loops, hash-style loops with the variable under '
              '^ | & inside a multiplication, conditional rebinds to other types, '
              'division/power/shift/modulo, offsets around 2**31, bool mixing, loop-variable reuse, closure capture; thorough adds '
              'all inits x single transformers, 7 more inits x pairs over 12 transformers, triples over 4 transformers) is compiled with infer_types=None and with infer_types=False and run '
              'for every iteration count in {0,1,2,31,32,62,63,64,65,100}; the (type, value) outcome or exception type of the two '
              'builds must be identical for every input (CPython on the same source tells which build deviates).')
LEVEL_NOTE = ('Template sequences of bounded length over one main variable (plus loop counters); no explicit C types (outside the '
              'property).  A str rebind is only generated as the last transformer (doubling a string 100 times is a memory bomb in '
              'CPython itself); bitwise/shift templates are not generated after a float-producing template (Cython rejects `double | int` '
              'at compile time where CPython raises TypeError at run time: by design).  Divergences from CPython that both builds share are counted in the evidence, not reported (C01 '
              'covers them).  Trusted: CPython 3.12 as arbiter, gcc.')

PRELUDE = 'from props._g6_rt import D\n'
PER_MODULE = 170
COUNTS = ['0', '1', '2', '31', '32', '62', '63', '64', '65', '100']
# markers in the emitted C: object arithmetic helpers and the declarations showing that inference really typed x / counters as C
REACH = ['__Pyx_PyLong_MultiplyObjC', '__Pyx_PyLong_AddObjC', 'PyNumber_InPlaceMultiply', 'Py_ssize_t __pyx_v_x',
         'double __pyx_v_x', 'int __pyx_v_x', 'long __pyx_v_i', 'PyObject *__pyx_v_x']

INITS = [
    ('one', 'x = 1'), ('neg', 'x = -1'), ('arg', 'x = n'), ('len', 'x = len(str(n))'), ('flt', 'x = float(n)'),
    ('true', 'x = True'),
    # thorough only below
    ('zero', 'x = 0'), ('f15', 'x = 1.5'), ('m31', 'x = 2147483647'), ('cmp', 'x = n > 1'), ('ord', 'x = ord("a")'),
    ('abs', 'x = abs(n)'), ('divn', 'x = n / 4'),
]
N_INIT_Q = 6

TRANS = [
    ('dbl', 'for _ in range(n):\n    x = x * 2'),
    ('idbl', 'for _ in range(n):\n    x *= 2'),
    ('selfadd', 'for _ in range(n):\n    x += x'),
    ('sq', 'for _ in range(min(n, 7)):\n    x = x * x'),
    ('dec', 'for d in range(n):\n    x = x * 10 + d'),
    ('sumsq', 'i = 0\nwhile i < n:\n    i += 1\n    x += i * i * 16777259'),
    ('fib', 'y = 1\nfor _ in range(n):\n    x, y = y, x + y'),
    ('addhalf', 'for _ in range(n):\n    x += 0.5'),
    ('tofloat', 'if n > 1:\n    x = 1.5'),
    ('toint', 'if n > 1:\n    x = 2'),
    ('div', 'x = x / 2'),
    ('fdiv', 'x = x // 2'),
    ('pow', 'x = x ** 2'),
    ('negpow', 'x = 2 ** -n'),
    ('addc', 'x = x + 2147483647'),
    ('boolmul', 'x = x * (n > 1)'),
    ('loopvar', 'for x in range(n):\n    pass'),
    ('closure', 'def g():\n    return x * 2\nx = g()'),
    # the loop-carried variable occurs only under a bitwise operator inside the overflowing arithmetic
    ('xormul', 'for i in range(n):\n    x = (x ^ i) * 16777619'),
    ('ormul', 'for _ in range(n):\n    x = (x | 1) * 3'),
    ('andmul', 'for _ in range(n):\n    x = (x & 281474976710655) * 16777619 + (x >> 3)'),
    # thorough only below
    ('tri', 'for _ in range(n):\n    x = x * 3 + 1'),
    ('twopow', 'x = 2 ** n'),
    ('neg', 'x = -x'),
    ('shl', 'x = x << n'),
    ('mod', 'x = x % 1000'),
    ('sub31', 'x = x - 2147483648'),
    ('whilecnt', 'k = 0\nwhile x < n and k < 150:\n    x += 1\n    k += 1'),
    ('swap', 'y = n\nx, y = y, x'),
    ('strlen', 't = ""\nfor i in range(n):\n    t += "ab"\nx = x + len(t)'),
    ('idiv', 'x /= 1'),
]
N_TRANS_Q = 21
LAST_ONLY = [('tostr', 'if n > 2:\n    x = "a"')]       # only ever the last transformer
TRIPLE_SET = ('dbl', 'sq', 'fib', 'toint', 'tofloat', 'div', 'addc', 'loopvar')


def family(tier):
    """List of (tag, function body lines)."""
    q = tier == 'quick'
    out = []
    trans = TRANS[:N_TRANS_Q]
    for iname, isrc in INITS[:N_INIT_Q]:
        for t1n, t1 in trans + LAST_ONLY:
            out.append(('%s;%s' % (iname, t1n), [isrc, t1]))
        for (t1n, t1), (t2n, t2) in itertools.product(trans, trans + LAST_ONLY):
            out.append(('%s;%s;%s' % (iname, t1n, t2n), [isrc, t1, t2]))
    if not q:
        # thorough (sized from the measured rate: 14.4k programs took 45 min, the bound is ~5k): every init with every single
        # transformer, the 7 extra inits with all pairs over the first 12 transformers, the 4 basic inits with all triples
        # over 4 transformers
        seen = set(t for t, _ in out)
        extra = []
        for iname, isrc in INITS:
            for t1n, t1 in TRANS + LAST_ONLY:
                extra.append(('%s;%s' % (iname, t1n), [isrc, t1]))
        for iname, isrc in INITS[N_INIT_Q:]:
            for (t1n, t1), (t2n, t2) in itertools.product(TRANS[:12], TRANS[:12] + LAST_ONLY):
                extra.append(('%s;%s;%s' % (iname, t1n, t2n), [isrc, t1, t2]))
        tr = [t for t in TRANS if t[0] in ('dbl', 'fib', 'toint', 'addc')]
        for iname, isrc in INITS[:4]:
            for a, b, c in itertools.product(tr, tr, tr):
                extra.append(('%s;%s;%s;%s' % (iname, a[0], b[0], c[0]), [isrc, a[1], b[1], c[1]]))
        out.extend(e for e in extra if e[0] not in seen)
    return [(tag, lines) for tag, lines in out if not _bitwise_on_float(tag)]


_FLOATY = {'flt', 'f15', 'divn', 'addhalf', 'tofloat', 'div', 'negpow', 'idiv'}
_BITWISE = {'xormul', 'ormul', 'andmul', 'shl'}


def _bitwise_on_float(tag):
    """A bitwise/shift template together with a float-producing template in one function (either order: safe inference types
    an int-and-float variable as `double`, the registered known finding).  x |= .. / x << .. on a float: CPython raises TypeError only when the statement is reached with a
    float, Cython (having inferred `double`) rejects the function at compile time - by design, not generated."""
    parts = set(tag.split(';'))
    return bool(parts & _BITWISE) and bool(parts & _FLOATY)


def render(name, lines):
    body = '\n'.join('    ' + ln for blk in lines for ln in blk.split('\n'))
    return 'def %s(n):\n%s\n    return D(x)\n' % (name, body)


class _Collector:
    """Stands in for ctx during run_diff: collects the per-build divergences from CPython so that they can be paired."""
    def __init__(self, ctx):
        self._ctx = ctx
        self.items = []
        self.scratch = ctx.scratch
        self.confirm = ConfirmCtx(ctx, None)

    def workdir(self, name):
        return self._ctx.workdir(name)

    def log(self, msg):
        self._ctx.log(msg)

    def violation(self, key, what, case):
        if case.get('kind') != 'e2':
            return self._ctx.violation('C40|' + key, what, case)
        if self.confirm._is_crash(case) and not self.confirm.confirm('crash|' + case['tag'].split(':', 1)[0], case):
            # a crash that does not reproduce when exactly this evaluation is replayed is not evidence (see ConfirmCtx)
            if len(self.confirm.unreproduced) < 20:
                self.confirm.unreproduced.append({'tag': case['tag'], 'input': case['input'], 'what': str(what)[:300]})
            self._ctx.log('crash not reproduced on replay (not reported): %s' % str(what)[:160])
            return False
        self.items.append((key, what, case))
        return True


def _kind(outcome):
    """'int' / 'float' / 'bigint' / ... from the D() digest in a canon()ed outcome, 'exc:T' for exceptions, 'crash'."""
    if not outcome:
        return 'crash'
    if outcome[0] == 'exc':
        return 'exc:%s' % outcome[1]
    if outcome[0] != 'ok':
        return str(outcome[0])
    try:
        v = outcome[1]
        first = v[1][0]
        if first[0] == 'str':
            return first[1].strip("'")
        return first[0]
    except Exception:
        return 'value'


def run(ctx):
    fam = family(ctx.tier)
    if ctx.seed:
        k = (ctx.seed * 7919) % len(fam)
        fam = fam[k:] + fam[:k]
    wd = ctx.workdir('c40')
    farm.build('warm', 'x = 1\n', wd, ext='.py', cc=False)
    ctx.log('%d programs x 2 builds' % len(fam))
    inputs = {'n': [(c,) for c in COUNTS]}
    mods = []
    srcs = {}
    for cfg, directives in (('S', {'infer_types': None}), ('N', {'infer_types': False})):
        for i in range(0, len(fam), PER_MODULE):
            parts = []
            for j, (tag, lines) in enumerate(fam[i:i + PER_MODULE]):
                name = 'f%d' % (i + j)
                src = render(name, lines)
                srcs[tag] = src
                parts.append(e2.Part(src, [e2.Func(name, cfg + ':' + tag, 'n')]))
            mods.append(e2.Mod('c40%s_%d' % (cfg, i // PER_MODULE), PRELUDE, parts, inputs, ext='.py',
                               directives=directives, use_log=False))
    col = _Collector(ctx)
    st = run_diff(col, mods, reach=REACH, stormkey=lambda tag, inp, exp, got: 'C40|crash|' + tag.split(':', 1)[0])
    # pair the divergences of the two builds
    by = {}
    for key, what, case in col.items:
        cfg, tag = case['tag'].split(':', 1)
        by.setdefault((tag, tuple(case['input'])), {})[cfg] = (what, case)
    common = 0
    differ = 0
    for (tag, inp), d in sorted(by.items()):
        gs = d.get('S', (None, None))[1]
        gn = d.get('N', (None, None))[1]
        if gs is not None and gn is not None and gs['got'] == gn['got']:
            common += 1          # both builds agree with each other: not an inference matter
            continue
        differ += 1
        which = 'safe-inference-build-deviates' if gn is None else ('no-inference-build-deviates' if gs is None else 'both-deviate-differently')
        case = dict(gs or gn)
        exp, got = case.get('expected'), case.get('got')
        # root key: which build deviates | result kind under CPython -> result kind in the deviating build (the template
        # sequence and the iteration count are dropped: one unsafe inference decision shows up in dozens of sequences)
        cls = '%s->%s' % (_kind(exp), _kind(got))
        case['other_build'] = (gn or gs) if (gs and gn) else None
        ctx.violation('C40|%s|%s' % (which, cls),
                      '%s n=%s: infer_types=None -> %s ; infer_types=False -> %s ; CPython -> %s' % (
                          tag, inp[0], e2.short(gs['got']) if gs else 'as CPython', e2.short(gn['got']) if gn else 'as CPython',
                          e2.short(exp)), case)
    cov = {
        'evaluations': st['evaluations'], 'distinct_nontrivial': st['pairs'],
        'rule': 'a case is counted once per distinct (function, build, reference outcome) pair: iteration counts giving the same '
                'outcome for the same function collapse',
        'programs': len(fam), 'compiled_functions': st['programs'], 'modules_built': st['modules_built'],
        'builds': ['infer_types=None', 'infer_types=False'], 'iteration_counts': COUNTS,
        'build_pairs_differing': differ, 'divergences_from_cpython_common_to_both_builds': common,
        'mismatches_vs_cpython_raw': st['mismatches'], 'crashes': st['crashes'], 'build_failures': st['build_failures'],
        'crashes_not_reproduced_on_replay': col.confirm.unreproduced,
        'reach': st.get('reach'), 'reach_gaps': st.get('reach_gaps'),
        'samples': [{'tag': t, 'function': srcs[t]} for t in (fam[5][0], fam[len(fam) // 2][0], fam[-3][0])],
        'exhaustive': True,
    }
    storm_note(cov, st)
    return cov, ['template sequences longer than the bound and programs with explicit C types are not covered',
                 'divergences from CPython shared by both builds are outside this property (counted only)']


def replay(ctx, case):
    """Re-run the single evaluation in both builds; the property holds iff the two builds agree."""
    outs = {}
    for cfg, directives in (('S', {'infer_types': None}), ('N', {'infer_types': False})):
        c = dict(case)
        c['directives'] = directives
        c['name'] = 'c40r' + cfg
        r = e2.replay(_Quiet(ctx), c)
        outs[cfg] = r
    if outs['S'] == outs['N']:
        return False
    return 'builds differ: infer_types=None: %s ; infer_types=False: %s' % (outs['S'] or 'as CPython', outs['N'] or 'as CPython')


class _Quiet:
    def __init__(self, ctx):
        self.scratch = ctx.scratch
        self._ctx = ctx

    def workdir(self, name):
        return self._ctx.workdir(name)

    def log(self, msg):
        pass
