"""C17 - buffer acquisition accepts exactly the matching buffers.

A compiled `cdef class Exporter` hands out caller-supplied format / itemsize / ndim / shape / strides / suboffsets /
readonly over caller-supplied bytes.  Every format string of a bounded struct-module / PEP-3118 grammar is offered to
every declared dtype (typed memoryviews `T[:]` of all C numeric types, float/double complex, a packed struct, an
aligned struct {char; int; double}, a nested struct; legacy `object[T, ndim=1]` buffers for a subset) and the
accept/reject decision is compared with an independent layout model (props/_g9_bufmodel.py: struct-module sizes,
alignment and byte-order rules; leaf lists (offset, class, size) must be equal; itemsize must equal sizeof(T)).
On accept every element read through the view must equal the value decoded from the raw bytes with the struct
module; on reject the exception must be ValueError/TypeError/BufferError; the buffer must be released either way.
A second complete family varies the geometry (ndim, shape, strides, suboffsets, readonly, itemsize) against every
contiguity declaration.
"""
import itertools, os, struct
from vlib import farm, runner
from props import _g9_bufmodel as M

LEVEL = 'exploration'
ENGINE = 'E2 diffexplore'
TECHNIQUE = 'exhaustive struct-grammar format enumeration x declared dtypes through a compiled configurable exporter, vs struct-module layout model'
LEVEL_TEXT = ('All format strings: 7 byte-order prefixes x sequences of <=2 items [count in {"",1,2,3}] x 24 codes, sequences of 3 (4 '
              'thorough) items over a reduced alphabet, T{} nesting (depth <=2, counts, :name: fields, whitespace), explicit-padding near-matches of every struct '
              'dtype (pad counts -1/0/+1) and a malformed list, are exported by a compiled Exporter to 21 declared dtypes (typed memoryviews + legacy buffers); the '
              'accept/reject decision must equal an independent struct-module layout model, accepted views must read the '
              'struct-decoded element values, rejections must be ValueError/TypeError/BufferError and every acquired buffer '
              'must be released.  Complete geometry family: ndim x extents x stride patterns x suboffsets x readonly x itemsize '
              'against [:], [::1], [:, :], [:, ::1], [::1, :], const declarations.')
LEVEL_NOTE = ('Bounded grammar (item count, counts 1..3 (no zero counts), nesting <=2).  Removed as by-design/unspecified: s/p string items (treated '
              'as chars), T{} layouts where C struct padding, first-member padding and no padding disagree (PEP 3118 leaves it '
              'open), exporters whose format size differs from itemsize, exporters ignoring the WRITABLE/FORMAT request flags, '
              'object dtype, array-member structs via repeat counts (only the (n) syntax is accepted by design), indirect '
              'declarations.  Big-endian formats must be rejected on this little-endian host.  Trusted: struct module, gcc ABI.')

CODES_FULL = ['x', 'c', 'b', 'B', '?', 'h', 'H', 'i', 'I', 'l', 'L', 'q', 'Q', 'n', 'N', 'e', 'f', 'd', 'g', 'Zf', 'Zd', 'Zg', 'O', 'P']
COUNTS = ['', '1', '2', '3']
PREFIXES = ['', '@', '=', '<', '>', '!', '^']
CODES_RED = ['x', 'c', 'B', 'h', 'i', 'l', 'q', 'f', 'd', 'Zd']
REACH = ['__Pyx_BufFmt_CheckString', '__Pyx_BufFmt_ProcessTypeChunk', '__Pyx_ValidateAndInit_memviewslice',
         '__Pyx__GetBufferAndValidate', '__pyx_verify_contig', '__pyx_check_strides']
OK_EXC = ('ValueError', 'TypeError', 'BufferError')

SCALARS = [k for k in M.DTYPES if k not in ('PK', 'AL', 'NS', 'CS', 'T3')]
ALL_DT = list(M.DTYPES)
LEGACY_DT = ['int', 'double', 'uchar', 'AL', 'cdouble', 'CS', 'T3']


# ------------------------------------------------------------------------------------------ compiled module
def module_source():
    s = '''# cython: boundscheck=True, wraparound=False
from cpython.buffer cimport PyBUF_WRITABLE, PyBUF_FORMAT
from cpython.bytearray cimport PyByteArray_AS_STRING

cdef packed struct PK:
    char c
    int i
    double d

cdef struct AL:
    char c
    int i
    double d

cdef struct IN:
    int x
    short y

cdef struct NS:
    char a
    IN inner
    double d

cdef struct CS:
    double re
    double im

cdef struct T3:
    int a
    int b
    int c

cdef class Exporter:
    cdef object data
    cdef bytes fmt
    cdef Py_ssize_t itemsize, offset
    cdef int ndim
    cdef Py_ssize_t shape[4]
    cdef Py_ssize_t strides[4]
    cdef Py_ssize_t suboffsets[4]
    cdef bint has_sub, readonly
    cdef public int exports, releases, flags_seen

    def __init__(self, data, bytes fmt, Py_ssize_t itemsize, shape, strides, bint readonly=False, suboffsets=None, Py_ssize_t offset=0):
        self.data = data
        self.fmt = fmt
        self.itemsize = itemsize
        self.offset = offset
        self.ndim = len(shape)
        for k in range(self.ndim):
            self.shape[k] = shape[k]
            self.strides[k] = strides[k]
            self.suboffsets[k] = -1 if suboffsets is None else suboffsets[k]
        self.has_sub = suboffsets is not None
        self.readonly = readonly
        self.exports = 0
        self.releases = 0

    def __getbuffer__(self, Py_buffer *view, int flags):
        cdef Py_ssize_t n = 1
        self.flags_seen = flags
        if self.readonly and (flags & PyBUF_WRITABLE):
            raise BufferError("exporter is read-only")
        for k in range(self.ndim):
            n *= self.shape[k]
        view.buf = PyByteArray_AS_STRING(self.data) + self.offset
        view.obj = self
        view.len = n * self.itemsize
        view.itemsize = self.itemsize
        view.readonly = self.readonly
        view.ndim = self.ndim
        view.format = <char *> self.fmt
        view.shape = self.shape
        view.strides = self.strides
        view.suboffsets = self.suboffsets if self.has_sub else NULL
        view.internal = NULL
        self.exports += 1

    def __releasebuffer__(self, Py_buffer *view):
        self.releases += 1

'''
    for name, (ctype, _, _) in M.DTYPES.items():
        s += 'def a_%s(obj):\n    cdef %s[:] v = obj\n    return [v[i] for i in range(v.shape[0])]\n\n' % (name, ctype)
    for name, (ctype, _, _) in M.DTYPES.items():
        s += 'def a2_%s(obj):\n    cdef %s[:, :] v = obj\n    return [v[i, j] for i in range(v.shape[0]) for j in range(v.shape[1])]\n\n' % (name, ctype)
    for name in LEGACY_DT:
        ctype = M.DTYPES[name][0]
        s += 'def leg_%s(object[%s, ndim=1] b):\n    return [b[i] for i in range(3)]\n\n' % (name, ctype)
    for name in ('int', 'AL'):
        ctype = M.DTYPES[name][0]
        for tag, decl in GEO_DECLS.items():
            nd = decl.count(',') + 1
            idx = ', '.join('i%d' % k for k in range(nd))
            loops = ''.join(' for i%d in range(v.shape[%d])' % (k, k) for k in range(nd))
            s += 'def g_%s_%s(obj):\n    cdef %s%s v = obj\n    return [v[%s]%s]\n\n' % (tag, name, ('const ' if tag.startswith('k') else '') + ctype, decl, idx, loops)
    return s


GEO_DECLS = {'s1': '[:]', 'c1': '[::1]', 'k1': '[:]', 's2': '[:, :]', 'c2': '[:, ::1]', 'f2': '[::1, :]', 'k2': '[:, ::1]', 's3': '[:, :, :]'}


# ------------------------------------------------------------------------------------------ format families
def items_over(codes, counts):
    return [(c, n) for c in codes for n in counts]


def fam_seq2():
    its = items_over(CODES_FULL, COUNTS)
    for p in PREFIXES:
        for it in its:
            yield p, (it,), 0
        for a in its:
            for b in its:
                yield p, (a, b), 0


def fam_seq3(n=3, codes=CODES_RED, counts=('', '2')):
    its = items_over(codes, counts)
    for p in ('', '@', '=', '<', '^'):
        for seq in itertools.product(its, repeat=n):
            yield p, seq, 0


def fam_nest(thorough=False):
    inner_items = items_over(['c', 'h', 'i', 'd', 'x'], ['', '2'])
    inners = [(a,) for a in inner_items] + [(a, b) for a in inner_items for b in inner_items]
    if thorough:
        inners += [(a, b, c) for a in items_over(['c', 'h', 'i', 'd'], ['']) for b in items_over(['c', 'h', 'i', 'd', 'x'], ['']) for c in items_over(['c', 'h', 'i', 'd'], [''])]
    outer = items_over(['c', 'i', 'd', 'x'], [''])
    for p in ('', '=', '^'):
        for inner in inners:
            for tc in ('', '2'):
                T = ('T', tc, inner)
                pats = [(T,)] + [(a, T) for a in outer] + [(T, a) for a in outer] + [(a, T, b) for a in outer for b in outer]
                for seq in pats:
                    for style in (0, 1, 2):
                        yield p, seq, style
    # depth 2
    for p in ('', '='):
        for x1 in (('i', ''), ('c', ''), ('d', '')):
            for in2 in ((('h', ''),), (('i', ''), ('c', '')), (('c', ''), ('i', ''))):
                for tail in ((), (('d', ''),), (('c', ''),)):
                    for lead in ((), (('c', ''),)):
                        seq = lead + (('T', '', (x1, ('T', '', in2))),) + tail
                        yield p, seq, 0
                        seq = lead + (('T', '', (('T', '', in2), x1)),) + tail
                        yield p, seq, 0


def fam_styles():
    """names / whitespace renderings of every 1..2 item sequence over the reduced alphabet."""
    its = items_over(CODES_RED + ['b', 'I', 'Q', 'g', 'Zf'], ['', '2'])
    for p in ('', '=', '^'):
        for style in (1, 2):
            for a in its:
                yield p, (a,), style
                for b in its:
                    yield p, (a, b), style


LEAFCODE = {('H', 1): 'c', ('I', 2): 'h', ('I', 4): 'i', ('R', 8): 'd', ('R2', 8): 'd'}


def fam_holes():
    """Near-match family: every struct dtype written out leaf by leaf with EXPLICIT pad bytes for the gaps, in every
    byte-order mode, each pad count also perturbed by -1/+1 and written as 'kx' or as k separate 'x'; runs of equal leaves
    are also written with every split of the repeat count (3i, i2i, 2ii, iii)."""
    for d in ('AL', 'NS', 'PK', 'T3', 'CS'):
        _, leaves, dsize = M.DTYPES[d]
        gaps = []
        pos = 0
        for off, g, size in leaves:
            gaps.append(off - pos)
            pos = off + size
        tail = dsize - pos
        for p in ('', '@', '=', '<', '^'):
            choices = []
            for g in gaps + [tail]:
                opts = []
                for gg in sorted({max(0, g - 1), g, g + 1}):
                    if gg == 0:
                        opts.append(())
                    else:
                        opts.append((('x', str(gg)),))
                        if gg > 1:
                            opts.append((('x', ''),) * gg)
                choices.append(opts)
            for combo in itertools.product(*choices):
                seq = ()
                for (off, g, size), pad in zip(leaves, combo):
                    seq += pad + ((LEAFCODE[(g, size)], ''),)
                seq += combo[-1]
                yield p, seq, 0
        if d in ('T3', 'CS'):
            code = LEAFCODE[(leaves[0][1], leaves[0][2])]
            n = len(leaves)
            for p in ('', '=', '^'):
                for split in ([n], [1, n - 1], [n - 1, 1], [1] * n, [n + 1], [n - 1], [1, n], [2, n - 1]):
                    yield p, tuple((code, '' if c == 1 else str(c)) for c in split if c > 0), 0
                    yield p, tuple((code, str(c)) for c in split if c > 0), 0


MALFORMED = ['', 'T{i', 'T{', '3', 'i3', 'y', 'Zi', 'Z', 'i}', 'T', 'Ti', '{i}', 'i y', '3 i', '-1i', 'i,i', '(', 'T{i}}', '1T{', 'ii(', '@', '=', 'x']


def families(tier):
    fams = [('seq2', fam_seq2), ('seq3', fam_seq3), ('nest', lambda: fam_nest(tier == 'thorough')), ('styles', fam_styles), ('holes', fam_holes)]
    if tier == 'thorough':
        fams.append(('seq4', lambda: fam_seq3(4, ['x', 'c', 'h', 'i', 'd'], ('', '2'))))
        fams.append(('seq3full', lambda: fam_seq3(3, ['x', 'c', 'b', 'B', '?', 'h', 'H', 'i', 'I', 'l', 'q', 'Q', 'f', 'd', 'g', 'Zf', 'Zd'], ('', '2', '3'))))
    return fams


# ------------------------------------------------------------------------------------------ child side
_mod = {}


def _load(so):
    if so not in _mod:
        _mod[so] = farm.load(so, 'c17mod')
    return _mod[so]


def raw_bytes(n):
    # bytes 0x01..0x3f: floats/doubles stay finite, pattern distinguishes every offset
    return bytearray(((7 * k + 3) % 61) + 1 for k in range(n))


def features(seq, style):
    f = set()

    def walk(its):
        for it in its:
            if it[0] == 'T':
                f.add('T')
                if it[1] not in ('', '1'):
                    f.add('Tcount')
                walk(it[2])
            else:
                if it[0] == 'x':
                    f.add('pad')
                if it[1] not in ('', '1'):
                    f.add('count')
                if it[0].startswith('Z'):
                    f.add('Z')
    walk(seq)
    codes = set()

    def cw(its):
        for it in its:
            if it[0] == 'T':
                cw(it[2])
            elif it[0] != 'x':
                codes.add(it[0])
    cw(seq)
    if len(codes) <= 1:
        f.add('code:' + ''.join(codes))
    else:
        f.add('codes%d' % min(len(codes), 3))
    if style == 1:
        f.add('names')
    if style == 2:
        f.add('ws')
    return '+'.join(sorted(f)) or 'plain'


def dt_class(name):
    if name in ('PK', 'AL', 'NS', 'CS', 'T3'):
        return 'struct:' + name
    g = M.DTYPES[name][1][0][1]
    return {'H': 'char', 'I': 'int', 'U': 'uint', 'R': 'real', 'C': 'complex'}[g] + str(M.DTYPES[name][2])


def acquire(f, exp_obj):
    try:
        vals = f(exp_obj)
    except BaseException as e:
        if isinstance(e, (KeyboardInterrupt, SystemExit)):
            raise
        return ('reject', type(e).__name__)
    return ('accept', vals)


def judge(expected, got, exporter, raw, base, itemsize, n, dtname, decoder=None):
    """-> None if fine, else divergence class string."""
    if exporter.exports != exporter.releases:
        return 'buffer-not-released'
    if got[0] == 'reject':
        if got[1] not in OK_EXC:
            return 'exc-type:' + got[1]
        return 'false-reject' if expected == 'accept' else None
    if expected == 'reject':
        return 'false-accept'
    want = decoder() if decoder else [M.decode(raw, base + k * itemsize, dtname) for k in range(n)]
    if not M._nan_eq(got[1], want):
        return 'values'
    return None


def _fmt_prepare(prefix, seq, style):
    lay = M.layout(prefix, seq)
    return lay, M.render(prefix, seq, style), M.struct_calcsize(prefix, seq)


def _fmt_eval(mod, fam, prefix, seq, style, lay, text, d, path):
    """One acquisition.  -> (outcome tuple or None if skipped, mismatch dict or None)."""
    dsize = M.DTYPES[d][2]
    size = lay['size']
    itemsize = size if size else dsize
    expected = M.expect(lay, d, itemsize)
    if expected is None:
        return None, None
    N = 3
    raw = raw_bytes(itemsize * N)
    f = getattr(mod, ('a_' if path == 'mv' else 'leg_') + d)
    ex = mod.Exporter(raw, text.encode(), itemsize, (N,), (itemsize,))
    got = acquire(f, ex)
    out = (path, d, expected, got[1] if got[0] == 'reject' else 'ok', lay['status'])
    bad = judge(expected, got, ex, raw, 0, itemsize, N, d)
    if not bad:
        return out, None
    return out, dict(key=fmt_key(path, bad, prefix, seq, style, d),
                     what='%s %s[:] <- format %r itemsize %d: model says %s, got %s' % (path, M.DTYPES[d][0], text, itemsize, expected, _short(got)),
                     fmt=text, dtype=d, kind='fmt', path=path, itemsize=itemsize, expected=expected)


def fmt_key(path, bad, prefix, seq, style, d):
    return '%s|%s|mode:%s|%s|%s' % (path, bad, M.mode_of(prefix), dt_class(d), features(seq, style))


def _paths(d):
    return ('mv', 'legacy') if d in LEGACY_DT else ('mv',)


def _fmt_work(case):
    so, fam, tier, part, nparts = case
    mod = _load(so)
    gen = dict(families(tier))[fam]
    evals = skipped = model_checks = more = 0
    outcomes = set()
    mism = []
    for q, (prefix, seq, style) in enumerate(gen()):
        if q % nparts != part:
            continue
        lay, text, cs = _fmt_prepare(prefix, seq, style)
        if cs is not None:
            model_checks += 1
            if lay['size'] != cs:
                mism.append(dict(key='model-selfcheck|%s' % fam, what='model size %r != struct.calcsize %r for %r' % (lay['size'], cs, text),
                                 fmt=text, dtype=None, kind='model'))
                continue
        for d in ALL_DT:
            for path in _paths(d):
                out, mm = _fmt_eval(mod, fam, prefix, seq, style, lay, text, d, path)
                if out is None:
                    skipped += 1
                    continue
                evals += 1
                outcomes.add(out)
                if mm:
                    if len(mism) < 80:
                        mism.append(mm)
                    else:
                        more += 1
    return dict(evals=evals, skipped=skipped, outcomes=list(outcomes), mism=mism, more=more, model_checks=model_checks)


def _single_eval(case):
    """Crash refinement: exactly one (format, dtype, path) acquisition per case."""
    so, fam, prefix, seq, style, d, path = case
    mod = _load(so)
    lay, text, cs = _fmt_prepare(prefix, seq, style)
    return _fmt_eval(mod, fam, prefix, seq, style, lay, text, d, path)


EMPTY_SHAPES = [(0,), (1,), (0, 2), (2, 0), (0, 0), (1, 1)]


def real_exporters():
    """(description, constructor expression) of real zero-/one-element exporters: array.array, bytearray, NumPy."""
    out = []
    for tc in 'bBhHiIlLqQfd':
        for n in (0, 1):
            out.append(('array.array(%r) len %d' % (tc, n), "__import__('array').array(%r, [0] * %d)" % (tc, n)))
    for n in (0, 1):
        out.append(('bytearray len %d' % n, 'bytearray(%d)' % n))
    for dt in ('int8', 'uint8', 'int16', 'uint16', 'int32', 'uint32', 'int64', 'uint64', 'float32', 'float64', 'longdouble',
               'complex64', 'complex128', 'bool', 'float16'):
        for shape in EMPTY_SHAPES:
            out.append(('numpy %s %r' % (dt, shape), "__import__('numpy').zeros(%r, dtype=%r)" % (shape, dt)))
    return out


def _empty_work(case):
    """Zero-length (and one-element) buffers: the format must be checked even when there is no element.
    Complete product: every declared dtype x every single-item format (7 prefixes x 24 codes) x shapes
    {(0,), (1,), (0,2), (2,0), (0,0), (1,1)} through the Exporter, plus every real zero/one-element exporter."""
    so, tier, part, nparts = case
    mod = _load(so)
    evals = 0
    outcomes = set()
    mism = []
    more = 0
    q = -1
    for prefix in PREFIXES:
        for code in CODES_FULL:
            q += 1
            if q % nparts != part:
                continue
            seq = ((code, ''),)
            lay, text, cs = _fmt_prepare(prefix, seq, 0)
            for d in ALL_DT:
                dsize = M.DTYPES[d][2]
                itemsize = lay['size'] if lay['size'] else dsize
                expected = M.expect(lay, d, itemsize)
                if expected is None:
                    continue
                for shape in EMPTY_SHAPES:
                    nd = len(shape)
                    n = 1
                    for e in shape:
                        n *= e
                    strides = (itemsize,) if nd == 1 else (itemsize * max(1, shape[1]), itemsize)
                    raw = raw_bytes(max(1, n) * max(itemsize, dsize))
                    for path in ('mv',):
                        ex = mod.Exporter(raw, text.encode(), itemsize, shape, strides)
                        got = acquire(getattr(mod, ('a_' if nd == 1 else 'a2_') + d), ex)
                        evals += 1
                        outcomes.add(('empty', d, expected, got[1] if got[0] == 'reject' else 'ok', n == 0, nd))

                        def decoder():
                            return [M.decode(raw, k * itemsize, d) for k in range(n)]
                        bad = judge(expected, got, ex, raw, 0, itemsize, 0, d, decoder)
                        if bad:
                            if len(mism) < 80:
                                # same key shape as the main format families (so a known format-code finding keeps its key);
                                # '|len0' marks divergences that only a zero-length buffer shows
                                key = fmt_key(path, bad, prefix, seq, 0, d) + ('|len0' if n == 0 and bad != 'false-reject' else '')
                                if n == 0 and bad == 'false-accept':
                                    key = 'zero-length|false-accept|%s|%s' % (dt_class(d), 'same-itemsize' if itemsize == dsize else 'other-itemsize')
                                mism.append(dict(key=key,
                                                 what='%s%s <- Exporter(format %r, itemsize %d, shape %r): model says %s, got %s' % (
                                                     M.DTYPES[d][0], '[:]' if nd == 1 else '[:, :]', text, itemsize, shape, expected, _short(got)),
                                                 kind='empty', fmt=text, dtype=d, itemsize=itemsize, shape=list(shape), expected=expected))
                            else:
                                more += 1
    if part == 0:
        ns = {}
        for desc, expr in real_exporters():
            obj = eval(expr, ns)
            mv = memoryview(obj)
            fmt = mv.format
            prefix = fmt[0] if fmt[0] in '@=<>!^' else ''
            code = fmt[len(prefix):]
            if code not in CODES_FULL:
                continue
            lay = M.layout(prefix, ((code, ''),))
            nd, n = mv.ndim, (mv.nbytes // mv.itemsize if mv.itemsize else 0)
            for d in ALL_DT:
                expected = M.expect(lay, d, mv.itemsize)
                if expected is None or nd not in (1, 2):
                    continue
                got = acquire(getattr(mod, ('a_' if nd == 1 else 'a2_') + d), eval(expr, ns))
                evals += 1
                outcomes.add(('real', d, expected, got[1] if got[0] == 'reject' else 'ok', n == 0, nd))
                bad = None
                if got[0] == 'reject':
                    if got[1] not in OK_EXC:
                        bad = 'exc-type:' + got[1]
                    elif expected == 'accept':
                        bad = 'false-reject'
                elif expected == 'reject':
                    bad = 'false-accept'
                elif len(got[1]) != n:
                    bad = 'values'
                if bad:
                    mism.append(dict(key='%s|%s|%s|%s' % ('zero-length-real' if n == 0 else 'one-element-real', bad, dt_class(d), desc.split()[0]),
                                     what='%s%s <- %s (format %r, itemsize %d): model says %s, got %s' % (
                                         M.DTYPES[d][0], '[:]' if nd == 1 else '[:, :]', desc, fmt, mv.itemsize, expected, _short(got)),
                                     kind='empty-real', expr=expr, dtype=d, expected=expected, nd=nd, n=n))
    return dict(evals=evals, skipped=0, outcomes=list(outcomes), mism=mism, more=more, model_checks=0)


def _special_work(case):
    """Malformed strings, zero counts, itemsize mismatches."""
    so, tier = case
    mod = _load(so)
    N = 3
    evals = 0
    outcomes = set()
    mism = []
    for text in MALFORMED:
        for d in ALL_DT:
            dsize = M.DTYPES[d][2]
            raw = raw_bytes(dsize * N)
            ex = mod.Exporter(raw, text.encode(), dsize, (N,), (dsize,))
            got = acquire(getattr(mod, 'a_' + d), ex)
            evals += 1
            outcomes.add(('malformed', d, got[0], got[1] if got[0] == 'reject' else 'ok'))
            # a malformed string must never crash, leak or raise anything but the documented errors; whether a
            # lenient parse accepts it is only judged for strings with no sensible reading at all
            bad = None
            if ex.exports != ex.releases:
                bad = 'buffer-not-released'
            elif got[0] == 'reject' and got[1] not in OK_EXC:
                bad = 'exc-type:' + got[1]
            elif got[0] == 'accept' and text in STRICT_MALFORMED:
                bad = 'false-accept'
            if bad:
                mism.append(dict(key='malformed|%s|%r' % (bad, text), what='%s[:] <- malformed format %r: %s' % (M.DTYPES[d][0], text, _short(got)),
                                 fmt=text, dtype=d, kind='fmt', path='mv', itemsize=dsize, expected='reject'))
    # itemsize mismatch with the exactly matching format
    for d in ALL_DT:
        ctype, leaves, dsize = M.DTYPES[d]
        text = CANON[d]
        for itemsize in sorted({1, dsize - 1, dsize + 1, 2 * dsize, dsize} - {0}):
            raw = raw_bytes(max(itemsize, dsize) * N)
            for path in ('mv', 'legacy'):
                if path == 'legacy' and d not in LEGACY_DT:
                    continue
                ex = mod.Exporter(raw, text.encode(), itemsize, (N,), (itemsize,))
                got = acquire(getattr(mod, ('a_' if path == 'mv' else 'leg_') + d), ex)
                expected = 'accept' if itemsize == dsize else 'reject'
                evals += 1
                outcomes.add(('itemsize', d, expected, got[0]))
                bad = judge(expected, got, ex, raw, 0, itemsize, N, d)
                if bad:
                    mism.append(dict(key='%s|%s|itemsize|%s' % (path, bad, dt_class(d)), what='%s %s[:] <- format %r itemsize %d: expected %s got %s' % (path, ctype, text, itemsize, expected, _short(got)),
                                     fmt=text, dtype=d, kind='fmt', path=path, itemsize=itemsize, expected=expected))
    return dict(evals=evals, skipped=0, outcomes=list(outcomes), mism=mism, more=0, model_checks=0)


STRICT_MALFORMED = {'3', 'y', 'Zi', 'Z', 'i y', '-1i', 'i,i', '(', 'ii(', 'Ti', 'T'}
CANON = {'char': 'c', 'schar': 'b', 'uchar': 'B', 'short': 'h', 'ushort': 'H', 'int': 'i', 'uint': 'I', 'long': 'l', 'ulong': 'L',
         'longlong': 'q', 'ulonglong': 'Q', 'float': 'f', 'double': 'd', 'longdouble': 'g', 'cfloat': 'Zf', 'cdouble': 'Zd',
         'PK': '^cid', 'AL': 'cid', 'NS': 'cT{ih}2xd', 'CS': 'dd', 'T3': '3i'}


# ---- geometry family
def stride_patterns(shape, itemsize):
    nd = len(shape)
    c = [itemsize] * nd
    for k in range(nd - 2, -1, -1):
        c[k] = c[k + 1] * max(1, shape[k + 1])
    f = [itemsize] * nd
    for k in range(1, nd):
        f[k] = f[k - 1] * max(1, shape[k - 1])
    pats = {'C': tuple(c), 'F': tuple(f), 'Cx2': tuple(2 * s for s in c), 'Cneg': tuple(-s for s in c),
            'last2': tuple(c[:-1] + [2 * c[-1]]) if nd else (), 'zero': tuple([0] * nd), 'first2': tuple([2 * c[0]] + c[1:]) if nd else (),
            'tiny': tuple([1] * nd)}
    return pats


def geo_expected(tag, dsize, itemsize, shape, strides, sub, readonly):
    decl = GEO_DECLS[tag]
    nd = decl.count(',') + 1
    if len(shape) != nd:
        return 'reject'
    if readonly and not tag.startswith('k'):
        return 'reject'
    if itemsize != dsize:
        return 'reject'
    n = 1
    for s in shape:
        n *= s
    if n == 0:
        return 'accept'
    axes = [a.strip() for a in decl.strip('[]').split(',')]
    for k, a in enumerate(axes):
        if sub is not None and sub[k] >= 0:
            return 'reject'             # all declarations here are direct
        if shape[k] <= 1:
            continue
        if a == '::1' and strides[k] != itemsize:
            return 'reject'
        if a == ':' and any(x == '::1' for x in axes) and abs(strides[k]) < itemsize:
            return 'reject'             # "follow" axis of a contiguous declaration
    if '::1' in axes:
        order = range(nd - 1, -1, -1) if axes[-1] == '::1' else range(nd)
        st = 1
        for k in order:
            if shape[k] > 1 and st * itemsize != strides[k]:
                return 'reject'
            st *= shape[k]
    return 'accept'


def geo_cases(tier):
    ext = (0, 1, 2, 3)
    for nd in (1, 2, 3):
        shapes = list(itertools.product(ext, repeat=nd)) if nd < 3 else [(2, 1, 2), (2, 3, 2), (0, 2, 2), (1, 1, 1)]
        for shape in shapes:
            for dname in ('int', 'AL'):
                dsize = M.DTYPES[dname][2]
                for itemsize in (dsize, dsize * 2):
                    for pname, strides in stride_patterns(shape, itemsize).items():
                        subs = [None, (-1,) * nd]
                        if pname == 'C':
                            subs += [tuple(0 if k == j else -1 for k in range(nd)) for j in range(nd)]
                        for sub in subs:
                            for ro in (False, True):
                                yield dname, itemsize, shape, pname, strides, sub, ro


def _geo_work(case):
    so, tier, part, nparts = case
    mod = _load(so)
    evals = 0
    outcomes = set()
    mism = []
    more = 0
    for q, (dname, itemsize, shape, pname, strides, sub, ro) in enumerate(geo_cases(tier)):
        if q % nparts != part:
            continue
        dsize = M.DTYPES[dname][2]
        nd = len(shape)
        # memory window: offsets reachable through (shape, strides)
        lo = sum(min(0, (n - 1) * s) for n, s in zip(shape, strides) if n > 0)
        hi = sum(max(0, (n - 1) * s) for n, s in zip(shape, strides) if n > 0) + max(itemsize, dsize)
        raw = raw_bytes(hi - lo + 16)
        base = -lo
        text = CANON[dname]
        for tag in GEO_DECLS:
            ex = mod.Exporter(raw, text.encode(), itemsize, shape, strides, ro, sub, base)
            got = acquire(getattr(mod, 'g_%s_%s' % (tag, dname)), ex)
            expected = geo_expected(tag, dsize, itemsize, shape, strides, sub, ro)
            evals += 1
            outcomes.add((tag, dname, expected, got[1] if got[0] == 'reject' else 'ok', pname, sub is not None and max(sub) >= 0, ro, itemsize == dsize))

            def decoder():
                return [M.decode(raw, base + sum(i * s for i, s in zip(ix, strides)), dname) for ix in itertools.product(*[range(n) for n in shape])]
            bad = judge(expected, got, ex, raw, base, itemsize, 0, dname, decoder)
            if bad:
                if len(mism) < 80:
                    mism.append(dict(key='geometry|%s|%s%s|strides:%s|%s%s%s' % (bad, tag, GEO_DECLS[tag], pname,
                                                                             'sub' if sub is not None and max(sub) >= 0 else '', 'ro' if ro else '',
                                                                             'isz' if itemsize != dsize else ''),
                                     what='g_%s_%s (%s%s%s) <- shape %r strides %r suboffsets %r readonly %r itemsize %d: expected %s got %s' % (
                                         tag, dname, 'const ' if tag.startswith('k') else '', M.DTYPES[dname][0], GEO_DECLS[tag], shape, strides, sub, ro, itemsize, expected, _short(got)),
                                     kind='geo', args=[dname, itemsize, list(shape), pname, list(strides), list(sub) if sub else None, ro], tag=tag, expected=expected))
                else:
                    more += 1
    return dict(evals=evals, skipped=0, outcomes=list(outcomes), mism=mism, more=more, model_checks=0)


def _dispatch(case):
    return {'fmt': _fmt_work, 'special': _special_work, 'geo': _geo_work, 'empty': _empty_work}[case[0]](case[1])


def _short(o):
    s = repr(o)
    return s if len(s) < 200 else s[:200] + '...'


# ------------------------------------------------------------------------------------------ parent
def run(ctx):
    tier = ctx.tier
    src = module_source()
    r = farm.build('c17mod', src, ctx.workdir('c17'), ext='.pyx')
    if not r.ok:
        ctx.violation('build|%s' % r.stage, 'driver module does not build: %s' % r.errors[-1500:], {'kind': 'build', 'source': src, 'errors': r.errors[-3000:]})
        return {'evaluations': 1, 'distinct_nontrivial': 2, 'rule': 'build failed', 'samples': ['build failure'], 'exhaustive': False}, []
    ctext = r.c_text()
    reach = {k: int(k in ctext) for k in REACH}
    cases = []
    only = os.environ.get('VERIF_C17_ONLY')       # development aid: restrict to family names (evidence then says exhaustive=False)
    for fam, gen in families(tier):
        if only and fam not in only.split(','):
            continue
        nparts = 24 if fam != 'holes' else 4
        for p in range(nparts):
            cases.append(('fmt', (r.so, fam, tier, p, nparts)))
    if not only or 'special' in only.split(','):
        cases.append(('special', (r.so, tier)))
    for p in range(8):
        if not only or 'geo' in only.split(','):
            cases.append(('geo', (r.so, tier, p, 8)))
    for p in range(8):
        if not only or 'empty' in only.split(','):
            cases.append(('empty', (r.so, tier, p, 8)))
    if ctx.seed:
        import random
        random.Random(ctx.seed).shuffle(cases)
    ctx.log('module built; %d work units' % len(cases))
    results = runner.run_cases(_dispatch, cases, chunk=1, timeout=1200, scratch=ctx.scratch)
    tot = dict(evals=0, skipped=0, more=0, model_checks=0, crashes=0, abandoned=0)
    outcomes = set()
    by_kind = {}
    for c, res in zip(cases, results):
        if res[0] == 'ok':
            v = res[1]
            for k in ('evals', 'skipped', 'more', 'model_checks'):
                tot[k] += v[k]
            by_kind[c[0]] = by_kind.get(c[0], 0) + v['evals']
            outcomes.update(tuple(o) for o in v['outcomes'])
            for mm in v['mism']:
                ctx.violation(mm['key'], mm['what'], dict(mm, source=src))
        elif res[0] in ('crash', 'timeout'):
            tot['crashes'] += 1
            if not refine_crash(ctx, c, res, src, r.so, tot, outcomes):
                tot['abandoned'] += 1
        else:
            ctx.violation('harness-exc|%s' % c[0], 'driver exception: %s' % res[1][-1500:], {'kind': 'harness', 'trace': res[1][-3000:]})
    accepts = sum(1 for o in outcomes if 'ok' in o[3:4] or (len(o) > 3 and o[3] == 'ok'))
    cov = {
        'evaluations': tot['evals'], 'distinct_nontrivial': len(outcomes),
        'rule': 'distinct (path, declared dtype, model verdict, observed outcome incl. exception type, layout status) tuples for the format '
                'families; (declaration, dtype, verdict, outcome, stride pattern, suboffsets, readonly, itemsize-ok) for the geometry family',
        'evaluations_by_family_kind': by_kind, 'distinct_accepting_outcomes': accepts,
        'skipped_ambiguous_layout': tot['skipped'], 'model_selfchecks_vs_struct_calcsize': tot['model_checks'],
        'mismatches_beyond_cap': tot['more'], 'crashed_work_units': tot['crashes'], 'reach': reach, 'reach_gaps': sorted(k for k, v in reach.items() if not v),
        'dtypes': ALL_DT, 'families': [f for f, _ in families(tier)] + ['malformed', 'itemsize', 'geometry', 'empty'],
        'modules_built': 1,
        'samples': [{'format': '@cT{ih}2xd', 'dtype': 'NS', 'model': 'accept'}, {'format': '=cid', 'dtype': 'AL', 'model': 'reject (offsets 0,1,5 vs 0,4,8)'},
                    {'format': '<l', 'dtype': 'int', 'model': 'accept (standard size 4)'},
                    {'geometry': 'int[:, ::1] <- shape (2,3) strides (24,8) itemsize 4', 'model': 'reject'}],
        'work_units_abandoned_after_crash_cap': tot['abandoned'],
        'exhaustive': tot['abandoned'] == 0 and not only, 'cpu_s': round(_cpu(), 1),
    }
    return cov, ['format grammar bounded as stated; geometry extents <= 3']


CRASH_CAP = 12      # crashing acquisitions refined per crashed work unit before the unit is abandoned


def refine_crash(ctx, c, res, src, so, tot, outcomes):
    """A work unit died: re-run its acquisitions one per case (exact crash attribution, the rest continues)."""
    if c[0] != 'fmt':
        ctx.violation('%s|crash' % c[0], 'work unit %r: %s %s; tail %s' % (c[1][1:], res[0], res[1], (res[2] or '')[-300:]),
                      {'kind': 'unit', 'unit': [c[0], list(c[1][1:])], 'source': src})
        return False
    _, fam, tier, part, nparts = c[1]
    gen = dict(families(tier))[fam]
    evs = [(so, fam, prefix, seq, style, d, path) for q, (prefix, seq, style) in enumerate(gen()) if q % nparts == part
           for d in ALL_DT for path in _paths(d)]
    crashes = 0
    for i in range(0, len(evs), 600):
        block = evs[i:i + 600]
        rr = runner.run_cases(_single_eval, block, timeout=300, scratch=ctx.scratch)
        for ev, r in zip(block, rr):
            if r[0] == 'ok':
                out, mm = r[1]
                if out is None:
                    tot['skipped'] += 1
                    continue
                tot['evals'] += 1
                outcomes.add(tuple(out))
                if mm:
                    ctx.violation(mm['key'], mm['what'], dict(mm, source=src))
            elif r[0] in ('crash', 'timeout'):
                crashes += 1
                tot['evals'] += 1
                _, fam, prefix, seq, style, d, path = ev
                text = M.render(prefix, seq, style)
                lay = M.layout(prefix, seq)
                itemsize = lay['size'] or M.DTYPES[d][2]
                ctx.violation(fmt_key(path, 'crash', prefix, seq, style, d),
                              '%s %s[:] <- format %r itemsize %d: %s (signal %s)' % (path, M.DTYPES[d][0], text, itemsize, r[0], r[1]),
                              dict(kind='fmt', fmt=text, dtype=d, path=path, itemsize=itemsize, expected=M.expect(lay, d, itemsize) or 'reject',
                                   key='crash', source=src))
            else:
                ctx.violation('harness-exc|refine', 'driver exception: %s' % r[1][-1500:], {'kind': 'harness', 'trace': r[1][-3000:]})
        if crashes >= CRASH_CAP:
            return False
    return True


def _cpu():
    import resource
    a, b = resource.getrusage(resource.RUSAGE_SELF), resource.getrusage(resource.RUSAGE_CHILDREN)
    return a.ru_utime + a.ru_stime + b.ru_utime + b.ru_stime


def _replay_one(arg):
    so, case = arg
    mod = _load(so)
    if case['kind'] == 'fmt':
        d = case['dtype']
        itemsize = case['itemsize']
        raw = raw_bytes(max(itemsize, M.DTYPES[d][2]) * 3)
        ex = mod.Exporter(raw, case['fmt'].encode(), itemsize, (3,), (itemsize,))
        got = acquire(getattr(mod, ('a_' if case.get('path', 'mv') == 'mv' else 'leg_') + d), ex)
        bad = judge(case['expected'], got, ex, raw, 0, itemsize, 3, d)
        if case['key'].startswith('malformed') and got[0] == 'accept':
            bad = 'false-accept'
        return '%s: %s' % (bad, _short(got)) if bad else False
    if case['kind'] == 'geo':
        dname, itemsize, shape, pname, strides, sub, ro = case['args']
        dsize = M.DTYPES[dname][2]
        lo = sum(min(0, (n - 1) * s) for n, s in zip(shape, strides) if n > 0)
        hi = sum(max(0, (n - 1) * s) for n, s in zip(shape, strides) if n > 0) + max(itemsize, dsize)
        raw = raw_bytes(hi - lo + 16)
        base = -lo
        ex = mod.Exporter(raw, CANON[dname].encode(), itemsize, tuple(shape), tuple(strides), ro, tuple(sub) if sub else None, base)
        got = acquire(getattr(mod, 'g_%s_%s' % (case['tag'], dname)), ex)
        dec = lambda: [M.decode(raw, base + sum(i * s for i, s in zip(ix, strides)), dname) for ix in itertools.product(*[range(n) for n in shape])]
        bad = judge(case['expected'], got, ex, raw, base, itemsize, 0, dname, dec)
        return '%s: %s' % (bad, _short(got)) if bad else False
    if case['kind'] == 'empty':
        d, itemsize, shape = case['dtype'], case['itemsize'], tuple(case['shape'])
        nd = len(shape)
        n = 1
        for e in shape:
            n *= e
        raw = raw_bytes(max(1, n) * max(itemsize, M.DTYPES[d][2]))
        strides = (itemsize,) if nd == 1 else (itemsize * max(1, shape[1]), itemsize)
        ex = mod.Exporter(raw, case['fmt'].encode(), itemsize, shape, strides)
        got = acquire(getattr(mod, ('a_' if nd == 1 else 'a2_') + d), ex)
        bad = judge(case['expected'], got, ex, raw, 0, itemsize, 0, d, lambda: [M.decode(raw, k * itemsize, d) for k in range(n)])
        return '%s: %s' % (bad, _short(got)) if bad else False
    if case['kind'] == 'empty-real':
        d = case['dtype']
        got = acquire(getattr(mod, ('a_' if case['nd'] == 1 else 'a2_') + d), eval(case['expr'], {}))
        if got[0] == 'reject':
            bad = 'false-reject' if case['expected'] == 'accept' else (None if got[1] in OK_EXC else 'exc-type:' + got[1])
        else:
            bad = 'false-accept' if case['expected'] == 'reject' else None
        return '%s: %s' % (bad, _short(got)) if bad else False
    return 'not replayable'


def replay(ctx, case):
    if case.get('kind') not in ('fmt', 'geo', 'empty', 'empty-real'):
        return 'not replayable generically'
    r = farm.build('c17mod', case['source'], ctx.workdir('replay'), ext='.pyx')
    if not r.ok:
        return 'does not build (%s): %s' % (r.stage, r.errors[-400:])
    res = runner.run_cases(_replay_one, [(r.so, case)], timeout=120, scratch=ctx.scratch)[0]
    if res[0] == 'ok':
        return res[1]
    return '%s: %r' % (res[0], res[1:])
