"""C22 - exception handling semantics match CPython.

Small-scope enumeration of ALL statements of a nested exception-handling grammar:

  T ::= try B except EA [as e]: B [except: B] [else: B] [finally: B]  |  try B finally B
      | with CM(suppress in {F,T}, raise_in_exit in {F,T}): B
      | try B except* EA: B [except* EC: B]
  B ::= LG(k) ; [one action]          action = raise EA / EB(EA) / EC / `raise EA from EC` / `raise EA from None` /
                                       raise ExceptionGroup([EA, EC]) / bare raise / return / break / continue /
                                       call of a raising plain-Python helper / nested T followed by LG(k)

with at most N non-empty actions (a nested T counts as one) and nesting <= 2 (quick N=2; thorough adds N=3 over the forms try/except, try/except/else,
try/except/finally, try/finally, except*, suppressing with and the actions raise EA / EC, bare raise, return: 3 032 more
statements, 8 761 in total); try statements whose try body is empty (all handlers dead) are left out unless an else
clause carries the action; plus the complete product of "bare raise (or return) in the finally of a try statement
nested inside an except handler" (outer except EA / except EA as ex; inner try/finally, try/except/finally,
try/except/else/finally; inner body raising nothing / same / subclass / other class / helper / group).
Statements that contain break/continue run inside `for i in (0, 1)`.  Every function is
called in two states: clean, and while an outer KeyError('outer') is being handled.  At every log point the
harness records sys.exc_info() (type, args); after the call the propagated exception's chain (__cause__,
__context__, __suppress_context__, sub-exceptions; type and args, recursively), the return value, and
sys.exc_info() after the statement and after the call.  Oracle: CPython on the identical source.
"""
import re
from vlib import e2, farm
from props._g6_common import ConfirmCtx, run_diff, storm_note

LEVEL = 'exploration'
ENGINE = 'E2 diffexplore'
TECHNIQUE = 'exhaustive nested try/except/else/finally/with/except* statement grammar x {clean, in-handler} call states, compiled vs CPython on identical source'
LEVEL_TEXT = ('Every statement of the grammar try/except[/as][/bare except][/else][/finally], try/finally, with (suppressing or '
              'not, __exit__ raising or not), try/except* (one or two clauses) whose blocks log and then raise (matching, '
              'subclass, non-matching, from-cause, from-None, ExceptionGroup), re-raise, return, break, continue, call a raising '
              'helper or nest another such statement - with <= 2 non-empty actions (thorough: <= 3 over 6 forms and 4 actions, '
              '8 761 statements in total), '
              'nesting <= 2 - is compiled and called both in a clean state and inside an active outer handler; the ordered log '
              'of executed blocks with sys.exc_info() at each, the propagated exception chain (__cause__/__context__/'
              '__suppress_context__/sub-exceptions recursively, types and args), the return value and sys.exc_info() after '
              'the statement and after the call must equal CPython.')
LEVEL_NOTE = ('Bounded action count and nesting (depth 3 of the design is not enumerated); exception classes are a 3-class hierarchy; '
              'tracebacks are not compared (only whether __exit__ received one); messages of interpreter-raised errors (bare '
              'raise without active exception) are compared by type only.  return/break/continue inside except* handlers are '
              'SyntaxErrors in CPython and not generated.  Trusted: CPython 3.12 as reference, gcc.')

PRELUDE = 'from props._g6_rt import LG, HELP, CM, EA, EB, EC, W22\n'
PER_MODULE = 150
REACH = ['__Pyx_GetException', '__Pyx_ExceptionSave', '__Pyx_ExceptionReset', '__Pyx_ExceptionSwap', '__Pyx_ErrRestore',
         '__Pyx_ErrFetch', '__Pyx_Raise', '__Pyx_ReraiseException', '__Pyx_ExceptionGroupMatch']

# action alphabets per slot kind -----------------------------------------------------------------------------------
ACT_Q = {
    'b': ('RA', 'RB', 'RC', 'RF', 'RG', 'H', 'RR', 'RET', 'BRK', 'CNT'),       # try / with body
    'h': ('RA', 'RC', 'RF', 'RN', 'RR', 'RET', 'BRK', 'CNT', 'H'),             # except handler
    'e': ('RA', 'RET', 'BRK'),                                                 # else
    'f': ('RA', 'RR', 'RET', 'BRK', 'CNT'),                                    # finally
    's': ('RA', 'RC', 'RF', 'RN', 'RR', 'H'),                                  # except* handler
}
ACT_T3 = {   # reduced action set for the 3-action tier
    'b': ('RA', 'RC', 'RR', 'RET'),
    'h': ('RA', 'RR', 'RET'),
    'e': ('RA',),
    'f': ('RA', 'RR', 'RET'),
    's': ('RA',),
}
FORMS_T3 = {'te', 'tee', 'tef', 'tf', 'ts', 'w10'}    # forms allowed (at both levels) in the 3-action tier


def _forms_of(t):
    out = {t[0]}
    for x in t[1:]:
        if isinstance(x, tuple):
            out |= _forms_of(x)
    return out
FORMS = {
    'te': 'bh', 'tea': 'bh', 'te2': 'bhh', 'tee': 'bhe', 'tef': 'bhf', 'teef': 'bhef', 'tf': 'bf',
    'w00': 'b', 'w10': 'b', 'w01': 'b', 'w11': 'b', 'ts': 'bs', 'ts2': 'bss',
}
FORM_ORDER = ('te', 'tea', 'te2', 'tee', 'tef', 'teef', 'tf', 'w00', 'w10', 'w01', 'w11', 'ts', 'ts2')
LOOPERS = ('BRK', 'CNT')


def _stmt(depth, budget, acts, in_star):
    """Yield (T, used) for every statement with nesting <= depth using <= budget non-empty actions."""
    for f in FORM_ORDER:
        kinds = FORMS[f]
        for slots, used in _fill(kinds, 0, depth, budget, acts, in_star):
            yield (f,) + slots, used


def _fill(kinds, i, depth, budget, acts, in_star):
    if i == len(kinds):
        yield (), 0
        return
    k = kinds[i]
    star = in_star or k == 's'
    options = [(None, 0)]
    if budget >= 1:
        for a in acts[k]:
            if star and a in ('RET', 'BRK', 'CNT'):
                continue       # SyntaxError in CPython inside except* handlers
            options.append((a, 1))
        if depth > 1:
            for t, u in _stmt(depth - 1, budget - 1, acts, star):
                options.append((t, u + 1))
    for o, u in options:
        for rest, u2 in _fill(kinds, i + 1, depth, budget - u, acts, in_star):
            yield (o,) + rest, u + u2


def _live(t):
    """A try statement with except clauses and an EMPTY try body has only dead handlers: such statements are
    left out unless an else clause carries an action (the else is what an empty body reaches)."""
    f = t[0]
    if f[0] == 't' and f != 'tf' and t[1] is None:
        if not any(k == 'e' and a is not None for k, a in zip(FORMS[f][1:], t[2:])):
            return False
    return all(_live(x) for x in t[1:] if isinstance(x, tuple))


def statements(n, depth, acts):
    return [t for t, u in _stmt(depth, n, acts, False) if _live(t)]


def _has(t, names):
    for s in t[1:]:
        if s is None:
            continue
        if isinstance(s, tuple):
            if _has(s, names):
                return True
        elif s in names:
            return True
    return False


class _R:
    def __init__(self):
        self.lines = []
        self.k = 0
        self.roles = {}      # log site -> 'form.slotkind[+action]' of the block it opens / 'after:form' for the log after a nested T

    def site(self):
        self.k += 1
        return self.k

    def e(self, ind, text):
        self.lines.append('    ' * ind + text)

    def block(self, ind, action, role='?'):
        k0 = self.site()
        self.roles[k0] = '%s:%s' % (role, action[0] if isinstance(action, tuple) else (action or '-'))
        self.e(ind, 'LG(%d)' % k0)
        if action is None:
            return
        if isinstance(action, tuple):
            self.stmt(ind, action)
            k1 = self.site()
            self.roles[k1] = '%s:after-%s' % (role, action[0])
            self.e(ind, 'LG(%d)' % k1)
            return
        k = self.site()
        self.e(ind, {
            'RA': 'raise EA(%d)', 'RB': 'raise EB(%d)', 'RC': 'raise EC(%d)',
            'RF': 'raise EA(%d) from EC(0)', 'RN': 'raise EA(%d) from None',
            'RG': 'raise ExceptionGroup("g%d", [EA(1), EC(2)])',
            'RR': 'raise  # %d', 'RET': 'return %d', 'BRK': 'break  # %d', 'CNT': 'continue  # %d', 'H': 'HELP(%d)',
        }[action] % k)

    def stmt(self, ind, t):
        f = t[0]
        e = self.e
        if f in ('w00', 'w10', 'w01', 'w11'):
            kc = self.site()
            self.roles[kc] = f + '.cm'
            e(ind, 'with CM(%d, %s, %s):' % (kc, f[1] == '1', f[2] == '1'))
            self.block(ind + 1, t[1], f + '.b')
            return
        e(ind, 'try:')
        self.block(ind + 1, t[1], f + '.b')
        kinds = FORMS[f]
        nh = 0
        for kind, act in zip(kinds[1:], t[2:]):
            if kind == 'h':
                nh += 1
                if nh == 2:
                    e(ind, 'except:')
                else:
                    e(ind, 'except EA as ex:' if f == 'tea' else 'except EA:')
            elif kind == 's':
                nh += 1
                e(ind, 'except* EC:' if nh == 2 else 'except* EA:')
            elif kind == 'e':
                e(ind, 'else:')
            elif kind == 'f':
                e(ind, 'finally:')
            self.block(ind + 1, act, '%s.%s%s' % (f, kind, nh if kind in 'hs' and nh > 1 else ''))


def render(name, t):
    r = _R()
    r.e(0, 'def %s():' % name)
    if _has(t, LOOPERS):
        r.e(1, 'for i in (0, 1):')
        r.e(2, 'LG("s")')
        r.stmt(2, t)
        r.e(2, 'LG("e")')
        r.e(1, 'LG("z")')
    else:
        r.e(1, 'LG("s")')
        r.stmt(1, t)
        r.e(1, 'LG("e")')
    r.e(1, 'return "done"')
    r.e(0, 't_%s = W22(%s)' % (name, name))
    _ROLES[tag(t)] = r.roles
    return '\n'.join(r.lines) + '\n'


_ROLES = {}     # statement tag -> {log site: role}


def tag(t):
    def s(x):
        if x is None:
            return '-'
        if isinstance(x, tuple):
            return tag(x)
        return x
    return t[0] + '(' + ','.join(s(x) for x in t[1:]) + ')'


def _reraise_in_nested_finally():
    """Bare `raise` in the finally clause of a try statement that sits INSIDE an except handler (4-5 actions, beyond the
    action bound): the re-raised exception must be the one in flight in the inner statement, not the one the enclosing
    handler caught.  Complete product: outer try raising EA / EB caught by `except EA` / `except EA as ex`; inner
    try/finally, try/except/finally and try/except/else/finally with the inner body raising nothing / the same class / a
    subclass / another class / via a helper / an ExceptionGroup, the inner handler doing nothing / raising another class /
    re-raising / returning, and the finally clause doing a bare raise (or, for contrast, a return)."""
    out = []
    for outer in ('te', 'tea'):
        for ob in ('RA', 'RB'):
            for fin in ('RR', 'RET'):
                for b in (None, 'RA', 'RB', 'RC', 'RG', 'H'):
                    out.append((outer, ob, ('tf', b, fin)))
                    for h in (None, 'RC', 'RR', 'RET'):
                        out.append((outer, ob, ('tef', b, h, fin)))
                    out.append((outer, ob, ('teef', b, None, 'RC', fin)))
    return out


def _family(tier):
    fam = statements(2, 2, ACT_Q)
    seen = set(fam)
    for t in _reraise_in_nested_finally():
        if t not in seen:
            seen.add(t)
            fam.append(t)
    if tier != 'quick':
        # sized from the measured rate (quick: 5.7k statements in ~15 min at load 40): ~3k extra statements, ~8.8k in total
        for t in statements(3, 2, ACT_T3):
            if t not in seen and _forms_of(t) <= FORMS_T3:
                fam.append(t)
    return fam


def _keyfn(tg, inp, exp, got):
    """C22 | where the first divergence is (role of the log point: form.block:action, or the propagated result) | kind |
    call state | divergence class.  The role replaces the whole program so that one root cause gives few keys."""
    cls = e2.divclass(exp, got)
    if got[0] == 'crash' or exp is None:
        # a crash cannot be located: keyed by the set of control-flow actions of the statement (raise kinds merged)
        acts = sorted(set(re.sub(r'R[ABCFNG]', 'raise', a) for a in re.findall(r'RET|BRK|CNT|RR|R[ABCFNG]|H', tg)))
        return 'C22|crash|%s' % '+'.join(acts)
    roles = _ROLES.get(tg, {})
    le, lg = exp[-1], got[-1]
    n = 0
    while n < len(le) and n < len(lg) and le[n] == lg[n]:
        n += 1
    if n < len(le) or n < len(lg):
        a = le[n] if n < len(le) else None
        b = lg[n] if n < len(lg) else None
        ent = b if b is not None else a
        kind = 'exc_info' if (a is not None and b is not None and a[0] == b[0]) else 'block-order'
        return 'C22|log@%s|%s|mode%s|%s' % (roles.get(ent[0], ent[0]), kind, inp[0], cls)
    # identical logs: the propagated exception chain / return value differs
    outer = tg.split('(', 1)[0]
    acts = sorted(set(re.findall(r'RET|BRK|CNT|RR|RN|RF|RG|R[ABC]|H', tg)))
    return 'C22|result|%s:%s|mode%s|%s' % (outer, '+'.join(acts), inp[0], cls)


def run(ctx):
    fam = _family(ctx.tier)
    if ctx.seed:
        k = (ctx.seed * 7919) % len(fam)
        fam = fam[k:] + fam[:k]
    wd = ctx.workdir('c22')
    farm.build('warm', 'x = 1\n', wd, ext='.py', cc=False)
    ctx.log('%d statements' % len(fam))
    inputs = {'m': [('0',), ('1',)]}
    mods = []
    srcs = []
    for i in range(0, len(fam), PER_MODULE):
        parts = []
        for j, t in enumerate(fam[i:i + PER_MODULE]):
            name = 'f%d' % (i + j)
            src = render(name, t)
            srcs.append(src)
            parts.append(e2.Part(src, [e2.Func('t_' + name, tag(t), 'm')]))
        mods.append(e2.Mod('c22_%d' % (i // PER_MODULE), PRELUDE, parts, inputs, ext='.py', use_log=True))
    cc = ConfirmCtx(ctx, _keyfn)
    st = run_diff(cc, mods, keyfn=_keyfn, reach=REACH)
    behaviours, raised, returned = _reference_behaviours(srcs)
    cov = {
        'evaluations': st['evaluations'], 'distinct_nontrivial': behaviours,
        'rule': 'number of distinct CPython reference behaviours over all (statement, call state) pairs, a behaviour being '
                'the sequence of (block role, exc_info) log entries with site numbers abstracted + the propagated exception '
                'chain or return value; statements that behave identically collapse',
        'reference_calls_raising': raised, 'reference_calls_returning': returned,
        'programs': len(fam), 'compiled_functions': st['programs'], 'modules_built': st['modules_built'],
        'call_states': ['clean', 'inside handler of KeyError("outer")'],
        'mismatches': st['mismatches'], 'crashes': st['crashes'], 'build_failures': st['build_failures'],
        'crashes_not_reproduced_on_replay': cc.unreproduced,
        'reach': st.get('reach'), 'reach_gaps': st.get('reach_gaps'),
        'samples': [{'tag': tag(fam[i]), 'function': srcs[i]} for i in (len(fam) // 9, len(fam) // 2, len(fam) - 7)],
        'exhaustive': True,
    }
    storm_note(cov, st)
    return cov, ['statements with more than the bounded number of actions / nesting > 2 are not covered',
                 'tracebacks and interpreter-generated messages are not compared']


def _reference_behaviours(srcs):
    """Measured anti-vacuity number: distinct behaviours of the family under CPython (site ids abstracted)."""
    from vlib import support
    g = {'__name__': 'c22_ref'}
    exec(compile(PRELUDE, '<c22-prelude>', 'exec'), g)
    seen = set()
    raised = returned = 0
    for src in srcs:
        ns = dict(g)
        exec(compile(src, '<c22-ref>', 'exec'), ns)
        fn = [v for k, v in ns.items() if k.startswith('t_f')][0]
        for mode in (0, 1):
            support.reset_log()
            out = fn(mode)
            log = support.take_log()
            ids = {}
            norm = tuple((ids.setdefault(e[0], len(ids)),) + tuple(e[1:]) for e in log)
            if out[0] == 'raised':
                raised += 1
                res = repr(out[1])
                res = re.sub(r"\(\d+,\)", '(n,)', res)
            else:
                returned += 1
                res = 'ret:%s' % type(out[1]).__name__
            seen.add((norm, res))
    return len(seen), raised, returned


def replay(ctx, case):
    return e2.replay(ctx, case)


if __name__ == '__main__':
    for n, d, a in ((1, 2, ACT_Q), (2, 1, ACT_Q), (2, 2, ACT_Q), (3, 2, ACT_T3)):
        print(n, d, len(statements(n, d, a)))
    fam = statements(2, 2, ACT_Q)
    for t in fam[::601]:
        print(tag(t)); print(render('f', t))
