"""Operand classes for C18 (importable by compiled modules, reference runs and operand expressions)."""
from vlib.support import L


class Fmt:
    """Logs which of __str__/__repr__/__format__ is used, and with which spec."""
    def __init__(self, v):
        self.v = v

    def __str__(self):
        L('str', self.v)
        return 'S%s' % self.v

    def __repr__(self):
        L('repr', self.v)
        return 'R%s' % self.v

    def __format__(self, spec):
        L('format', spec)
        return 'F%s[%s]' % (self.v, spec)


class StrOnly:
    def __init__(self, v):
        self.v = v

    def __str__(self):
        return 'so%s' % self.v

    def __repr__(self):
        return 'StrOnly(%s)' % self.v


class IntLike:
    """has __int__/__index__/__float__ : accepted by %d %x %f"""
    def __init__(self, v):
        self.v = v

    def __int__(self):
        L('int', self.v)
        return self.v

    def __index__(self):
        L('index', self.v)
        return self.v

    def __float__(self):
        L('float', self.v)
        return float(self.v)

    def __repr__(self):
        return 'IntLike(%r)' % self.v


def mk(expr):
    """operand expression evaluated inside vlib.support.namespace()"""
    return "__import__('props._g4_fmt', fromlist=['x'])." + expr
