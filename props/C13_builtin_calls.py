"""C13 - builtin call and method optimisations preserve semantics.

A table of call-site shapes (SHAPES below), one or more per `_handle_*` method of the staged
Optimize.OptimizeBuiltinCalls / EarlyReplaceBuiltinCalls and per specialised entry of the staged
Builtin method/function tables.  The check introspects the staged compiler for these handlers and
reports handlers without a shape in the evidence (`handlers_without_shape`).

Every shape is compiled (pure-Python-mode .py: receivers typed list/dict/set/str/bytes/bytearray/
tuple, untyped, or literal; arguments typed C int / Py_ssize_t / double / Py_UCS4, untyped, or
literal) and run on the COMPLETE product of its argument alphabets: receivers empty/1/3 elements,
subclasses, None, wrong types; indices/start/end in [-5,5] + {+-2^31, +-2^63, 2^63-1, +-2^64, None};
prefixes str / tuple / empty tuple / wrong type; keys hashable / unhashable / missing / raising
__hash__/__eq__; strings of every unicode kind; sep/maxsplit/count/keepends; encodings and error
handlers incl. invalid; min/max of nan and mixed int/float; generator expressions; isinstance with
type / tuple / nested tuple / non-type; ord/chr over kind boundaries; int/float/bool/str of the
generic object alphabet.

Oracle: CPython executing the identical source (annotations are inert there): returned value
(the shapes return the mutated receiver too), exception type.
"""
import itertools, os, re
from vlib import e2, support
from props import _g5_common as g5
from props._g5_common import Prod

LEVEL = 'exploration'
ENGINE = 'E2 diffexplore'
TECHNIQUE = 'table of call-site shapes per optimisation handler (introspected from the staged compiler) x complete argument products, compiled vs CPython on identical source'
LEVEL_TEXT = ('For every _handle_* optimisation of the staged OptimizeBuiltinCalls/EarlyReplaceBuiltinCalls and every specialised '
              'Builtin method (coverage of the handler list is measured by introspection) one or more call-site shapes with '
              'typed, untyped and literal receivers/arguments are compiled and run on the complete product of their argument '
              'alphabets (empty/non-empty receivers, subclasses, None, wrong types, indices -5..5 and 2^31/2^63/2^64 '
              'boundaries, tuple prefixes, unhashable/missing keys, all unicode kinds, invalid encodings, nan); value, mutated '
              'receiver and exception type must equal CPython running the same source.')
LEVEL_NOTE = ('Exception messages are not compared.  C-typed arguments only receive values representable in the C type.  '
              'Mixed C-typed min/max (result type follows C promotion by design) is not enumerated.  Legacy Python 2 entries '
              '(has_key, iteritems/viewitems, unichr, intern, reload, xrange, unicode) and memoryview/frozendict/slot '
              'handlers have no shape and are listed as handlers_without_shape.  Trusted: CPython 3.12 as reference, gcc.')

REACH = ['__Pyx_PyObject_Append', '__Pyx_PyList_Append', '__Pyx_PyObject_Pop', '__Pyx_PyList_Pop', '__Pyx_PyObject_PopIndex',
         '__Pyx_PyList_PopIndex', '__Pyx_PyDict_GetItemDefault', '__Pyx_PyDict_SetDefault', '__Pyx_PyDict_Pop',
         '__Pyx_PyUnicode_Tailmatch', '__Pyx_PyBytes_Tailmatch', 'PyUnicode_Find', 'PyUnicode_Count', 'PyUnicode_Replace',
         'PyUnicode_Split', 'PyUnicode_Splitlines', 'PyUnicode_Join', '__Pyx_PyObject_Ord', '__Pyx_PySet_Discard',
         '__Pyx_PySet_Remove', '__Pyx_PyByteArray_Append', '__Pyx_PyList_Extend', '__Pyx_decode_bytes',
         'PyUnicode_AsUTF8String', '__Pyx_PyNumber_Absolute', 'PyList_Sort', 'PySequence_List', '__Pyx_PySequence_Tuple',
         'PyObject_IsInstance', '__Pyx_PyObject_IsTrue', '__Pyx_PyNumber_Float', '__Pyx_Py_UNICODE_ISALPHA',
         'PyList_Insert', 'PyList_Reverse', 'PyDict_Copy', 'PySet_Pop', 'PySet_Add', '__Pyx_GetAttr3', '__Pyx_PyIter_Next2']

# ----------------------------------------------------------------------------- alphabets (expression strings)
IDX = [str(v) for v in range(-5, 6)] + ['2**31', '-2**31 - 1', '2**63 - 1', '2**63', '-2**63', '-2**63 - 1', '2**64', '-2**64']
IDXN = IDX + ['None']
IDX_BAD = ['1.5', "'a'", 'IndexOnly(1)', 'IndexOnly(-1)', 'True', 'IntSub(1)']
CIDX = [str(v) for v in range(-5, 6)] + ['2**31 - 1', '-2**31']                     # fits C int
SIDX = CIDX + ['2**63 - 1', '-2**63']                                              # fits Py_ssize_t
STRS = support.STRS
SHORT_STRS = ["''", "'a'", "'ab'", "'abcabc'", "'a' + chr(0xe9)", "chr(0x20ac) + 'ab'", "'ab' + chr(0x1f600)", "'a\\x00b'",
              "'a b  c'", "'l1\\nl2\\r\\nl3'", "'  x '"]
PREFIX = ["''", "'a'", "'ab'", "'b'", "'abcabcd'", "chr(0xe9)", "chr(0x20ac)", "chr(0x1f600)", "('a', 'b')", "()", "('x',)", "('',)",
          "('x', 'ab')", '1', 'None', "b'a'", "['a']", "('a', 1)", "(1, 'a')", "StrSub('a')", "(StrSub('a'),)", "(('a',),)"]
BPREFIX = ["b''", "b'a'", "b'ab'", "b'b'", "(b'a', b'b')", "()", "(b'x',)", '1', 'None', "'a'", "[b'a']", "(b'a', 1)",
           "bytearray(b'a')", "BytesSub(b'a')", "memoryview(b'a')"]
SHORT_BYTES = ["b''", "b'a'", "b'ab'", "b'abcabc'", "b'a\\xff'", "b'\\xe2\\x82\\xac'", "b'\\xff\\xfe'", "b'a\\x00b'"]
KEYS = ['1', '2', "'a'", '(1, 2)', 'None', '1.0', 'True', 'Unhashable()', '[1]', 'BadHash()', 'EqRaises()', 'frozenset({1})',
        '{1}', '2**70', "StrSub('a')"]
DEFAULTS = ['None', "'dflt'", '[]']
OBJS = ['None', '0', '1', '-1', '2**70', '-2**70', '1.5', '-0.0', "float('nan')", "float('inf')", "''", "'a'", "'12'", "' 1.5 '",
        "'abc'", "b''", "b'7'", "b'ab'", '[]', '[1, 2]', '()', '(1, 2)', '{}', '{1: 2}', 'set()', '{1}', 'frozenset({1})', 'True',
        'False', 'IntSub(5)', 'FloatSub(1.5)', "StrSub('q')", 'IndexOnly(3)', 'IntOnly(3)', 'FloatOnly(2.5)', 'ListSub([1])',
        'TupleSub((1,))', 'DictSub({1: 2})', 'SetSub({1})', "BytesSub(b'x')", "bytearray(b'ab')", 'range(3)', 'gen(1, 2)', '1j',
        'Fraction(1, 3)', "Decimal('1.5')", 'NotImpl()', 'Unhashable()', 'int', 'len', "memoryview(b'ab')", "chr(0x663) * 2",
        "'1_000'", "'0x1f'", "b'1.5'", "bytearray(b'42')"]
SEQS = ['[]', '[1]', '[3, 1, 2]', '()', '(2, 1)', "''", "'ba'", "b'ba'", 'set()', '{1}', '{}', '{2: 1, 1: 2}', 'range(4)', 'gen(3, 1, 2)',
        'gen()', 'None', '5', "[1, 'a']", '[[2], [1]]', "[float('nan'), 1.0]", '[1.5, 1, True]', "['b', 'a', 'C']", 'ListSub([2, 1])',
        'TupleSub((2, 1))', 'frozenset({2, 1})', '[(1, 2), (3, 4)]', "[('a', 1)]", '[(1,)]', '[1, 2, 3, 4, 5, 6, 7, 8, 9, 10]',
        'DictSub({1: 2})', "bytearray(b'ba')", '[0, 0.0, False]', '[None]', "[2**70, -2**70, 1.5]"]
LISTS = ['[]', '[1]', '[1, 2, 3]', 'None']
LISTS_U = ['[]', '[1]', '[1, 2, 3]', 'None', 'ListSub([1, 2, 3])', '(1, 2)', "deque([1, 2, 3])", 'set()', '{1}', "bytearray(b'ab')",
           '{1: 2}', "array('i', [1, 2, 3])", '5', 'AppendObj()']
DICTS = ['{}', '{1: 10}', "{1: 10, 'a': 20, (1, 2): 30}", 'None']
DICTS_U = DICTS + ['DictSub({1: 10})', 'DictMissing({1: 10})', 'OrderedDict([(1, 10)])', '[1]', "'a'", '5', 'ItemsObj([(1, 10)])']
SETS = ['set()', '{1}', "{1, 'a', (1, 2)}", 'None']
SETS_U = SETS + ['SetSub({1})', 'frozenset({1})', '[1]', '{1: 2}']
NUMS = ['0', '1', '-1', '2', '2**31', '-2**31', '2**63', '-2**63', '2**70', '-2**70', '0.0', '-0.0', '1.5', '-1.5', "float('nan')",
        "float('inf')", "float('-inf')", 'True', 'False', 'IntSub(5)', 'FloatSub(-1.5)', 'Fraction(-1, 3)', "Decimal('-1.5')", '1j',
        "'a'", 'None', 'NotImpl()', '1e308']
CINTS = ['0', '1', '-1', '2', '-7', '2**31 - 1', '-2**31 + 1']
CDBLS = ['0.0', '-0.0', '1.5', '-1.5', "float('nan')", "float('inf')", "float('-inf')", '1.0', '2.0']
ORDS = ["''", "'a'", "'ab'", 'chr(0xe9)', 'chr(0x20ac)', 'chr(0x1f600)', 'chr(0xdc80)', "b''", "b'a'", "b'ab'", "b'\\xff'",
        "bytearray(b'a')", "bytearray(b'ab')", '1', 'None', "StrSub('a')", "BytesSub(b'a')", "chr(0x10ffff)", "'\\x00'"]
CHRS = ['0', '65', '127', '128', '255', '256', '0xd7ff', '0xd800', '0xdfff', '0xffff', '0x10000', '0x10ffff', '0x110000', '-1',
        '2**31 - 1', '2**31', '-2**31', '2**40', '1.5', "'a'", 'None', 'True', 'IndexOnly(65)', 'IntSub(66)']
ENCS = ["'utf-8'", "'utf8'", "'UTF-8'", "'ascii'", "'latin-1'", "'iso-8859-1'", "'utf-16'", "'utf-16-le'", "'utf-32'", "'bogus'",
        "'idna'", "'utf_8'", "'us-ascii'", "'latin1'", "'UTF-16BE'"]
ERRS = ["'strict'", "'ignore'", "'replace'", "'surrogateescape'", "'bogus'", "'xmlcharrefreplace'", "'backslashreplace'"]
TYPES2 = ['int', 'str', '(int, str)', '(int, (str, bytes))', '()', 'list', 'object', '1', 'None', "'int'", '(int, 1)', 'IntSub',
          'type', '[int]', 'int | str', 'float', 'bool']
UCS4 = ["'a'", "'A'", "'1'", "' '", "'\\n'", "'_'", 'chr(0xe9)', 'chr(0xb2)', 'chr(0x663)', 'chr(0x20ac)', 'chr(0x2160)', 'chr(0x1c5)',
        'chr(0x1f600)', 'chr(0x10ffff)', 'chr(0xdc80)', "'\\x00'", 'chr(0x3000)', 'chr(0xad)']


class AppendObj:
    """Non-list object with append/pop methods (optimistic __Pyx_PyObject_Append/Pop must call them)."""
    def __init__(self): self.items = []
    def append(self, v):
        self.items.append(('appended', v))
        return 'append-result'
    def pop(self, *a): return ('popped',) + a
    def __repr__(self): return 'AppendObj(%r)' % (self.items,)


g5.EXTRA_NS['AppendObj'] = AppendObj

SHAPES = []        # (tag, handler keys, params, body, axes)


def S(tag, handlers, params, body, *axes):
    SHAPES.append((tag, handlers.split(), params, body, axes))


def shapes():
    del SHAPES[:]
    # ---------------------------------------------------------------- list / object append, extend, insert, reverse, pop, sort
    S('list.append/typed', 'method_object_append Builtin.list.append', 'x: list, v', 'r = x.append(v)\nreturn r, x', LISTS, OBJS[:12])
    S('obj.append/untyped', 'method_object_append', 'x, v', 'r = x.append(v)\nreturn r, x', LISTS_U, ['None', '1', "'a'", '[1]', '300'])
    S('list.append/unbound', 'method_object_append', 'x, v', 'r = list.append(x, v)\nreturn r, x', LISTS_U[:8], ['1', 'None'])
    S('list.extend/typed', 'method_list_extend Builtin.list.extend', 'x: list, v', 'r = x.extend(v)\nreturn r, x', LISTS, SEQS)
    S('list.extend/self', 'method_list_extend', 'x: list', 'r = x.extend(x)\nreturn r, x', LISTS)
    S('list.extend/genexpr', 'method_list_extend', 'x: list, v', 'r = x.extend(i * 2 for i in v)\nreturn r, x', LISTS, SEQS[:16])
    S('list.insert/typed/obj-i', 'Builtin.list.insert', 'x: list, i, v', 'r = x.insert(i, v)\nreturn r, x', LISTS, IDX + IDX_BAD + ['None'], ["'v'"])
    S('list.insert/typed/ssize_t-i', 'Builtin.list.insert', 'x: list, i: cython.Py_ssize_t', "r = x.insert(i, 'v')\nreturn r, x", LISTS, SIDX)
    S('list.insert/typed/lit', 'Builtin.list.insert', 'x: list', "x.insert(0, 'a')\nx.insert(-1, 'b')\nx.insert(100, 'c')\nx.insert(-100, 'd')\nreturn x", LISTS)
    S('list.reverse/typed', 'Builtin.list.reverse', 'x: list', 'r = x.reverse()\nreturn r, x', LISTS + ['[1, 2]', '[[1], 2, None, 4]'])
    S('list.pop/typed', 'method_list_pop method_object_pop', 'x: list', 'r = x.pop()\nreturn r, x', LISTS)
    S('obj.pop/untyped', 'method_object_pop', 'x', 'r = x.pop()\nreturn r, x', LISTS_U + ["{1, }", '{1: 2}'])
    S('list.pop/typed/obj-i', 'method_list_pop', 'x: list, i', 'r = x.pop(i)\nreturn r, x', LISTS + ['[1, 2, 3, 4, 5]'], IDXN + IDX_BAD)
    S('obj.pop/untyped/obj-i', 'method_object_pop', 'x, i', 'r = x.pop(i)\nreturn r, x', LISTS_U + ['[1, 2, 3, 4, 5]'], IDXN + IDX_BAD[:3])
    for ct, ann, vals in (('int', 'cython.int', CIDX), ('ssize_t', 'cython.Py_ssize_t', SIDX), ('uint', 'cython.uint', ['0', '1', '2', '5', '2**32 - 1']),
                          ('size_t', 'cython.size_t', ['0', '1', '5', '2**63', '2**64 - 1']), ('longlong', 'cython.longlong', SIDX)):
        S('list.pop/typed/%s-i' % ct, 'method_list_pop', 'x: list, i: %s' % ann, 'r = x.pop(i)\nreturn r, x', LISTS + ['[1, 2, 3, 4, 5]'], vals)
        S('obj.pop/untyped/%s-i' % ct, 'method_object_pop', 'x, i: %s' % ann, 'r = x.pop(i)\nreturn r, x', LISTS_U + ['[1, 2, 3, 4, 5]'], vals)
    for c in ('0', '-1', '1', '-2', '5', '-6'):
        S('list.pop/typed/lit[%s]' % c, 'method_list_pop', 'x: list', 'r = x.pop(%s)\nreturn r, x' % c, LISTS + ['[1, 2, 3, 4, 5]'])
        S('obj.pop/untyped/lit[%s]' % c, 'method_object_pop', 'x', 'r = x.pop(%s)\nreturn r, x' % c, LISTS_U + ['[1, 2, 3, 4, 5]', '{0: 1, -1: 2}'])
    S('list.pop/shrunk', 'method_list_pop', 'n: cython.int, i: cython.int', 'x = list(range(40))\ndel x[n:]\nr = x.pop(i)\nreturn r, x',
      ['1', '5', '19', '20', '21', '40'], ['0', '-1', '1', '4', '-5', '18', '19', '20', '-21'])
    S('list.sort/typed', 'method_list_sort', 'x: list', 'r = x.sort()\nreturn r, x', LISTS + ['[3, 1, 2]', "[1, 'a']", "['b', 'a']", '[[2], [1]]', "[float('nan'), 1.0, 0.5]"])
    S('list.sort/typed/kw', 'method_list_sort', 'x: list', 'r = x.sort(reverse=True)\nx.sort(key=str)\nreturn r, x', LISTS + ['[3, 1, 2]', "[1, 'a']"])
    S('list.mul/typed', 'Builtin.list.__mul__ Builtin.tuple.__mul__', 'x: list, t: tuple, n', 'return x * n, n * x, t * n, n * t', ['[]', '[1, 2]', 'None'], ['()', '(1,)', 'None'],
      ['0', '1', '3', '-1', 'True', 'IndexOnly(2)', '1.5', "'a'", 'None', 'IntSub(2)'])
    S('list.mul/typed/cint', 'Builtin.list.__mul__', 'x: list, n: cython.Py_ssize_t', 'return x * n, n * x', ['[]', '[1, 2]', 'None'], ['0', '1', '3', '-1', '-2**63'])
    S('str-bytes.mul/typed', 'Builtin.str.__mul__ Builtin.bytes.__mul__ Builtin.bytearray.__mul__', 's: str, b: bytes, a: bytearray, n', 'return s * n, n * s, b * n, n * b, a * n, n * a',
      ["''", "'ab'", 'chr(0x20ac)', 'None'], ["b''", "b'ab'", 'None'], ["bytearray(b'ab')", 'None'], ['0', '1', '3', '-1', 'True', 'IndexOnly(2)', '1.5', "'a'", 'None'])
    S('list.mul/inplace', 'Builtin.list.__mul__', 'x: list, n', 'y = x\nx *= n\nreturn x, y is x', ['[]', '[1, 2]'], ['0', '2', '-1', 'IndexOnly(2)', "'a'"])
    # ---------------------------------------------------------------- bytearray
    S('bytearray.append/typed/obj', 'method_bytearray_append', 'x: bytearray, v', 'r = x.append(v)\nreturn r, x', ["bytearray()", "bytearray(b'ab')", 'None'],
      ['0', '1', '255', '256', '-1', '2**31', '2**64', "'a'", "''", "'ab'", "b'a'", "b'ab'", 'None', '1.5', 'True', 'IndexOnly(65)', 'IntSub(66)', 'chr(0xe9)', 'chr(0x100)'])
    S('bytearray.append/typed/cint', 'method_bytearray_append', 'x: bytearray, v: cython.int', 'r = x.append(v)\nreturn r, x', ["bytearray()", "bytearray(b'ab')", 'None'],
      ['0', '255', '256', '-1', '2**31 - 1', '-2**31'])
    S('bytearray.append/typed/uchar', 'method_bytearray_append', 'x: bytearray, v: cython.uchar', 'r = x.append(v)\nreturn r, x', ["bytearray()", "bytearray(b'ab')"], ['0', '255', '65'])
    S('bytearray.append/typed/lit', 'method_bytearray_append', 'x: bytearray', "x.append(0)\nx.append(255)\nx.append(ord('a'))\nreturn x", ["bytearray()", "bytearray(b'ab')", 'None'])
    S('bytearray.extend/typed', 'method_bytearray_extend', 'x: bytearray, v', 'r = x.extend(v)\nreturn r, x', ["bytearray()", "bytearray(b'ab')", 'None'],
      ["b''", "b'xy'", "bytearray(b'z')", '[1, 2]', '[256]', "'ab'", 'None', '5', '(65, 66)', 'gen(1, 2)', "memoryview(b'q')", "[1, 'a']"])
    S('bytearray.extend/self', 'method_bytearray_extend', 'x: bytearray', 'r = x.extend(x)\nreturn r, x', ["bytearray()", "bytearray(b'ab')"])
    # ---------------------------------------------------------------- dict
    S('dict.get/typed', 'method_dict_get', 'd: dict, k', 'return d.get(k), d', DICTS, KEYS)
    S('dict.get/typed/default', 'method_dict_get', 'd: dict, k, v', 'return d.get(k, v), d', DICTS, KEYS, DEFAULTS)
    S('dict.get/untyped', 'method_dict_get', 'd, k', 'return d.get(k), d.get(k, 7)', DICTS_U, KEYS[:9])
    S('dict.get/unbound', 'method_dict_get', 'd, k', 'return dict.get(d, k), dict.get(d, k, 7)', DICTS_U, KEYS[:9])
    S('dict.setdefault/typed', 'method_dict_setdefault Builtin.dict.setdefault', 'd: dict, k', 'return d.setdefault(k), d', DICTS, KEYS)
    S('dict.setdefault/typed/default', 'method_dict_setdefault', 'd: dict, k, v', 'r = d.setdefault(k, v)\nreturn r, r is v, d', DICTS, KEYS, DEFAULTS)
    S('dict.setdefault/typed/lit', 'method_dict_setdefault', 'd: dict', "a = d.setdefault('x', [])\na.append(1)\nb = d.setdefault('x', [])\nreturn a is b, d.setdefault(1, 2.5), d.setdefault((1, 2)), d", DICTS)
    S('dict.pop/typed', 'method_dict_pop', 'd: dict, k', 'return d.pop(k), d', DICTS, KEYS)
    S('dict.pop/typed/default', 'method_dict_pop', 'd: dict, k, v', 'return d.pop(k, v), d', DICTS, KEYS, DEFAULTS)
    S('dict.pop/untyped', 'method_dict_pop', 'd, k', 'return d.pop(k, 7), d', DICTS_U, KEYS[:9])
    S('dict.views/typed', 'Builtin.dict.keys Builtin.dict.values Builtin.dict.items', 'd: dict', 'return list(d.keys()), list(d.values()), list(d.items()), type(d.keys()).__name__, len(d.items())', DICTS)
    S('dict.clear-copy/typed', 'Builtin.dict.clear Builtin.dict.copy', 'd: dict', 'c = d.copy()\nr = d.clear()\nreturn r, c, d, type(c).__name__', DICTS)
    S('dict.contains/typed', 'Builtin.dict.__contains__', 'd: dict, k', 'return k in d, k not in d, d.__contains__(k)', DICTS, KEYS)
    S('dict.getitem/typed', 'DictGetItem', 'd: dict, k', 'return d[k]', DICTS, KEYS)
    S('dict.update-len/typed', 'function_len', 'd: dict, o', 'd.update(o)\nreturn len(d), d', DICTS[:3], ['{}', '{5: 6}', '[(7, 8)]', 'None', '5', '[1]'])
    # ---------------------------------------------------------------- set
    S('set.add/typed', 'Builtin.set.add', 'x: set, k', 'r = x.add(k)\nreturn r, x', SETS, KEYS)
    S('set.discard/typed', 'Builtin.set.discard', 'x: set, k', 'r = x.discard(k)\nreturn r, x', SETS + ['{frozenset({1})}'], KEYS)
    S('set.remove/typed', 'Builtin.set.remove', 'x: set, k', 'r = x.remove(k)\nreturn r, x', SETS + ['{frozenset({1})}'], KEYS)
    S('set.pop-clear/typed', 'Builtin.set.pop Builtin.set.clear', 'x: set', 'n = len(x)\nr = x.pop()\nm = len(x)\nx.clear()\nreturn n, m, r in (1, "a", (1, 2)), x', SETS)
    S('set.ops/untyped', 'Builtin.set.add', 'x, k', 'x.add(k)\nx.discard(k)\nx.add(k)\nx.remove(k)\nreturn x', SETS_U, KEYS[:8])
    S('set.contains/typed', 'PySetContains', 'x: set, k', 'return k in x, k not in x', SETS + ['{frozenset({1})}'], KEYS)
    S('frozenset.contains/typed', 'PySetContains', 'x: frozenset, k', 'return k in x', ['frozenset()', 'frozenset({1, frozenset({1})})', 'None'], KEYS)
    # ---------------------------------------------------------------- str methods
    for meth in ('startswith', 'endswith'):
        S('str.%s/typed' % meth, 'method_unicode_%s' % meth, 's: str, p', 'return s.%s(p)' % meth, SHORT_STRS + ['None'], PREFIX)
        S('str.%s/typed/start' % meth, 'method_unicode_%s' % meth, 's: str, p, a', 'return s.%s(p, a)' % meth, SHORT_STRS[:6], PREFIX[:12], IDXN + IDX_BAD[:3])
        S('str.%s/typed/start-end' % meth, 'method_unicode_%s' % meth, 's: str, p, a, b', 'return s.%s(p, a, b)' % meth, SHORT_STRS[1:5], ["''", "'a'", "'bc'", "('c', 'ab')", '()'], IDXN, IDXN)
        S('str.%s/typed/cint' % meth, 'method_unicode_%s' % meth, 's: str, p: str, a: cython.Py_ssize_t, b: cython.Py_ssize_t', 'return s.%s(p, a, b)' % meth,
          SHORT_STRS[1:5], ["''", "'a'", "'bc'", 'None'], SIDX, SIDX)
        S('str.%s/typed/lit' % meth, 'method_unicode_%s' % meth, 's: str', "return s.%s('a'), s.%s(('b', 'c')), s.%s('', 1), s.%s('a', -1, 100), s.%s(())" % ((meth,) * 5), STRS + ['None'])
        S('str.%s/untyped' % meth, 'method_unicode_%s' % meth, 's, p', 'return s.%s(p)' % meth, SHORT_STRS[:4] + ["b'ab'", "bytearray(b'ab')", 'None', '5', "StrSub('ab')"], PREFIX[:12] + BPREFIX[:5])
        S('str.%s/unbound' % meth, 'method_unicode_%s' % meth, 's, p', 'return str.%s(s, p)' % meth, SHORT_STRS[:4] + ["b'ab'", 'None', "StrSub('ab')"], PREFIX[:12])
        S('bytes.%s/typed' % meth, 'method_bytes_%s' % meth, 's: bytes, p', 'return s.%s(p)' % meth, SHORT_BYTES + ['None'], BPREFIX)
        S('bytes.%s/typed/start-end' % meth, 'method_bytes_%s' % meth, 's: bytes, p, a, b', 'return s.%s(p, a, b)' % meth, SHORT_BYTES[1:4], ["b''", "b'a'", "b'bc'", "(b'c', b'ab')", '()'], IDXN, IDXN)
        S('bytearray.%s/typed' % meth, 'method_bytearray_%s' % meth, 's: bytearray, p', 'return s.%s(p)' % meth, ['bytearray(%s)' % b for b in SHORT_BYTES[:5]] + ['None'], BPREFIX)
        S('bytearray.%s/typed/start-end' % meth, 'method_bytearray_%s' % meth, 's: bytearray, p, a, b', 'return s.%s(p, a, b)' % meth, ["bytearray(b'abcabc')", 'bytearray()'],
          ["b''", "b'a'", "(b'c', b'ab')"], IDXN, IDXN)
    for meth in ('find', 'rfind', 'count'):
        S('str.%s/typed' % meth, 'method_unicode_%s' % meth, 's: str, p', 'return s.%s(p)' % meth, SHORT_STRS + ['None'], PREFIX[:8] + ['1', 'None', "b'a'", "StrSub('a')", "('a',)"])
        S('str.%s/typed/start-end' % meth, 'method_unicode_%s' % meth, 's: str, p, a, b', 'return s.%s(p, a, b)' % meth, SHORT_STRS[1:6], ["''", "'a'", "'bc'", 'chr(0xe9)', 'chr(0x1f600)'], IDXN, IDXN)
        S('str.%s/typed/start' % meth, 'method_unicode_%s' % meth, 's: str, p, a', 'return s.%s(p, a)' % meth, SHORT_STRS[:6], ["''", "'a'", "'bc'"], IDXN + IDX_BAD[:3])
        S('str.%s/typed/cint' % meth, 'method_unicode_%s' % meth, 's: str, p: str, a: cython.Py_ssize_t, b: cython.Py_ssize_t', 'return s.%s(p, a, b)' % meth,
          SHORT_STRS[1:5], ["''", "'a'", "'bc'", 'None'], SIDX, SIDX)
        S('str.%s/typed/ucs4' % meth, 'method_unicode_%s' % meth, 's: str, c: cython.Py_UCS4', 'return s.%s(c)' % meth, STRS, UCS4[:10])
    S('str.replace/typed', 'method_unicode_replace', 's: str, a, b', 'return s.replace(a, b)', SHORT_STRS + ['None'], ["''", "'a'", "'ab'", 'chr(0xe9)', 'None', '1', "b'a'"],
      ["''", "'X'", 'chr(0x1f600)', 'None', '1'])
    S('str.replace/typed/count', 'method_unicode_replace', 's: str, a, b, n', 'return s.replace(a, b, n)', SHORT_STRS[:6], ["''", "'a'", "'ab'"], ["''", "'X'", 'chr(0x20ac)'],
      ['0', '1', '2', '-1', '-2', '2**31', '2**63', '-2**63', '2**64', 'None', '1.5', 'IndexOnly(1)', 'True'])
    S('str.replace/typed/cint', 'method_unicode_replace', 's: str, n: cython.Py_ssize_t', "return s.replace('a', 'XY', n)", SHORT_STRS, ['0', '1', '2', '-1', '2**63 - 1', '-2**63'])
    S('str.split/typed', 'method_unicode_split', 's: str', 'return s.split(), s.rsplit()', STRS + SHORT_STRS + ['None'])
    S('str.split/typed/sep', 'method_unicode_split', 's: str, sep', 'return s.split(sep)', SHORT_STRS + ['None'], ['None', "''", "' '", "'a'", "'ab'", 'chr(0xe9)', '1', "b'a'", "StrSub(' ')"])
    S('str.split/typed/sep-max', 'method_unicode_split', 's: str, sep, n', 'return s.split(sep, n)', SHORT_STRS, ['None', "' '", "'a'", "'ab'"],
      ['0', '1', '2', '-1', '-2', '2**31', '2**63 - 1', '2**63', '-2**63 - 1', 'None', '1.5', 'IndexOnly(1)', 'True'])
    S('str.split/typed/kw', 'method_unicode_split', 's: str', "return s.split(sep=None, maxsplit=1), s.split(' ', maxsplit=-1), s.split(maxsplit=2)", SHORT_STRS)
    S('str.splitlines/typed', 'method_unicode_splitlines', 's: str', 'return s.splitlines()', STRS + SHORT_STRS + ["'a\\rb\\x0bc\\x1cd\\u2028e\\x85f'", 'None'])
    S('str.splitlines/typed/keep', 'method_unicode_splitlines', 's: str, k', 'return s.splitlines(k)', SHORT_STRS + ["'a\\rb\\x0bc\\x1cd\\u2028e\\x85f'"],
      ['True', 'False', '0', '1', '2', '-1', 'None', "''", "'a'", '[]', '[0]', '1.5', "float('nan')", '2**64', 'NotImpl()'])
    S('str.splitlines/typed/bint', 'method_unicode_splitlines', 's: str, k: cython.bint', 'return s.splitlines(k), s.splitlines(True), s.splitlines(keepends=False)', SHORT_STRS, ['True', 'False'])
    S('str.join/typed', 'method_unicode_join Builtin.str.join', 's: str, x', 'return s.join(x)', ["''", "', '", 'chr(0x20ac)', 'None'],
      ['[]', "['a']", "['a', 'b']", "('a', chr(0xe9))", "['a', 1]", "['a', b'b']", "'abc'", 'None', '5', "gen('a', 'b')", "{'a': 1}", "[StrSub('x'), 'y']", "['a', None]", "[chr(0x1f600)] * 3"])
    S('str.join/typed/genexpr', 'method_unicode_join', 's: str, x', 'return s.join(str(v) for v in x), s.join([str(v) for v in x])', ["''", "', '"], SEQS[:16])
    S('str.join/literal', 'method_unicode_join', 'x', "return ''.join(x), '-'.join(x)", ['[]', "['a']", "('a', 'b')", "['a', 1]", 'None', "'xyz'", "gen('a', 'b')"])
    S('bytes.join/typed', 'Builtin.bytes.join', 's: bytes, x', 'return s.join(x)', ["b''", "b', '", 'None'], ['[]', "[b'a']", "[b'a', b'b']", "[b'a', 'b']", "[bytearray(b'a'), memoryview(b'b')]", 'None', "b'abc'", '5'])
    S('str.contains/typed', 'Builtin.str.__contains__', 's: str, p', 'return p in s, p not in s', SHORT_STRS + ['None'], PREFIX[:8] + ['1', 'None', "b'a'", "StrSub('a')"])
    S('str.contains/typed/ucs4', 'Builtin.str.__contains__', 's: str, c: cython.Py_UCS4', 'return c in s, c not in s', STRS, UCS4[:10])
    S('str.encode/typed', 'method_unicode_encode', 's: str', "return s.encode(), s.encode('utf-8'), s.encode('utf8', 'ignore'), s.encode('UTF-8', 'surrogatepass')", STRS + ['None'])
    for enc in ("'ascii'", "'latin-1'", "'utf-16'", "'utf-32'", "'ASCII'", "'iso8859-1'", "'utf_8'", "'bogus'", "'utf-16-le'", "'U8'"):
        S('str.encode/typed/lit[%s]' % enc.strip("'"), 'method_unicode_encode', 's: str', 'return s.encode(%s)' % enc, STRS)
        S('str.encode/typed/lit[%s]/errors' % enc.strip("'"), 'method_unicode_encode', 's: str', "return s.encode(%s, 'replace'), s.encode(%s, 'ignore'), s.encode(%s, errors='xmlcharrefreplace')" % (enc, enc, enc), STRS)
    S('str.encode/typed/var', 'method_unicode_encode', 's: str, e, r', 'return s.encode(e, r)', ["''", "'a'", 'chr(0xe9)', 'chr(0x20ac)', 'chr(0x1f600)', 'chr(0xdc80)'], ENCS + ['None', '1'], ERRS + ['None', '1'])
    S('str.encode/typed/kw', 'method_unicode_encode', 's: str, e', 'return s.encode(encoding=e), s.encode(errors=e)', ["'a'", 'chr(0xe9)', 'chr(0xdc80)'], ENCS[:6] + ERRS[:3])
    S('str.encode/untyped', 'method_unicode_encode', 's', "return s.encode('utf-8'), s.encode()", ["'a'", 'chr(0x20ac)', "StrSub('a')", "b'a'", 'None', '5'])
    for pred in ('isalnum', 'isalpha', 'isdecimal', 'isdigit', 'islower', 'isnumeric', 'isspace', 'istitle', 'isupper', 'isprintable'):
        S('ucs4.%s' % pred, 'method_unicode_%s' % pred, 'c: cython.Py_UCS4', 'return c.%s()' % pred, UCS4)
    S('ucs4.case', 'method_unicode_lower', 'c: cython.Py_UCS4', 'return c.lower(), c.upper(), c.title()', UCS4 + ['chr(0xdf)', 'chr(0x130)', 'chr(0xfb01)'])
    S('str.predicates/typed', 'method_unicode_isalpha', 's: str', 'return s.isalpha(), s.isdigit(), s.isspace(), s.lower(), s.upper(), s.strip()', STRS + SHORT_STRS)
    # ---------------------------------------------------------------- bytes / bytearray decode
    S('bytes.decode/typed', 'method_bytes_decode', 'b: bytes', "return b.decode(), b.decode('utf-8'), b.decode('utf8', 'replace'), b.decode('ascii', 'ignore'), b.decode('latin-1')", SHORT_BYTES + ['None'])
    for enc in ("'ascii'", "'utf-16'", "'utf-16-le'", "'utf-16-be'", "'utf-32'", "'UTF8'", "'bogus'", "'latin1'", "'iso-8859-1'", "'cp1252'", "'utf-32-le'"):
        S('bytes.decode/typed/lit[%s]' % enc.strip("'"), 'method_bytes_decode', 'b: bytes', 'return b.decode(%s)' % enc, SHORT_BYTES + ["b'a\\x00b\\x00'", "b'\\xff\\xfea\\x00'", "b'a\\x00\\x00\\x00'"])
    S('bytes.decode/typed/var', 'method_bytes_decode', 'b: bytes, e, r', 'return b.decode(e, r)', SHORT_BYTES[:6], ENCS + ['None', '1'], ERRS + ['None', '1'])
    S('bytes.decode/typed/slice', 'method_bytes_decode', 'b: bytes, i, j', "return b[i:j].decode('utf-8', 'replace'), b[i:].decode('latin-1'), b[:j].decode('ascii', 'ignore')", SHORT_BYTES, IDXN[:11] + ['None'], IDXN[:11] + ['None'])
    S('bytes.decode/typed/cslice', 'method_bytes_decode', 'b: bytes, i: cython.Py_ssize_t, j: cython.Py_ssize_t', "return b[i:j].decode('latin-1'), b[i:].decode('latin-1'), b[:j].decode('latin-1')", SHORT_BYTES, SIDX, SIDX)
    S('bytearray.decode/typed', 'method_bytearray_decode', 'b: bytearray', "return b.decode(), b.decode('utf-8', 'replace'), b.decode('latin-1'), b.decode('utf-16', 'ignore')", ['bytearray(%s)' % x for x in SHORT_BYTES] + ['None'])
    S('bytearray.decode/typed/slice', 'method_bytearray_decode', 'b: bytearray, i, j', "return b[i:j].decode('latin-1')", ['bytearray(%s)' % x for x in SHORT_BYTES[:5]], IDXN[:11] + ['None'], IDXN[:11] + ['None'])
    S('bytes.decode/untyped', 'method_bytes_decode', 'b', "return b.decode('utf-8'), b.decode()", ["b'a'", "bytearray(b'a')", "BytesSub(b'a')", "memoryview(b'a')", "'a'", 'None'])
    # ---------------------------------------------------------------- builtin functions
    for t in ('list', 'tuple', 'str', 'bytes', 'bytearray', 'dict', 'set', 'frozenset'):
        vals = {'list': ['[]', '[1, 2]'], 'tuple': ['()', '(1, 2, 3)'], 'str': STRS, 'bytes': SHORT_BYTES, 'bytearray': ['bytearray()', "bytearray(b'abc')"],
                'dict': ['{}', '{1: 2}'], 'set': ['set()', '{1, 2}'], 'frozenset': ['frozenset()', 'frozenset({1})']}[t]
        S('len/typed/%s' % t, 'function_len', 'x: %s' % t, 'return len(x)', vals + ['None'])
    S('len/untyped', 'function_len Builtin.len', 'x', 'return len(x)', OBJS + ['LenObj(3)', 'LenObj(-1)', 'LenObj(2**63)', "LenObj('a')", 'LenObj(1.5)', 'LenObj(True)', 'LenObj(IndexOnly(2))'])
    S('len/ucs4', 'function_len', 'c: cython.Py_UCS4', 'return len(c)', UCS4[:6])
    S('abs/untyped', 'Builtin.abs', 'x', 'return abs(x)', NUMS + support.INTS[::7])
    S('abs/typed/int', 'Builtin.abs', 'x: cython.int', 'return abs(x)', CINTS)
    S('abs/typed/long', 'Builtin.abs', 'x: cython.long', 'return abs(x)', CINTS + ['2**63 - 1', '-2**63 + 1'])
    S('abs/typed/longlong', 'Builtin.abs', 'x: cython.longlong', 'return abs(x)', CINTS + ['2**63 - 1', '-2**63 + 1'])
    S('abs/typed/double', 'Builtin.abs', 'x: cython.double', 'return abs(x)', CDBLS)
    S('abs/typed/uint', 'Builtin.abs', 'x: cython.uint', 'return abs(x)', ['0', '1', '2**32 - 1'])
    for fn in ('min', 'max'):
        S('%s/2/untyped' % fn, 'function_%s' % fn, 'a, b', 'return %s(a, b)' % fn, NUMS[:22] + ["'b'"], NUMS[:22] + ["'b'"])
        S('%s/3/untyped' % fn, 'function_%s' % fn, 'a, b, c', 'return %s(a, b, c)' % fn, NUMS[10:17] + ['1', 'True'], NUMS[10:17] + ['1', 'True'], NUMS[10:17] + ['1', '1.0'])
        S('%s/2/int' % fn, 'function_%s' % fn, 'a: cython.int, b: cython.int', 'return %s(a, b)' % fn, CINTS, CINTS)
        S('%s/3/int' % fn, 'function_%s' % fn, 'a: cython.int, b: cython.int, c: cython.int', 'return %s(a, b, c), %s(a, 1, c), %s(3, b, -3)' % (fn, fn, fn), CINTS[:5], CINTS[:5], CINTS[:5])
        S('%s/2/double' % fn, 'function_%s' % fn, 'a: cython.double, b: cython.double', 'return %s(a, b)' % fn, CDBLS, CDBLS)
        S('%s/3/double' % fn, 'function_%s' % fn, 'a: cython.double, b: cython.double, c: cython.double', 'return %s(a, b, c)' % fn, CDBLS[:7], CDBLS[:7], CDBLS[:7])
        S('%s/2/lit' % fn, 'function_%s' % fn, 'a', 'return %s(a, 1), %s(1, a), %s(a, 1.0), %s(0.0, a), %s(a, -0.0)' % ((fn,) * 5), NUMS[:22])
        S('%s/1/seq' % fn, 'function_%s' % fn, 'x', 'return %s(x)' % fn, SEQS)
        S('%s/kw' % fn, 'function_%s' % fn, 'x', 'return %s(x, default=7), %s(x, key=repr), %s(x, 100, key=str)' % (fn, fn, fn), SEQS[:14])
        S('%s/genexpr' % fn, 'function_%s' % fn, 'x', 'return %s(v for v in x)' % fn, SEQS[:16])
        S('%s/star' % fn, 'function_%s' % fn, 'x', 'return %s(*x)' % fn, ['[1, 2]', '[2, 1, 3]', '[]', '[[3, 1]]', '(1.5, 1)'])
    S('sum/untyped', 'function_sum', 'x', 'return sum(x)', SEQS)
    S('sum/start', 'function_sum', 'x, s', 'return sum(x, s), sum(x, start=s)', SEQS[:16] + ['[[1], [2]]', '[1.5, 2.5]'], ['0', '1.5', '[]', "''", 'None', '2**70'])
    S('sum/genexpr', 'function_sum', 'x', 'return sum(v * 2 for v in x), sum((v for v in x), 10), sum([v for v in x])', SEQS)
    S('sum/genexpr/typed', 'function_sum', 'x: list', 'i: cython.int\nreturn sum(i * i for i in x), sum(1.5 for i in x)', ['[]', '[1, 2, 3]', '[2**31 - 1]', 'None'])
    S('any-all/genexpr', 'function_any function_all', 'x', 'return any(v for v in x), all(v for v in x), any(v == 1 for v in x), all(v != 2 for v in x)', SEQS)
    S('any-all/plain', 'function_any function_all', 'x', 'return any(x), all(x)', SEQS)
    S('any-all/sideeffects', 'function_any function_all', 'x', "r = any(L('a', v) for v in x)\nq = all(L('b', v) for v in x)\nreturn r, q", SEQS[:14])
    S('sorted/untyped', 'function_sorted', 'x', 'r = sorted(x)\nreturn r, r is x', SEQS)
    S('sorted/genexpr', 'function_sorted', 'x', 'return sorted(v for v in x), sorted([v for v in x]), sorted((v, 1) for v in x)', SEQS)
    S('sorted/kw', 'function_sorted', 'x', 'return sorted(x, reverse=True), sorted(x, key=repr), sorted(x, key=None, reverse=False)', SEQS)
    S('sorted/typed', 'function_sorted', 'x: list, t: tuple', 'r = sorted(x)\nreturn r, r is x, sorted(t)', LISTS + ['[3, 1, 2]'], ['()', '(2, 1)', 'None'])
    for fn in ('list', 'tuple', 'set', 'frozenset'):
        S('%s/untyped' % fn, 'function_%s' % fn, 'x', 'r = %s(x)\nreturn r, r is x, type(r).__name__' % fn, SEQS + ['[[1]]', '[{}]', '[Unhashable()]'])
        S('%s/genexpr' % fn, 'function_%s' % fn, 'x', 'return %s(v for v in x), %s(v * 2 for v in x if v)' % (fn, fn), SEQS[:20])
        S('%s/empty-kw' % fn, 'function_%s' % fn, '', 'return %s(), type(%s()).__name__' % (fn, fn), )
    S('list-tuple/typed', 'function_list function_tuple', 'x: list, t: tuple', 'a = list(x)\nb = tuple(t)\nc = tuple(x)\nd = list(t)\nreturn a, a is x, b, b is t, c, d', LISTS, ['()', '(1, 2)', 'None'])
    S('set/typed', 'function_set function_frozenset', 'x: set, f: frozenset', 'a = set(x)\nb = frozenset(f)\nreturn a, a is x, b, b is f, frozenset(x), set(f)', SETS, ['frozenset()', 'frozenset({1})', 'None'])
    S('dict/untyped', 'function_dict', 'x', 'r = dict(x)\nreturn r, r is x, type(r).__name__', SEQS + DICTS_U)
    S('dict/kw', 'function_dict', 'x', "return dict(a=1), dict(x, b=2), dict(**x), dict(x, **x)", DICTS_U[:5] + ["{'a': 1}", "[('k', 'v')]", "DictSub({'z': 1})"])
    S('dict/genexpr', 'function_dict', 'x', 'return dict((v, v) for v in x), dict([(v, 1) for v in x]), {v: 2 for v in x}', SEQS[:20])
    S('dict/typed', 'function_dict', 'd: dict', 'r = dict(d)\nreturn r, r is d, type(r).__name__', DICTS)
    S('isinstance/lit', 'function_isinstance', 'x', 'return (isinstance(x, int), isinstance(x, (int, str)), isinstance(x, (float, (list, bytes))), isinstance(x, list), isinstance(x, object), isinstance(x, (tuple, dict, set, frozenset, bytearray, bool)), isinstance(x, type), isinstance(x, ()))', OBJS)
    S('isinstance/var', 'function_isinstance Builtin.isinstance', 'x, t', 'return isinstance(x, t)', OBJS[:14] + ['IntSub(5)', 'int'], TYPES2)
    S('isinstance/typed', 'function_isinstance', 'x: list, s: str', 'return isinstance(x, list), isinstance(x, (list, tuple)), isinstance(s, str), isinstance(s, (bytes, int))', LISTS, ["'a'", 'None'])
    S('issubclass', 'Builtin.issubclass', 'a, b', 'return issubclass(a, b)', ['int', 'bool', 'IntSub', '1', 'None', 'str'], TYPES2)
    S('type', 'function_type', 'x', 'return type(x).__name__, type(x) is int, type(x) is type(x)', OBJS)
    S('ord/untyped', 'function_ord Builtin.ord', 'x', 'return ord(x)', ORDS)
    S('ord/typed/ucs4', 'function_ord', 'c: cython.Py_UCS4', 'return ord(c)', UCS4)
    S('ord/typed/str', 'function_ord', 's: str, b: bytes', 'return ord(s), ord(b)', ORDS[:7] + ['None'], ORDS[7:11] + ['None'])
    S('ord/lit', 'function_ord', '', "return ord('a'), ord(b'a'), ord('\\xe9'), ord('\\u20ac'), ord('\\U0001f600')")
    S('ord/typed/index', 'function_ord', 's: str, i: cython.int', 'return ord(s[i])', ["'ab'", "'a' + chr(0x1f600)", "''"], ['0', '1', '-1', '2', '-3'])
    S('chr/untyped', 'Builtin.chr', 'x', 'return chr(x)', CHRS)
    S('chr/typed/int', 'Builtin.chr', 'x: cython.int', 'return chr(x)', [c for c in CHRS[:15]] + ['-2**31'])
    S('chr/typed/long', 'Builtin.chr', 'x: cython.long', 'return chr(x)', [c for c in CHRS[:16]] + ['2**40', '-2**40', '2**32 + 65'])
    S('int/untyped', 'function_int', 'x', 'return int(x)', OBJS + NUMS)
    S('int/base', 'function_int', 'x, b', 'return int(x, b)', ["'12'", "'0x1f'", "'z'", "b'11'", "' 7 '", '12', 'None', "''", "'1_0'"], ['10', '16', '0', '2', '36', '37', '1', '-1', 'None', "'a'", '2**64'])
    S('int/typed', 'function_int', 'd: cython.double, i: cython.int', 'return int(d), int(i), int()', CDBLS[:4] + ['1e18', '-1e18', '1e300', '2.0**63', '-2.0**63'] + CDBLS[4:7], ['0', '-7'])
    S('float/untyped', 'function_float', 'x', 'return float(x)', OBJS + NUMS + ["'1e5'", "'nan'", "'-inf'", "' 1.5\\n'", "'1.5x'", "'1_0.5'", "b' 2.5 '", "bytearray(b'3.5')", "'\\u0661.\\u0665'", "'infinity'", "''", "'.'", "'1e'"])
    S('float/typed', 'function_float', 'i: cython.int, d: cython.double, s: str, b: bytes', 'return float(i), float(d), float(s), float(b), float()', ['0', '-7', '2**31 - 1'], ['-0.0', '1.5'],
      ["'1.5'", "' nan '", "'x'", 'None', "'1e400'", "'-0'"], ["b'1.5'", "b'x'", 'None'])
    S('bool/untyped', 'function_bool', 'x', 'return bool(x), not x, bool()', OBJS + ['LenObj(0)', 'LenObj(2)', 'LenObj(-1)', 'BoolRaises()'])
    S('bool/typed', 'function_bool', 'i: cython.int, d: cython.double, x: list, s: str', 'return bool(i), bool(d), bool(x), bool(s)', ['0', '-7'], ['0.0', '-0.0', "float('nan')", '1.5'], ['[]', '[0]', 'None'], ["''", "'a'", 'None'])
    S('str/untyped', 'function_unicode function_str', 'x', 'return str(x), type(str(x)).__name__, str(), repr(x) == repr(x)', [o for o in OBJS if o not in ('gen(1, 2)', 'len', "memoryview(b'ab')")] + ['StrObj()', 'StrBad()'])
    S('str/typed', 'function_unicode function_str', 's: str, i: cython.int, d: cython.double', 'r = str(s)\nreturn r, r is s, str(i), str(d)', ["''", "'a'", 'None'], ['0', '-7'], CDBLS)
    S('str/decode', 'function_unicode function_str', 'b, e', "return str(b, e), str(b, 'utf-8', 'replace'), str(b, encoding='latin-1')", ["b'a'", "b'\\xff'", "bytearray(b'a')", "'a'", 'None', '5'], ENCS[:5] + ['None'])
    S('bytes-bytearray', 'Builtin.bytes', 'x', 'return bytes(x), bytearray(x)', ['0', '3', '-1', "b'ab'", "bytearray(b'ab')", '[1, 2]', '[256]', "'a'", 'None', 'gen(1, 2)', 'IndexOnly(2)', "memoryview(b'q')", '2**64', 'True'])
    S('callable-hash', 'Builtin.callable Builtin.hash', 'x', 'return callable(x), hash(x) == hash(x)', OBJS + ['BadHash()'])
    S('getattr-hasattr', 'Builtin.getattr Builtin.hasattr', 'x, n', "return hasattr(x, n), getattr(x, n, 'dflt') is not None, getattr(x, n).__class__.__name__", ['1', "'a'", 'None', 'AttrObj()', '[]'],
      ["'real'", "'nope'", "'upper'", "'boom'", "''", '1', 'None', "StrSub('real')", "'__class__'", "'x' * 300"])
    S('setattr-delattr', 'Builtin.setattr Builtin.delattr', 'n, v', "o = AttrObj()\nsetattr(o, n, v)\nr = getattr(o, n)\ndelattr(o, n)\nreturn r, hasattr(o, n)", ["'a'", "'boom'", "''", '1', 'None', "StrSub('z')"], ['1', 'None'])
    S('iter-next', 'Builtin.iter Builtin.next', 'x', 'it = iter(x)\na = next(it, "dflt")\nb = next(it, None)\nreturn a, b, next(it)', SEQS[:16] + ['iter([1, 2, 3])', 'NextRaises()'])
    S('next/no-default', 'Builtin.next', 'x', 'return next(x)', ['iter([])', 'iter([1])', 'gen()', 'gen(1)', '[1]', 'None', '5', 'NextRaises()', 'iter(())', "iter('a')"])
    S('iter/sentinel', 'Builtin.iter', 'x, s', 'return list(iter(x, s))', ['CountCall()', 'None', '5', 'len'], ['3', '1'])
    S('divmod-pow', 'Builtin.divmod Builtin.pow', 'a, b', 'return divmod(a, b), pow(a, b), a ** b', NUMS[:9] + ['1.5', '-1.5', "'a'", 'None', 'True'], ['0', '1', '-1', '2', '3', '0.5', '-2', "'a'", 'None'])
    S('pow3', 'Builtin.pow', 'a, b, c', 'return pow(a, b, c)', ['0', '2', '-3', '2**70', '1.5', 'None'], ['0', '1', '5', '-1', '1.5'], ['1', '7', '-7', '0', '2**70', 'None', '1.5'])
    S('bin-hex-oct', 'Builtin.bin Builtin.hex Builtin.oct', 'x', 'return bin(x), hex(x), oct(x)', NUMS + ['IndexOnly(5)', 'IntOnly(5)'])
    S('repr-ascii-format', 'Builtin.repr Builtin.ascii Builtin.format', 'x', "return repr(x), ascii(x), format(x), format(x, '')", [o for o in OBJS if o not in ('gen(1, 2)', 'len', "memoryview(b'ab')")] + STRS)
    S('format2', 'Builtin.format', 'x, f', 'return format(x, f)', ['1', '1.5', "'a'", 'None', 'True', '2**70', '[]'], ["''", "'5'", "'>5'", "'x'", "'.2f'", "'05d'", '1', 'None', "'s'", "StrSub('d')"])
    S('dir', 'Builtin.dir', 'x', "return 'real' in dir(x), type(dir(x)).__name__", ['1', "'a'", 'None', 'AttrObj()'])
    S('dunder/int', 'method_object___add__ method_int___add__ method_float___add__', 'a, b', "return a.__add__(b), a.__sub__(b), a.__mul__(b), a.__eq__(b), a.__ne__(b)", ['1', '2**70', '1.5', 'True', "'a'", '[1]', 'None'], ['1', '2', '1.5', "'b'", '[2]', 'None', '2**70'])
    S('dunder/int/lit', 'method_object___add__ method_int___add__ method_float___add__ method_object___sub__ method_int___sub__ method_float___sub__ method_object___mul__ method_int___mul__ method_float___mul__ method_object___eq__ method_int___eq__ method_float___eq__ method_object___ne__ method_int___ne__ method_float___ne__ method_object___and__ method_int___and__ method_float___and__ method_object___or__ method_int___or__ method_float___or__ method_object___xor__ method_int___xor__ method_float___xor__ method_object___rshift__ method_int___rshift__ method_float___rshift__ method_object___lshift__ method_int___lshift__ method_float___lshift__ method_object___mod__ method_int___mod__ method_float___mod__ method_object___floordiv__ method_int___floordiv__ method_float___floordiv__ method_object___truediv__ method_int___truediv__ method_float___truediv__', 'a', "return a.__add__(1), a.__sub__(2), a.__and__(3), a.__or__(4), a.__xor__(5), a.__rshift__(1), a.__lshift__(2), a.__mod__(7), a.__floordiv__(2), a.__truediv__(2), a.__eq__(1), a.__ne__(1)", ['1', '0', '-1', '2**30', '2**62', '2**70', '-2**70', 'True', 'IntSub(5)'])
    S('dunder/typed-int', 'method_int___add__', 'a: int', "return a.__add__(1), a.__sub__(2), a.__mul__(3), a.__eq__(1), a.__lshift__(2), a.__mod__(7), a.__floordiv__(2), a.__truediv__(2)", ['1', '0', '-1', '2**30', '2**62', '2**70', '-2**70'])
    S('dunder/typed-float', 'method_float___add__', 'a: float', "return a.__add__(1.0), a.__sub__(2.0), a.__truediv__(2.0), a.__mod__(2.0), a.__eq__(1.0), a.__ne__(1.0), a.__add__(1)", CDBLS)
    S('slice', 'function_slice', 'a, b, c', 'return slice(a), slice(a, b), slice(a, b, c), slice(a, b, c).indices(10)', ['None', '1', '-1', "'a'"], ['None', '5', '2**64'], ['None', '2', '-1', '0'])
    return SHAPES


class LenObj:
    def __init__(self, n): self.n = n
    def __len__(self): return self.n
    def __repr__(self): return 'LenObj(%r)' % (self.n,)


class BoolRaises:
    def __bool__(self): raise ZeroDivisionError('bool')
    def __repr__(self): return 'BoolRaises()'


class StrObj:
    def __str__(self): return 'strobj'
    def __repr__(self): return 'StrObj()'


class StrBad:
    def __str__(self): return 5
    def __repr__(self): return 'StrBad()'


class AttrObj:
    def __init__(self): self.x = 1
    @property
    def boom(self): raise ZeroDivisionError('boom')
    @boom.setter
    def boom(self, v): raise KeyError('set')
    def __repr__(self): return 'AttrObj()'


class NextRaises:
    def __iter__(self): return self
    def __next__(self): raise ZeroDivisionError('next')
    def __repr__(self): return 'NextRaises()'


class CountCall:
    def __init__(self): self.n = 0
    def __call__(self):
        self.n += 1
        return self.n
    def __repr__(self): return 'CountCall()'


g5.EXTRA_NS.update(LenObj=LenObj, BoolRaises=BoolRaises, StrObj=StrObj, StrBad=StrBad, AttrObj=AttrObj, NextRaises=NextRaises,
                   CountCall=CountCall)

NO_SHAPE_OK = ('memoryview', 'slot__new__', 'slot__class__', 'frozendict', '___div__', 'NotNode', 'UnaryMinusNode', 'UnaryPlusNode',
               'has_key', '.iter', '.view', 'unichr', 'intern', 'reload', 'exec', 'locals', '__Pyx_', 'getattr3')


def introspect_handlers():
    """Names of the optimisation handlers of the staged compiler: `function_x`, `method_T_m`, `Builtin.T.m`."""
    from Cython.Compiler import Optimize, Builtin
    hs = set()
    for cls in (Optimize.OptimizeBuiltinCalls, Optimize.EarlyReplaceBuiltinCalls):
        for n in dir(cls):
            m = re.match(r'_handle_(?:simple_|general_|any_)?(function_\w+|method_\w+|slot\w+)$', n)
            if m:
                hs.add(m.group(1))
    for tname, cname, members in Builtin.builtin_types_table:
        for mem in members:
            if isinstance(mem, Builtin.BuiltinMethod):
                hs.add('Builtin.%s.%s' % (tname, mem.py_name))
    for f in Builtin.builtin_function_table:
        hs.add('Builtin.%s' % f.py_name)
    return hs


def _argclass(expr):
    try:
        v = eval(expr, g5.namespace())
    except Exception:
        return 'expr'
    t = type(v).__name__
    if type(v) is int:
        return 'int' if -2 ** 31 <= v < 2 ** 31 else 'bigint' if -2 ** 63 <= v < 2 ** 63 else 'hugeint'
    if type(v) is float:
        return 'nan' if v != v else 'float'
    if type(v) is str and v:
        return 'str:' + ('ascii' if ord(max(v)) < 128 else 'latin1' if ord(max(v)) < 256 else 'ucs2' if ord(max(v)) < 65536 else 'ucs4')
    return t


def keyfn(tag, inp, exp, got):
    """shape family (literal constants, startswith/endswith, find/rfind/count and the start / start-end variants
    collapsed) | type class of the receiver / first argument (unicode kind only for value divergences) | strongest
    magnitude / None marker among the other arguments | divergence class"""
    div = e2.divclass(exp, got)
    tag = re.sub(r'lit\[.*?\]', 'lit', tag)
    tag = re.sub(r'\.(startswith|endswith)', '.tailmatch', tag)
    tag = re.sub(r'\.(find|rfind|count)/', '.find/', tag)
    tag = re.sub(r'/(start-end|start|cint)$', '/range', tag)
    cl = [_argclass(e) for e in inp]
    recv = cl[0] if cl else '-'
    if div != 'value':
        recv = recv.split(':')[0]
    if '/unbound' in tag and recv != tag.split('.')[0]:
        recv = 'wrong-self-type'
    if div.endswith('->SystemError'):
        recv = '*'
    mark = ''
    for m in ('hugeint', 'bigint', 'NoneType', 'nan'):
        if m in cl[1:]:
            mark = m
            break
    return '%s|%s|%s|%s' % (tag, recv, mark, div)


_PYTYPES = ('list', 'dict', 'set', 'frozenset', 'str', 'bytes', 'bytearray', 'tuple')


def build(tier):
    """One function per shape.  Parameters annotated with a builtin Python type are declared through
    @cython.locals (which, unlike an annotation, accepts None - None receivers are part of the alphabet)."""
    parts, sets = [], {}
    n = 0
    for tag, handlers, params, body, axes in shapes():
        name = 'f%d' % n
        n += 1
        plain, loc = [], []
        for prm in [q.strip() for q in params.split(',') if q.strip()]:
            if ':' in prm and prm.split(':')[1].strip() in _PYTYPES:
                nm, tp = [q.strip() for q in prm.split(':')]
                plain.append(nm)
                loc.append('%s=%s' % (nm, tp))
            else:
                plain.append(prm)
        deco = '@cython.locals(%s)\n' % ', '.join(loc) if loc else ''
        src = '%sdef %s(%s):\n%s\n' % (deco, name, ', '.join(plain), '\n'.join('    ' + l for l in body.split('\n')))
        key = 's%d' % n
        sets[key] = Prod(*axes) if axes else [()]
        parts.append(e2.Part(src, [e2.Func(name, tag, key)]))
    return parts, sets


def run(ctx):
    parts, sets = build(ctx.tier)
    flt = os.environ.get('VERIF_G5_FILTER')          # development aid only
    if flt:
        parts = [p for p in parts if flt in p.funcs[0].tag]
    prelude = ('import cython\nfrom vlib.support import L\n'
               'from props.C13_builtin_calls import AttrObj, LenObj, CountCall\n')
    per = 40
    configs = [('d', None)]
    if ctx.tier == 'thorough':
        configs.append(('nolimit', {'optimize.unpack_method_calls': False}))
    mods = []
    for cname, directives in configs:
        for i in range(0, len(parts), per):
            mods.append(e2.Mod('c13%s_%d' % (cname, i // per), prelude, parts[i:i + per], sets, ext='.py', use_log=True,
                               directives=directives))
    handlers = introspect_handlers()
    covered = set()
    for tag, hs, params, body, axes in SHAPES:
        covered.update(hs)
    def has_shape(h):
        if h in covered:
            return True
        m = re.match(r'(function|method)_(\w+)$', h)
        if m:
            # e.g. method_unicode_isalnum / function_frozenset are covered by a shape naming them
            return any(c.endswith(m.group(2)) for c in covered)
        return False
    missing = sorted(h for h in handlers if not has_shape(h))
    unexpected = [h for h in missing if not any(x in h for x in NO_SHAPE_OK)]
    ctx.log('%d shapes, %d handlers introspected, %d without shape (%d not in the documented exclusion list)'
            % (len(parts), len(handlers), len(missing), len(unexpected)))
    st = g5.run_diff(ctx, mods, keyfn=keyfn, reach=REACH, timeout=240, max_crash_reports=200)
    samples = [{'function': parts[0].src, 'tag': parts[0].funcs[0].tag, 'inputs': [a[:3] for a in sets[parts[0].funcs[0].inputs].axes]},
               {'function': parts[len(parts) // 2].src, 'tag': parts[len(parts) // 2].funcs[0].tag}]
    cov = g5.cov_from(st, 'every shape x complete argument product; counted once per distinct (shape, reference outcome) pair', samples,
                      {'shapes': len(parts), 'handlers_introspected': len(handlers), 'handlers_without_shape': missing,
                       'handlers_without_shape_unlisted': unexpected, 'configs': [c[0] for c in configs]})
    return cov, ['exception messages are not compared', 'argument alphabets are boundary sets, not all values']


def replay(ctx, case):
    return g5.replay(ctx, case)
