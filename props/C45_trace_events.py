"""C45 - profiling and tracing events are balanced and well nested.

Small-scope enumeration of call trees.  One compiled module holds one function of every kind: def, cpdef (C-level call),
cdef, method of a Python class, cpdef method of a cdef class, coroutine, generator, noexcept cdef functions with void
and with int return (no error value, no exception check: a raised exception is swallowed / unraisable), the cpdef
function called through its Python wrapper, and a function that returns / raises inside try/finally whose finally
block makes the child calls.  Each takes a `plan` and invokes its children through call-site code inlined in its own
body, then returns or raises.  EVERY labelled ordered call tree with <= 3 (quick) / <= 4 (thorough, reduced label set
on the 4-edge trees) call edges is executed, labels = (kind, how the parent calls it, exit): plain call / call inside
try-except, exit by return / raise (swallowed for the noexcept kinds), and for generators: exhausted by a for loop
(return or raise, caught or not), next()+close(), next()+throw() caught by the caller, next()+drop, and `yield from`
delegation from a generator parent.  Each tree runs under sys.setprofile, under sys.settrace and under BOTH hooks at
once, on the compiled module (builds: profile=True; linetrace=True with -DCYTHON_TRACE=1) and on CPython executing the
same source (the two noexcept functions are modelled there as functions that catch their own exception and return).
Oracle, per recorded stream (profile stream, trace stream): (1) the compiled module's call/return events form a
well-nested word (every call matched by exactly one return of the same function, LIFO), (2) the (event, function)
sequence of call/return events equals CPython's under the same hooks (not for trees with a yield-from edge, see
check_plan), (3) line events carry line numbers inside the source span of their function; (4) the tree's result is the
same (tracing must not change behaviour).
"""
import sys, os, itertools
from vlib import farm, runner
from props import _g7_c45 as G

LEVEL = 'exploration'
ENGINE = 'E2 diffexplore'
TECHNIQUE = 'exhaustive enumeration of labelled call trees (data-driven), compiled vs CPython event streams under setprofile/settrace'
LEVEL_TEXT = ('Every ordered call tree with <= 3 call edges (quick; <= 4 thorough) over 36 node labels (11 function kinds incl. '
              'noexcept cdef void/int, cpdef through its Python wrapper, return inside try/finally; x call mode x exit incl. '
              'swallowed exceptions, generator exhaustion / close / throw / drop / yield-from) is run under sys.setprofile, '
              'sys.settrace and both together on the compiled module (profile=True build and linetrace=True + CYTHON_TRACE=1 '
              'build) and on CPython; every recorded stream must be well nested and equal to CPython\'s, line events must lie '
              'inside the function, results must be unchanged.')
LEVEL_NOTE = ('Trees are data interpreted by one generic function per kind (the call sites and exit paths are real generated code, '
              'but a function specialised to one exit is not generated).  exception/line event SEQUENCES are not compared with '
              'CPython (only line spans); c_call/c_return/c_exception events are filtered; trees with a yield-from edge are checked '
              'for balance only (a delegating compiled generator is not re-entered, CPython re-enters the outer frame).  Python 3.12: legacy '
              'c_profilefunc/c_tracefunc path (CYTHON_USE_SYS_MONITORING off).  Trusted: CPython event stream as reference.')

FILE = 'c45mod.py'
_S = {}


def builds(ctx):
    src = G.module_source()          # _setup derives the CPython text (G.module_source(ref=True)) itself
    jobs = [dict(name='c45mod', source=src, workdir=ctx.workdir('prof'), ext='.py', directives={'profile': True}),
            dict(name='c45mod', source=src, workdir=ctx.workdir('trace'), ext='.py', directives={'linetrace': True},
                 cflags=('-DCYTHON_TRACE=1',))]
    res = farm.build_many(jobs)
    for r in res:
        if not r.ok:
            raise RuntimeError('C45 module does not build: %s %s' % (r.stage, r.errors[-3000:]))
    return src, res


def _setup(so_prof, so_trace, src):
    import importlib.machinery, importlib.util, types
    mods = {}
    for tag, so in (('prof', so_prof), ('trace', so_trace)):
        loader = importlib.machinery.ExtensionFileLoader('c45mod', so)
        spec = importlib.util.spec_from_file_location('c45mod', so, loader=loader)
        m = importlib.util.module_from_spec(spec)
        loader.exec_module(m)
        mods[tag] = m
    ref = types.ModuleType('c45ref')
    exec(compile(G.module_source(ref=True), FILE, 'exec'), ref.__dict__)
    sys.unraisablehook = lambda u: None         # exceptions swallowed by the noexcept cdef functions
    _S['mods'] = mods
    _S['ref'] = ref
    _S['spans'] = G.spans(src)
    return True


def record(mod, plan, hook):
    """Run mod.root(plan) under sys.setprofile ('profile'), sys.settrace ('trace') or both at once ('both');
    returns (result, profile events, trace events) restricted to this module's functions."""
    pev = []
    tev = []
    pap = pev.append
    tap = tev.append

    def prof(frame, event, arg):
        if event == 'call' or event == 'return':
            co = frame.f_code
            if co.co_filename.endswith(FILE):
                pap((event, co.co_name.rsplit('.', 1)[-1], frame.f_lineno))

    def tr(frame, event, arg):
        co = frame.f_code
        if co.co_filename.endswith(FILE):
            tap((event, co.co_name.rsplit('.', 1)[-1], frame.f_lineno))
            return tr
        return None
    res = None
    if hook != 'profile':
        sys.settrace(tr)
    if hook != 'trace':
        sys.setprofile(prof)
    try:
        res = mod.root(plan)
    except BaseException as e:
        res = type(e).__name__
    finally:
        sys.setprofile(None)
        sys.settrace(None)
    return res, pev, tev


def nesting_error(ev):
    """None if the call/return events form a well-nested word, else (class, description)."""
    st = []
    for i, (e, name, line) in enumerate(ev):
        if e == 'call':
            st.append(name)
        elif e == 'return':
            if not st:
                return ('return-without-call ' + _kind_of(name), 'return of %s without call (event %d)' % (name, i))
            top = st.pop()
            if top != name:
                if name in st:
                    return ('unclosed ' + _kind_of(top),
                            'return of %s while %s is the innermost open call and has not returned (event %d)' % (name, top, i))
                return ('return-without-open-call ' + _kind_of(name),
                        'return of %s while it is not open (innermost open call: %s) (event %d)' % (name, top, i))
    if st:
        return ('unmatched-call ' + _kind_of(st[-1]), 'unmatched call(s) %s' % st)
    return None


def _compare(out, tag, where, iev, rev, spans, equality=True):
    """Balance / nesting of one compiled event stream, equality of its call/return word with CPython's, line spans."""
    icr = [(e, n) for e, n, l in iev if e in ('call', 'return')]
    rcr = [(e, n) for e, n, l in rev if e in ('call', 'return')]
    bad = nesting_error(iev)
    if bad:
        out.append((tag, where, 'unbalanced:' + bad[0], bad[1] + '; compiled %r' % (icr[:40],)))
    if equality and icr != rcr:
        j = 0
        while j < min(len(icr), len(rcr)) and icr[j] == rcr[j]:
            j += 1
        exp = rcr[j] if j < len(rcr) else ('end', '')
        got = icr[j] if j < len(icr) else ('end', '')
        last = icr[j - 1] if j else ('start', '')
        if j < len(icr) and (j >= len(rcr) or (j + 1 < len(icr) and icr[j + 1] == rcr[j])):
            cls = 'extra %s %s' % (got[0], _kind_of(got[1]))
        elif j >= len(icr):
            cls = 'ends-early after %s %s' % (last[0], _kind_of(last[1]))
        elif j + 1 < len(rcr) and icr[j] == rcr[j + 1]:
            cls = 'missing %s %s' % (exp[0], _kind_of(exp[1]))
        else:
            cls = 'unexpected %s %s' % (got[0], _kind_of(got[1]))
        out.append((tag, where, 'sequence:' + cls,
                    'event %d: CPython %r, compiled %r; CPython %r compiled %r' % (j, exp, got, rcr[:40], icr[:40])))
    for e, n, l in iev:
        if e == 'line':
            sp = spans.get(n)
            if sp is None or not (sp[0] <= l <= sp[1]):
                out.append((tag, where, 'line-outside:%s' % _kind_of(n), 'line event %d for %s with span %r' % (l, n, sp)))
                break


def _has_yf(plan):
    return any(ch[1] == G.M_YF or _has_yf(ch[2]) for ch in plan[1])


def check_plan(plan):
    """Returns list of (build, hook[:stream], class, detail) problems for one plan."""
    out = []
    ref = _S['ref']
    spans = _S['spans']
    # While a compiled generator delegates with `yield from`, its own body is not re-entered (Coroutine.c forwards to the
    # delegate), so it produces no resume/suspend events; CPython re-enters the outer frame on every step.  Both words
    # are well nested: trees with a yield-from edge are checked for balance / nesting / line spans only.
    eq = not _has_yf(plan)
    for hook in ('profile', 'trace', 'both'):
        rres, rpev, rtev = record(ref, plan, hook)
        for tag, mod in _S['mods'].items():
            if hook == 'trace' and tag == 'prof':
                continue        # the profile build does not support line tracing: nothing to compare under settrace alone
            ires, ipev, itev = record(mod, plan, hook)
            if ires != rres:
                out.append((tag, hook, 'result', 'root returned %r, CPython %r' % (ires, rres)))
            if hook != 'trace':
                _compare(out, tag, hook if hook == 'profile' else 'both:profile', ipev, rpev, spans, eq)
            if hook != 'profile' and tag == 'trace':
                _compare(out, tag, hook if hook == 'trace' else 'both:trace', itev, rtev, spans, eq)
    return out


NAME_KIND = {'f_def': 'def', 'f_cpdef': 'cpdef', 'f_cdef': 'cdef', 'meth': 'meth', 'cmeth': 'cmeth', 'f_coro': 'coro',
             'f_gen': 'gen', 'f_nxvoid': 'nxvoid', 'f_nxint': 'nxint', 'f_finret': 'finret', 'root': 'root', '': ''}


def _kind_of(name):
    return NAME_KIND.get(name, name)


def plans_for(tier):
    """The complete tree family of a tier (generator) and its description."""
    labs = G.labels()
    if tier == 'quick':
        return G.all_plans(3, labs), 'all trees with <= 3 edges over %d labels' % len(labs)
    small = [l for l in labs if l[0] in (0, 2, 5, G.K_GEN)]     # def, cdef, coroutine, generator on 4-edge trees
    gen = itertools.chain(G.all_plans(3, labs), G.all_plans(4, small, min_edges=4))
    return gen, ('all trees with <= 3 edges over %d labels + all 4-edge trees over %d labels (def, cdef, coroutine, '
                 'generator)' % (len(labs), len(small)))


def _job(state, case):
    """case = (tier, shard, nshards): run every tree whose index is congruent to shard."""
    tier, shard, nshards = case
    nev = n = nprob = 0
    best = {}        # class -> smallest failing tree of this shard (every class is kept, no cap)
    where_ = {}
    sigs = set()
    first = None
    for idx, plan in enumerate(plans_for(tier)[0]):
        if idx % nshards != shard:
            continue
        if first is None:
            first = plan
        n += 1
        for (tag, hook, cls, detail) in check_plan(plan):
            nprob += 1
            cur = best.get(cls)
            where_.setdefault(cls, set()).add(tag + '/' + hook)
            if cur is None or (G.count_edges(plan), repr(plan)) < (G.count_edges(cur[0]), repr(cur[0])):
                best[cls] = (plan, detail, tag, hook)
        # distinct non-trivial cases: the CPython call/return word of the plan under setprofile
        r, ev, _t = record(_S['ref'], plan, 'profile')
        sigs.add(hash(tuple((e, n_) for e, n_, l in ev)))
        nev += len(ev)
    return {'n': n, 'best': best, 'where': where_, 'nproblems': nprob, 'sigs': sigs, 'events': nev, 'first': first}


# ---------------------------------------------------------------------------- minimisation of a failing tree
def _subplans(plan):
    """Candidate simplifications: drop a child subtree, hoist a grandchild, simplify a node's mode / exit."""
    ex, children = plan
    for i in range(len(children)):
        yield (ex, children[:i] + children[i + 1:])
    for i, (k, m, sub) in enumerate(children):
        for s2 in _subplans(sub):
            yield (ex, children[:i] + ((k, m, s2),) + children[i + 1:])
        if sub[0] == 1:
            yield (ex, children[:i] + ((k, m, (0, sub[1])),) + children[i + 1:])
        if m == G.M_CAUGHT and sub[0] == 0:
            yield (ex, children[:i] + ((k, G.M_PLAIN, sub),) + children[i + 1:])


def _minimise_job(state, case):
    plan, cls = case

    def bad(p):
        return any((t, h, c) == cls for t, h, c, d in check_plan(p))
    changed = True
    while changed:
        changed = False
        for cand in _subplans(plan):
            if cand[1] and bad(cand):
                plan = cand
                changed = True
                break
    detail = [d for t, h, c, d in check_plan(plan) if (t, h, c) == cls]
    return plan, detail[0] if detail else ''


def run(ctx):
    src, (bp, bt) = builds(ctx)
    reach = {}
    for tag, b in (('prof', bp), ('trace', bt)):
        t = b.c_text()
        reach[tag] = {k: (k in t) for k in ('__Pyx_TraceStartFunc', '__Pyx_TraceReturnValue', '__Pyx_TraceExceptionUnwind',
                                            '__Pyx_TraceYield', '__Pyx_TraceResumeGen', '__Pyx_TraceLine')}
    labs = G.labels()
    bound = plans_for(ctx.tier)[1]
    nshards = farm.NPROC * 4
    shards = list(range(nshards))
    if ctx.seed:
        import random
        random.Random(ctx.seed).shuffle(shards)
    ctx.log('%d shards (%s)' % (nshards, bound))
    res = runner.run_cases(_job, [(ctx.tier, i, nshards) for i in shards], setup=_setup, setup_args=(bp.so, bt.so, src),
                           chunk=-(-nshards // farm.NPROC), timeout=3000)
    total = events = nprob = 0
    sigs = set()
    raw = {}
    where = {}
    firsts = {}
    # a shard that kills its worker is split into 64 sub-shards; the dying sub-shards are reported with their trees
    redo = [i for i, r in zip(shards, res) if r[0] != 'ok']
    pairs = [(i, r) for i, r in zip(shards, res) if r[0] == 'ok']
    if redo:
        fine = nshards * 64
        sub = [(ctx.tier, i + nshards * j, fine) for i in redo for j in range(64)]
        res2 = runner.run_cases(_job, sub, setup=_setup, setup_args=(bp.so, bt.so, src), chunk=8, timeout=3000)
        for c, r in zip(sub, res2):
            if r[0] == 'ok':
                pairs.append((c[1] % nshards, r))
            else:
                trees = [p for idx, p in enumerate(plans_for(ctx.tier)[0]) if idx % fine == c[1]]
                ctx.violation('crash|%s' % (G.describe(trees[0]).split('[')[1].split('/')[0] if trees else ''),
                              'worker %s (%s) while running one of %d trees, first: %s' % (r[0], str(r[1])[:100], len(trees),
                                                                                          G.describe(trees[0]) if trees else ''),
                              {'plans': [repr(p) for p in trees], 'crash': True})
    for i, r in pairs:
        v = r[1]
        total += v['n']; events += v['events']; nprob += v['nproblems']
        sigs |= v['sigs']
        firsts[i] = v['first']
        for cls, w in v['where'].items():
            where.setdefault(cls, set()).update(w)
        for k, (plan, detail, tag, hook) in v['best'].items():
            if k not in raw or (G.count_edges(plan), repr(plan)) < (G.count_edges(raw[k][0]), repr(raw[k][0])):
                raw[k] = (plan, detail, tag, hook)
    if raw:
        items = sorted(raw.items())
        # one defect of the generic event emission shows up once per function kind: >= 4 kinds with the same class collapse
        fam = {}
        for cls, v in items:
            head, _, kind = cls.rpartition(' ')
            fam.setdefault(head, []).append((cls, v, kind))
        items2 = []
        for head, members in sorted(fam.items()):
            if head and len(members) >= 4:
                cls0, v0, _k = min(members, key=lambda m: (G.count_edges(m[1][0]), repr(m[1][0])))
                where[head + ' *'] = set().union(*(where[m[0]] for m in members))
                items2.append((head + ' *', v0, cls0))
            else:
                items2.extend((m[0], m[1], m[0]) for m in members)
        allpairs = {'prof/profile', 'trace/profile', 'trace/trace', 'prof/both:profile', 'trace/both:profile', 'trace/both:trace'}
        mins = runner.run_cases(_minimise_job, [(plan, (tag, hook, rcls)) for cls, (plan, d, tag, hook), rcls in items2],
                                setup=_setup, setup_args=(bp.so, bt.so, src), timeout=900)
        for (cls, (plan, detail, tag, hook), rcls), m in zip(items2, mins):
            if m[0] == 'ok':
                plan, detail = m[1][0], m[1][1] or detail
            w = 'all' if where[cls] == allpairs else '+'.join(sorted(where[cls]))
            key = '%s|%s|%s' % (w, G.describe(plan), cls)
            ctx.violation(key, detail[:600], {'plan': repr(plan), 'build': tag, 'hook': hook, 'class': rcls})
    cov = {'evaluations': total * 9, 'distinct_nontrivial': len(sigs),
           'rule': 'a tree counts once per distinct CPython call/return event word under setprofile (trees producing the same '
                   'event word collapse); evaluations = trees x (3 hook configurations x CPython + 5 compiled build/hook-configuration pairs + 1 signature run)',
           'trees': total, 'bound': bound, 'labels': len(labs), 'events_seen': events, 'raw_problems': nprob,
           'raw_problem_classes': len(raw), 'reach': reach,
           'reach_gaps': [t + ':' + k for t, d in reach.items() for k, ok in d.items() if not ok and not (t == 'prof' and k == '__Pyx_TraceLine')],
           'samples': [{'tree': G.describe(firsts[i]), 'plan': repr(firsts[i])} for i in sorted(firsts)[:3] if firsts[i]],
           'exhaustive': True}
    return cov, ['call trees with more edges than the bound and functions specialised to a single exit are not covered',
                 'exception and line event sequences are not compared with CPython (line spans only)']


def replay(ctx, case):
    if case.get('crash'):
        src, (bp, bt) = builds(ctx)
        r = runner.forked(_replay_crash_child, bp.so, bt.so, src, case['plans'])
        return False if r.kind == 'ok' else '%s %r while running the recorded trees' % (r.kind, r.value)
    src, (bp, bt) = builds(ctx)
    r = runner.forked(_replay_child, bp.so, bt.so, src, case['plan'], case['build'], case['hook'], case['class'])
    if r.kind != 'ok':
        return '%s %r' % (r.kind, r.value)
    return r.value


def _replay_crash_child(so1, so2, src, plans):
    _setup(so1, so2, src)
    for p in plans:
        check_plan(eval(p))
    return True


def _replay_child(so1, so2, src, plan_repr, build, hook, cls):
    _setup(so1, so2, src)
    plan = eval(plan_repr)
    for t, h, c, d in check_plan(plan):
        if (t, h, c) == (build, hook, cls):
            return '%s: %s' % (G.describe(plan), d)
    return False
