"""C09 - compile-time constants keep their exact Python values.

Four complete families, every member compiled (pure Python source) and compared with CPython executing the
identical source on recursive (type, repr):

 pool   all k-tuples (k <= 3) over the confusable symbol set {0, 0.0, -0.0, False, 1, 1.0, True, 2, 2.0, (), (0,),
        (0.0,)} (thorough: + (-0.0,), (False,), 0j, -0j), each as tuple constant, tuple * 2, slice constant
        (start/stop/step), frozenset constant.  All ==-equal constants of one equivalence class sit in the SAME
        module (the constant pool is per module), once in forward and once in reverse order (quick: reverse only for
        k <= 2), so every unordered pair of equal-but-distinct constants meets in the same pool.
 fold   every binary operator over all ordered pairs of {0, 1, -1, 2, 3, 2**31, 2**64, 0.0, -0.0, 1.5, True, False}
        and every unary operator over the set (folds that must raise at run time included).
 lit    integer literals: boundary values x {dec, underscores, hex, HEX, 0x00.., 0x_.., 0o, 0O, 0b, 0B, 0b_} x sign,
        each as Python object (return LIT) and as C operand (x + LIT); float/complex/bool/None spellings.
 nested (part of pool) outer tuples / slices / frozensets that differ only in the repeat count k in {1, 2, 3} of a nested constant
        tuple ((0,), (0.0,), (1, 2.0), ()) in 11 outer forms, all variants in one module, both orders.
 numtab one module per non-empty subset of the six numeric-constant storage classes (int8/16/32/64 arrays,
        base-32 string, double array) of Code.generate_num_constants.
"""
import itertools
from vlib import e2
from vlib.diff import canon
from props import _g4_common as g4

LEVEL = 'exploration'
ENGINE = 'E2 diffexplore'
TECHNIQUE = 'exhaustive enumeration of constant shapes (k-tuples over a confusable set, operator x operand-pair folds, literal spellings, numeric-table layouts), compiled vs CPython on identical source'
LEVEL_TEXT = ('All k-tuples (k<=3) over a 12-symbol (thorough 16) set of ==-confusable constants, each as tuple, tuple*2, slice and '
              'frozenset constant, with every ==-equivalence class packed into one module (both orders; quick: reverse order for k<=2 only); every binary/unary '
              'operator over all ordered pairs of a 12-constant set; integer literals at all storage-size boundaries in 11 '
              'spellings x sign as object and as C operand, float/complex spellings; all 63 subsets of numeric-constant storage '
              'classes.  Oracle: CPython on the same source, recursive (type, repr) and exception type.')
LEVEL_NOTE = ('Removed from the alphabet as by-design: bitwise/shift operators on float literals (compile-time type error in Cython, '
              'run-time TypeError in CPython); iteration over constant sets (loop-variable type inference, not constant handling); '
              'operand pairs whose result needs > 2**20 bits (memory bombs in CPython itself); zero ** negative constant (documented C pow semantics, C07).  .pyx-only literal suffixes (U/L/LL) and '
              'DEF/compile-time expressions are not covered.  Trusted: CPython 3.12 as reference, gcc.')

# ------------------------------------------------------------------------------------------------ pool family
CONF_Q = ['0', '0.0', '-0.0', 'False', '1', '1.0', 'True', '2', '2.0', '()', '(0,)', '(0.0,)']
CONF_T = CONF_Q + ['(-0.0,)', '(False,)', '0j', '-0j']

POOL_PRELUDE = ('class _Idx:\n'
                '    def __getitem__(self, k):\n'
                '        return ("slice", k.start, k.stop, k.step) if type(k) is slice else k\n'
                '_I = _Idx()\n')


def _classes(symbols):
    vals = [eval(s) for s in symbols]
    cls = []
    for i, v in enumerate(vals):
        for j in range(i + 1):
            if type(vals[j] == v) is bool and vals[j] == v and isinstance(vals[j], tuple) == isinstance(v, tuple):
                cls.append(j)
                break
    return cls


def pool_units(symbols):
    """-> list of (class key, [(src_template, tag)]) per k-tuple, sorted so that ==-equal tuples are adjacent."""
    cls = _classes(symbols)
    units = []
    for k in (1, 2, 3):
        for idx in itertools.product(range(len(symbols)), repeat=k):
            t = [symbols[i] for i in idx]
            ckey = (k,) + tuple(cls[i] for i in idx)
            forms = []
            tup = '(%s,)' % t[0] if k == 1 else '(%s)' % ', '.join(t)
            forms.append(('return %s' % tup, 'pool/T'))
            if k <= 2:
                forms.append(('return %s * 2' % tup, 'pool/M'))
            if any('(' in x for x in t):
                pass    # tuple-valued slice bounds: see slicetuple_mods()
            elif k == 1:
                forms.append(('return _I[%s:]' % t[0], 'pool/S'))
                forms.append(('return _I[:%s]' % t[0], 'pool/S'))
                forms.append(('return _I[::%s]' % t[0], 'pool/S'))
            elif k == 2:
                forms.append(('return _I[%s:%s]' % tuple(t), 'pool/S'))
            else:
                forms.append(('return _I[%s:%s:%s]' % tuple(t), 'pool/S'))
            forms.append(('return frozenset(%s)' % tup, 'pool/F'))
            units.append((ckey, forms))
    units.sort(key=lambda u: u[0])
    return units


def pool_mods(tier, per=230):
    units = pool_units(CONF_Q if tier == 'quick' else CONF_T)
    # greedy packing of whole equivalence classes
    chunks, cur, curkey = [], [], None
    for ckey, forms in units:
        if curkey is not None and ckey != curkey and sum(len(f) for _, f in cur) >= per:
            chunks.append(cur)
            cur = []
        cur.append((ckey, forms))
        curkey = ckey
    if cur:
        chunks.append(cur)
    mods = []
    for ci, chunk in enumerate(chunks):
        parts = []
        n = 0
        for ckey, forms in chunk:
            for body, tag in forms:
                name = 'p%d' % n
                n += 1
                parts.append(e2.Part('def %s():\n    %s\n' % (name, body), [e2.Func(name, tag, 'none')]))
        small = all(ckey[0] <= 2 for ckey, _ in chunk)
        for order, ps in (('f', parts), ('r', parts[::-1])):
            if order == 'r' and tier == 'quick' and not small:
                continue        # quick: reverse order only for the k <= 2 classes; thorough: every class in both orders
            mods.append(e2.Mod('c09pool%s_%d' % (order, ci), POOL_PRELUDE, ps, {'none': [()]}, ext='.py'))
    return mods, len(units)


NM_INNERS = ['(0,)', '(0.0,)', '(1, 2.0)', '()']
NM_FORMS = [('left', '(%s, 7)'), ('right', ("('k', %s)")), ('wrap', '((%s,),)'), ('deep', '((%s, 7), 8)'), ('both', '(%s, 7) * 2'),
            ('pair', '(%s, %s)'), ('slice3', '_I[%s:7:1]'), ('slice3b', '_I[1:%s:2]'), ('slice2', '_I[%s:]'), ('fset', 'frozenset((%s, 7))'),
            ('fset1', 'frozenset((%s,))')]


def nestedmult_mods():
    """Outer constants that differ ONLY in the repeat count of a nested constant tuple: (<inner> * k, x), (x, <inner> * k),
    ((<inner> * k,),), deeper nesting, multiplication on both levels, slice bounds and frozenset items, for every inner in
    NM_INNERS and k in {1, 2, 3} (k = 1 written without '*').  All repeat-count variants of every (form, inner) sit in the same
    module, once in forward and once in reverse order."""
    parts = []
    n = 0
    for fname, tmpl in NM_FORMS:
        for inner in NM_INNERS:
            for k in (1, 2, 3):
                ik = inner if k == 1 else '%s * %d' % (inner, k)
                body = tmpl % ((ik,) * tmpl.count('%s'))
                name = 'n%d' % n
                n += 1
                parts.append(e2.Part('def %s():\n    return %s\n' % (name, body), [e2.Func(name, 'pool/N%s' % fname, 'none')]))
    return [e2.Mod('c09nm%s' % order, POOL_PRELUDE, ps, {'none': [()]}, ext='.py') for order, ps in (('f', parts), ('r', parts[::-1]))]


def slicetuple_mods():
    """Slices whose bounds are tuple or complex constants, one tiny module each (kept apart from the packed modules)."""
    bodies = ['_I[(0,):]', '_I[:(0.0,)]', '_I[::()]', '_I[(0,):(0.0,)]', '_I[(0,):(0.0,):()]', '_I[(-0.0,):(0.0,):(0,)]',
              '_I[0j:]', '_I[:1.5j]', '_I[1j:2j:3j]']      # complex bounds: neither C integers nor objects either
    return [e2.Mod('c09slt_%d' % i, POOL_PRELUDE, [e2.Part('def s():\n    return %s\n' % b, [e2.Func('s', 'pool/St', 'none')])],
                   {'none': [()]}, ext='.py') for i, b in enumerate(bodies)]


# ------------------------------------------------------------------------------------------------ fold family
FOLD_CONSTS = ['0', '1', '-1', '2', '3', '2147483648', '18446744073709551616', '0.0', '-0.0', '1.5', 'True', 'False']
BINOPS = ['+', '-', '*', '/', '//', '%', '**', '&', '|', '^', '<<', '>>', '==', '!=', '<', '<=', '>', '>=', 'and', 'or']
UNOPS = ['-', '+', '~', 'not ']
INT_ONLY = ('&', '|', '^', '<<', '>>', '~')


def _ccls(c):
    v = eval(c)
    kind = 'bool' if isinstance(v, bool) else 'float' if isinstance(v, float) else 'big' if abs(v) >= 2 ** 31 else 'int'
    if kind == 'float' and v == 0:
        return 'float:' + ('-0' if c.startswith('-') else '+0')
    return '%s:%s' % (kind, '-' if v < 0 else '0' if v == 0 else '+')


def _bomb(op, a, b):
    va, vb = eval(a), eval(b)
    if op == '**' and va == 0 and vb < 0:
        return True     # zero ** negative: documented C pow() semantics (cpow table, property C07), not a constant-handling matter
    if op == '**' and not isinstance(va, float) and not isinstance(vb, float):
        return abs(va) >= 2 and vb >= 2 ** 31
    if op == '<<' and not isinstance(va, float) and not isinstance(vb, float):
        return va != 0 and vb >= 2 ** 31
    return False


def fold_parts():
    parts = []
    n = 0

    def par(c):
        return '(%s)' % c if c.startswith('-') else c

    for op in BINOPS:
        for a in FOLD_CONSTS:
            for b in FOLD_CONSTS:
                if op in INT_ONLY and ('.' in a or '.' in b):
                    continue
                if _bomb(op, a, b):
                    continue
                name = 'b%d' % n
                n += 1
                parts.append(e2.Part('def %s():\n    return %s %s %s\n' % (name, par(a), op, par(b)),
                                     [e2.Func(name, 'fold/%s/%s,%s' % (op, _ccls(a), _ccls(b)), 'none')]))
    for op in UNOPS:
        for a in FOLD_CONSTS:
            if op in INT_ONLY and '.' in a:
                continue
            name = 'u%d' % n
            n += 1
            parts.append(e2.Part('def %s():\n    return %s%s\n' % (name, op, par(a)),
                                 [e2.Func(name, 'fold/u%s/%s' % (op.strip(), _ccls(a)), 'none')]))
            name = 'u%d' % n
            n += 1
            parts.append(e2.Part('def %s():\n    return %s(%s%s)\n' % (name, op, op, par(a)),
                                 [e2.Func(name, 'fold/uu%s/%s' % (op.strip(), _ccls(a)), 'none')]))
    return parts


# ------------------------------------------------------------------------------------------------ literal family
INT_VALUES = sorted(set([0, 1, 7, 8, 9, 10, 127, 128, 255, 256, 10 ** 13 - 1, 10 ** 13, 10 ** 13 + 1, 2 ** 100, 10 ** 30, 2 ** 200 + 1]
                        + [2 ** k + d for k in (15, 16, 30, 31, 32, 62, 63, 64) for d in (-1, 0, 1)]))


def _us(s, n):
    """insert underscores every n digits from the right"""
    out = []
    while s:
        out.append(s[-n:])
        s = s[:-n]
    return '_'.join(reversed(out))


def int_spellings(v):
    return [('dec', '%d' % v), ('dec_', _us('%d' % v, 3)), ('hex', '0x%x' % v), ('HEX', '0X%X' % v),
            ('hex0', '0x00%x' % v), ('hex_', '0x_' + _us('%x' % v, 2)), ('oct', '0o%o' % v), ('OCT', '0O%o' % v),
            ('oct0', '0o00%o' % v), ('bin', '0b%s' % bin(v)[2:]), ('BIN', '0B%s' % bin(v)[2:]), ('bin_', '0b_' + _us(bin(v)[2:], 4))]


FLOAT_LITS = ['0.0', '-0.0', '1e0', '1_0.5', '.5', '5.', '1e-400', '-1e-400', '1e400', '-1e400', '1E5', '1e+5', '1_0e1_0', '0.1',
              '1e22', '1e23', '4.9e-324', '5e-324', '2.4703282292062327e-324', '2.4703282292062328e-324', '5e-325',
              '2.2250738585072014e-308', '2.2250738585072011e-308', '1.7976931348623157e308', '1.7976931348623158e308',
              '1.7976931348623159e308', '0.30000000000000004', '123456789012345678901234567890.0', '00.5', '0e0', '00e0', '1.',
              '9007199254740993.0', '9007199254740992.9999', '1.00000000000000011102230246251565404236316680908203125',
              '1.00000000000000011102230246251565404236316680908203126', '0.1000000000000000055511151231257827', '1e16', '1e-5',
              '0.0001', '0.00001', '123456789012345680.0', '3.141592653589793', '2.718281828459045', '0_0.0_0', '1e0_0']
COMPLEX_LITS = ['1j', '0j', '-0j', '1J', '1.5j', '.5j', '5.j', '1e400j', '-0.0j', '1_0j', '1e1j', '(1+2j)', '(0.0-0j)', '(-0.0+0j)',
                '(1-0j)', '(2**64+1j)', '1e-400j', '00j', '0_7j']
OTHER_LITS = ['True', 'False', 'None', '...', '-True', '+False', '~True', 'not 0', 'not 0.0', 'not 1j', 'not None', 'not ()',
              '00', '0_0', '000', '-0', '+0', '- - 1', '-(-0.0)', '+-+-1.5', '--2147483648', '-+-9223372036854775808']


def _sizecls(v):
    n = abs(v).bit_length()
    for b, nm in ((7, 'i8'), (15, 'i16'), (31, 'i32'), (63, 'i64')):
        if n <= b:
            return nm
    return 'large'


def lit_parts():
    parts = []
    n = 0

    def add(src, tag, key):
        nonlocal n
        name = 'l%d' % n
        n += 1
        parts.append(e2.Part(src % name, [e2.Func(name, tag, key)]))

    for v in INT_VALUES:
        for sp, text in int_spellings(v):
            for sign in ('', '-'):
                if v == 0 and sign and sp not in ('dec', 'hex'):
                    continue
                lit = sign + text
                tag = '%s%s/%s' % (sign, sp, _sizecls(v))
                add('def %%s():\n    return %s\n' % lit, 'lit/obj/' + tag, 'none')
                add('def %%s(x):\n    return x + %s\n' % lit, 'lit/cadd/' + tag, 'cadd')
                if sp in ('dec', 'hex', 'oct', 'bin'):
                    add('def %%s(x):\n    return x == %s\n' % lit, 'lit/ceq/' + tag, 'ceq:' + ('-' if sign else '') + str(v))
    for f in FLOAT_LITS:
        add('def %%s():\n    return %s\n' % f, 'lit/float', 'none')
        add('def %%s(x):\n    return x + %s\n' % f, 'lit/cfloat', 'cadd')
        add('def %%s():\n    return (%s, -%s)\n' % (f, f), 'lit/floattuple', 'none')
    for c in COMPLEX_LITS:
        add('def %%s():\n    return %s\n' % c, 'lit/complex', 'none')
        add('def %%s():\n    return -%s\n' % c, 'lit/complex', 'none')
    for c in OTHER_LITS:
        add('def %%s():\n    return %s\n' % c, 'lit/other', 'none')
    return parts


# ------------------------------------------------------------------------------------------------ numtab family
NUMCLS = {'i8': ['0', '127', '-127', '5'], 'i16': ['128', '-128', '32767', '-32767'], 'i32': ['32768', '-32768', '2147483647', '-2147483647'],
          'i64': ['2147483648', '-2147483648', '9223372036854775807', '-9223372036854775807'],
          'large': ['9223372036854775808', '-9223372036854775808', str(2 ** 100), str(-10 ** 30)],
          'float': ['0.5', '-0.0', '1e308', '5e-324']}


def numtab_mods():
    mods = []
    names = list(NUMCLS)
    for r in range(1, len(names) + 1):
        for sub in itertools.combinations(names, r):
            parts = []
            n = 0
            for c in sub:
                for lit in NUMCLS[c]:
                    name = 't%d' % n
                    n += 1
                    # [LIT] forces the Python-object constant (the number table), also for small values
                    parts.append(e2.Part('def %s():\n    return [%s]\n' % (name, lit),
                                         [e2.Func(name, 'numtab/%s/%s' % (c, '+'.join(sub)), 'none')]))
            mods.append(e2.Mod('c09nt_' + '_'.join(sub), '', parts, {'none': [()]}, ext='.py'))
    return mods


# ------------------------------------------------------------------------------------------------ driver
def _only_bool_to_int(exp, got):
    import collections
    le, lg = collections.Counter(g4.leaves(exp)), collections.Counter(g4.leaves(got))
    lost, gained = sorted((le - lg).elements()), sorted((lg - le).elements())
    conv = {('bool', 'False'): ('int', '0'), ('bool', 'True'): ('int', '1')}
    return bool(lost) and all(l in conv for l in lost) and sorted(conv[l] for l in lost) == gained


def keyfn(tag, inp, exp, got):
    fam = tag.split('/')[0]
    if fam == 'pool':
        d = e2.divclass(exp, got)
        if d in ('value',) or d.startswith('type:'):
            d = g4.confusion(exp[1], got[1])
            if d == 'type' and _only_bool_to_int(exp[1], got[1]):
                d = 'type:bool->int'      # separate root cause: a True/False slice bound passed as a C integer
        form = tag.split('/')[1]
        return 'pool|%s|%s' % ('N' if form.startswith('N') else form, d)
    if tag == 'lit/floattuple' and e2.divclass(exp, got) == 'value':
        return 'lit|floattuple|%s' % g4.confusion(exp[1], got[1])
    if fam == 'numtab':
        return 'numtab|%s|%s' % (tag.split('/')[1], e2.divclass(exp, got))
    d = e2.divclass(exp, got)
    if fam == 'fold' and d.startswith(('missing-exc', 'extra-exc', 'exc-type')):
        return 'fold|%s|%s' % (tag.split('/')[1], d)        # a missing run-time check of an operator is one root cause
    return '%s|%s' % (tag.replace('/', '|'), d)


def _chunk_mods(prefix, parts, per, sets):
    return [e2.Mod('%s_%d' % (prefix, i // per), '', parts[i:i + per], sets, ext='.py') for i in range(0, len(parts), per)]


def build_mods(tier):
    mods, ntuples = pool_mods(tier)
    fp = fold_parts()
    lp = lit_parts()
    sets = {'none': [()], 'cadd': [('1',), ('0',), ('0.5',), ('-1',)]}
    for p in lp:
        for f in p.funcs:
            if f.inputs.startswith('ceq:'):
                v = int(f.inputs[4:])
                sets[f.inputs] = [(repr(v),), (repr(v + 1),), (repr(float(v)) if abs(v) < 2 ** 1000 else '0.0',), ('None',)]
    mods += _chunk_mods('c09fold', fp, 250, sets)
    mods += _chunk_mods('c09lit', lp, 250, sets)
    nt = numtab_mods()
    mods += nt
    mods += slicetuple_mods()
    nm = nestedmult_mods()
    mods += nm
    return mods, {'pool_tuples': ntuples, 'fold_programs': len(fp), 'literal_programs': len(lp), 'numtab_modules': len(nt), 'nested_multiplication_programs': len(nm[0].parts)}


def _ref_outcomes(mods):
    """distinct reference outcomes of the no-argument programs (measured with CPython in this process)."""
    seen = set()
    for m in mods:
        g = {'__name__': 'c09ref'}
        try:
            exec(compile(m.source, '<c09ref>', 'exec'), g)
        except Exception:
            continue
        for f in m.funcs:
            if f.inputs != 'none':
                continue
            try:
                seen.add(('ok', canon(g[f.name]())))
            except Exception as e:
                seen.add(('exc', type(e).__name__))
    return seen


def run(ctx):
    mods, counts = build_mods(ctx.tier)
    only = __import__('os').environ.get('VERIF_G4_ONLY')      # development aid: run a subset of the modules (never set by ./check users)
    if only:
        mods = [m for m in mods if m.name.startswith(tuple(only.split(',')))]
    if ctx.seed:
        import random
        random.Random(ctx.seed).shuffle(mods)
    distinct = _ref_outcomes(mods)
    st = e2.run_diff(ctx, mods, keyfn=keyfn, reach=['__pyx_tuple[', '__pyx_slice[', '__pyx_frozenset[', '__pyx_int_', '__pyx_float_',
                                                    'PyLong_FromString(c_constant', 'cint_constants_1', 'cint_constants_2',
                                                    'cint_constants_4', 'cint_constants_8', '__Pyx_PyLong_AddObjC'])
    pooled = {}
    for m in mods:
        if m.c_file and m.name.startswith('c09pool'):
            for k, v in g4.count_pool(g4.read(m.c_file)).items():
                pooled[k] = pooled.get(k, 0) + v
    cov = {
        'evaluations': st['evaluations'],
        'distinct_nontrivial': len(distinct),
        'rule': 'distinct reference outcomes (recursive (type, repr) of the returned constant, or exception type) over all '
                'no-argument constant programs; programs returning the same constant collapse',
        'programs': st['programs'], 'modules_built': st['modules_built'], 'mismatches': st['mismatches'], 'crashes': st['crashes'],
        'build_failures': st['build_failures'], 'pooled_constant_definitions_in_pool_modules': pooled,
        'reach': st.get('reach'), 'reach_gaps': st.get('reach_gaps'),
        'samples': [{'program': mods[0].parts[0].src}, {'program': mods[len(mods) // 2].parts[-1].src},
                    {'program': mods[-1].parts[0].src}],
        'exhaustive': True,
    }
    cov.update(counts)
    return cov, ['constants outside the listed symbol/operand/literal sets are not covered',
                 'by-design deviations removed: float operands of bitwise operators, iteration over constant sets']


def replay(ctx, case):
    return e2.replay(ctx, case)
