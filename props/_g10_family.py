"""C37 program family: prange programs whose emitted C the extractor reads (Layer 1) and which are run on
real OpenMP threads under a replay driver (Layer 2).

Every program is one kernel `k_<name>(n, T, res)` plus a `run_<name>(n, T)` Python wrapper.  The loop body
calls a `with gil` hook at iteration entry (phase 0) and as the last statement before the iteration's exit
(phase 1): the Python side of the hook blocks on events, so a driver thread decides when each iteration
proceeds, and the entry hook's return value tells the body which outcome to take (0 normal, 1 break,
2 return); outcome 3 (raise) is produced by the leave hook raising.

The only instrumentation is observation: the macro G10_WHYP() expands to the address of the emitted shared
exit-reason variable (its C name is taken from the staged Cython.Compiler.Naming) so that the driver can
wait until an exit has been published before it lets the next thread go.
"""

PRELUDE = r'''
# cython: language_level=3
cimport cython
cimport openmp
from cython.parallel cimport prange, parallel

cdef extern from *:
    """
    #define G10_WHYP() ((size_t)&%(why)s)
    """
    size_t G10_WHYP() nogil

HOOK = None
NOTE = None

def set_hooks(h, n):
    global HOOK, NOTE
    HOOK = h
    NOTE = n

cdef int hook(int phase, int i, size_t a, size_t b) except -1 with gil:
    return HOOK(phase, i, a, b)

cdef int qhook(int phase, int i, size_t a, size_t b) noexcept with gil:
    try:
        return HOOK(phase, i, a, b)
    except BaseException:
        return 0

cdef void note(int k, int v) noexcept with gil:
    try:
        NOTE(k, v)
    except BaseException:
        pass
'''

# name -> dict(outcomes=set of letters, body features)
#   hook: 'hook' (may raise -> error label) or 'qhook' (noexcept -> no error label)
#   brk / ret: body has a break / return arm
#   lp: lastprivate variable assigned; els: else clause; par: parallel() block with inner prange
#   sched: schedule used by the Layer-2 build (always static,1); 'dyn' programs are Layer-1 only
PROGRAMS = [
    dict(name='red',     hook='qhook', brk=0, ret=0, lp=0, els=0, par=0, outcomes='N'),
    dict(name='lastp',   hook='qhook', brk=0, ret=0, lp=1, els=0, par=0, outcomes='N'),
    dict(name='brk',     hook='qhook', brk=1, ret=0, lp=1, els=0, par=0, outcomes='NB'),
    dict(name='ret',     hook='qhook', brk=0, ret=1, lp=1, els=0, par=0, outcomes='NR'),
    dict(name='brkret',  hook='qhook', brk=1, ret=1, lp=1, els=1, par=0, outcomes='NBR'),
    dict(name='exc',     hook='hook',  brk=0, ret=0, lp=1, els=0, par=0, outcomes='NX'),
    dict(name='excelse', hook='hook',  brk=0, ret=0, lp=0, els=1, par=0, outcomes='NX'),
    dict(name='all',     hook='hook',  brk=1, ret=1, lp=1, els=1, par=0, outcomes='NBRX'),
    dict(name='par',     hook='hook',  brk=1, ret=1, lp=1, els=1, par=1, outcomes='NBRX'),
    dict(name='parexc',  hook='hook',  brk=0, ret=0, lp=0, els=0, par=1, outcomes='NX'),
    dict(name='dyn',     hook='hook',  brk=1, ret=1, lp=1, els=1, par=0, outcomes='NBRX', sched='dynamic'),
    dict(name='guided',  hook='hook',  brk=1, ret=0, lp=1, els=0, par=0, outcomes='NBX', sched='guided'),
]
BY_NAME = {p['name']: p for p in PROGRAMS}

LP_INIT = -7
I_INIT = -99


def kernel_source(p):
    name = p['name']
    hk = p['hook']
    has_why = p['brk'] or p['ret'] or hk == 'hook'
    whyp = '<size_t>G10_WHYP()' if has_why else '<size_t>0'
    sched = p.get('sched', 'static')
    L = []
    L.append('cdef int k_%s(int n, int T, int *res) except -1 nogil:' % name)
    L.append('    cdef int i = %d, s = 0, lp = %d, o = 0, er = 0' % (I_INIT, LP_INIT))
    L.append('    cdef size_t oa = 0')
    ind = '    '
    if p['par']:
        L.append('    with parallel(num_threads=T):')
        ind = '        '
        L.append(ind + 'oa = %s' % whyp)
        L.append(ind + "for i in prange(n, schedule='%s', chunksize=1):" % sched)
    else:
        L.append(ind + "for i in prange(n, schedule='%s', chunksize=1, num_threads=T):" % sched)
    b = ind + '    '
    L.append(b + 'o = %s(0, i, %s, oa)' % (hk, whyp))
    L.append(b + 's += i + 1')
    if p['lp']:
        L.append(b + 'lp = i * 10')
    if p['brk']:
        L.append(b + 'if o == 1:')
        L.append(b + '    %s(1, i, 0, 0)' % hk)
        L.append(b + '    break')
    if p['ret']:
        L.append(b + 'if o == 2:')
        L.append(b + '    %s(1, i, 0, 0)' % hk)
        L.append(b + '    return 1000 + i')
    L.append(b + '%s(1, i, 0, 0)' % hk)
    if p['els']:
        L.append(ind + 'else:')
        if p['par']:
            L.append(ind + '    note(2, openmp.omp_get_thread_num())')
        else:
            L.append(ind + '    er = 1')
    if p['par']:
        L.append(ind + 'note(4, openmp.omp_get_thread_num())')
    L.append('    res[0] = s; res[1] = lp; res[2] = i; res[3] = er')
    L.append('    return 1')
    L.append('')
    L.append('def run_%s(int n, int T):' % name)
    L.append('    cdef int res[4]')
    L.append('    cdef int rv')
    L.append('    res[0] = res[1] = res[2] = res[3] = -1')
    L.append('    with nogil:')
    L.append('        rv = k_%s(n, T, res)' % name)
    L.append('    return rv, res[0], res[1], res[2], res[3]')
    L.append('')
    return '\n'.join(L)


def module_source(programs=None, why_cname=None):
    if why_cname is None:
        from Cython.Compiler import Naming
        why_cname = Naming.parallel_why
    progs = programs or PROGRAMS
    return PRELUDE % {'why': why_cname} + '\n' + '\n'.join(kernel_source(p) for p in progs)


# ======================================================================== Layer 3: sequential-equivalence kernels
SEQ_PRELUDE = r'''
# cython: language_level=3
cimport cython
from cython.parallel cimport prange, parallel
'''

I_SENTINEL = -12345
SCHEDS = [('static', 0), ('static', 1), ('dynamic', 0), ('dynamic', 1), ('guided', 0), ('guided', 1), ('runtime', 0)]

# body kind -> (declarations, loop body lines, result expression, uses parallel block)
SEQ_BODIES = {
    'sums': dict(decl='cdef long s = 0, m = 1000\n    cdef unsigned long x = 5',
                 body=['s += i * 3 + 1', 'm -= i', 'x ^= <unsigned long>(i * 40503)'],
                 result='(s, m, x, i)'),
    'prod': dict(decl='cdef unsigned long long q = 1\n    cdef unsigned int o = 0, a = 0xFFFFFFFF',
                 body=['q *= <unsigned long long>((i & 3) + 2)', 'o |= <unsigned int>(1 << (i & 15))',
                       'a &= ~(<unsigned int>(1 << (i & 7)))'],
                 result='(q, o, a, i)'),
    'lastp': dict(decl='cdef int lp = -7, lq = -8\n    cdef long s = 0',
                  body=['lp = i * 3 + 1', 'lq = lp - i', 's += lp'],
                  result='(lp, lq, s, i)'),
    'dsum': dict(decl='cdef double d = 0.25',
                 body=['d += i * 0.5'],
                 result='(d, i)'),
    'disjoint': dict(decl='cdef int buf[160]\n    cdef int k = 0, pos = -1\n    for k in range(160):\n        buf[k] = -1',
                     body=['pos = (i - start) // step if step > 0 else (start - i) // (-step)', 'buf[pos] = i * i + 1'],
                     result='([buf[k] for k in range(160)], pos, i)', cdiv=True),
    'parred': dict(decl='cdef long s = 0\n    cdef int lp = -7, loc = 0', par=True,
                   pre=['loc = 5'],
                   body=['s += i + loc', 'lp = i * 2'],
                   result='(s, lp, i)'),
}


def seq_kernel_name(kind, sched, chunked):
    return 'q_%s_%s%s' % (kind, sched, '_c' if chunked else '')


def seq_module_source():
    L = [SEQ_PRELUDE]
    for kind, b in SEQ_BODIES.items():
        for sched, chunked in SCHEDS:
            nm = seq_kernel_name(kind, sched, chunked)
            if b.get('cdiv'):
                L.append('@cython.cdivision(True)')
            L.append('def %s(int start, int stop, int step, int nthreads, int chunk):' % nm)
            L.append('    cdef int i = %d' % I_SENTINEL)
            L.append('    ' + b['decl'])
            kw = "nogil=True, schedule='%s'" % sched
            if chunked:
                kw += ', chunksize=chunk'
            if b.get('par'):
                L.append('    with nogil, parallel(num_threads=nthreads):')
                for s in b.get('pre', []):
                    L.append('        ' + s)
                L.append('        for i in prange(start, stop, step, %s):' % kw.replace('nogil=True, ', ''))
                ind = '            '
            else:
                L.append('    for i in prange(start, stop, step, %s, num_threads=nthreads):' % kw)
                ind = '        '
            for s in b['body']:
                L.append(ind + s)
            L.append('    return %s' % b['result'])
            L.append('')
    return '\n'.join(L)


def seq_reference(kind, start, stop, step):
    """CPython `range` semantics of the same body."""
    M64 = (1 << 64) - 1
    i = I_SENTINEL
    if kind == 'sums':
        s, m, x = 0, 1000, 5
        for i in range(start, stop, step):
            s += i * 3 + 1
            m -= i
            x ^= (i * 40503) & M64
        return (s, m, x, i)
    if kind == 'prod':
        q, o, a = 1, 0, 0xFFFFFFFF
        for i in range(start, stop, step):
            q = (q * ((i & 3) + 2)) & M64
            o |= (1 << (i & 15))
            a &= ~(1 << (i & 7)) & 0xFFFFFFFF
        return (q, o, a, i)
    if kind == 'lastp':
        lp, lq, s = -7, -8, 0
        for i in range(start, stop, step):
            lp = i * 3 + 1
            lq = lp - i
            s += lp
        return (lp, lq, s, i)
    if kind == 'dsum':
        d = 0.25
        for i in range(start, stop, step):
            d += i * 0.5
        return (d, i)
    if kind == 'disjoint':
        buf = [-1] * 160
        pos = -1
        for i in range(start, stop, step):
            pos = (i - start) // step if step > 0 else (start - i) // (-step)
            buf[pos] = i * i + 1
        return (buf, pos, i)
    if kind == 'parred':
        s, lp = 0, -7
        for i in range(start, stop, step):
            s += i + 5
            lp = i * 2
        return (s, lp, i)
    raise KeyError(kind)
