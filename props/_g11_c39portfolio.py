"""g11 helper: the C39 portfolio - pure-Python functions x complete small input sets (no sampling).

parts(tier) -> (prelude, [e2.Part...], input_sets).  Families: arith (C02's generator restricted to 5 boundary
constants + 3 shift counts), str / bytes methods (generic and annotated receiver), formatting, indexing, comparisons,
exceptions, generators, argument binding, classes (incl. a @cython.cclass), closures/comprehensions/unpacking.
"""
import re
from vlib import e2, support

PRELUDE = '''import cython
from vlib.support import IntSub, FloatSub
'''

STRS = ["''", "'a'", "'abc'", "' ab c '", "'AbC dEf'", "'a,b,,c'", "'line1\\nline2\\r\\nx'", "'\\xe9t\\xe9'", "'a\\u20acb'",
        "'\\U0001f600x'", "'a\\x00b'", "'123'", "'  '", "'tab\\there'", "'\\udc80'"]
BYTES = ["b''", "b'a'", "b'abc'", "b' ab c '", "b'a,b,,c'", "b'\\xff\\x00z'", "b'123'"]
SUBS = ["''", "'a'", "'b'", "','", "'ab'", "'\\xe9'", "' '"]
NUMS = ['0', '1', '-1', '7', '-7', '255', '-256', '2**30', '-2**30', '2**31', '2**62', '2**63', '-2**63', '2**64', '2**100',
        '10**18', 'True', 'False']
FLTS = ['0.0', '-0.0', '1.5', '-2.5', '1e300', '1e-7', '123456.789', "float('inf')", "float('nan')", '3.0']
MISC = ['None', "'s'", "b'b'", '(1, 2)', '[1, 2]', "{'k': 1}", 'IntSub(5)', 'FloatSub(1.5)', '1j', '{1, 2}']
SMALL = ['-5', '-4', '-3', '-1', '0', '1', '2', '3', '4', '5', '2**31', '-2**31', '2**63 - 1', '-2**63', 'True', 'None', '1.0', "'1'"]


class B:
    def __init__(self):
        self.parts, self.sets, self.n = [], {}, 0

    def inputs(self, key, tuples):
        self.sets[key] = list(tuples)
        return key

    def add(self, tag, key, src, name=None):
        """src uses NAME as the function-name placeholder."""
        name = name or 'p%d' % self.n
        self.n += 1
        self.parts.append(e2.Part(src.replace('NAME', name), [e2.Func(name, tag, key)]))
        return name

    def fn(self, tag, key, params, body):
        body = '\n'.join('    ' + l for l in body.strip('\n').split('\n'))
        return self.add(tag, key, 'def NAME(%s):\n%s\n' % (params, body))


def build(tier='quick'):
    b = B()
    quick = tier == 'quick'
    one = lambda xs: [(x,) for x in xs]
    s1 = b.inputs('str1', one(STRS))
    s2 = b.inputs('str2', [(s, t) for s in STRS for t in SUBS])
    by1 = b.inputs('bytes1', one(BYTES))
    num1 = b.inputs('num1', one(NUMS + FLTS))
    any1 = b.inputs('any1', one(NUMS + FLTS + MISC + STRS[:4]))
    int1 = b.inputs('int1', one(NUMS))
    flt1 = b.inputs('flt1', one(FLTS + ['0', '1', '-3', '10**20']))
    pair = b.inputs('pair', [(x, y) for x in NUMS[:12] + FLTS[:5] + MISC[:5] for y in ['0', '1', '-1', '2**31', '1.5', 'None', "'s'", '(1, 2)']])
    spair = b.inputs('spair', [t for t in b.sets['pair'] if '2**' not in t[0] + t[1] and '1e300' not in t[0]])
    idx = b.inputs('idx', one(SMALL))
    idx2 = b.inputs('idx2', [(i, j) for i in SMALL[:14] for j in SMALL[:14]])
    none = b.inputs('none', [()])

    # ---------------------------------------------------------------- arithmetic with constants (C02 generator)
    from props import C02_const_arith as C02
    keepc = {'1', '-1', '255', '1073741824', '0.5'}
    keeps = {'1', '31', '63'}
    arith_ops = b.inputs('arith', one(['0', '1', '-1', '2', '255', '2**15', '2**30-1', '2**30', '-2**30', '2**31-1', '2**31', '-2**31',
                                     '2**59', '2**60', '2**62', '2**63-1', '2**63', '-2**63', '2**64', '2**90', '-2**90', 'True',
                                     '0.0', '-0.0', '1.5', '-2.5', "float('inf')", "float('nan')", 'IntSub(5)', 'IntSub(2**70)',
                                     'FloatSub(1.5)', 'None', "'a'", '[1]', 'Refl()', 'NotImpl()', 'IndexOnly(3)', '1j']))
    arith_noseq = b.inputs('arith_noseq', [t for t in b.sets['arith'] if t[0] not in ("'a'", '[1]')])
    arith_small = b.inputs('arith_small', [t for t in b.sets['arith'] if not (t[0].startswith('2**') and t[0] not in ('2**15',)) and t[0] != 'IntSub(2**70)'])
    for p in C02.programs('quick'):
        f = p.funcs[0]
        op, form, c = re.match(r'^(.+)/(xc|cx|ip|if|ifc|cond)/(.+)$', f.tag).groups()
        if quick and form not in ('xc', 'cx'):
            continue      # quick: the two plain forms; thorough: also in-place, if, conditional-expression forms
        if (op in ('<<', '>>') and c in keeps) or (op not in ('<<', '>>') and c in keepc):
            key = arith_noseq if f.inputs == 'noseq' else (arith_small if f.inputs == 'smallshift' else arith_ops)
            b.parts.append(e2.Part(p.src.replace('def %s(' % f.name, 'def a_%s(' % f.name), [e2.Func('a_' + f.name, 'arith/' + f.tag, key)]))
    # variable op variable
    for n, op in enumerate(['+', '-', '*', '/', '//', '%', '**', '&', '|', '^', '==', '<', '>=', 'and', 'or']):
        b.fn('arith2/%s' % op, spair if op in ('*', '**') else pair, 'x, y', 'return x %s y' % op)
    for n, ex in enumerate(['-x', '+x', '~x', 'abs(x)', 'not x', 'int(x)', 'float(x)', 'bool(x)', 'round(x)', 'divmod(x, 7)', 'pow(x, 2)',
                            'pow(x, 3, 5)', 'hash(x) == hash(x)', 'x.bit_length()', 'hex(x)', 'str(x)', 'repr(x)', 'x + 1.5', 'x * 2 + 1',
                            'min(x, 3)', 'max(x, 3, 2.5)', 'sum([x, x])', 'x if x else -1', 'complex(x)', '[x] * 2', 'x is None', 'x == 1 == True']):
        b.fn('unary/%s' % ex, any1 if 'bit_length' not in ex else int1, 'x', 'return %s' % ex)

    # ---------------------------------------------------------------- string methods
    for ann, sfx in (('s', 'g'), ('s: str', 't')):
        for n, ex in enumerate(['s.upper()', 's.lower()', 's.strip()', 's.lstrip()', 's.rstrip()', 's.split()', 's.splitlines()', 's.title()',
                   's.capitalize()', 's.swapcase()', 's.casefold()', 's.isdigit()', 's.isalpha()', 's.isspace()', 's.isalnum()', 's.isupper()',
                   's.islower()', 's.isidentifier()', 's.isprintable()', 's.isascii()', 's.center(9)', "s.ljust(7, '*')", "s.rjust(7, '0')",
                   's.zfill(6)', 's.expandtabs(4)', 'len(s)', 's[::-1]', 's[1:]', 's[:-1]', 's * 2', "s + 'x'", "'x' + s + 'y'", 'list(s)',
                   'sorted(s)', "s.encode('utf-8', 'surrogatepass')", "s.encode('ascii', 'replace')", "s.encode('latin-1', 'ignore')",
                   'bool(s)', 'hash(s) == hash(s + "")', 'repr(s)', 'ascii(s)', 'str(s)', '[c for c in s]', '[ord(c) for c in s]',
                   "'-'.join(s)", 's.split(None, 1)', 's.rsplit(None, 1)', "s == 'abc'", "s != 'a'", "s < 'b'", "'a' in s", 'min(s, default=None)',
                   's.translate({97: 65})', "s.format()", "s.partition(' ')", "s.rpartition(',')", 's[0] if s else None', 's[-1:] + s[:1]',
                   "s.removeprefix('a')", "s.removesuffix('c')", 'int(s) if s.isdigit() and s.isascii() else -1', 's.encode()']):
            if quick and sfx == 't' and n % 2:
                continue      # quick: every other annotated variant
            b.fn('str/%s/%s' % (sfx, ex), s1, ann, 'return %s' % ex)
        for n, ex in enumerate(['s.find(t)', 's.rfind(t)', 's.count(t)', 's.startswith(t)', 's.endswith(t)', 's.replace(t, "_")', 't in s', 't not in s',
                   's.strip(t)', 's.partition(t) if t else None', 's.split(t) if t else None', 's.rsplit(t, 1) if t else None', 't.join([s, s])',
                   's.index(t)', 's.rindex(t)', 's + t', 's == t', 's < t', 's.startswith((t, "x"))', 's.find(t, 1)', 's.find(t, 1, -1)',
                   's.count(t, 2)', 's.replace(t, "ab", 1)', 's.endswith(t, 0, 2)', '(s, t) == (t, s)', 's.lstrip(t) + s.rstrip(t)']):
            if quick and sfx == 't' and n % 2:
                continue
            b.fn('str2/%s/%s' % (sfx, ex), s2, ann + ', t' + (': str' if sfx == 't' else ''), 'return %s' % ex)
    for ann, sfx in (('s', 'g'), ('s: bytes', 't')):
        for n, ex in enumerate(['s.decode("latin-1")', 's.decode("utf-8", "replace")', 's.decode("ascii", "ignore")', 's.upper()', 's.split()', 's.strip()',
                   's.hex()', 'len(s)', 's[1:]', 's[::-1]', 's * 2', 's + b"x"', 'list(s)', 's.find(b"b")', 's.startswith(b"a")',
                   's.replace(b"a", b"zz")', 'b"-".join([s, s])', 's[0] if s else None', 's == b"abc"', 'bytearray(s)', 's.split(b",")',
                   's.decode()', 'bytes(reversed(s))', 's.isdigit()', 'int(s) if s.isdigit() else None', 's.rjust(5, b".")']):
            if quick and sfx == 't' and n % 2:
                continue
            b.fn('bytes/%s/%s' % (sfx, ex), by1, ann, 'return %s' % ex)

    # ---------------------------------------------------------------- formatting
    for ex in ["f'{x}'", "f'{x!r}'", "f'{x!s}'", "f'{x!a}'", "f'[{x}]{x}'", "f'{x:>12}'", "f'{x:<12}|'", "f'{x:^12}|'", "'%s' % (x,)", "'%r' % (x,)",
               "'%5s|%-5s|' % (x, x)", "'{}'.format(x)", "'{!r:>14}'.format(x)", "'{0} {0}'.format(x)", "'{v}'.format(v=x)", 'str(x)', 'repr(x)',
               "format(x)", "f'{x}' + f'{x!r}'", "'a%sb%sc' % (x, x)", "f'{x!r:20}'", "f'{\"k\"}{x}'", "f'{x}{x}{x}{x}'", "'%%%s' % (x,)",
               "'%(a)s-%(b)r' % {'a': x, 'b': x}", "'{:}'.format(x)", "f'{x=}'", "f'{[x]}'", "f'{(x, x)}'"]:
        b.fn('fmt/any/%s' % ex, any1, 'x', 'return %s' % ex)
    for ex in ["f'{x:d}'", "f'{x:5d}'", "f'{x:05d}'", "f'{x:x}'", "f'{x:X}'", "f'{x:o}'", "f'{x:b}'", "f'{x:#x}'", "f'{x:+d}'", "f'{x:,}'", "f'{x:_}'",
               "f'{x:>20}'", "f'{x:e}'", "f'{x:.2f}'", "'%d' % x", "'%5d' % x", "'%-5d|' % x", "'%05d' % x", "'%x' % x", "'%o' % x", "'%+d' % x",
               "'%s %d' % (x, x)", "'%c' % (x % 128)", "'%5.1f' % x", "'{:d}'.format(x)", "'{:08x}'.format(x)", "format(x, 'n')", "f'{x:c}' if 0 <= x < 1114112 and not 0xd800 <= x < 0xe000 else None",
               "f'{x:{8}}'", "f'{x:<{6}d}|'", "str(x).zfill(5)", "'%i' % x", "'%u' % x", "'%3d|%-3d|%03d' % (x, x, x)"]:
        b.fn('fmt/int/%s' % ex, int1, 'x', 'return %s' % ex)
    for ex in ["f'{x:f}'", "f'{x:.3f}'", "f'{x:10.2f}'", "f'{x:e}'", "f'{x:.3e}'", "f'{x:g}'", "f'{x:.10g}'", "f'{x:%}'", "f'{x:+.1f}'", "f'{x:08.2f}'",
               "'%f' % x", "'%.2f' % x", "'%10.3e' % x", "'%g' % x", "'%s' % x", "'%r' % x", "'%5.1f|%-8.2f|' % (x, x)", "'{:.2f}'.format(x)",
               "'{:>10.1f}'.format(x)", "format(x, '.4f')", "str(x)", "repr(x)", "f'{x!r:>12}'", "round(x, 2) if x == x and abs(x) < 1e300 else None", "'%d' % x if x == x and abs(x) < 1e300 else None"]:
        b.fn('fmt/float/%s' % ex, flt1, 'x', 'return %s' % ex)

    # ---------------------------------------------------------------- indexing
    for cont, cname in (('[10, 20, 30]', 'list'), ('(10, 20, 30)', 'tuple'), ("'abc'", 'str'), ("b'abc'", 'bytes'), ("bytearray(b'abc')", 'bytearray'),
                        ('{0: 1, 1: 2, -1: 3, True: 4}', 'dict'), ('range(3)', 'range')):
        b.fn('idx/get/%s' % cname, idx, 'i', 'c = %s\nreturn c[i]' % cont)
        if cname != 'dict':
            b.fn('idx/slice/%s' % cname, idx2, 'i, j', 'c = %s\nreturn c[i:j]' % cont)
            b.fn('idx/step/%s' % cname, idx2, 'i, j', 'c = %s\nreturn [c[i::j] if j else None, c[:i:j] if j else None]' % cont)
        for k in ((0, -1, 3) if quick else (0, 1, -1, 3, -4, 2 ** 31, -2 ** 63)):
            b.fn('idx/const%d/%s' % (k, cname), none, '', 'c = %s\nreturn c[%d]' % (cont, k))
    b.fn('idx/set/list', idx, 'i', 'c = [1, 2, 3]\nc[i] = 9\nreturn c')
    b.fn('idx/del/list', idx, 'i', 'c = [1, 2, 3]\ndel c[i]\nreturn c')
    b.fn('idx/setslice/list', idx2, 'i, j', 'c = [1, 2, 3]\nc[i:j] = [7, 8]\nreturn c')
    b.fn('idx/delslice/list', idx2, 'i, j', 'c = [1, 2, 3, 4]\ndel c[i:j]\nreturn c')
    b.fn('idx/set/bytearray', idx, 'i', "c = bytearray(b'abc')\nc[i] = 65\nreturn c")
    b.fn('idx/set/dict', idx, 'i', 'c = {}\nc[i] = 1\nc[i] += 1\nreturn c')
    b.fn('idx/dictget', idx, 'i', "c = {0: 'a', 1: 'b', '1': 'c', None: 'd'}\nreturn [c.get(i), c.get(i, 'dflt'), i in c, c.setdefault(i, 'new'), len(c)]")
    b.fn('idx/dictpop', idx, 'i', "c = {0: 'a', 1: 'b', None: 'd'}\nr = c.pop(i, 'no')\nreturn [r, sorted(c, key=repr)]")
    b.fn('idx/listmeth', idx, 'i', 'c = [3, 1, 2]\nc.insert(i, 9)\nr = c.pop(i)\nc.append(i)\nreturn [c, r, c.index(i), c.count(i)]')
    b.fn('idx/nested', idx2, 'i, j', 'c = [[1, 2], [3, 4], (5, 6)]\nreturn c[i][j]')
    b.fn('idx/aug', idx, 'i', 'c = [1, 2, 3]\nc[i] += 10\nc[i] *= 2\nreturn c')
    b.fn('idx/unpack', idx, 'i', 'c = [1, 2, 3, 4][:i]\na, *r = c\nreturn [a, r]')
    b.fn('idx/unpack2', idx, 'i', 'a, b = (1, 2, 3)[:i]\nreturn a + b')
    b.fn('idx/mul', b.inputs('mulidx', one(['-1', '0', '1', '3', 'True', 'None', '1.0'])), 'i', "return [[1, 2] * i, 'ab' * i, (1,) * i, b'x' * i]")

    # ---------------------------------------------------------------- wraparound window: C-integer and object indices over
    # the complete window [-3*len-1, 2*len+1] for lengths 0..3, typed and untyped receivers (never thinned)
    WCONT = {'list': ['[]', '[10]', '[10, 20]', '[10, 20, 30]'], 'tuple': ['()', '(10,)', '(10, 20)', '(10, 20, 30)'],
             'str': ["''", "'a'", "'ab'", "'ab\\xe9'"], 'bytes': ["b''", "b'a'", "b'ab'", "b'abc'"],
             'bytearray': ["bytearray(b'')", "bytearray(b'a')", "bytearray(b'ab')", "bytearray(b'abc')"]}
    for cname, conts in WCONT.items():
        wkey = b.inputs('widx_' + cname, [(c, repr(i)) for n, c in enumerate(conts) for i in range(-3 * n - 1, 2 * n + 2)])
        ckey = b.inputs('wcont_' + cname, one(conts))
        for rann, rs in (('c', 'u'), ('c: ' + cname, 't')):
            for iann, isx in (('i', 'o'), ('i: cython.Py_ssize_t', 'c'), ('i: cython.int', 'n')):
                b.fn('widx/get/%s/%s%s' % (cname, rs, isx), wkey, '%s, %s' % (rann, iann), 'return c[i]')
                if cname in ('list', 'bytearray'):
                    b.fn('widx/set/%s/%s%s' % (cname, rs, isx), wkey, '%s, %s' % (rann, iann), 'c[i] = 65\nreturn c')
                    b.fn('widx/del/%s/%s%s' % (cname, rs, isx), wkey, '%s, %s' % (rann, iann), 'del c[i]\nreturn c')
                    b.fn('widx/aug/%s/%s%s' % (cname, rs, isx), wkey, '%s, %s' % (rann, iann), 'c[i] += 1\nreturn c')
            # the index is a C integer by inference: a range() loop compiled to a C loop
            b.fn('widx/loop/%s/%s' % (cname, rs), ckey, rann,
                 'n = len(c)\nout = []\nfor i in range(-3 * n - 1, 2 * n + 2):\n    try:\n        out.append(c[i])\n    except IndexError:\n        out.append("E")\nreturn out')
            b.fn('widx/const/%s/%s' % (cname, rs), ckey, rann,
                 'out = []\nfor k in (0, 1, 2, 3):\n    try:\n        out.append([c[-1], c[-2], c[-3], c[-4], c[-7]][k])\n    except IndexError:\n        out.append("E")\nreturn out')

    # ---------------------------------------------------------------- comparisons
    for ex in ['x < y', 'x <= y', 'x == y', 'x != y', 'x > y', 'x >= y', 'x is y', 'x is not y', 'x < y < 3', 'x == y == 1', '0 <= x < y', 'x in (y, 1)',
               'x not in [y]', '(x, y) < (y, x)', '[x, y] == [y, x]', 'x == y or x < y', 'not (x == y) and x is not None', 'sorted([x, y])',
               'max(x, y)', 'min([x, y])', '{x: 1} == {y: 1}', '(x == y) + (x != y)', 'x if x == y else y', 'bool(x) == bool(y)', 'x and y',
               'x or y', '(x or y) and (y or x)', 'x is None or y is None or x <= y', 'type(x) is type(y)', 'isinstance(x, (int, float)) and x < 5']:
        b.fn('cmp/%s' % ex, pair, 'x, y', 'return %s' % ex)

    # ---------------------------------------------------------------- exceptions
    EX = [
        ('try_except', 'try:\n    return 10 // x\nexcept ZeroDivisionError as e:\n    return type(e).__name__\nexcept TypeError:\n    return "T"'),
        ('try_else_finally', 'r = []\ntry:\n    r.append(10 // x)\nexcept Exception as e:\n    r.append(type(e).__name__)\nelse:\n    r.append("else")\nfinally:\n    r.append("fin")\nreturn r'),
        ('finally_return', 'try:\n    return 10 // x\nfinally:\n    pass'),
        ('finally_override', 'try:\n    return 10 // x\nfinally:\n    return "F"'),
        ('nested', 'r = []\ntry:\n    try:\n        r.append(10 // x)\n    finally:\n        r.append("f1")\nexcept ZeroDivisionError:\n    r.append("Z")\nexcept Exception as e:\n    r.append(type(e).__name__)\nreturn r'),
        ('raise_from', 'try:\n    try:\n        return 10 // x\n    except ZeroDivisionError as e:\n        raise ValueError("v") from e\nexcept ValueError as v:\n    return [type(v.__cause__).__name__, v.args, v.__suppress_context__]'),
        ('context', 'try:\n    try:\n        return 10 // x\n    except Exception:\n        raise KeyError(x)\nexcept KeyError as k:\n    return [type(k.__context__).__name__, k.args == (x,)]'),
        ('reraise', 'try:\n    try:\n        return 10 // x\n    except Exception:\n        raise\nexcept Exception as e:\n    return type(e).__name__'),
        ('custom', 'class E(Exception):\n    def __init__(self, a):\n        super().__init__(a, a)\n        self.a = a\ntry:\n    if not x:\n        raise E(x)\n    return x\nexcept E as e:\n    return [e.args, e.a, str(e), isinstance(e, Exception)]'),
        ('propagate', 'return 10 // x'),
        ('propagate_attr', 'return x.nope'),
        ('propagate_idx', 'return [1, 2][x]'),
        ('propagate_key', 'return {1: 2}[x]'),
        ('propagate_call', 'return x()'),
        ('propagate_iter', 'return [i for i in x]'),
        ('propagate_unpack', 'a, b = x\nreturn a'),
        ('assert', 'try:\n    assert x, "msg %s" % (x,)\nexcept AssertionError as e:\n    return e.args\nreturn "ok"'),
        ('raise_class', 'try:\n    raise ValueError if x else KeyError\nexcept (ValueError, KeyError) as e:\n    return [type(e).__name__, e.args]'),
        ('exc_in_loop', 'r = []\nfor i in (1, 0, x, "s"):\n    try:\n        r.append(6 // i)\n    except ZeroDivisionError:\n        r.append("Z")\n        continue\n    except TypeError:\n        r.append("T")\n        break\n    finally:\n        r.append("f")\nreturn r'),
        ('with_stmt', 'class CM:\n    def __init__(self): self.log = []\n    def __enter__(self):\n        self.log.append("in")\n        return self\n    def __exit__(self, t, v, tb):\n        self.log.append(t.__name__ if t else None)\n        return t is ZeroDivisionError\ncm = CM()\ntry:\n    with cm as c:\n        c.log.append(10 // x)\nexcept Exception as e:\n    cm.log.append("out:" + type(e).__name__)\nreturn cm.log'),
        ('exc_var_unbound', 'e = 1\ntry:\n    10 // x\nexcept ZeroDivisionError as e:\n    pass\ntry:\n    return e\nexcept NameError as n:\n    return "unbound"'),
        ('stopiter', 'it = iter([x])\nr = [next(it), next(it, "d")]\ntry:\n    next(it)\nexcept StopIteration as s:\n    r.append(s.args)\nreturn r'),
        ('getattr_default', 'return [getattr(x, "real", "no"), getattr(x, "nope", None), hasattr(x, "__len__")]'),
        ('int_parse', 'try:\n    return int(x)\nexcept (TypeError, ValueError, OverflowError) as e:\n    return type(e).__name__'),
        ('exc_args', 'try:\n    raise OSError(2, "msg", x)\nexcept OSError as e:\n    return [e.errno, e.strerror, e.filename == x]'),
        ('exc_group_free', 'try:\n    [][x]\nexcept (IndexError, TypeError) as e:\n    return type(e).__mro__[1].__name__'),
    ]
    for name, body in EX:
        b.fn('exc/%s' % name, any1, 'x', body)

    # ---------------------------------------------------------------- generators
    GEN = [
        ('simple', 'def g(n):\n    for i in range(n):\n        yield i * x\nreturn list(g(3))'),
        ('send', 'def g():\n    r = yield 1\n    r = yield [r, x]\n    yield r\nit = g()\nreturn [next(it), it.send("a"), it.send(x), next(it, "end")]'),
        ('throw', 'def g():\n    try:\n        yield 1\n    except KeyError as e:\n        yield ["caught", e.args == (x,)]\n    yield "after"\nit = g()\nnext(it)\nreturn [it.throw(KeyError(x)), next(it), next(it, "end")]'),
        ('close', 'log = []\ndef g():\n    try:\n        yield x\n        yield 2\n    finally:\n        log.append("closed")\nit = g()\nr = next(it)\nit.close()\nit.close()\nreturn [r == x, log, next(it, "end")]'),
        ('yield_from', 'def inner():\n    yield x\n    return "ret"\ndef g():\n    r = yield from inner()\n    yield r\n    t = (1, x)\n    yield from t\n    yield from [3]\nreturn list(g())'),
        ('genexpr', 'return [list(i for i in (x, x)), sum(i for i in range(5)), any(i is x for i in [x]), tuple((i, j) for i in range(2) for j in "ab")]'),
        ('return_value', 'def g():\n    yield 1\n    return x\nit = g()\nnext(it)\ntry:\n    next(it)\nexcept StopIteration as s:\n    return s.value == x\nreturn "no"'),
        ('pep479', 'def g():\n    yield 1\n    raise StopIteration(x)\ntry:\n    return list(g())\nexcept RuntimeError as e:\n    return [type(e.__cause__).__name__]'),
        ('unstarted_send', 'def g():\n    yield x\nit = g()\ntry:\n    it.send(1)\nexcept TypeError:\n    return "T"\nreturn "no"'),
        ('running', 'def g():\n    yield it.gi_running if hasattr(it, "gi_running") else True\nit = g()\nreturn next(it)'),
        ('lazy', 'log = []\ndef g():\n    log.append("start")\n    yield x\n    log.append("end")\nit = g()\nlog.append("made")\nnext(it)\nlog.append("got")\nnext(it, None)\nreturn log'),
        ('enumerate_zip', 'return [list(enumerate([x, x], 1)), list(zip([1, 2], (x, x), "ab")), list(map(lambda v: v is x, [x, 1])), list(filter(None, [x, 0, 1]))]'),
        ('dictcomp', 'return [{i: x for i in range(2)}, {i for i in (1, 1, 2)}, [i * j for i in range(3) if i for j in range(2)]]'),
        ('nested_gen', 'def outer():\n    for i in range(2):\n        yield (j + i for j in range(2))\nreturn [list(g) for g in outer()]'),
        ('gen_exc_state', 'def g():\n    try:\n        raise KeyError(1)\n    except KeyError:\n        yield 1\n        try:\n            raise\n        except KeyError as e:\n            yield e.args\nreturn list(g())'),
        ('throw_unstarted', 'def g():\n    yield x\nit = g()\ntry:\n    it.throw(ValueError("v"))\nexcept ValueError as e:\n    return [e.args, next(it, "done")]'),
    ]
    for name, body in GEN:
        b.fn('gen/%s' % name, any1, 'x', body)

    # ---------------------------------------------------------------- argument binding
    SIGS = [('ab0', 'a, b'), ('ab1', 'a, b=2'), ('ab2', 'a, *r'), ('ab3', 'a, b=2, *r, d, e=5'), ('ab4', 'a, **k'), ('ab5', '*r, **k'),
            ('ab6', 'a, b=2, *, d=4, **k'), ('ab7', 'a, b, /, c, *, d'), ('ab8', 'a=1, /, b=2'), ('ab9', '*, d')]
    calls = [('()', '{}'), ('(1,)', '{}'), ('(1, 2)', '{}'), ('(1, 2, 3)', '{}'), ('(1, 2, 3, 4)', '{}'), ('()', "{'a': 1}"), ('(1,)', "{'b': 5}"),
             ('(1,)', "{'d': 7}"), ('(1, 2)', "{'d': 7, 'e': 8}"), ('(1,)', "{'a': 2}"), ('()', "{'a': 1, 'b': 2, 'd': 3}"), ('(1, 2)', "{'c': 3, 'd': 4}"),
             ('(1,)', "{'z': 9}"), ('()', "{'d': 1}"), ('(1, 2, 3)', "{'d': 4, 'zz': 5}"), ('()', "{'b': 1}"), ('(1, 2)', "{'c': 3}"),
             ('([1],)', "{'b': (2,)}"), ('()', "{'a': 1, 'c': 3, 'b': 2, 'd': 4}")]
    callk = b.inputs('calls', calls)
    for name, sig in SIGS:
        params = [p.strip().lstrip('*').split('=')[0] for p in sig.split(',') if p.strip() not in ('/', '*')]
        ret = '[%s]' % ', '.join('sorted(%s.items())' % p if p == 'k' else p for p in params)
        src = 'def %s(%s):\n    return %s\n\ndef NAME(args, kwargs):\n    return %s(*args, **kwargs)\n' % (name, sig, ret, name)
        b.add('bind/%s' % sig.replace(' ', ''), callk, src)
        src = 'def NAME(args, kwargs):\n    def inner(%s):\n        return %s\n    return inner(*args, **kwargs)\n' % (sig, ret)
        b.add('bind/inner/%s' % sig.replace(' ', ''), callk, src)
        src = 'class K_%s:\n    def m(self, %s):\n        return %s\n\ndef NAME(args, kwargs):\n    return K_%s().m(*args, **kwargs)\n' % (name, sig, ret, name)
        b.add('bind/method/%s' % sig.replace(' ', ''), callk, src)
    BIND = [
        ('direct', 'def f(a, b=2, *r, d=4, **k):\n    return [a, b, r, d, sorted(k)]\nreturn [f(x), f(x, 1), f(x, 1, 2, 3), f(x, d=x), f(a=x), f(x, z=1, d=2), f(*[x, 2], **{"d": 3}), f(x, *(1, 2), y=x)]'),
        ('defaults_eval', 'log = []\ndef d():\n    log.append("d")\n    return x\ndef f(a=d(), *, k=d()):\n    return a is x and k is x\nreturn [f(), f(), log]'),
        ('mutable_default', 'def f(a, acc=[]):\n    acc.append(a)\n    return list(acc)\nreturn [f(x), f(1), f(2, [])]'),
        ('lambda', 'f = lambda a, b=x, *r, **k: (a, b is x, r, sorted(k))\nreturn [f(1), f(1, 2, 3, z=4)]'),
        ('kwonly_missing', 'def f(a, *, d):\n    return a\ntry:\n    return f(x)\nexcept TypeError:\n    return "T"'),
        ('dup_kw', 'def f(a, b=1):\n    return a\ntry:\n    return f(x, a=1)\nexcept TypeError:\n    return "T"'),
        ('star_non_iter', 'def f(*a):\n    return a\ntry:\n    return f(*x)\nexcept TypeError:\n    return "T"'),
        ('dstar_non_map', 'def f(**k):\n    return sorted(k)\nif isinstance(x, (str, bytes)):\n    return "skip"\ntry:\n    return f(**x)\nexcept TypeError:\n    return "T"'),
        ('builtin_kw', 'return [sorted([3, 1, 2], reverse=True), int("11", base=2), "a b".split(sep=" ", maxsplit=1), dict(a=x) == {"a": x}, max([1, 2], key=lambda v: -v)]'),
        ('method_kw', 'class C:\n    def m(self, a, b=2, *r, **k):\n        return [a, b, r, sorted(k)]\n    @classmethod\n    def c(cls, a, b=3):\n        return [cls.__name__, a, b]\n    @staticmethod\n    def s(a, *, b=4):\n        return [a, b]\no = C()\nreturn [o.m(1), o.m(1, b=x) , o.m(1, 2, 3, z=4), C.m(o, 5), C.c(1), o.c(a=1, b=2), C.s(1), o.s(1, b=x), C.m(o, a=1)]'),
        ('recursion_kw', 'def f(n, acc=()):\n    return acc if n <= 0 else f(n - 1, acc=acc + (n,))\nreturn f(4)'),
        ('closure_args', 'def mk(a, *r, **k):\n    def inner(b=a, *s, **j):\n        return [a, b, r, s, sorted(k), sorted(j)]\n    return inner\nreturn [mk(x)(), mk(1, 2, q=3)(4, 5, w=6)]'),
    ]
    for name, body in BIND:
        b.fn('bind/%s' % name, any1, 'x', body)

    # ---------------------------------------------------------------- classes
    b.parts.append(e2.Part('''
class Vec:
    __slots__ = ('x', 'y')
    def __init__(self, x, y=0):
        self.x, self.y = x, y
    def __add__(self, o):
        return Vec(self.x + o.x, self.y + o.y) if isinstance(o, Vec) else NotImplemented
    def __radd__(self, o):
        return Vec(self.x + o, self.y + o)
    def __eq__(self, o):
        return isinstance(o, Vec) and (self.x, self.y) == (o.x, o.y)
    def __hash__(self):
        return hash((self.x, self.y))
    def __repr__(self):
        return 'Vec(%r, %r)' % (self.x, self.y)
    def __len__(self):
        return 2
    def __getitem__(self, i):
        return (self.x, self.y)[i]
    def __iter__(self):
        yield self.x
        yield self.y
    def __call__(self, *a, **k):
        return (a, sorted(k))
    def __bool__(self):
        return bool(self.x or self.y)
    def __lt__(self, o):
        return (self.x, self.y) < (o.x, o.y)
    def __contains__(self, v):
        return v == self.x or v == self.y
    def __neg__(self):
        return Vec(-self.x, -self.y)
    def __iadd__(self, o):
        self.x += o
        return self

class Base:
    kind = 'base'
    def __init__(self, v):
        self.v = v
    def who(self):
        return 'Base.who(%r)' % (self.v,)
    @property
    def prop(self):
        return self.v
    @prop.setter
    def prop(self, val):
        self.v = ('set', val)
    @classmethod
    def make(cls, v):
        return cls(v)
    @staticmethod
    def stat(a, b=1):
        return [a, b]
    def __repr__(self):
        return '%s(%r)' % (type(self).__name__, self.v)

class Derived(Base):
    kind = 'derived'
    def who(self):
        return 'Derived>' + super().who()
    def __getattr__(self, name):
        if name.startswith('dyn_'):
            return name[4:]
        raise AttributeError(name)

@cython.cclass
class CC:
    n: cython.int
    def __init__(self, n):
        self.n = n
    def twice(self):
        return self.n * 2
    def __repr__(self):
        return 'CC(%d)' % self.n
    def __eq__(self, o):
        return isinstance(o, CC) and self.twice() == o.twice()
    def __hash__(self):
        return self.n

def cls_vec(x):
    v = Vec(1, 2)
    w = v + Vec(x, x) if isinstance(x, (int, float)) else v
    r = [repr(w), w == Vec(1, 2), len(v), v[0], v[-1], list(v), v(1, k=2), bool(Vec(0)), v < w, 2 in v, repr(-v), hash(v) == hash(Vec(1, 2)),
         {v: 1}[Vec(1, 2)], sorted([Vec(2), Vec(1)])[0].x, repr(5 + v)]
    v += 10
    r.append(repr(v))
    try:
        v.z = 1
    except AttributeError:
        r.append('slots')
    try:
        v + x
    except TypeError:
        r.append('T')
    return r

def cls_inherit(x):
    d = Derived(x)
    b0 = Base.make(x)
    r = [d.who(), b0.who(), d.kind, Base.kind, isinstance(d, Base), type(d).__mro__[1].__name__, repr(Derived.make(1)), d.prop is x, Base.stat(x) == [x, 1],
         d.stat(1, b=2), d.dyn_abc, hasattr(d, 'nope'), repr(d) == 'Derived(%r)' % (x,), issubclass(Derived, Base), Derived.who(d) == d.who()]
    d.prop = 5
    r.append(d.v)
    d.extra = x
    r.append(sorted(vars(d)))
    del d.extra
    r.append(hasattr(d, 'extra'))
    r.append(Base.who(d))
    return r

def cls_dynamic(x):
    class Local:
        cnt = 0
        def __init__(self):
            type(self).cnt += 1
        def get(self):
            return x
        def __init_subclass__(cls, tag=None, **kw):
            cls.tag = tag
    class Sub(Local, tag='t'):
        pass
    a, s = Local(), Sub()
    T3 = type('T3', (Sub,), {'z': x, 'f': lambda self: 'f'})
    return [Local.cnt, Sub.cnt, s.get() is x, Sub.tag, T3().f(), T3.z is x, T3.__name__, T3.tag, [k.__name__ for k in T3.__mro__], Local.__qualname__.split('.')[-1]]

def cls_cc(x):
    c = CC(21)
    r = [c.twice(), repr(c), c == CC(21), c != CC(1), hash(c), {c: 1}[CC(21)], isinstance(c, CC), type(c).__name__]
    r.append(x)
    return r

def cls_descr(x):
    class D:
        def __get__(self, obj, tp=None):
            return ('get', obj is None)
        def __set__(self, obj, v):
            obj.__dict__['_d'] = v
    class H:
        d = D()
        def __init__(self):
            self.d = x
        def meth(self):
            return 'm'
    h = H()
    bound = h.meth
    return [h.d, H.d, h._d is x, bound(), bound.__self__ is h, H.meth(h), callable(H.meth), H.__dict__['meth'].__name__, bound.__name__, H.meth.__qualname__.split('.')[-1]]

def cls_func_attrs(x):
    def f(a, b=x, *, c=3):
        "doc"
        return a
    return [f.__name__, f.__doc__, f(1), f.__qualname__.split('.')[-1], f.__module__ == __name__, f(x, c=x) is x]
''', [e2.Func(n, 'class/' + n[4:], any1) for n in ('cls_vec', 'cls_inherit', 'cls_dynamic', 'cls_cc', 'cls_descr', 'cls_func_attrs')]))

    # ---------------------------------------------------------------- closures / comprehensions / misc control flow
    MISC_FN = [
        ('closure_counter', 'def mk():\n    n = 0\n    def inc(d=1):\n        nonlocal n\n        n += d\n        return n\n    return inc\na, c = mk(), mk()\nreturn [a(), a(2), c(), a()]'),
        ('late_binding', 'fs = [lambda: i for i in range(3)]\ngs = [lambda i=i: i for i in range(3)]\nreturn [[f() for f in fs], [g() for g in gs]]'),
        ('global_rw', 'global _c39_g\n_c39_g = [x]\n_c39_g.append(1)\nr = len(_c39_g)\ndel _c39_g\ntry:\n    _c39_g\nexcept NameError:\n    return [r, "deleted"]'),
        ('while_else', 'i, r = 0, []\nwhile i < 3:\n    i += 1\n    if i == 5:\n        break\nelse:\n    r.append("else")\nfor j in range(i):\n    if j == 1:\n        continue\n    r.append(j)\nelse:\n    r.append("for-else")\nreturn r'),
        ('switch_like', 'r = []\nfor v in (x, 1, 2, 3, 100, "a", None, 2.0, True):\n    if v == 1:\n        r.append("one")\n    elif v == 2:\n        r.append("two")\n    elif v == 3 or v == 4:\n        r.append("34")\n    elif v == 100:\n        r.append("hundred")\n    else:\n        r.append("other")\nreturn r'),
        ('in_switch', 'return [v in (1, 2, 3, 5, 8) for v in (x, 1, 4, 8, 8.0, "8", None, True)]'),
        ('str_switch', 'r = []\nfor v in (x, "a", "bb", "", "c", b"a"):\n    if v == "a":\n        r.append(1)\n    elif v == "bb":\n        r.append(2)\n    elif v in ("c", "d", ""):\n        r.append(3)\n    else:\n        r.append(0)\nreturn r'),
        ('method_calls', 'l = [3, 1, 2]\nl.append(x)\nl.extend([5])\nd = {}\nd.update(a=1)\ns = set()\ns.add(1)\nst = "a-b"\nreturn [l.pop(), l.pop(0), len(l), d.get("a"), d.get("b", x) is x, list(d.items()), sorted(s), st.split("-"), st.upper().lower(), l.index(1), l.count(1), "".join(["a", "b"])]'),
        ('unbound_method', 'ap = [].append\nlst = []\nf = lst.append\nf(x)\nf(2)\nup = str.upper\nreturn [len(lst), up("a"), list.__len__(lst), str.join("-", ["a", "b"]), dict.get({1: 2}, 1), int.__add__(1, 2)]'),
        ('inline_call', 'def sq(a, b=1):\n    return a * a + b\ndef tw(a):\n    return sq(a) + sq(a, b=2) + sq(b=3, a=a)\nreturn [tw(2), tw(3.5), sq(*(2,)), sq(**{"a": 2})]'),
        ('star_assign', 'a, *m, z = range(5)\n(p, q), r2 = (1, 2), 3\nf, *g = "ab"\nreturn [a, m, z, p, q, r2, f, g]'),
        ('swap_chain', 'a, b2, c = 1, 2, 3\na, b2, c = c, a, b2\ni = j = k = x\nreturn [a, b2, c, i is j is k]'),
        ('aug_ops', 'a = 5\na += 2\na -= 1\na *= 3\na //= 2\na %= 7\na **= 2\na <<= 2\na >>= 1\na |= 8\na &= 0xff\na ^= 5\nf = 1.5\nf /= 2\nl = [1]\nl += (2,)\nl *= 2\ns = "a"\ns += "b"\ns *= 2\nreturn [a, f, l, s]'),
        ('bigconst', 'return [2**64 + 1, -(2**63), 0xFFFFFFFFFFFFFFFFFF, 1_000_000, 0b101, 0o17, 1e400, -1e-400, 3.14j, 10**30 // 7, (1 << 70) >> 3, "x" * 3, (1, "a", 2.5, None, True, b"b", (1, (2,)))]'),
        ('str_consts', 'return ["abc", "a" "b", "\\xe9", "\\u20ac", "\\U0001f600", "\\x00", "\\n\\t\\\\", b"\\xff\\x00", r"\\n", "" , "a" * 0, "caf\\xe9".encode(), "%s" % "lit", f"lit{1}", "\\udc80".encode("utf-8", "surrogatepass"), len("long string " * 20), "k" in {"k": 1}]'),
        ('identity_consts', 'a = "const_string_identity"\nb2 = "const_string_identity"\nreturn [a == b2, (1, 2) == (1, 2), 1.0 == 1, -0.0 == 0.0, str(-0.0), str((0.0, -0.0)), 1 == True, hash(1) == hash(1.0)]'),
        ('walrus_ternary', 'r = []\nif (n := len(str(x))) > 1:\n    r.append(n)\nr.append(n if n else "z")\nreturn r + [y for v in (1, 2) if (y := v * 2) > 2]'),
        ('nested_data', 'd = {"a": [1, {"b": (x, 2)}], 2: {3, 4}}\nd["a"][1]["b"] += (3,)\nreturn [d["a"][1]["b"][0] is x, len(d["a"][1]["b"]), sorted(d[2]), list(d)]'),
        ('sorted_keys', 'data = [(2, "b"), (1, "z"), (2, "a"), (1, "a")]\nreturn [sorted(data), sorted(data, key=lambda t: t[1]), sorted(data, key=lambda t: -t[0]), sorted(data, reverse=True), max(data), min(data, key=lambda t: t[1])]'),
        ('isinstance_chain', 'return [isinstance(x, t) for t in (int, float, str, bytes, tuple, list, dict, bool, type(None), object, (int, str), complex, set)]'),
        ('type_calls', 'return [type(x).__name__, type(type(x)).__name__, int(True), str(b"a", "ascii"), list("ab"), tuple([1]), dict([(1, 2)]), set("aa"), frozenset([1]) == {1}, float("1.5"), bytes(2), bytearray(b"a") + b"b", bool([]), complex(1, 2), range(3)[1], slice(1, 2).start]'),
    ]
    for name, body in MISC_FN:
        b.fn('misc/%s' % name, any1, 'x', body)
    if quick:
        # quick: every second function of the large template families (thorough: all of them)
        seen, kept = {}, []
        for p in b.parts:
            fam = p.funcs[0].tag.split('/')[0]
            k = seen[fam] = seen.get(fam, -1) + 1
            if fam in ('str', 'str2', 'bytes', 'fmt', 'cmp', 'idx', 'arith') and k % 2:
                continue
            kept.append(p)
        b.parts = kept
    return PRELUDE, b.parts, b.sets
