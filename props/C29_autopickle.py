"""C29 - automatic pickling of extension types round-trips.

Alphabet.  cdef classes generated from attribute-type lists:
  flat      every list of <= 2 attributes over the type alphabet {int, double, object, str, list, struct, int[3], another
            cdef class, int* pointer} (thorough: + bint, bytes) and every list of 3 attributes over {int, object, str,
            double} (thorough + list); declaration order is the reverse of the alphabetical (= pickling) order;
  inherit   base with <= 1 attribute x derived class with <= 1 attribute over {int, double, object, str, list, struct, pointer}
            (depth 2; the derived attribute sorts before the base attribute);
  options   auto_pickle in {unset, True, False} x {int, object, struct, pointer attribute}, `cdef dict __dict__`,
            __cinit__ (with and without arguments), user __reduce__;
  each class also through a Python subclass carrying an instance __dict__.
Values: per type a small boundary set (0, -1, 2**31-1; 0.5, nan, -0.0; None, tuple, 2**62; non-ASCII str; nested list;
None for every object slot), complete product per class; plus reference cycles through every object / list typed
attribute (own or inherited, incl. derived classes that add only C attributes): obj.a = obj, [obj], {'k': obj}.
Operations: pickle.dumps/loads for EVERY protocol 0-5, copy.copy, copy.deepcopy.
Layout-changed unpickling: pickles produced by module A are loaded in a fresh process against module B (same module and
class names) where exactly one attribute was renamed / added (before, between, after) / removed, an inherited base
attribute was renamed, or only the declaration order was permuted.
Oracle (intrinsic): a class whose attributes are all convertible must round-trip with the same type, every attribute
value equal (type+repr, nan/-0.0 aware), __dict__ equal, list attributes shared by copy.copy and duplicated by deepcopy,
cycles preserved (copy.a is copy / copy.a[0] is copy, no RecursionError);
a class with a pointer attribute, a struct attribute without auto_pickle(True), a __cinit__, or auto_pickle(False) with
C attributes must raise TypeError on every operation (never lose state silently); auto_pickle(True) on a pointer class
must be rejected at compile time; a user __reduce__ must be the one that runs; changed layouts must raise
pickle.PickleError on load, permuted declaration order must load with every value under its own name.
"""
import itertools, os, pickle, copy, math
from vlib import farm, runner, support
from vlib.diff import canon, short
from props import _g8_drive as drive

LEVEL = 'exploration'
ENGINE = 'E2 diffexplore'
TECHNIQUE = ('exhaustive product (attribute-type lists <= 3, inheritance depth <= 2, pickling options) x value boundary sets x '
             '{pickle protocols 0-5, copy, deepcopy}; cross-process layout-changed unpickling; intrinsic round-trip oracle')
LEVEL_TEXT = ('Every cdef class over attribute-type lists of <= 2 attributes from 9 (11) C/Python types and 3 attributes from 4 (5) '
              'types, base/derived pairs of <= 1 attribute each, and the auto_pickle/__dict__/__cinit__/__reduce__ options is '
              'compiled; for the complete product of boundary values every pickle protocol 0-5, copy.copy and copy.deepcopy must '
              'round-trip all attribute values and __dict__ (also through a Python subclass) or raise TypeError exactly for '
              'the unpicklable layouts; pickles of 14 base layouts are loaded in fresh processes against every single-attribute '
              'rename/add/remove/permute variant of the class: changed layouts must raise pickle.PickleError, permuted ones load.')
LEVEL_NOTE = ('Memoryview attributes and C++ members are not in the alphabet; a changed attribute *type* under an unchanged name '
              'is not a layout change the checksum covers (names only) and is not generated; the oracle is intrinsic (round-trip '
              'equality), no CPython reference class is needed.  Trusted: pickle/copy of CPython 3.12, gcc.')

DECL = {'int': 'cdef public int %s', 'double': 'cdef public double %s', 'bint': 'cdef public bint %s',
        'object': 'cdef public object %s', 'str': 'cdef public str %s', 'list': 'cdef public list %s',
        'bytes': 'cdef public bytes %s', 'struct': 'cdef public S %s', 'arr': 'cdef public int %s[3]',
        'cref': 'cdef public O %s', 'ptr': 'cdef int* %s'}
VALUES = {'int': ['0', '-1', '2147483647'], 'double': ['0.5', "float('nan')", '-0.0'], 'bint': ['True', 'False'],
          'object': ['None', "(1, 'x')", '2**62'], 'str': ['None', "'\\xe9\\u20ac'", "''"], 'list': ['None', '[]', '[1, [2]]'],
          'bytes': ['None', "b'\\x00\\xff'"], 'struct': ["{'a': 1, 'b': 2.5}", "{'a': -7, 'b': 0.0}"], 'arr': ['[1, 2, 3]'],
          'cref': ['None', 'O(5)'], 'ptr': ['PTR']}
T_Q = ['int', 'double', 'object', 'str', 'list', 'struct', 'arr', 'cref', 'ptr']
T_T = T_Q + ['bint', 'bytes']
T3_Q = ['int', 'object', 'str', 'double']
T3_T = T3_Q + ['list']
T_INH = ['int', 'double', 'object', 'str', 'list', 'struct', 'ptr']
NAMES = {0: [], 1: ['a'], 2: ['b', 'a'], 3: ['c', 'a', 'b']}

PRELUDE = '''
cimport cython
from vlib.support import L
cdef struct S:
    int a
    double b
cdef int _cell = 7
cdef class O:
    cdef public int v
    def __init__(self, v=0): self.v = v
    def __repr__(self): return 'O(%d)' % self.v
def rebuild(cls, state):
    L('rebuild', cls.__name__)
    o = cls()
    for k, v in state: setattr(o, k, v)
    return o
'''


def class_src(name, base, attrs, auto=None, with_dict=False, cinit=None, reduce=False):
    """attrs: list of (name, type)."""
    out = []
    if auto is not None:
        out.append('@cython.auto_pickle(%s)' % auto)
    out.append('cdef class %s%s:' % (name, '(%s)' % base if base else ''))
    n = 0
    for an, at in attrs:
        out.append('    ' + DECL[at] % an)
        n += 1
        if at == 'ptr':
            out.append('    def _setp_%s(self): self.%s = &_cell' % (an, an))
            out.append('    def _getp_%s(self): return self.%s != NULL' % (an, an))
    if with_dict:
        out.append('    cdef dict __dict__')
        n += 1
    if cinit == 'noargs':
        out.append('    def __cinit__(self): pass')
        n += 1
    elif cinit == 'args':
        out.append('    def __cinit__(self, x=0): pass')
        n += 1
    if reduce:
        names = [an for an, at in attrs]
        out.append('    def __reduce__(self):')
        out.append("        L('user_reduce', type(self).__name__)")
        out.append('        return (rebuild, (type(self), [%s]))' % ', '.join("('%s', self.%s)" % (a, a) for a in names))
        n += 1
    if not n:
        out.append('    pass')
    out.append('class P_%s(%s): pass' % (name, name))
    return '\n'.join(out) + '\n'


def picklable(all_types, auto, cinit):
    """Rule of the documentation: expected to round-trip?"""
    if cinit:
        return False
    if 'ptr' in all_types:
        return False
    if auto is False:
        # the old behaviour: CPython's default object protocol decides (refuses C state; refuses protocols 0/1): either a
        # TypeError or a faithful round trip, never a silent loss
        return False if all_types else None
    if 'struct' in all_types and auto is not True:
        return False
    return True


def units(tier):
    us = []
    n = 0
    T = T_Q if tier == 'quick' else T_T
    T3 = T3_Q if tier == 'quick' else T3_T
    lists = [()] + [(t,) for t in T] + list(itertools.product(T, repeat=2)) + list(itertools.product(T3, repeat=3))
    for tl in lists:
        attrs = list(zip(NAMES[len(tl)], tl))
        name = 'C%d' % n
        src = class_src(name, None, attrs)
        us.append(drive.Unit(src, '', [('cls', name, tuple(attrs), picklable(tl, None, None), False, False, 'flat')]))
        n += 1
    for tb in [None] + T_INH:
        for td in [None] + T_INH:
            ab = [('m', tb)] if tb else []
            ad = [('a', td)] if td else []
            name = 'C%d' % n
            src = class_src('B%d' % n, None, ab) + class_src(name, 'B%d' % n, ad)
            ok = picklable([t for _, t in ab + ad], None, None)
            us.append(drive.Unit(src, '', [('cls', name, tuple(ad + ab), ok, False, False, 'inherit')]))
            n += 1
    for t in ['int', 'object', 'struct', 'ptr']:
        for auto in (True, False):
            if auto is True and t == 'ptr':
                continue        # must be rejected at compile time: checked separately
            name = 'C%d' % n
            src = class_src(name, None, [('a', t)], auto=auto)
            us.append(drive.Unit(src, '', [('cls', name, (('a', t),), picklable([t], auto, None), False, False, 'auto_pickle')]))
            n += 1
    name = 'C%d' % n
    us.append(drive.Unit(class_src(name, None, [], auto=False), '', [('cls', name, (), picklable([], False, None), False, False, 'auto_pickle')])); n += 1
    for t in ['int', 'object', 'list']:
        name = 'C%d' % n
        src = class_src(name, None, [('a', t)], with_dict=True)
        us.append(drive.Unit(src, '', [('cls', name, (('a', t),), True, True, False, 'dict')]))
        n += 1
        for ci in ('noargs', 'args'):
            name = 'C%d' % n
            src = class_src(name, None, [('a', t)], cinit=ci)
            us.append(drive.Unit(src, '', [('cls', name, (('a', t),), False, False, False, 'cinit')]))
            n += 1
        name = 'C%d' % n
        src = class_src(name, None, [('a', t)], reduce=True)
        us.append(drive.Unit(src, '', [('cls', name, (('a', t),), True, False, True, 'user_reduce')]))
        n += 1
    return us


# ------------------------------------------------------------------------------------------ child side (round trips)
def _mkval(ns, expr):
    return eval(expr, {'O': ns['O'], '__builtins__': __builtins__})


def _state(o, attrs):
    out = []
    for an, at in attrs:
        if at == 'ptr':
            out.append(getattr(o, '_getp_' + an)())
        else:
            out.append(getattr(o, an))
    return canon(out)


OPS = [('pickle%d' % p) for p in range(6)] + ['copy', 'deepcopy']


def _do(op, o):
    if op.startswith('pickle'):
        return pickle.loads(pickle.dumps(o, int(op[6:])))
    return copy.copy(o) if op == 'copy' else copy.deepcopy(o)


def sweep(cns, rns, work, cfg):
    _, cname, attrs, ok, has_dict, user_reduce, fam = work
    evals = 0
    mism = []
    hashes = set()
    cnt = {}
    valsets = [VALUES[at] for an, at in attrs]
    combos = list(itertools.product(*valsets))
    for variant in ('cdef', 'pysub'):
        cls = cns[cname] if variant == 'cdef' else cns['P_' + cname]
        dicty = (has_dict or variant == 'pysub') and not user_reduce     # the user __reduce__ of the family carries the C attributes only
        for combo in combos:
            for op in OPS:
                o = cls()
                for (an, at), ve in zip(attrs, combo):
                    if ve == 'PTR':
                        getattr(o, '_setp_' + an)()
                    else:
                        setattr(o, an, _mkval(cns, ve))
                if dicty:
                    o.extra = [1, {'k': 2}]
                before = _state(o, attrs)
                support.reset_log()
                try:
                    o2 = _do(op, o)
                    got = 'ok'
                except TypeError:
                    got = 'TypeError'
                except BaseException as e:
                    if isinstance(e, (KeyboardInterrupt, SystemExit)):
                        raise
                    got = 'exc:' + type(e).__name__
                log = support.take_log()
                evals += 1
                problem = None
                exp = 'ok' if ok else 'TypeError'
                if ok is None:
                    exp = got if got in ('ok', 'TypeError') else 'ok'
                if got != exp:
                    problem = 'outcome:%s->%s' % (exp, got)
                elif got == 'ok':
                    if type(o2) is not type(o):
                        problem = 'type'
                    elif _state(o2, attrs) != before or _state(o, attrs) != before:
                        problem = 'attribute-values'
                    elif dicty and (getattr(o2, '__dict__', None) != {'extra': [1, {'k': 2}]}):
                        problem = 'dict'
                    elif user_reduce and not any(t[0] == 'user_reduce' for t in log):
                        problem = 'user-reduce-ignored'
                    else:
                        for (an, at), ve in zip(attrs, combo):
                            if at == 'list' and ve == '[1, [2]]':
                                same = getattr(o2, an) is getattr(o, an)
                                if op == 'copy' and not same:
                                    problem = 'copy-not-shallow'
                                if op != 'copy' and same:
                                    problem = 'not-a-copy'
                        if dicty and op == 'deepcopy' and o2.extra is o.extra:
                            problem = 'not-a-copy'
                hashes.add(hash((fam, tuple(at for an, at in attrs), variant, op if op[:6] != 'pickle' else 'pickle', exp, combo)))
                cnt[exp] = cnt.get(exp, 0) + 1
                if problem:
                    pclass = problem
                    if problem.startswith('outcome:'):
                        pclass = 'outcome:%s' % ('unpicklable-accepted' if exp == 'TypeError' and got == 'ok' else
                                                 ('picklable-refused' if got == 'TypeError' else 'picklable-raises-other'))
                    opk = op if problem in ('copy-not-shallow', 'not-a-copy') else '*'
                    key = 'c29|%s|%s|%s' % (fam if fam in ('flat', 'inherit') else 'options:' + fam, opk, pclass)
                    mism.append((key, '%s %s of %s %s values %r: expected %s, got %s (%s); state before %s after %s' % (
                        op, variant, cname, attrs, combo, exp, got, problem, short(before),
                        short(_state(o2, attrs)) if got == 'ok' else '-'), {'op': op, 'variant': variant, 'values': list(combo)}))
    # ---- reference cycles through every object-typed attribute (own or inherited): obj.a = obj / [obj] / {'k': obj}
    if ok is True and not user_reduce:
        for variant in ('cdef', 'pysub'):
            cls = cns[cname] if variant == 'cdef' else cns['P_' + cname]
            for ci, (can, cat) in enumerate(attrs):
                if cat not in ('object', 'list'):
                    continue
                for shape in (('self', 'list', 'dict') if cat == 'object' else ('list',)):
                    for op in OPS:
                        o = cls()
                        for (an, at) in attrs:
                            if an == can:
                                continue
                            ve = VALUES[at][-1]
                            if ve == 'PTR':
                                getattr(o, '_setp_' + an)()
                            else:
                                setattr(o, an, _mkval(cns, ve))
                        cyc = o if shape == 'self' else ([o] if shape == 'list' else {'k': o})
                        setattr(o, can, cyc)
                        pick = (lambda v: v) if shape == 'self' else ((lambda v: v[0]) if shape == 'list' else (lambda v: v['k']))
                        problem = None
                        try:
                            o2 = _do(op, o)
                            v2 = getattr(o2, can)
                            if type(o2) is not type(o):
                                problem = 'type'
                            elif op == 'copy':
                                if v2 is not cyc:
                                    problem = 'copy-not-shallow'
                            elif pick(v2) is not o2 or (shape != 'self' and v2 is cyc):
                                problem = 'cycle-not-preserved'
                            elif [canon(getattr(o2, an)) for an, at in attrs if an != can and at != 'ptr'] != \
                                    [canon(getattr(o, an)) for an, at in attrs if an != can and at != 'ptr']:
                                problem = 'attribute-values'
                            got = 'ok'
                        except BaseException as e:
                            if isinstance(e, (KeyboardInterrupt, SystemExit)):
                                raise
                            got = type(e).__name__
                            problem = 'cycle-raises:' + got
                        evals += 1
                        hashes.add(hash((fam, tuple(at for an, at in attrs), variant, 'cycle', ci, shape, op if op[:6] != 'pickle' else 'pickle')))
                        cnt['cycle'] = cnt.get('cycle', 0) + 1
                        if problem:
                            key = 'c29|%s|cycle|%s' % (fam if fam in ('flat', 'inherit') else 'options:' + fam, problem)
                            mism.append((key, '%s %s of %s %s with cycle %s through %s: %s' % (op, variant, cname, attrs, shape, can, problem),
                                         {'op': op, 'variant': variant, 'cycle': [can, shape]}))
    return evals, mism, hashes, cnt


# ------------------------------------------------------------------------------------------ layout-changed unpickling
LAY_BASES = [tl for k in (1, 2, 3) for tl in itertools.product(('int', 'object'), repeat=k)]     # 14 base layouts


def lay_variants():
    """(variant name, function(names list, types list) -> (names, types, declaration order) or None), expectation"""
    out = [('same', lambda i, n, t: (n, t), 'load')]
    for pos in range(3):
        out.append(('rename%d' % pos, (lambda i, n, t, pos=pos: (n[:pos] + [n[pos] + 'x'] + n[pos + 1:], t) if pos < len(n) else None), 'reject'))
        out.append(('remove%d' % pos, (lambda i, n, t, pos=pos: (n[:pos] + n[pos + 1:], t[:pos] + t[pos + 1:]) if pos < len(n) else None), 'reject'))
    for nm in ('A0', 'am', 'zz'):       # sorts before / between / after the existing names
        out.append(('add_' + nm, (lambda i, n, t, nm=nm: (n + [nm], t + ['int'])), 'reject'))
    for pi, perm in enumerate(itertools.permutations(range(3))):
        if pi:
            out.append(('permute%d' % pi, (lambda i, n, t, perm=perm: ([n[j] for j in perm if j < len(n)], [t[j] for j in perm if j < len(n)])
                                          if len(n) > 1 else None), 'load'))
    out.append(('base_rename', 'base', 'reject'))
    return out


def lay_module(variant_fn):
    """Source of module `c29lay`: class L<i> per base layout (+ DB<i>/D<i> pair with an inherited attribute)."""
    src = ['cimport cython']
    present = []
    for i, tl in enumerate(LAY_BASES):
        names = [['a'], ['a', 'b'], ['a', 'b', 'c']][len(tl) - 1]
        types = list(tl)
        if variant_fn == 'base':
            bn = 'mx'
        else:
            bn = 'm'
            r = variant_fn(i, list(names), list(types))
            if r is None:
                continue
            names, types = r
        present.append(i)
        src.append('cdef class L%d:' % i)
        for n, t in zip(names, types):
            src.append('    ' + DECL[t] % n)
        if not names:
            src.append('    pass')
        if i < 2:
            src.append('cdef class DB%d:' % i)
            src.append('    cdef public object %s' % bn)
            src.append('cdef class D%d(DB%d):' % (i, i))
            src.append('    ' + DECL[tl[0]] % 'a')
    return '\n'.join(src) + '\n', present


def _lay_dump(so):
    m = farm.load(so, 'c29lay')
    out = {}
    for i, tl in enumerate(LAY_BASES):
        names = [['a'], ['a', 'b'], ['a', 'b', 'c']][len(tl) - 1]
        o = getattr(m, 'L%d' % i)()
        vals = {}
        for k, (n, t) in enumerate(zip(names, tl)):
            v = (10 + k) if t == 'int' else 'v_%s' % n
            setattr(o, n, v)
            vals[n] = v
        if i < 2:
            d = getattr(m, 'D%d' % i)()
            d.a = 5 if tl[0] == 'int' else 'v_a'
            d.m = 'v_m'
        else:
            d = None
        out[i] = {p: (pickle.dumps(o, p), pickle.dumps(d, p)) for p in (0, 2, 5)}
        out[i]['vals'] = vals
    return out


def _lay_case(case):
    return _lay_load(*case)


def _lay_load(so, dumped, present, vname, expect):
    m = farm.load(so, 'c29lay')
    res = []
    for i in present:
        for p in (0, 2, 5):
            for which in (0, 1):
                if which == 1 and i >= 2:
                    continue
                if (vname == 'base_rename') != (which == 1) and vname != 'same':
                    continue
                data = dumped[i][p][which]
                try:
                    o = pickle.loads(data)
                    if which == 0:
                        got = 'load'
                        for n, v in dumped[i]['vals'].items():
                            if getattr(o, n, '<missing>') != v:
                                got = 'load-misassigned'
                    else:
                        got = 'load' if (o.a in (5, 'v_a') and getattr(o, 'm', None) == 'v_m') else 'load-misassigned'
                except pickle.PickleError:
                    got = 'reject'
                except BaseException as e:
                    got = 'exc:' + type(e).__name__
                res.append((i, p, which, got))
    return res


def run_layouts(ctx):
    wd = ctx.workdir('lay')
    variants = lay_variants()
    jobs, meta = [], []
    for vname, fn, expect in variants:
        src, present = lay_module(fn if fn != 'base' else 'base')
        jobs.append(dict(name='c29lay', source=src, workdir=os.path.join(wd, vname), ext='.pyx'))
        meta.append((vname, expect, present, src))
    res = farm.build_many(jobs)
    evals = 0
    outcomes = {}
    if not all(r.ok for r in res):
        for (vname, expect, present, src), r in zip(meta, res):
            if not r.ok:
                ctx.violation('c29|layout|build-failure|%s' % vname.rstrip('0123456789'), 'layout module does not build: %s' % r.errors[-600:],
                              {'kind': 'build', 'source': src, 'ext': '.pyx'})
        return evals, outcomes
    d = runner.forked(_lay_dump, res[0].so, timeout=300, scratch=ctx.scratch)
    if not d.ok:
        ctx.violation('c29|layout|dump-failed', 'pickling the base layouts failed: %s %s' % (d.kind, str(d.value)[-800:]), {'kind': 'harness'})
        return evals, outcomes
    # one fresh child per variant: all variants are builds of the SAME module name
    lrs = runner.run_cases(_lay_case, [(r.so, d.value, m_[2], m_[0], m_[1]) for m_, r in zip(meta, res)], chunk=1,
                           timeout=300, scratch=ctx.scratch)
    for (vname, expect, present, src), r, lr in zip(meta, res, lrs):
        if lr[0] != 'ok':
            ctx.violation('c29|layout|%s|%s' % (vname.rstrip('0123456789'), lr[0]), 'loading against layout variant %s: %s' % (
                vname, str(lr[1:])[-800:]), {'kind': 'c29-layout', 'variant': vname})
            continue
        for i, p, which, got in lr[1]:
            evals += 1
            outcomes[got] = outcomes.get(got, 0) + 1
            if got != expect:
                ctx.violation('c29|layout|%s|%s->%s' % (vname.rstrip('0123456789'), expect, got),
                              'pickle (protocol %d) of %s with layout %s loaded against variant %s: expected %s, got %s' % (
                                  p, 'L%d' % i if which == 0 else 'D%d' % i, LAY_BASES[i], vname, expect, got),
                              {'kind': 'c29-layout', 'variant': vname, 'base_source': meta[0][3], 'variant_source': src,
                               'class': i, 'protocol': p, 'which': which, 'expect': expect})
    return evals, outcomes


# ------------------------------------------------------------------------------------------ parent side
REACH = ['__reduce_cython__', '__setstate_cython__', '__Pyx_CheckUnpickleChecksum', '__Pyx_UpdateUnpickledDict', '__Pyx_setup_reduce']


def run(ctx):
    us = units(ctx.tier)
    dev = int(os.environ.get('G8_DEV_STEP', '0') or 0)     # development aid only: evidence is then marked non-exhaustive
    if dev:
        us = us[::dev]
    per = 16
    mods = [drive.make_mod('c29_%d' % (i // per), PRELUDE, '', us[i:i + per]) for i in range(0, len(us), per)]
    ctx.log('%d class units in %d modules' % (len(us), len(mods)))
    st = drive.run(ctx, mods, 'props.C29_autopickle:sweep', 'c29', reach=REACH,
                   crash_tag=lambda w: '%s|%s' % (w[6], 'picklable' if w[3] else 'unpicklable'))
    # auto_pickle(True) on an unpicklable layout must be refused by the compiler
    r = farm.build('c29_forced', PRELUDE + class_src('F0', None, [('a', 'ptr')], auto=True), ctx.workdir('forced'), ext='.pyx', cc=False)
    if r.ok or r.stage != 'cython':
        ctx.violation('c29|auto_pickle-forced|accepted', 'auto_pickle(True) on a class with a pointer attribute was not rejected (%s)' % r.stage,
                      {'kind': 'build-expected-reject', 'source': PRELUDE + class_src('F0', None, [('a', 'ptr')], auto=True)})
    lay_evals, lay_out = run_layouts(ctx)
    fams = {}
    for u in us:
        fams[u.work[0][6]] = fams.get(u.work[0][6], 0) + 1
    cov = {
        'evaluations': st['evaluations'] + lay_evals + 1, 'distinct_nontrivial': st['pairs'] + len(lay_out),
        'rule': 'complete product class x value combination x operation; distinct_nontrivial counts distinct (family, attribute '
                'type list, cdef/Python-subclass, operation kind [pickle protocols collapsed], expected outcome, value '
                'combination) + distinct layout outcomes',
        'class_units': fams, 'modules_built': st['modules_built'], 'build_failures': st['build_failures'],
        'expected_outcomes': st['counters'], 'layout_evaluations': lay_evals, 'layout_outcomes': lay_out,
        'layout_variants': [v[0] for v in lay_variants()], 'mismatches': st['mismatches'], 'crashes': st['crashes'],
        'reach': st.get('reach'), 'reach_gaps': st.get('reach_gaps'),
        'samples': [{'class': us[len(us) // 3].src, 'work': us[len(us) // 3].work[0]}, {'class': us[-1].src, 'work': us[-1].work[0]},
                    {'layout_base': LAY_BASES[5], 'variant': 'rename1', 'expect': 'reject'}],
        'exhaustive': not dev,
    }
    return cov, ['memoryview / C++ members not covered', 'attribute type changes under an unchanged name are not layout changes']


def replay(ctx, case):
    k = case.get('kind')
    if k == 'build-expected-reject':
        r = farm.build('c29_forced', case['source'], ctx.workdir('replay'), ext='.pyx', cc=False)
        return 'still accepted' if r.ok else False
    if k == 'c29-layout':
        if 'base_source' not in case:
            return 'not replayable'
        wd = ctx.workdir('replay')
        ra = farm.build('c29lay', case['base_source'], os.path.join(wd, 'a'), ext='.pyx')
        rb = farm.build('c29lay', case['variant_source'], os.path.join(wd, 'b'), ext='.pyx')
        if not (ra.ok and rb.ok):
            return 'does not build'
        d = runner.forked(_lay_dump, ra.so, timeout=300, scratch=ctx.scratch)
        present = [case['class']]
        lr = runner.forked(_lay_load, rb.so, d.value, present, case['variant'], case['expect'], timeout=300, scratch=ctx.scratch)
        if not lr.ok:
            return '%s %s' % (lr.kind, lr.value)
        bad = [x for x in lr.value if x[3] != case['expect'] and x[1] == case['protocol'] and x[2] == case['which']]
        return ('layout variant %s: %r' % (case['variant'], bad)) if bad else False
    return drive.replay(ctx, case)
