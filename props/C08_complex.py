"""C08 - C double complex arithmetic matches Python complex.

All ordered pairs of the 121 complex numbers whose components come from
{0.0, -0.0, 1.0, -1.0, 0.5, 3.0, inf, -inf, nan, 1e308, 1e-308} (14 641 pairs) are pushed through one compiled
function per operator (+ - * / ** == != and in-place forms, / under cdivision on and off); all 121 values through
unary - abs conjugate .real .imag truth-test and the conversions to/from Python complex / float / int; complex (op)
double mixed cells run on 121 x 11.  Two builds: CYTHON_CCOMPLEX=1 (native C99 _Complex) and CYTHON_CCOMPLEX=0
(the struct-emulation helpers of Utility/Complex.c).

Oracle: Python complex arithmetic on the same operands (component reprs: signed zeros, infinities, nan-ness;
ZeroDivisionError for division by 0 unless cdivision).  Calibration, done on every case of the run itself and
counted in the evidence: in the CCOMPLEX=1 build a result that differs from Python but equals what plain gcc
`double _Complex` arithmetic (a reference C library compiled by this check, operands built part-wise) gives for
the same operands is native C99 behaviour, not Cython's -> excluded with the reason recorded.  Everything else -
all of the CCOMPLEX=0 helpers, the conversions, the zero-division checks, the choice of operation and operand in
the CCOMPLEX=1 build - is held to the oracle.
"""
import math, os, ctypes, subprocess
from vlib import e2, support
from props._g3b_common import warm, permute, run_judged, replay_judged, fcls, sfcls

LEVEL = 'exploration'
ENGINE = 'E2 diffexplore'
TECHNIQUE = ('exhaustive all-pairs sweep of compiled double complex operators over 121 special-component complex values, two '
             'CYTHON_CCOMPLEX builds, compiled vs Python complex arithmetic with a measured native-C99 exclusion')
LEVEL_TEXT = ('Every operator cell (+ - * / ** == != in-place, / with cdivision on/off, unary - abs conjugate real imag bool, '
              'conversions from/to Python complex, float, int, mixed complex/double operands) is compiled as its own function '
              'and run on all 14 641 ordered pairs (resp. all 121 values) of complex numbers with components from '
              '{+-0, +-1, 0.5, 3, +-inf, nan, 1e308, 1e-308}, in a CYTHON_CCOMPLEX=1 and a CYTHON_CCOMPLEX=0 build; each result '
              'must have the component reprs / exception type of Python complex arithmetic.  Results of the native build that '
              'equal plain gcc _Complex arithmetic on the same operands are excluded (counted per operator).')
LEVEL_NOTE = ('Component alphabet of 11 values, not all doubles.  ** is compared structurally (nan/inf/zero pattern) and with '
              'relative tolerance 1e-12 on finite components because it goes through libm log/exp/sin/cos/pow; operand pairs '
              'for which CPython raises (0 ** negative, overflow) have no C counterpart and are excluded.  float complex and long '
              'double complex are not covered; C++ std::complex builds are not covered.  Trusted: CPython 3.12 complex, gcc '
              'native _Complex arithmetic as the reference for the exclusion.')

COMPONENTS = ['0.0', '-0.0', '1.0', '-1.0', '0.5', '3.0', "float('inf')", "float('-inf')", "float('nan')", '1e308', '1e-308']
VALUES = ['complex(%s, %s)' % (r, i) for r in COMPONENTS for i in COMPONENTS]

BIN = [('add', '+'), ('sub', '-'), ('mul', '*'), ('div', '/'), ('pow', '**')]
REF_OPS = {'add': 0, 'sub': 1, 'mul': 2, 'div': 3, 'cdiv': 3, 'pow': 4, 'neg': 5, 'conj': 6, 'abs': 7, 'eq': 8, 'ident': 9}

REACH_CC0 = ['__Pyx_c_quot_double', '__Pyx_c_prod_double', '__Pyx_c_pow_double', '__Pyx_c_abs_double', '__Pyx_c_eq_double',
             '__Pyx_c_is_zero_double', '__Pyx_PyComplex_As___pyx_t_double_complex', '__pyx_t_double_complex_from_parts',
             '__Pyx_c_conj_double', '__Pyx_c_neg_double']

REF_C = r'''
#include <complex.h>
#include <math.h>
typedef double _Complex dc;
static dc mk(double r, double i, int mode) {
    dc z;
    if (mode) { z = r + i * (dc)_Complex_I; }
    else { __real__ z = r; __imag__ z = i; }
    return z;
}
void c08_ref(int op, int mode, double ar, double ai, double br, double bi, double *out) {
    dc a = mk(ar, ai, mode), b = mk(br, bi, mode), z;
    __real__ z = 0; __imag__ z = 0;
    switch (op) {
      case 0: z = a + b; break;
      case 1: z = a - b; break;
      case 2: z = a * b; break;
      case 3: z = a / b; break;
      case 4: z = cpow(a, b); break;
      case 5: z = -a; break;
      case 6: z = conj(a); break;
      case 7: __real__ z = cabs(a); break;
      case 8: __real__ z = (a == b); break;
      case 9: z = a; break;
    }
    out[0] = __real__ z; out[1] = __imag__ z;
}
'''


def build_ref(workdir):
    src = os.path.join(workdir, 'c08ref.c')
    so = os.path.join(workdir, 'c08ref.so')
    with open(src, 'w') as f:
        f.write(REF_C)
    p = subprocess.run(['gcc', '-shared', '-fPIC', '-O0', '-fwrapv', '-fno-strict-aliasing', src, '-o', so, '-lm'],
                       stdout=subprocess.PIPE, stderr=subprocess.STDOUT, text=True)
    if p.returncode != 0:
        raise RuntimeError('reference library does not build: ' + p.stdout)
    os.environ['G3B_C08_REF'] = so
    return so


_ref = None


def native(op, a, b=0j, mode=0):
    """Result of plain gcc _Complex arithmetic.  mode 0: operands built part-wise; 1: built as r + i*I."""
    global _ref
    if _ref is None:
        lib = ctypes.CDLL(os.environ['G3B_C08_REF'])
        lib.c08_ref.argtypes = [ctypes.c_int, ctypes.c_int] + [ctypes.c_double] * 4 + [ctypes.POINTER(ctypes.c_double)]
        lib.c08_ref.restype = None
        _ref = lib
    out = (ctypes.c_double * 2)()
    _ref.c08_ref(op, mode, a.real, a.imag, b.real, b.imag, out)
    return complex(out[0], out[1])


# ------------------------------------------------------------------------------------------- oracle
def crepr(z):
    return (repr(z.real), repr(z.imag))


def _py(f, *a):
    try:
        return ('ok', f(*a))
    except Exception as e:
        return ('exc', type(e).__name__)


def _comp_close(e, g, tol):
    if e != e or g != g:
        return (e != e) and (g != g)
    if math.isinf(e) or math.isinf(g):
        return e == g
    if e == 0 or g == 0:
        return e == g and math.copysign(1, e) == math.copysign(1, g)
    return abs(e - g) <= tol * abs(e)


def _pow_close(e, g):
    return _comp_close(e.real, g.real, 1e-12) and _comp_close(e.imag, g.imag, 1e-12)


_PYBIN = {'add': lambda a, b: a + b, 'sub': lambda a, b: a - b, 'mul': lambda a, b: a * b, 'div': lambda a, b: a / b,
          'cdiv': lambda a, b: a / b, 'pow': lambda a, b: a ** b, 'eq': lambda a, b: a == b, 'ne': lambda a, b: a != b}
_PYUN = {'neg': lambda a: -a, 'abs': abs, 'conj': lambda a: a.conjugate(), 'real': lambda a: a.real, 'imag': lambda a: a.imag,
         'ident': lambda a: a, 'local': lambda a: a, 'bool': bool}


def _got_value(got):
    """('ok', (typename, repr)) -> python value (complex/float/bool/int) or None."""
    if got[0] != 'ok':
        return None
    tn, r = got[1]
    try:
        if tn == 'complex':
            return complex(r)
        if tn == 'float':
            return float(r)
        if tn == 'bool':
            return r == 'True'
        if tn == 'int':
            return int(r)
    except ValueError:
        return None
    return None


def _same(ev, gv):
    """Exact agreement of a Python expected value and the observed value (type and component reprs)."""
    if type(ev) is not type(gv):
        return False
    if isinstance(ev, complex):
        return crepr(ev) == crepr(gv)
    return repr(ev) == repr(gv)


# ---- transcription of the struct helpers of Utility/Complex.c (CCOMPLEX=0), used ONLY to give one root key to the
# ---- deviations that come from the helper's documented algorithm (a mutated helper no longer matches it).
def _c(f, *a):
    """libm call with C semantics (no exceptions)."""
    try:
        return f(*a)
    except OverflowError:
        return math.inf
    except ValueError:
        if f is math.log:
            return -math.inf if a[0] == 0 else math.nan
        return math.nan
    except ZeroDivisionError:
        return math.inf


def _div(x, y):
    if y == 0:
        if x == 0 or x != x:
            return math.nan
        return math.copysign(math.inf, x) * math.copysign(1.0, y)
    return x / y


def _exp(x):
    if x != x:
        return x
    if x > 709.782712893384:
        return math.inf
    return math.exp(x) if x > -746 else 0.0


def _sincos(x):
    if x != x or math.isinf(x):
        return math.nan, math.nan
    return math.sin(x), math.cos(x)


def _cpow(x, y):
    try:
        return math.pow(x, y)
    except OverflowError:
        return math.inf if not (x < 0 and y == int(y) and int(y) % 2) else -math.inf
    except ValueError:
        if x == 0:
            return math.inf if not (math.copysign(1, x) < 0 and y == int(y) and int(y) % 2) else -math.inf
        return math.nan


def struct_quot(a, b):
    """-> (value, branch)"""
    if b.imag == 0:
        return complex(_div(a.real, b.real), _div(a.imag, b.real)), 'real-divisor-shortcut'
    if abs(b.real) >= abs(b.imag):
        if b.real == 0 and b.imag == 0:
            return complex(_div(a.real, b.real), _div(a.imag, b.imag)), 'zero-divisor'
        r = _div(b.imag, b.real)
        s = _div(1.0, b.real + b.imag * r)
        return complex((a.real + a.imag * r) * s, (a.imag - a.real * r) * s), 'reciprocal-multiply'
    r = _div(b.real, b.imag)
    s = _div(1.0, b.imag + b.real * r)
    return complex((a.real * r + a.imag) * s, (a.imag * r - a.real) * s), 'reciprocal-multiply'


def _prod(a, b):
    return complex(a.real * b.real - a.imag * b.imag, a.real * b.imag + a.imag * b.real)


def struct_abs(z):
    t = z.real * z.real + z.imag * z.imag
    return math.sqrt(t) if t == t and t >= 0 else t


def struct_pow(a, b, absfn=None):
    """-> (value, branch)"""
    absfn = absfn or struct_abs
    br = b.real
    int_ok = b.imag == 0 and br == br and abs(br) < 2**31 and br == int(br)
    if int_ok:
        if br < 0:
            denom = a.real * a.real + a.imag * a.imag
            a = complex(_div(a.real, denom), _div(-a.imag, denom))
            br = -br
            b = complex(br, b.imag)
        n = int(br)
        if n == 0:
            return complex(1.0, 0.0), 'int-exponent-shortcut'
        if n == 1:
            return a, 'int-exponent-shortcut'
        if n == 2:
            return _prod(a, a), 'int-exponent-shortcut'
        if n == 3:
            return _prod(_prod(a, a), a), 'int-exponent-shortcut'
        if n == 4:
            z = _prod(a, a)
            return _prod(z, z), 'int-exponent-shortcut'
    if a.imag == 0:
        if a.real == 0:
            return a, 'zero-base'
        if b.imag == 0 and a.real >= 0:
            return complex(_cpow(a.real, b.real), 0.0), 'real-base'
        if a.real > 0:
            r, theta = a.real, 0.0
            branch = 'positive-real-base'
        else:
            r, theta = -a.real, math.atan2(0.0, -1.0)     # ignores the sign of the zero imaginary part
            branch = 'negative-real-base'
    else:
        r = absfn(a)
        theta = math.atan2(a.imag, a.real)
        branch = 'polar'
    lnr = _c(math.log, r) if r == r and r >= 0 else math.nan
    z_r = _exp(lnr * b.real - theta * b.imag)
    z_theta = theta * b.real + lnr * b.imag
    sn, cs = _sincos(z_theta)
    return complex(z_r * cs, z_r * sn), branch


def _operands(t, args, kind):
    """Python-level operands (pa, pb) and their complex images (a, b) as the compiled code sees them."""
    if kind == 'un':
        a = complex(args[0])
        return a, None, a, 0j
    form = t[3]
    if form == 'cd':
        return complex(args[0]), float(args[1]), complex(args[0]), complex(float(args[1]), 0.0)
    if form == 'dc':
        return float(args[0]), complex(args[1]), complex(float(args[0]), 0.0), complex(args[1])
    return complex(args[0]), complex(args[1]), complex(args[0]), complex(args[1])


def _native_value(op, a, b, mode):
    """What plain gcc _Complex code gives for this cell (Python-level value)."""
    if op in ('add', 'sub', 'mul', 'div', 'cdiv', 'pow', 'neg', 'conj', 'ident'):
        return native(REF_OPS[op], a, b, mode)
    if op == 'local':
        return native(9, a, b, mode)
    if op == 'abs':
        return native(7, a, b, mode).real
    if op == 'real':
        return native(9, a, b, mode).real
    if op == 'imag':
        return native(9, a, b, mode).imag
    if op == 'eq':
        return native(8, a, b, mode).real != 0
    if op == 'ne':
        return native(8, a, b, mode).real == 0
    if op == 'bool':
        z = native(9, a, b, mode)
        return not native(8, z, 0j, 0).real != 0
    return None


def _agree(op, ev, gv):
    if _same(ev, gv):
        return True
    return op == 'pow' and isinstance(ev, complex) and isinstance(gv, complex) and _pow_close(ev, gv)


def judge(tag, args, got):
    """tag: '<cc1|cc0>/<kind>/<op>[/<form>]'.  None = agrees with Python; ('EXCLUDED', reason) = measured native deviation;
    otherwise (divergence class, expected)."""
    t = tag.split('/')
    cc, kind, op = t[0], t[1], t[2]
    if kind == 'conv':
        if op == 'fromdouble':
            ev = complex(float(args[0]), 0.0)
        elif op == 'fromlong':
            ev = complex(float(int(args[0])), 0.0)
        else:                               # parts: z.real = a; z.imag = b
            ev = complex(float(args[0]), float(args[1]))
        gv = _got_value(got)
        if gv is not None and _same(ev, gv):
            return None
        if gv is not None and cc == 'cc1' and op != 'parts' and _same(native(9, ev, 0j, 1), gv):
            return ('from_parts', repr(ev))
        return (valueclass(ev, gv) if gv is not None else 'shape', repr(ev))
    pa, pb, a, b = _operands(t, args, kind)
    exp = _py(_PYBIN[op], pa, pb) if kind == 'bin' else _py(_PYUN[op], pa)
    cdiv_zero = op == 'cdiv' and b == 0
    if exp[0] == 'exc' and not cdiv_zero:
        if op in ('pow', 'abs'):
            # CPython raises (0 ** negative / overflow): there is no C counterpart to hold the value to
            return ('EXCLUDED', '%s: CPython raises %s (no C counterpart)' % (op, exp[1])) if got[0] == 'ok' else \
                ('extra-exc:' + got[1], 'a C value')
        return None if got == exp else (e2.divclass(exp, got), exp[1])
    gv = _got_value(got)
    if gv is None:
        return (('extra-exc:' + got[1]) if got[0] == 'exc' else 'shape', repr(exp[1]) if exp[0] == 'ok' else 'a C value')
    ev = exp[1] if exp[0] == 'ok' else None
    soft = False
    if op == 'pow' and isinstance(gv, float) and (ev is None or isinstance(ev, complex)):
        # soft-complex result delivered as a Python float (its zero imaginary part is no longer observable):
        # the real part is judged first, the float-for-complex delivery itself afterwards
        soft = True
        gv = complex(gv, 0.0)
    verdict = _value_verdict(cc, op, a, b, ev, gv, cdiv_zero, soft)
    if verdict is None and soft:
        return ('pow-returns-float', 'a Python complex (%r)' % (ev,))
    return verdict


def _agree_soft(op, ref, gv, soft):
    if not soft:
        return _agree(op, ref, gv)
    return isinstance(ref, complex) and ref.imag == 0 and (repr(ref.real) == repr(gv.real)
                                                            or _comp_close(ref.real, gv.real, 1e-12))


def _value_verdict(cc, op, a, b, ev, gv, cdiv_zero, soft=False):
    if ev is not None and _agree_soft(op, ev, gv, soft):
        return None
    if cc == 'cc1':
        n0 = _native_value(op, a, b, 0)
        if n0 is not None and _agree_soft(op, n0, gv, soft):
            if cdiv_zero:
                return None                  # cdivision by zero: C semantics delivered
            return ('EXCLUDED', '%s: native C99 _Complex result differs from Python' % op)
        n1 = _native_value(op, a, b, 1)
        if n1 is not None and _agree_soft(op, n1, gv, soft):
            return ('from_parts', repr(ev))
        return (valueclass(ev, gv) if ev is not None else 'cdiv-zero', repr(ev))
    # struct helpers
    if op in ('div', 'cdiv'):
        if cdiv_zero:
            # cdivision by zero: C semantics, component-wise IEEE x/0 -> only inf/nan components are acceptable
            return None if all(x != x or math.isinf(x) for x in (gv.real, gv.imag)) else ('cdiv-zero', 'inf/nan components')
        sv, branch = struct_quot(a, b)
        if _same(sv, gv):
            return ('struct-quot:' + branch, repr(ev))
    elif op == 'pow':
        # the helper's algorithm with either variant of its abs() (naive sqrt today, hypot() once that is repaired)
        for absfn in (struct_abs, lambda z: _c(math.hypot, z.real, z.imag)):
            sv, branch = struct_pow(a, b, absfn)
            if _agree_soft(op, sv, gv, soft):
                return ('struct-pow:' + branch, repr(ev))
    elif op == 'abs':
        if _same(struct_abs(a), gv):
            return ('struct-abs:naive-sqrt', repr(ev))
    return (valueclass(ev, gv) if ev is not None else 'cdiv-zero', repr(ev))


def valueclass(ev, gv):
    """Coarse divergence class of an unexplained deviation: per component zero-sign / nan-ness / value."""
    if type(ev) is not type(gv):
        return 'type:%s->%s' % (type(ev).__name__, type(gv).__name__)
    if not isinstance(ev, complex):
        return 'value'
    out = []
    for name, e, g in (('re', ev.real, gv.real), ('im', ev.imag, gv.imag)):
        if repr(e) == repr(g):
            continue
        if e == 0 and g == 0:
            out.append(name + ':zero-sign')
        elif (e != e) != (g != g):
            out.append(name + ':nan-ness')
        else:
            out.append(name + ':value')
    return ','.join(out) or 'value'


# ------------------------------------------------------------------------------------------- programs
def programs(cc):
    parts = []
    n = [0]

    def add(sig, body, tag, key, deco=''):
        name = 'f%d' % n[0]
        n[0] += 1
        parts.append(e2.Part('%sdef %s(%s):\n%s\n' % (deco, name, sig, body), [e2.Func(name, '%s/%s' % (cc, tag), key)]))

    cc2 = 'double complex a, double complex b'
    for on, op in BIN:
        add(cc2, '    return a %s b' % op, 'bin/%s/cc' % on, 'pairs')
        add(cc2, '    cdef double complex z = a %s b\n    return z' % op, 'bin/%s/cc_loc' % on, 'pairs')
        if on != 'pow':
            add(cc2, '    a %s= b\n    return a' % op, 'bin/%s/cc_ip' % on, 'pairs')
        add('double complex a, double b', '    return a %s b' % op, 'bin/%s/cd' % on, 'cd')
        add('double a, double complex b', '    return a %s b' % op, 'bin/%s/dc' % on, 'dc')
    add(cc2, '    return a / b', 'bin/cdiv/cc', 'pairs', deco='@cython.cdivision(True)\n')
    add(cc2, '    return a == b', 'bin/eq/cc', 'pairs')
    add(cc2, '    return a != b', 'bin/ne/cc', 'pairs')
    add(cc2, '    if a == b:\n        return True\n    return False', 'bin/eq/cc_if', 'pairs')
    c1 = 'double complex a'
    for on, expr in [('neg', '-a'), ('abs', 'abs(a)'), ('conj', 'a.conjugate()'), ('real', 'a.real'), ('imag', 'a.imag'),
                     ('ident', 'a'), ('bool', 'bool(a)')]:
        add(c1, '    return %s' % expr, 'un/%s' % on, 'single')
    add(c1, '    cdef double complex z = a\n    return z', 'un/local', 'single')
    add('double a', '    cdef double complex z = a\n    return z', 'conv/fromdouble', 'dbl')
    add('long a', '    cdef double complex z = a\n    return z', 'conv/fromlong', 'lng')
    add('double a, double b', '    cdef double complex z\n    z.real = a\n    z.imag = b\n    return z', 'conv/parts', 'dpairs')
    return parts


def input_sets(seed):
    return {
        'pairs': permute([(a, b) for a in VALUES for b in VALUES], seed, 'pairs'),
        'single': permute([(a,) for a in VALUES], seed, 'single'),
        'cd': permute([(a, b) for a in VALUES for b in COMPONENTS], seed, 'cd'),
        'dc': permute([(a, b) for a in COMPONENTS for b in VALUES], seed, 'dc'),
        'dbl': [(a,) for a in COMPONENTS],
        'lng': [(a,) for a in ('0', '1', '-1', '3', '2**53+1', '-2**63', '2**63-1')],
        'dpairs': [(a, b) for a in COMPONENTS for b in COMPONENTS],
    }


def norm_key(tag, inp, div):
    t = tag.split('/')
    cc, kind, op = t[0], t[1], t[2]
    if div == 'from_parts':
        return '%s|from_parts|operand built as x + y*I' % cc
    if div == 'pow-returns-float':
        return 'pow|soft-complex-result-for-complex-operands'
    if div.startswith('struct-'):
        return '%s|%s' % (cc, div)
    form = t[3] if len(t) > 3 else '-'
    form = {'cc_loc': 'cc', 'cc_ip': 'cc', 'cc_if': 'cc'}.get(form, form)
    return '%s|%s|%s|%s|%s' % (cc, kind, op, form, div)


def run(ctx):
    warm(ctx)
    build_ref(ctx.workdir('ref'))
    sets = input_sets(ctx.seed)
    prelude = 'cimport cython\n'
    configs = [('cc1', ('-DCYTHON_CCOMPLEX=1',), '-O0'), ('cc0', ('-DCYTHON_CCOMPLEX=0',), '-O0')]
    if ctx.tier == 'thorough':
        configs += [('cc0', ('-DCYTHON_CCOMPLEX=0',), '-O2'), ('cc1', ('-DCYTHON_CCOMPLEX=1',), '-O2')]
    mods = []
    per = 12
    for ci, (cc, cflags, opt) in enumerate(configs):
        parts = programs(cc)
        for i in range(0, len(parts), per):
            mods.append(e2.Mod('c08%s%s_%d' % (cc, opt[-1], i // per), prelude, parts[i:i + per], sets, ext='.pyx',
                               cflags=cflags, opt=opt))
    st, raw = run_judged(ctx, mods, 'props.C08_complex:judge', reach=REACH_CC0)
    if os.environ.get('G3B_DUMP'):
        import json
        with open(os.environ['G3B_DUMP'], 'w') as f:
            json.dump([(tag, inp, div, exp, got) for tag, inp, div, exp, got, what, case in raw], f)
    for tag, inp, div, exp, got, what, case in raw:
        if div == 'harness-exc':
            ctx.violation('harness-exc|%s' % tag, what, case)
        else:
            ctx.violation(norm_key(tag, inp, div), what, case)
    cov = {
        'evaluations': st['evaluations'], 'distinct_nontrivial': st['pairs'],
        'rule': 'a case is counted once per distinct (compiled function, observed outcome) pair',
        'programs': st['programs'], 'modules_built': st['modules_built'], 'complex_values': len(VALUES),
        'pairs_per_binary_cell': len(VALUES) ** 2, 'builds': ['%s %s' % (c[0], c[2]) for c in configs],
        'excluded_native_or_undefined': st['excluded'], 'excluded_total': sum(st['excluded'].values()),
        'mismatches': st['mismatches'], 'crashes': st['crashes'], 'build_failures': st['build_failures'],
        'reach': st.get('reach'), 'reach_gaps': st.get('reach_gaps'),
        'samples': [{'function': 'def f(double complex a, double complex b):\n    return a / b\n',
                     'operands': list(sets['pairs'][77])},
                    {'function': 'def f(double complex a):\n    return abs(a)\n', 'operands': list(sets['single'][30])}],
        'exhaustive': True,
    }
    return cov, ['plain gcc _Complex arithmetic (reference C library built by the check) decides which deviations of the '
                 'CCOMPLEX=1 build are native C99 behaviour',
                 '** is compared structurally and with relative tolerance 1e-12 on finite components']


def replay(ctx, case):
    build_ref(ctx.workdir('ref'))
    return replay_judged(ctx, case)
