"""Zygote BFS engine for history exploration of compiled modules with per-call-site static caches (C26, C27).

Runs as a script in a FRESH, small interpreter (the zygote):
    python _g7_zygote.py <world module path> <json config>
The zygote imports the world module and calls world.init(cfg) once (loads the compiled extension + the reference).
world.replay(hist) first calls world.reset() (restores every binding; the writes bump the dict / type versions, so every
per-call-site cache is invalid exactly as in the never-used state), then applies hist step by step to the compiled
module and to the reference, comparing after every step; it returns
(first divergence | None, step outcomes, canonical state key, enabled operations).
Breadth-first over histories with dedup on the canonical state key (or without dedup: every history is its own state).
Histories of length <= fork_depth are ALSO executed in a child forked from the pristine zygote (exact snapshot of the
never-used static caches) and must give identical results: this checks the reset argument on the real module.
(Forking every transition was the first design; a fork costs 0.5-1 s on the loaded 16-core box, so deeper levels run
in-process.)  A forked child killed by a signal is a crash finding for exactly that history; the zygote records the
history it is about to run in cfg['progress'] so that a crash of the zygote itself is attributed.

Result (JSON on stdout): states, transitions, forks, dedup_hits, per_level, distinct_outcomes, violations, samples.
"""
import sys, os, json, pickle, time, importlib.util, select


def _load_world(path):
    spec = importlib.util.spec_from_file_location('g7world', path)
    mod = importlib.util.module_from_spec(spec)
    sys.modules['g7world'] = mod
    spec.loader.exec_module(mod)
    return mod


def _spawn(world, hist):
    r, w = os.pipe()
    pid = os.fork()
    if pid == 0:
        code = 0
        try:
            os.close(r)
            try:
                res = world.replay(hist)
            except BaseException as e:          # harness problem: report, never hide
                import traceback
                res = {'error': traceback.format_exc()}
            data = pickle.dumps(res)
            os.write(w, len(data).to_bytes(8, 'little'))
            off = 0
            while off < len(data):
                off += os.write(w, data[off:off + 65536])
        except BaseException:
            code = 3
        finally:
            os._exit(code)
    os.close(w)
    return pid, r


def _collect(pid, r):
    chunks = []
    while True:
        b = os.read(r, 1 << 16)
        if not b:
            break
        chunks.append(b)
    os.close(r)
    _, status = os.waitpid(pid, 0)
    data = b''.join(chunks)
    if os.WIFSIGNALED(status):
        return {'crash': os.WTERMSIG(status)}
    if len(data) < 8:
        return {'crash': -os.WEXITSTATUS(status)}
    n = int.from_bytes(data[:8], 'little')
    return pickle.loads(data[8:8 + n])


def run_batch(world, hists, width):
    """Execute each history in its own forked child, up to `width` in flight (sliding window); results in order."""
    out = [None] * len(hists)
    live = []          # (index, pid, read fd) in spawn order
    nxt = 0
    while nxt < len(hists) or live:
        while nxt < len(hists) and len(live) < width:
            live.append((nxt,) + _spawn(world, hists[nxt]))
            nxt += 1
        j, pid, r = live.pop(0)
        out[j] = _collect(pid, r)
    return out


def _inproc(world, hist, prog):
    if prog is not None:
        os.pwrite(prog, (json.dumps(list(hist)) + ' ' * 64).encode()[:4000], 0)
    try:
        return world.replay(hist)
    except Exception:
        import traceback
        return {'error': traceback.format_exc()}


def _same(a, b):
    return (a.get('div'), a.get('outs'), a.get('key')) == (b.get('div'), b.get('outs'), b.get('key'))


def bfs(world, depth, dedup, width, fork_depth, prog=None, max_transitions=None):
    """Breadth-first over histories.  Every history is replayed IN THIS PROCESS after world.reset() (bindings restored,
    which invalidates every per-site cache through the version bump); histories of length <= fork_depth are
    additionally executed in a child forked from the pristine zygote (exact snapshot of the never-used static caches)
    and both executions must agree (soundness check of the reset)."""
    t0 = time.time()
    root = run_batch(world, [()], 1)[0]
    if 'error' in root or 'crash' in root:
        return {'fatal': root}
    visited = {root['key']: 0}
    frontier = [((), root['enabled'])]
    stats = {'transitions': 0, 'forks': 1, 'dedup_hits': 0, 'per_level': [], 'steps': 0, 'pristine_histories': 0}
    outcomes = set()
    viol = []
    errors = []
    samples = []
    capped = False
    maxd = 0
    for level in range(1, depth + 1):
        todo = [h + (op,) for h, en in frontier for op in en]
        if max_transitions is not None and stats['transitions'] + len(todo) > max_transitions:
            capped = True
            break
        if level <= fork_depth:
            forked = run_batch(world, todo, width)
            stats['forks'] += len(todo)
            stats['pristine_histories'] += len(todo)
        else:
            forked = None
        res = [_inproc(world, h, prog) for h in todo]
        stats['transitions'] += len(todo)
        nxt = []
        for idx, (h, r) in enumerate(zip(todo, res)):
            if forked is not None:
                f = forked[idx]
                if 'crash' in f:
                    viol.append({'history': list(h), 'div': 'crash', 'signal': f['crash']})
                    continue
                if 'error' not in f and 'error' not in r and not _same(f, r):
                    viol.append({'history': list(h), 'div': 'reset-differs', 'pristine': repr((f.get('div'), f.get('outs')))[:600],
                                 'after_reset': repr((r.get('div'), r.get('outs')))[:600]})
                    continue
            if 'error' in r:
                errors.append({'history': list(h), 'error': r['error'][-1500:]})
                continue
            stats['steps'] += len(h)
            outcomes.add(repr(r['outs'][-1]))
            if r['div'] is not None:
                viol.append({'history': list(h), 'div': r['div']})
                continue
            maxd = max(maxd, len(h))
            key = r['key'] if dedup else h
            if key in visited:
                stats['dedup_hits'] += 1
                continue
            visited[key] = level
            if len(samples) < 3 and level >= min(3, depth):
                samples.append({'history': list(h), 'outcomes': [repr(o) for o in r['outs']]})
            nxt.append((h, r['enabled']))
        stats['per_level'].append({'level': level, 'transitions': len(todo), 'new_states': len(nxt)})
        frontier = nxt
        if not frontier:
            break
    if hasattr(world, 'reset'):
        world.reset()
    stats.update({'states': len(visited), 'distinct_outcomes': len(outcomes), 'outcome_digest': sorted(hash(o) % 100000 for o in outcomes),
                  'violations': viol[:2000], 'n_violations': len(viol), 'errors': errors[:20],
                  'samples': samples, 'max_depth': maxd, 'capped': capped, 'wall': int((time.time() - t0) * 100) / 100,
                  'frontier_left': len(frontier) if capped else 0})
    return stats


def main():
    world = _load_world(sys.argv[1])
    cfg = json.loads(sys.argv[2])
    world.init(cfg)
    if cfg.get('mode') == 'replay':
        r = run_batch(world, [tuple(cfg['history'])], 1)[0]
        print(json.dumps({'replay': {k: (repr(v) if k in ('key', 'outs') else v) for k, v in r.items()}}))
        return
    if cfg.get('mode') == 'minimise':
        out = [minimise(world, h, dc) for h, dc in cfg['items']]
        if hasattr(world, 'reset'):
            world.reset()
        print(json.dumps({'minimised': out}))
        return
    prog = os.open(cfg['progress'], os.O_RDWR | os.O_CREAT, 0o600) if cfg.get('progress') else None
    res = bfs(world, cfg['depth'], cfg.get('dedup', True), cfg.get('width', 64), cfg.get('fork_depth', 2), prog,
              cfg.get('max_transitions'))
    print(json.dumps(res))


def minimise(world, hist, div_class):
    """Drop operations while the last step still is the first divergent step with the same class."""
    hist = list(hist)

    def bad(h):
        if not h:
            return False
        if div_class in ('crash', 'reset-differs'):
            r = run_batch(world, [tuple(h)], 1)[0]
            if div_class == 'crash':
                return 'crash' in r
            if 'crash' in r or 'error' in r:
                return False
            return not _same(r, _inproc(world, tuple(h), None))
        r = _inproc(world, tuple(h), None)
        if 'error' in r or r.get('div') is None:
            return False
        return r['div'][0] == len(h) - 1 and world.div_class(r['div']) == div_class
    changed = True
    while changed:
        changed = False
        for i in range(len(hist) - 1):
            cand = hist[:i] + hist[i + 1:]
            if bad(cand):
                hist = cand
                changed = True
                break
    return hist


def launch(world_path, cfg, timeout=3000):
    """Called from a check: run this engine on a world in a fresh interpreter; returns the parsed result.  If the zygote
    itself is killed by a signal while replaying in-process, the recorded history is returned as 'zygote_crash'."""
    import subprocess
    p = subprocess.run([sys.executable, os.path.abspath(__file__), world_path, json.dumps(cfg)], stdout=subprocess.PIPE,
                       stderr=subprocess.PIPE, text=True, timeout=timeout, cwd=os.path.dirname(cfg['so']))
    if p.returncode < 0:
        hist = None
        try:
            with open(cfg['progress']) as f:
                hist = json.loads(f.read().strip())
        except Exception:
            pass
        return {'zygote_crash': -p.returncode, 'history': hist, 'stderr': p.stderr[-1500:]}
    if p.returncode != 0 or not p.stdout.strip():
        raise RuntimeError('zygote failed (%s): %s' % (p.returncode, p.stderr[-3000:]))
    return json.loads(p.stdout.strip().splitlines()[-1])


if __name__ == '__main__':
    main()
