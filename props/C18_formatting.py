"""C18 - string formatting produces exactly CPython's text.

Pure-mode Python sources (`x: cython.int` ...): the compiled function formats a C value, the reference is CPython running the
identical source with the staged shadow `cython` module (annotations ignored), on inputs inside the C type's range.

 cint   full product  [prefix '' > -] x [zero '' 0] x width {'',1,2,5,20,251,252,300} x type {'',d,x,X,o,c}  for every C integer
        type (quick: 6 types, thorough: 12) on {0, +-1, +-9, +-10, +-99, +-100, +-255, MIN, MIN+1, MAX-1, MAX} + code-point
        boundaries; conversions !s !r !a x 7 specs; bint.
 cdbl   type {'',e,f,g,E,F,G,%,n} x precision {'', .0, .1, .3, .17} (+ conversions) for double on the special-float alphabet.
 spec   generic format-spec mini-language, pairwise complete over 9 fields (fill, align, sign, #, 0, width, grouping, precision,
        type) + every field alone, applied to an object parameter, a C int parameter and a C double parameter.
 pct    '%'-formatting with a literal template and a tuple argument: conversion {a s r f d o x X c i u e g %} x flags
        {'',-,0,' ',+,#,-0} x width {'',5} x precision {'',.2} x 24 operands (str/int/bool/float/None/tuple/bytes/objects logging
        __str__/__repr__/__format__/__int__), argument-count mismatches, malformed templates.
 misc   str()/repr()/format() of C values, joins and concatenations of f-string pieces, nested specs, self-documenting fields.
"""
import itertools
from vlib import e2, support
from props import _g4_common as g4
from props._g4_fmt import mk

LEVEL = 'exploration'
ENGINE = 'E2 diffexplore'
TECHNIQUE = 'exhaustive product of C-specialised format specs x type-bound values, pairwise-complete generic specs, %-template grammar x operand alphabet; compiled vs CPython on identical pure-mode source'
LEVEL_TEXT = ('Every C-specialised f-string spec (prefix x zero x 8 widths around the 250-char cut-off x 6 type chars, 4 conversions) for '
              'every C integer type at type-bound values and code-point boundaries, every double spec (9 types x 5 precisions) on special '
              'floats, a pairwise-complete set of generic format specs on object/C int/C double operands, and every %-template '
              '(14 conversions x 7 flags x width x precision) on 24 operands incl. objects that log their dunder calls; text, exception '
              'type and dunder-call log must equal CPython on the same source.')
LEVEL_NOTE = ('C values are passed through typed parameters, inputs are restricted to the C type range (out-of-range conversion is C05); '
              'cython.float (single precision) and complex are not covered; generic specs are pairwise, not the full product; locale '
              'dependent output of type n is compared under the C locale only.  Trusted: CPython 3.12, gcc, the staged shadow cython module.')

# ------------------------------------------------------------------------------------------------ C integer types
INT_TYPES = {'char': (-2 ** 7, 2 ** 7 - 1), 'uchar': (0, 2 ** 8 - 1), 'short': (-2 ** 15, 2 ** 15 - 1), 'ushort': (0, 2 ** 16 - 1),
             'int': (-2 ** 31, 2 ** 31 - 1), 'uint': (0, 2 ** 32 - 1), 'long': (-2 ** 63, 2 ** 63 - 1), 'ulong': (0, 2 ** 64 - 1),
             'longlong': (-2 ** 63, 2 ** 63 - 1), 'ulonglong': (0, 2 ** 64 - 1), 'Py_ssize_t': (-2 ** 63, 2 ** 63 - 1),
             'size_t': (0, 2 ** 64 - 1)}
QUICK_TYPES = ['char', 'uchar', 'short', 'int', 'longlong', 'ulonglong']
ORDINALS = [65, 127, 128, 255, 0x7ff, 0x800, 0xd7ff, 0xd800, 0xdfff, 0xe000, 0xffff, 0x10000, 0x10ffff, 0x110000]
WIDTHS = ['', '1', '2', '5', '20', '251', '252', '300']
CONVS = ['', '!s', '!r', '!a']


def int_values(lo, hi):
    vals = {0, 1, -1, 9, -9, 10, -10, 99, -99, 100, -100, 255, -255, lo, lo + 1, hi - 1, hi} | set(ORDINALS)
    return [(repr(v),) for v in sorted(vals) if lo <= v <= hi]


def cint_parts(types):
    parts, sets = [], {}
    n = 0
    for t in types:
        sets['int:' + t] = int_values(*INT_TYPES[t])
        specs = [('', p + z + w + ty) for p in ('', '>', '-') for z in ('', '0') for w in WIDTHS for ty in ('', 'd', 'x', 'X', 'o', 'c')]
        specs += [(c, s) for c in CONVS[1:] for s in ('', '5', '05', '5d', 'x', 'c', '>5')]
        seen = set()
        for conv, spec in specs:
            if (conv, spec) in seen:
                continue
            seen.add((conv, spec))
            name = 'i%d' % n
            n += 1
            field = '{x%s%s}' % (conv, ':' + spec if spec else '')
            parts.append(e2.Part("def %s(x: cython.%s):\n    return f'[%s]'\n" % (name, t, field),
                                 [e2.Func(name, 'cint/%s/%s/%s' % (t, conv or '-', spec or '-'), 'int:' + t)]))
    sets['bint'] = [('True',), ('False',)]       # other objects are first reduced to their truth value: a conversion matter (C05)
    for conv in CONVS:
        for spec in ('', '5', '05', 'd', '5d', 'x', 'c', '>5', '<5', 's'):
            name = 'i%d' % n
            n += 1
            field = '{x%s%s}' % (conv, ':' + spec if spec else '')
            parts.append(e2.Part("def %s(x: cython.bint):\n    return f'[%s]'\n" % (name, field),
                                 [e2.Func(name, 'cint/bint/%s/%s' % (conv or '-', spec or '-'), 'bint')]))
    return parts, sets


# ------------------------------------------------------------------------------------------------ C double
def cdbl_parts():
    parts = []
    sets = {'dbl': [(e,) for e in support.FLOATS + ['123456.789', '1e-7', '0.000123456', '1e16', '-1e-310', '100.0', '0.5e-4', '2.5', '3.5']]}
    specs = [('', p + t) for t in ('', 'e', 'f', 'g', 'E', 'F', 'G', '%', 'n') for p in ('', '.0', '.1', '.3', '.17')]
    specs += [('', s) for s in ('10.3f', '010.3f', '+.2f', ',.2f', '.40f', '.300e', '.0g', '.1000f', '5', '05')]
    specs += [(c, s) for c in CONVS[1:] for s in ('', '.2f', 'g', '5', '.3')]
    for n, (conv, spec) in enumerate(specs):
        name = 'd%d' % n
        field = '{x%s%s}' % (conv, ':' + spec if spec else '')
        parts.append(e2.Part("def %s(x: cython.double):\n    return f'[%s]'\n" % (name, field),
                             [e2.Func(name, 'cdbl/%s/%s' % (conv or '-', spec or '-'), 'dbl')]))
    return parts, sets


# ------------------------------------------------------------------------------------------------ generic specs (pairwise)
FIELDS = [('fill', ['*', '0', 'x']), ('align', ['<', '>', '^', '=']), ('sign', ['+', '-', ' ']), ('alt', ['#']), ('zero', ['0']),
          ('width', ['1', '8']), ('group', [',', '_']), ('prec', ['.0', '.3']),
          ('type', ['b', 'c', 'd', 'e', 'f', 'g', 'n', 'o', 's', 'x', 'X', '%'])]


def generic_specs():
    specs = ['']
    names = [f for f, _ in FIELDS]
    vals = dict(FIELDS)

    def build(assign):
        return ''.join(assign.get(f, '') for f in names)

    for f in names:
        for v in vals[f]:
            specs.append(build({f: v}))
    for f1, f2 in itertools.combinations(names, 2):
        for v1 in vals[f1]:
            for v2 in vals[f2]:
                specs.append(build({f1: v1, f2: v2}))
    out, seen = [], set()
    for s in specs:
        if s not in seen and '{' not in s:
            seen.add(s)
            out.append(s)
    return out


def spec_parts():
    parts = []
    sets = {'obj': [(e,) for e in ['42', '-7', '0', '2**70', '3.14159', '-0.0', '1e100', "float('nan')", "'abc'", "''", 'True', 'None',
                                   mk('Fmt(3)'), mk('StrOnly(4)'), '(1+2j)', "b'ab'", '[1]']],
            'gint': [(e,) for e in ['0', '5', '-5', '65', '255', '1000000', '2147483647', '-2147483648']],
            'gdbl': [(e,) for e in ['0.0', '-0.0', '1.5', '-2.5', '1e100', "float('inf')", "float('nan')", '123456.789', '1234567.0']]}
    n = 0
    for spec in generic_specs():
        for kind, ann, key in (('obj', '', 'obj'), ('int', ': cython.int', 'gint'), ('dbl', ': cython.double', 'gdbl')):
            name = 'g%d' % n
            n += 1
            parts.append(e2.Part("def %s(x%s):\n    return f'[{x:%s}]'\n" % (name, ann, spec) if spec else
                                 "def %s(x%s):\n    return f'[{x}]'\n" % (name, ann),
                                 [e2.Func(name, 'spec/%s/%s' % (kind, spec or '-'), key)]))
    return parts, sets


# ------------------------------------------------------------------------------------------------ % formatting
PCT_CONVS = 'asrfdoxXciueg%'
PCT_FLAGS = ['', '-', '0', ' ', '+', '#', '-0']
PCT_OPERANDS = ["Decimal('1.5')", 'Fraction(1, 4)', "'ab'", "'abcdef'", "''", "'\\xe9'", '42', '-42', '0', '65', '1114112', '2**70', 'True', '3.14159', '-2.5', '-0.0', '1e100',
                "float('nan')", 'None', '(1, 2)', "b'xy'", "'c'", mk('Fmt(3)'), mk('IntLike(7)'), mk('StrOnly(4)'), 'IntSub(5)']


def pct_parts():
    parts = []
    sets = {'pct': [(e,) for e in PCT_OPERANDS], 'pct2': [(a, b) for a in ["'ab'", '42', mk('Fmt(3)')] for b in ['7', '-2.5', "'s'"]],
            'none': [()]}
    n = 0

    def add(src, tag, key):
        nonlocal n
        name = 'p%d' % n
        n += 1
        parts.append(e2.Part(src.replace('NAME', name), [e2.Func(name, tag, key)]))

    for conv in PCT_CONVS:
        for fl in PCT_FLAGS:
            for w in ('', '5'):
                for pr in ('', '.2'):
                    tmpl = '%' + fl + w + pr + conv
                    add("def NAME(x):\n    return 'a%sb' %% (x,)\n" % tmpl, 'pct/1/' + tmpl, 'pct')
    two = ['%s|%5d', '%5s|%-5s', '%r%a', '%d%%%s', '%x-%o', '%5.1f|%s', '%s%s']
    for t in two:
        add("def NAME(x, y):\n    return '%s' %% (x, y)\n" % t, 'pct/2/' + t, 'pct2')
    odd = ["'%s %s' % (x,)", "'%s' % (x, x)", "'%%' % ()", "'%s' % ()", "'plain' % (x,)", "'100%' % (x,)", "'%' % (x,)", "'%5' % (x,)",
           "'%z' % (x,)", "'%(k)s' % (x,)", "'%*d' % (5, x)", "'%.*f' % (2, x)", "'%s' % (*[x],)", "'%s|%s' % (x, 'lit')",
           "'%5s|' % x", "'%s' % x", "'%d' % x", "u'%5s' % (x,)", "'%5s' % [x]", "'%5s' % (x,) * 2", "('%5s' % (x,)).strip()",
           "'%5s%5r%5a' % (x, x, x)", "'%05s|%-05s|%05r' % (x, x, x)", "'%-5d|%-5x|%-5.1f|' % (x, x, x)"]
    for o in odd:
        add("def NAME(x):\n    return %s\n" % o, 'pct/odd/' + o, 'pct')
    const = ["'%5s' % ('ab',)", "'%-5s|' % ('ab',)", "'%5r' % ('ab',)", "'%5a' % ('\\xe9',)", "'%5.1s|' % ('ab',)", "'%d' % (5,)", "'%5d' % (5,)",
             "'%05d' % (-5,)", "'%x' % (255,)", "'%5.2f' % (2.5,)", "'%s' % (None,)", "'%s' % (True,)", "'%d' % (True,)", "'%d' % (2.9,)",
             "'%c' % (65,)", "'%c' % ('x',)", "'%s %s' % (1,)", "'%s' % (1, 2)", "'%5s' % (1.5,)", "'%r' % (\"q'uote\",)", "'%5s' % ((1, 2),)",
             "b'%5s' % (b'ab',)", "b'%5d' % (5,)", "'%s' % ('a' 'b',)", "'%5%' % ()", "'%-5s|%5s' % ('a', 'b')"]
    for o in const:
        add("def NAME():\n    return %s\n" % o, 'pct/const/' + o, 'none')
    return parts, sets


# ------------------------------------------------------------------------------------------------ misc
def misc_parts():
    parts = []
    sets = {'m_i': [(e,) for e in ['0', '7', '-7', '255', '65535', '-32768', '1000000000']],     # no C overflow in x + 1, x * 2, -x, abs(x)
            'm_id': [(a, b) for a in ['0', '-7', '12345'] for b in ['0.0', '-0.0', '2.5', '1e100', "float('nan')", '1234.5678']],
            'm_iw': [(a, b) for a in ['0', '-7', '12345'] for b in ['0', '1', '5', '8']],
            'm_o': [(e,) for e in ['5', "'ab'", '2.5', 'None', mk('Fmt(3)'), 'True', '(1, 2)']], 'none': [()]}
    n = 0

    def add(sig, expr, key):
        nonlocal n
        name = 'm%d' % n
        n += 1
        parts.append(e2.Part('def %s(%s):\n    return %s\n' % (name, sig, expr), [e2.Func(name, 'misc/' + expr, key)]))

    for e in ["str(x)", "repr(x)", "format(x)", "format(x, '5d')", "format(x, '05x')", "'%d' % x", "'%5d|' % (x,)", "f'{x}' + 'a' + f'{x!r}'",
              "''.join([f'{x}', 'a', f'{x:x}'])", "'-'.join((f'{x:3}', f'{x:03}', f'{x:>3}'))", "f'{x=}'", "f'{x = :5d}'", "f'{x=!r:5}'",
              "f'{{}}{x}{{'", "f'{x}%'", "f'{x:5}{x:<5}{x:^5}|'", "f'{x + 1}{x * 2:4d}'", "f'{-x:05d}'", "f'a{x}b{x:5}c{x!r}d'",
              "str(x) + repr(x)", "f'{x:c}' if 0 < x < 256 else 'no'", "f'{x!s}'", "f'{x!a:>4}'", "f'{abs(x):o}'"]:
        add('x: cython.int', e, 'm_i')
    for e in ["f'a{x}b{y}c{x:03d}{y:.2f}'", "f'{y}'", "str(y)", "repr(y)", "format(y, '.3f')", "format(y)", "'%s|%r' % (y, y)",
              "'%5.1f|%d' % (y, x)", "f'{y!r}|{y!s}|{y:g}|{y:e}'", "f'{x}{y}' * 2", "f'{y:{x}}' if 0 <= x < 50 else ''"]:
        add('x: cython.int, y: cython.double', e, 'm_id')
    for e in ["f'{x:{w}d}'", "f'{x:0{w}d}|'", "f'{x:>{w}}'", "f'{x:{w}}'", "f'{x!r:{w}}'", "f'{x:{w}x}'", "f'{x:{w}.{w}f}'"]:
        add('x: cython.int, w: cython.int', e, 'm_iw')
    for e in ["f'{x}'", "f'{x!s}'", "f'{x!r}'", "f'{x!a}'", "f'{x:}'", "f'{x!r:}'", "f'{x!r:>8}'", "f'{x!s:8}|'", "f'{x!a:^8}'", "str(x)", "repr(x)",
              "format(x)", "format(x, '')", "f'{x}{x}'", "f'{x!r:8.3}'", "f'{x:8}|' if not isinstance(x, tuple) else ''", "f'{x=}'",
              "f'{x = !s:>6}'", "'' + f'{x}'", "f'{x}' 'lit' f'{x!r}'", "f'''{x!r:\n>5}'''"]:
        add('x', e, 'm_o')
    for e in ["f'{\"lit\"}'", "f'{\"lit\":5}|'", "f'{\"lit\"!r:8}'", "f'{3:5}'", "f'{3.5:.2f}'", "f'{True}'", "f'{True:5}'", "f'{None}'", "f'{3!r:5}'",
              "f'{2**70:x}'", "f'{-0.0}'", "f'{1e100}'", "f'{(1, 2)}'", "f'{1j}'", "f'{255:#x}{255:#o}{255:#b}'", "f'{1234567:,}{1234567:_d}'",
              "f'{65:c}{0x10ffff:c}'", "f'{0.5:%}'", "f'{12:e}'", "f''", "f'{{'", "f'{3}{4}{5}'", "f'{\"a\" \"b\"}'", "f'{3:{5}}'", "f'{3.14159:{8}.{3}}'"]:
        add('', e, 'none')
    return parts, sets


# ------------------------------------------------------------------------------------------------ driver
def _wclass(spec):
    import re
    return re.sub(r'\d+', lambda m: 'W' if int(m.group(0)) <= 250 else 'Wbig', spec)


def _opclass(expr):
    c = support.classify(expr)
    return 'num' if c.startswith(('int:', 'float:', 'bool')) else 'str' if c == 'str' else 'other'


def pct_root(tmpl, inp, d):
    """root-cause class of a %-template mismatch (only groups keys; unknown shapes keep their detailed key)"""
    import re
    ops = [_opclass(e) for e in inp]
    if re.search(r'%[-0-9 .]*[fdoxX]', tmpl) and any(o != 'num' for o in ops):
        return 'numeric-conversion-of-non-number'
    if re.search(r'%(-0|0-)', tmpl) and d == 'value':
        return 'minus-and-zero-flags'
    if re.search(r'% [-0-9.]*[sra]', tmpl):
        return 'space-flag-with-sra'
    if re.search(r'%0?[1-9][0-9]*(\.[0-9]+)?[sra]', tmpl) and d == 'value':
        return 'width-alignment-of-sra'
    return None


def cint_key(tclass, spec, d):
    import re
    m = re.match(r'^([>-]?)(0*)([0-9]*)([dxXoc]?)$', spec if spec != '-' else '')
    if not m:
        return 'cint|%s|%s|%s' % (tclass, _wclass(spec), d)
    prefix, zero, width, ty = m.groups()
    if ty == 'c':
        return 'cint|%s|c|%s' % (tclass, d)         # type c has its own implementation; prefix/width do not multiply keys
    big = 'big' if width and int(width) > 250 else ''
    return 'cint|%s|%s%s%s|%s' % (tclass, prefix or '-', '0' if zero else '', big, d)


def keyfn(tag, inp, exp, got):
    d = e2.divclass(exp, got)
    parts = tag.split('/')
    fam = parts[0]
    if fam == 'cint':
        t, conv, spec = parts[1], parts[2], '/'.join(parts[3:])
        tclass = 'bint' if t == 'bint' else 'int'
        if conv != '-':
            return 'cint|%s|conv|%s|%s' % (tclass, 'spec' if spec != '-' else 'nospec', d)
        return cint_key(tclass, spec, d)
    if fam == 'cdbl':
        conv, spec = parts[1], '/'.join(parts[2:])
        if conv != '-':
            return 'cdbl|conv|%s|%s' % ('spec' if spec != '-' else 'nospec', d)
        return 'cdbl|%s|%s' % (_wclass(spec), d)
    if fam == 'spec':
        spec = '/'.join(parts[2:])
        if parts[1] == 'int' and spec.endswith('c'):
            return cint_key('int', spec if spec[:1] not in '<^=' else 'other' + spec, d)
        return 'spec|%s|%s|%s' % (parts[1], spec, d)
    if fam == 'pct':
        tmpl = '/'.join(parts[2:])
        root = pct_root(tmpl, inp, d)
        if root:
            return 'pct|%s|%s' % (root, d)
        if parts[1] == '1':
            conv = tmpl[-1]
            tmpl = tmpl[:-1] + ('sra' if conv in 'sra' else conv)
            return 'pct|%s|%s' % (tmpl, d)
        return 'pct|%s|%s|%s' % (parts[1], tmpl, d)
    return '%s|%s' % (tag.replace('/', '|', 1), d)


def build_mods(tier):
    types = QUICK_TYPES if tier == 'quick' else list(INT_TYPES)
    mods = []
    counts = {}
    for fam, (parts, sets) in (('cint', cint_parts(types)), ('cdbl', cdbl_parts()), ('spec', spec_parts()), ('pct', pct_parts()),
                               ('misc', misc_parts())):
        counts[fam + '_programs'] = len(parts)
        per = 220
        for i in range(0, len(parts), per):
            mods.append(e2.Mod('c18%s_%d' % (fam, i // per), 'import cython\n', parts[i:i + per], sets, ext='.py', use_log=True))
    return mods, counts


REACH = ['__Pyx_PyUnicode_From_int', '__Pyx_PyUnicode_From_char', '__Pyx_PyUnicode_From_PY_LONG_LONG', '__Pyx_PyUnicode_FromDouble',
         '__Pyx_PyUnicode_BuildFromAscii', '__Pyx_PyUnicode_FromOrdinal_Padded', '__Pyx_PyObject_Format', '__Pyx_PyObject_FormatSimple',
         '__Pyx_PyObject_FormatAndDecref', '__Pyx_PyUnicode_FromBInt', '__Pyx_PyUnicode_Join', '__Pyx_PyNumber_Long', 'PyUnicode_Format']


def run(ctx):
    mods, counts = build_mods(ctx.tier)
    only = __import__('os').environ.get('VERIF_G4_ONLY')      # development aid: run a subset of the modules (never set by ./check users)
    if only:
        mods = [m for m in mods if m.name.startswith(tuple(only.split(',')))]
    samples = [{'program': mods[0].parts[5].src, 'input': mods[0].input_sets[mods[0].parts[5].funcs[0].inputs][3]},
               {'program': mods[len(mods) // 2].parts[0].src}, {'program': mods[-1].parts[0].src}]
    if ctx.seed:
        import random
        random.Random(ctx.seed).shuffle(mods)
    st = e2.run_diff(ctx, mods, keyfn=keyfn, reach=REACH)
    cov = {
        'evaluations': st['evaluations'], 'distinct_nontrivial': st['pairs'],
        'rule': 'distinct (program, reference outcome) pairs: inputs that give the same text/exception/log for the same program collapse',
        'programs': st['programs'], 'modules_built': st['modules_built'], 'mismatches': st['mismatches'], 'crashes': st['crashes'],
        'build_failures': st['build_failures'], 'reach': st.get('reach'), 'reach_gaps': st.get('reach_gaps'),
        'generic_specs': len(generic_specs()), 'samples': samples, 'exhaustive': True,
    }
    cov.update(counts)
    return cov, ['inputs are inside the C type range; generic specs are pairwise complete over the listed field values, not the full product']


def replay(ctx, case):
    return e2.replay(ctx, case)
