"""C35 - reference counts stay balanced on every path, including errors.

E4 fault enumeration.  A fixed portfolio of small pure-Python functions (one per construct that owns
temporaries, plus the complete wrapper x inner product of depth-2 nestings; props/_g11_portfolio.py) is
compiled with -DCYTHON_REFNANNY=1 against a refnanny extension rebuilt from the staged
Cython/Runtime/refnanny.pyx by the staged compiler.  All operands are injectable tracked objects
(props/_g11_inject.py): every dunder first bumps a global call counter and raises Injected(k) when the
counter hits an armed target.  Deviation 0: run, count the N fallible calls.  Deviation 1: EVERY k in 1..N.
Deviation 2 (thorough): EVERY pair (k1, k2) with k1 < k2 <= N(k1), i.e. the second fault lands in code that
runs after the first fault (except/finally/__exit__/generator cleanup).  Each run is repeated by CPython on
the identical source with the same targets.

Oracles per run: (1) no 'REFNANNY:' / 'refnanny raised' text; (2) the refcount delta of every operand
object, of the containers passed as arguments and of four long-lived sentinels equals CPython's delta after
result/exception were dropped and gc.collect() ran, the number of surviving tracked intermediates equals
CPython's, and after dropping the arguments no tracked object survives; (3) outcome (value, or exception
type + Injected.k + __context__/__cause__ chain types) and the call log equal CPython's - unless the logs
already differ before the last injection point (evaluation order: attributed to C20, only counted);
(4) no crash.
"""
import os, shutil, gc, collections
from vlib import farm, runner
from props import _g11_portfolio as P

LEVEL = 'fault_enumeration'
ENGINE = 'E4 faultexplore'
TECHNIQUE = 'exhaustive single (thorough: pair) fault injection over tracked operands, refnanny build, refcount/live-set/outcome differential vs CPython'
LEVEL_TEXT = ('For each of ~250 small functions (one per temporary-owning construct: calls with star-args/kwargs, comprehensions, '
              'with, try/finally, unpacking, augmented subscript, generators, typed-container fast paths, string formatting, '
              'comparison chains, displays, closures, class creation, plus the full 8 wrapper x 10 inner product of depth-2 '
              'nestings) every fallible dunder call k in 1..N is made to raise Injected(k) in turn (thorough: every pair '
              '(k1,k2) with the second fault after the first).  Every run is checked with the rebuilt reference nanny, '
              'per-operand refcount deltas and live-set survivors against CPython on the same source and targets, outcome and '
              '__context__ chain equality, and crash isolation.')
LEVEL_NOTE = ('Fault points are the dunder/iterator/conversion calls of the tracked operand classes; allocation failures inside '
              'the C runtime (MemoryError) are not injected.  Leaks of untracked temporaries (ints, strs) are seen only through '
              'the reference nanny, which instruments generated function bodies but not the hand-written utility C.  Runs whose '
              'call logs differ from CPython before the last injection point are attributed to C20 (order) and only counted.  '
              'Deviation 3+ not explored.  Trusted: CPython 3.12 reference, gcc, sys.getrefcount.')

CFLAGS = ['-DCYTHON_REFNANNY=1']
PER_MODULE = 32


# ------------------------------------------------------------------------------------------- refnanny
def build_refnanny(ctx, cflags=(), opt='-O1', tag='rn'):
    """Rebuild Cython.Runtime.refnanny from the staged .pyx into the (private) stage copy."""
    root = ctx.stage_root
    dst_dir = os.path.join(root, 'Cython', 'Runtime')
    with open(os.path.join(dst_dir, 'refnanny.pyx'), encoding='utf-8') as f:
        src = f.read()
    r = farm.build('refnanny', src, ctx.workdir(tag), ext='.pyx', cflags=list(cflags), opt=opt)
    if not r.ok:
        return None, r
    dst = os.path.join(dst_dir, os.path.basename(r.so))
    shutil.copy(r.so, dst)
    return dst, r


# ------------------------------------------------------------------------------------------- child side
def _setup(light):
    import importlib
    from props import _g11_inject as J
    if light.get('env'):
        os.environ.update(light['env'])
    rn = importlib.import_module('Cython.Runtime.refnanny')
    if not os.path.realpath(rn.__file__).startswith(os.path.realpath(light['stage_root'])):
        raise RuntimeError('refnanny resolves outside the stage: %s' % rn.__file__)
    mod = farm.load(light['so'], light['name'])
    g = {'__name__': light['name'] + '_ref', '__builtins__': __builtins__}
    exec(compile(light['source'], '<ref:%s>' % light['name'], 'exec'), g)
    gc.freeze()     # the parent froze its heap before forking: collections in this child only visit new objects
    return (mod, g, J)


def _mkargs_fn(J, argexpr):
    code = compile(argexpr, '<args>', 'eval')
    ns = J.namespace()
    return lambda: eval(code, ns)


def _site(log, targets):
    names = []
    for k in sorted(targets):
        names.append(log[k - 1][0] if 0 < k <= len(log) else '?')
    return '+'.join(names) or 'none'


def compare(J, rc, rr, targets):
    """Returns (anomaly or None, c20_attributed).  anomaly = (divclass, detail)."""
    out = rc['out']
    if 'REFNANNY' in out or 'refnanny raised' in out:
        lines = [l.strip() for l in out.splitlines() if 'REFNANNY' in l or 'refnanny raised' in l or 'acquired on' in l]
        cls = 'nanny-overdecref' if 'Too many decrefs' in out else ('nanny-null' if 'NULL argument' in out else (
            'nanny-leak' if 'References leaked' in out else 'nanny-other'))
        return (cls, ' / '.join(lines)[:400]), False
    if rr['live_end'] != 0:
        return ('harness-ref-leak', 'reference run leaves %d tracked objects alive' % rr['live_end']), False
    if rc['deltas'] != rr['deltas']:
        diffs = [(i, a, b) for i, (a, b) in enumerate(zip(rc['deltas'], rr['deltas'])) if a != b]
        over = any(a < b for _, a, b in diffs)
        return ('refcount-low' if over else 'refcount-high',
                'refcount deltas (index, compiled, cpython): %r' % (diffs[:6],)), False
    if rc['live_mid'] != rr['live_mid'] or rc['live_end'] != 0:
        return ('leak', 'tracked survivors: compiled mid=%d end=%d, cpython mid=%d end=%d'
                % (rc['live_mid'], rc['live_end'], rr['live_mid'], rr['live_end'])), False
    kmax = max(targets) if targets else None
    lc, lr = rc['log'], rr['log']
    if kmax is None:
        if lc != lr:
            return None, True
    elif lc[:kmax] != lr[:kmax]:
        return None, True
    if rc['outcome'] != rr['outcome']:
        return ('outcome', 'expected %r got %r' % (rr['outcome'], rc['outcome'])), False
    if lc != lr:
        p = next((i for i, (x, y) in enumerate(zip(lc, lr)) if x != y), min(len(lc), len(lr)))
        return ('tail-log', 'call logs diverge after the injection at entry %d: cpython %r compiled %r'
                % (p, lr[p:p + 3], lc[p:p + 3])), False
    return None, False


_STATE = {}


def _explore(case):
    """All deviations of one function.  case = (light, fname, argexpr, pairs: bool, only: None | [targets...])."""
    light, fname, argexpr, pairs, only = case
    if light['so'] not in _STATE:
        _STATE[light['so']] = _setup(light)
    mod, g, J = _STATE[light['so']]
    cf, rf = getattr(mod, fname), g[fname]
    mk = _mkargs_fn(J, argexpr)
    res = {'fname': fname, 'runs': 0, 'n0': 0, 'anomalies': [], 'c20': 0, 'outcomes': set(), 'pairs_run': 0,
           'order0': False, 'sample': None}

    def one(targets):
        rc = J.run_one(cf, mk, targets)
        rr = J.run_one(rf, mk, targets)
        res['runs'] += 1
        res['n_last'] = rc['n']
        res['outcomes'].add(hash((rr['outcome'], len(rr['log']))))
        an, c20 = compare(J, rc, rr, targets)
        if c20:
            res['c20'] += 1
        if an:
            res['anomalies'].append((tuple(targets), _site(rc['log'], targets), an[0], an[1],
                                     repr(rr['outcome'])[:300], repr(rc['outcome'])[:300]))
        return rc, rr, c20

    if only is not None:
        for t in only:
            one(tuple(t))
        res['outcomes'] = len(res['outcomes'])
        return res
    rc0, rr0, c20 = one(())
    res['order0'] = c20
    n = rc0['n']
    res['n0'] = n
    res['sample'] = (fname, n, repr(rr0['outcome'])[:160])
    for k in range(1, n + 1):
        rc, rr, c20 = one((k,))
        if pairs and not c20:
            for k2 in range(k + 1, rc['n'] + 1):
                one((k, k2))
                res['pairs_run'] += 1
    res['outcomes'] = len(res['outcomes'])
    return res


# ------------------------------------------------------------------------------------------- parent side
def family(name):
    if name.startswith('f_n_'):
        _, _, w, i = name.split('_', 3)
        return ('nest', w, i)
    return ('hand', name[2:], None)


_KW = ('return', 'with', 'for', 'while', 'if', 'elif', 'try', 'raise', 'yield', 'assert', 'del', 'def', 'class', 'global',
       'except', 'finally', 'else')


class CLines:
    """Maps a line of a generated C file to the kind of Python statement it was generated for (the reference nanny
    reports C lines; the statement kind is a stable, low-cardinality description of where a reference was acquired)."""
    def __init__(self):
        self.cache = {}

    def _load(self, c_file):
        import re
        marks, src = [], {}
        try:
            with open(c_file, encoding='utf-8', errors='replace') as f:
                lines = f.read().split('\n')
        except OSError:
            lines = []
        pat = re.compile(r'/\* "[^"]*\.py":(\d+)')
        for n, l in enumerate(lines, 1):
            m = pat.match(l.strip())
            if m:
                marks.append((n, int(m.group(1))))
                # the marked source line is the one ending in '# <<<<<<<<<<<<<<'
                for j in range(n, min(n + 8, len(lines))):
                    if '# <<<<<<<<<<<<<<' in lines[j]:
                        src[int(m.group(1))] = lines[j].split('# <<<<<<<<<<<<<<')[0].lstrip(' *').strip()
                        break
        return marks, src

    def _in_try(self, c_file, pyline):
        py = c_file[:-2] + '.py'
        if py not in self.cache:
            try:
                with open(py, encoding='utf-8') as f:
                    self.cache[py] = f.read().split('\n')
            except OSError:
                self.cache[py] = []
        lines = self.cache[py]
        if not 0 < pyline <= len(lines):
            return False
        indent = len(lines[pyline - 1]) - len(lines[pyline - 1].lstrip())
        for j in range(pyline - 2, -1, -1):
            l = lines[j]
            if not l.strip():
                continue
            ind = len(l) - len(l.lstrip())
            if ind < indent:
                indent = ind
                w = l.strip()
                if w.startswith(('try:', 'with ', 'finally:', 'except')):
                    return True
                if w.startswith('def '):
                    return False
        return False

    def kind(self, c_file, cline):
        import bisect
        if c_file not in self.cache:
            self.cache[c_file] = self._load(c_file)
        marks, src = self.cache[c_file]
        i = bisect.bisect_right(marks, (cline, 10 ** 9)) - 1
        if i < 0:
            return '?'
        text = src.get(marks[i][1], '')
        first = text.replace(':', ' ').replace('(', ' ').split(' ')[0] if text else ''
        if first == 'return':
            # 'return' = a return statement lexically inside try/with (its value is parked while the finally clause /
            # __exit__ runs); 'return-plain' = any other return statement
            return 'return' if self._in_try(c_file, marks[i][1]) else 'return-plain'
        if first in _KW:
            return first
        if '=' in text and '==' not in text.split('=')[0]:
            return 'assign'
        return 'expr' if text else '?'


def nanny_where(cl, c_file, detail):
    """Statement kind for the first C line mentioned by a nanny report."""
    import re
    m = re.search(r'acquired on lines: ([\d, ]+)', detail)
    if m:
        line = int(m.group(1).replace(' ', '').strip(',').split(',')[-1])     # the most recent acquisition
    else:
        m = re.search(r'on line (\d+)', detail)
        line = int(m.group(1)) if m else None
    if line is None or not c_file:
        return '?'
    return cl.kind(c_file, line)


def normalise(raw, c_files=None):
    """raw: list of (fname, targets, site, divclass, detail, exp, got, modname).  Root keys:
      nanny-*:   divclass | kind of Python statement that acquired the reference | failing dunder(s)
      outcome:   divclass | expected->got exception/value class | failing dunder(s) | function family
      others:    divclass | failing dunder(s) | function family
    The nesting product is collapsed: a failure seen with >= 3 inners of a wrapper is keyed on the wrapper,
    otherwise with >= 3 wrappers of an inner on the inner."""
    cl = CLines()
    fams = {}
    groups = collections.defaultdict(set)
    for r in raw:
        fam = family(r[0])
        if fam[0] == 'nest':
            groups[(r[3], r[2])].add((fam[1], fam[2]))
    for (div, site), pairs in groups.items():
        full_w = {w for w in {p[0] for p in pairs} if sum(1 for p in pairs if p[0] == w) >= 3}
        rest = {p for p in pairs if p[0] not in full_w}
        full_i = {i for i in {p[1] for p in rest} if sum(1 for p in rest if p[1] == i) >= 3}
        for w, i in pairs:
            fams[(div, site, w, i)] = 'nest:%s/*' % w if w in full_w else ('nest:*/%s' % i if i in full_i else 'nest:%s/%s' % (w, i))
    keyed = []
    for r in raw:
        fname, targets, site, div, detail, exp, got, modname = r
        fam = family(fname)
        famname = fam[1] if fam[0] == 'hand' else fams[(div, site, fam[1], fam[2])]
        if div.startswith('nanny'):
            key = '%s|%s|%s' % (div, nanny_where(cl, (c_files or {}).get(modname), detail), site)
        elif div == 'outcome':
            key = '%s|%s->%s|%s|%s' % (div, _oclass(exp), _oclass(got), site, famname)
        else:
            key = '%s|%s|%s' % (div, site, famname)
        keyed.append((key, r))
    return keyed


def _oclass(rep):
    """'ok' or the exception type name of a repr'd outcome tuple."""
    try:
        import ast
        o = ast.literal_eval(rep)
        return o[1] if o[0] == 'exc' else 'ok'
    except Exception:
        return 'ok' if rep.startswith("('ok'") else rep.split(',')[1].strip(" '") if rep.startswith("('exc'") else '?'


def _modules(entries):
    mods = []
    for n in range(0, len(entries), PER_MODULE):
        chunk = entries[n:n + PER_MODULE]
        mods.append(('c35m%d' % (n // PER_MODULE), P.PRELUDE + '\n' + '\n'.join(e[1] for e in chunk), chunk))
    return mods


def explore_portfolio(ctx, entries, cflags, pairs, opt='-O0', env=None, workdir='c35', timeout=900):
    """Build the portfolio and run every deviation.  Returns (stats, raw anomalies, crashes, builds)."""
    mods = _modules(entries)
    jobs = [dict(name=name, source=src, workdir=ctx.workdir(workdir), ext='.py', cflags=list(cflags), opt=opt)
            for name, src, _ in mods]
    builds = farm.build_many(jobs)
    srcs = {e[0]: e for e in entries}
    stats = collections.Counter()
    raw, crashes, samples, perfn, order0 = [], [], [], {}, []
    todo = []
    for (name, src, chunk), b in zip(mods, builds):
        if not b.ok:
            ctx.violation('build-failure|%s|%s' % (b.stage, name), 'portfolio module does not build (%s): %s'
                          % (b.stage, b.errors[-800:]), {'kind': 'build', 'source': src, 'cflags': list(cflags)})
            continue
        stats['modules_built'] += 1
        light = {'name': name, 'so': b.so, 'source': src, 'stage_root': ctx.stage_root, 'env': env}
        todo.extend((light, e[0], e[2], pairs, None) for e in chunk)
    if True:
        # freeze the parent's heap so that gc.collect() in the forked children does not touch (copy) every page
        gc.collect()
        gc.freeze()
        # one case per function: a crash is attributed to the function and the others continue in a new child
        results = runner.run_cases(_explore, todo, chunk=max(1, -(-len(todo) // (farm.NPROC * 3))), timeout=timeout,
                                   scratch=ctx.scratch)
        for case, r in zip(todo, results):
            light, fname = case[0], case[1]
            if r[0] == 'ok':
                v = r[1]
                stats['functions'] += 1
                stats['runs'] += v['runs']
                stats['single_faults'] += v['n0']
                stats['pairs'] += v['pairs_run']
                stats['c20_attributed'] += v['c20']
                stats['order0_functions'] += 1 if v['order0'] else 0
                if v['order0']:
                    order0.append(fname)
                stats['distinct_outcomes'] += v['outcomes']
                perfn[fname] = v['n0']
                if v['n0'] == 0:
                    stats['vacuous_functions'] += 1
                    ctx.log('WARN vacuous portfolio entry (no fallible call reached): %s' % fname)
                if v['sample']:
                    samples.append(v['sample'])
                for a in v['anomalies']:
                    raw.append((fname,) + tuple(a) + (light['name'],))
            elif r[0] == 'exc':
                ctx.violation('harness-exc|%s' % fname, 'driver exception: %s' % r[1][-1200:],
                              {'kind': 'harness', 'fname': fname, 'trace': r[1][-3000:]})
            else:
                crashes.append((case, r))
    stats['order0_names'] = sorted(order0)
    return stats, raw, crashes, builds, samples, perfn, srcs


def refine_crashes(ctx, crashes, srcs, cflags, keyprefix=''):
    """A crash/timeout was attributed to a whole function: re-run its deviations one per child to find the first
    crashing target set (deviation 0, then every single k, then - if the run explored pairs - every pair)."""
    n = 0

    def single(light, fname, argexpr, t):
        return runner.run_cases(_explore, [(light, fname, argexpr, False, [t])], chunk=1, timeout=120, scratch=ctx.scratch)[0]

    for case, r in crashes:
        light, fname, argexpr, pairs, _ = case
        fam = family(fname)
        famname = fam[1] if fam[0] == 'hand' else 'nest:%s/%s' % fam[1:]
        found = None
        r0 = single(light, fname, argexpr, ())
        if r0[0] in ('crash', 'timeout'):
            found = ((), r0)
        elif r0[0] == 'ok':
            for k in range(1, r0[1]['n_last'] + 1):
                rk = single(light, fname, argexpr, (k,))
                if rk[0] in ('crash', 'timeout'):
                    found = ((k,), rk)
                    break
                if pairs and rk[0] == 'ok':
                    for k2 in range(k + 1, rk[1]['n_last'] + 1):
                        rp = single(light, fname, argexpr, (k, k2))
                        if rp[0] in ('crash', 'timeout'):
                            found = ((k, k2), rp)
                            break
                    if found:
                        break
        case_d = {'kind': 'c35', 'fname': fname, 'source': P.PRELUDE + '\n' + srcs[fname][1], 'args': argexpr,
                  'cflags': list(cflags), 'env': light.get('env')}
        n += 1
        if found:
            t, rr = found
            sig = 'sig%s' % rr[1] if rr[0] == 'crash' else 'timeout'
            ctx.violation('%s%s|%s|deviation%d|%s' % (keyprefix, rr[0], sig, len(t), famname),
                          '%s%r with injection %r: %s %s; output tail: %s' % (fname, argexpr, t, rr[0], rr[1], (rr[2] or '')[-600:]),
                          dict(case_d, targets=list(t), divclass=rr[0]))
        else:
            ctx.violation('%s%s|unattributed|%s' % (keyprefix, r[0], famname),
                          '%s: child %s %s but no single run reproduces it; output tail: %s'
                          % (fname, r[0], r[1], (r[2] or '')[-600:]), dict(case_d, targets=[], divclass=r[0]))
    return n


def report(ctx, raw, srcs, cflags, keyprefix='', c_files=None):
    for key, r in normalise(raw, c_files):
        fname, targets, site, div, detail, exp, got, modname = r
        ctx.violation(keyprefix + key, '%s%r injected at %r (%s): %s' % (fname, srcs[fname][2], targets, site, detail),
                      {'kind': 'c35', 'fname': fname, 'source': P.PRELUDE + '\n' + srcs[fname][1], 'args': srcs[fname][2],
                       'targets': list(targets), 'cflags': list(cflags), 'divclass': div, 'expected': exp, 'got': got,
                       'detail': detail})


REACH = ['__Pyx_RefNannySetupContext', '__Pyx_XDECREF', '__Pyx_GOTREF', '__Pyx_GIVEREF', '__Pyx_PyObject_Call',
         '__Pyx_PyObject_FastCallDict', '__Pyx_IterFinish', '__Pyx_UnpackTupleError', '__Pyx_PyObject_GetItem',
         '__Pyx_Generator_New', '__Pyx_ExceptionSwap', '__Pyx_PyObject_LookupSpecial', '__Pyx_Py3MetaclassPrepare',
         '__Pyx_PyList_Append', '__Pyx_PyDict_GetItem', '__Pyx_PyUnicode_Join', '__Pyx_GetItemInt_Fast',
         '__Pyx_SetItemInt_Fast', '__Pyx_dict_iterator', '__Pyx_ReraiseException', '__Pyx_Coroutine_Close']


def run(ctx):
    so, r = build_refnanny(ctx)
    if so is None:
        ctx.violation('build-failure|refnanny', 'staged refnanny.pyx does not build (%s): %s' % (r.stage, r.errors[-800:]),
                      {'kind': 'build', 'what': 'refnanny'})
        return {'evaluations': 1, 'distinct_nontrivial': 0, 'rule': 'n/a', 'samples': ['refnanny build failed']}, []
    ctx.log('refnanny rebuilt from the stage: %s' % so)
    entries = P.portfolio(ctx.tier)
    if ctx.seed:
        entries = entries[ctx.seed % len(entries):] + entries[:ctx.seed % len(entries)]
    pairs = not ctx.quick
    stats, raw, crashes, builds, samples, perfn, srcs = explore_portfolio(ctx, entries, CFLAGS, pairs)
    ncrash = refine_crashes(ctx, crashes, srcs, CFLAGS)
    report(ctx, raw, srcs, CFLAGS, c_files={b.name: b.c_file for b in builds if b.ok})
    reach = {k: 0 for k in REACH}
    for b in builds:
        if b.ok:
            txt = b.c_text()
            for k in REACH:
                if k in txt:
                    reach[k] += 1
    gaps = sorted(k for k, v in reach.items() if not v)
    for k in gaps:
        ctx.log('WARN reach gap: no built module mentions %s' % k)
    samples.sort()
    cov = {
        'evaluations': stats['runs'], 'distinct_nontrivial': stats['distinct_outcomes'],
        'rule': 'one evaluation = one (function, injection target set) run compiled + the same run under CPython; '
                'distinct_nontrivial = number of distinct (function, CPython outcome, call-log length) triples observed',
        'functions': stats['functions'], 'programs': len(entries), 'modules_built': stats['modules_built'],
        'single_fault_positions': stats['single_faults'], 'pair_runs': stats['pairs'],
        'max_fault_positions_per_function': max(perfn.values()) if perfn else 0,
        'vacuous_functions': stats['vacuous_functions'], 'c20_attributed_runs': stats['c20_attributed'], 'order_differs_at_deviation0': stats['order0_functions'], 'order_differs_functions': stats['order0_names'],
        'raw_anomalies': len(raw), 'crashes': ncrash, 'reach': reach, 'reach_gaps': gaps,
        'deviations': 'single' if ctx.quick else 'single+pairs',
        'samples': [{'function': s[0], 'fallible_calls': s[1], 'deviation0_outcome': s[2]} for s in samples[:3]] +
                   [{'source': entries[0][1], 'args': entries[0][2]}],
        'exhaustive': True,
    }
    return cov, ['fault points = dunder calls of the tracked operand classes; C-runtime allocation failures are not injected',
                 'the reference nanny instruments generated function bodies, not hand-written utility code']


def replay(ctx, case):
    if case.get('kind') == 'build':
        return 'build failure: re-run the check'
    if case.get('kind') != 'c35':
        return 'not replayable'
    so, r = build_refnanny(ctx)
    if so is None:
        return 'refnanny does not build'
    b = farm.build('c35replay', case['source'], ctx.workdir('replay'), ext='.py', cflags=case.get('cflags') or CFLAGS)
    if not b.ok:
        return 'does not build (%s): %s' % (b.stage, b.errors[-600:])
    light = {'name': 'c35replay', 'so': b.so, 'source': case['source'], 'stage_root': ctx.stage_root, 'env': case.get('env')}
    rr = runner.run_cases(_explore, [(light, case['fname'], case['args'], False, [tuple(case['targets'])])], chunk=1,
                          timeout=120, scratch=ctx.scratch)[0]
    if rr[0] == 'ok':
        an = rr[1]['anomalies']
        if an:
            return '%s injected at %r: %s: %s' % (case['fname'], an[0][0], an[0][2], an[0][3])
        return False
    return '%s: %r' % (rr[0], rr[1:])
