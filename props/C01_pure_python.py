"""C01 - compiled pure-Python code behaves exactly like CPython.

Small-scope enumeration of construct templates:
  * EXPR: ~60 expression templates (conditional / boolean / walrus / lambda / default capture / list, set, dict
    comprehensions / generator expressions / ~35 builtin calls / string and bytes methods / formatting / operators /
    star-unpacking displays and calls / logged sub-expressions) with holes,
  * STMT: ~40 statement templates (closure read/write with nonlocal, global write, class with method / classmethod /
    staticmethod / property, class-body expressions, default-argument capture, augmented assignment on name /
    attribute / subscript / closure variable, tuple / star / nested unpacking, swap, chained assignment, if/elif,
    walrus in if / comprehension / while, del, assert, while-else, for-else, try/except/else/finally value flow,
    user raise with args, with, generators with send, keyword/star calls, inner classes, ...).
Quick: every template in every applicable context (function, method, closure, generator, class body) plus EVERY
ordered pair (outer, inner) of expression templates nested once, in the function context.  Thorough: additionally
the pairs whose outer template is one of the 15 scope-affecting ones (conditional, boolean, walrus, lambdas,
comprehensions, generator expressions) in the closure, generator and class-body contexts (+3 150, ~8.6k functions;
sized from the measured rate of the quick tier, 5.4k functions in ~12 min at load 40).  Every function is called on ALL argument pairs over {0, 1, -1, 2**70, 1.5, 'ab', (), [1, 2], None}.
Oracle: CPython executing the identical source: value (type + repr), exception type, args of exceptions raised
by user code (caught and returned inside the templates), and the ordered side-effect log.
"""
from vlib import e2, farm
from props._g6_common import ConfirmCtx, run_diff, storm_note

LEVEL = 'exploration'
ENGINE = 'E2 diffexplore'
TECHNIQUE = 'exhaustive construct templates x contexts + all ordered expression-template pairs x all argument pairs, compiled vs CPython on identical source'
LEVEL_TEXT = ('Every one of ~100 construct templates (expressions: conditional, boolean, walrus, lambda, comprehensions, genexprs, '
              '~35 builtins, str/bytes methods, formatting, operators, star displays/calls; statements: closures with nonlocal, '
              'global, classes with method kinds and properties, class-body code, default capture, augmented assignment on '
              'name/attribute/subscript/closure cell, unpacking forms, walrus placements, del, assert, loop-else, try/finally '
              'value flow, user raises, with, generators, call shapes) is compiled in every applicable context (function, '
              'method, closure, generator, class body) and every ordered pair of expression templates nested once is compiled '
              '(function context; thorough: pairs with a scope-affecting outer template also in closure/generator/class body); each function is called on all 81 argument pairs over '
              '{0, 1, -1, 2**70, 1.5, "ab", (), [1,2], None}; value type+repr, exception type, user exception args and the '
              'ordered side-effect log must equal CPython on the identical source.')
LEVEL_NOTE = ('Nesting depth 2 for expressions (triples of the design are not enumerated); arity 2; programs using frames, locals(), '
              'exec/eval, zero-argument super() are outside the property; interpreter-generated exception messages are not '
              'compared (types only); identity of immutable values and function reprs never observed.  Template/context '
              'combinations that CPython itself rejects with SyntaxError are not applicable and skipped (counted); functions '
              'that Cython refuses with a clean compile-time error while CPython raises on every argument pair (certain '
              'unbound locals, unknown names, indexing a C integer: by design) are outside the property and counted.  '
              'Trusted: CPython 3.12 as reference, gcc.')

PRELUDE = 'from vlib.support import L\nfrom props._g6_rt import Obj, CMV\n'
PER_MODULE = 170
VALUES = ['0', '1', '-1', '2**70', '1.5', "'ab'", '()', '[1, 2]', 'None']
REACH = ['__Pyx_CyFunction_New', '__pyx_scope_struct', '__Pyx_Generator_New', '__Pyx_Py3MetaclassPrepare', '__Pyx_PyObject_GetAttrStr',
         '__Pyx_PyList_Append', '__Pyx_PyObject_Call', '__Pyx_GetItemInt', '__Pyx_PyUnicode_Join']

# ---------------------------------------------------------------------------------------------- expression templates
# $0 / $1 are holes.  Nested once: outer.$0 := inner($a, $b), outer.$1 := b.
EXPR = [
    ('cond', '($0 if $1 else 7)'),
    ('and', '($0 and $1)'),
    ('or', '($0 or $1)'),
    ('not', '(not $0)'),
    ('walrus', '((w := $0), w, $1)'),
    ('lambda', '(lambda q: (q, $1))($0)'),
    ('lamdef', '(lambda q=$0: [q, $1])()'),
    ('listcomp', '[($0, v) for v in ($1, 3)]'),
    ('listcompif', '[v for v in ($0, $1, 0) if v]'),
    ('setcomp', 'sorted({repr(v) for v in ($0, $1)})'),
    ('dictcomp', '{k: ($0, k) for k in ($1, "z")}'),
    ('genlist', 'list((v, $1) for v in ($0, 2))'),
    ('gensum', 'sum(v for v in ($0, $1))'),
    ('gentuple', 'tuple(v for v in ($0,) if $1)'),
    ('nestcomp', '[[u, v] for u in ($0,) for v in ($1, u)]'),
    ('len', 'len($0)'),
    ('abs', 'abs($0)'),
    ('min', 'min($0, $1)'),
    ('max', 'max($0, $1, key=repr)'),
    ('sum', 'sum($0, $1)'),
    ('sorted', 'sorted($0)'),
    ('reversed', 'list(reversed($0))'),
    ('enumerate', 'list(enumerate($0, 1))'),
    ('zip', 'list(zip($0, $1))'),
    ('map', 'list(map(repr, $0))'),
    ('filter', 'list(filter(None, $0))'),
    ('isinstance', 'isinstance($0, (int, str))'),
    ('repr', 'repr($0)'),
    ('str', 'str($0)'),
    ('int', 'int($0)'),
    ('float', 'float($0)'),
    ('bool', 'bool($0)'),
    ('tuple', 'tuple($0)'),
    ('list', 'list($0)'),
    ('dict', 'dict($0)'),
    ('set', 'sorted(set($0))'),
    ('divmod', 'divmod($0, $1)'),
    ('pow2', 'pow($0, 2)'),
    ('pow3', 'pow($0, $1, 7)'),
    ('round', 'round($0)'),
    ('round2', 'round($0, $1)'),
    ('hash', '(hash($0) == hash($1))'),
    ('iternext', 'next(iter($0), $1)'),
    ('getattr', 'getattr($0, "real", $1)'),
    ('strmeth', 'str($0).upper().center(6, "*")'),
    ('join', '"-".join(map(str, ($0, $1)))'),
    ('percent', '"%s|%r" % ($0, $1)'),
    ('fstring', "f'{($0)}:{($1)!r:>6}'"),
    ('format', '"{}/{!r}".format($0, $1)'),
    ('encode', 'str($0).encode().hex()'),
    ('startswith', 'str($0).startswith(str($1))'),
    ('split', 'str($0).split("b")'),
    ('add', '($0 + $1)'),
    ('sub', '($0 - $1)'),
    ('mul2', '($0 * 2)'),
    ('floordiv', '($0 // $1)'),
    ('mod', '($0 % $1)'),
    ('lt', '($0 < $1)'),
    ('eq', '($0 == $1)'),
    ('in', '($0 in ($1, 1))'),
    ('index0', '$0[0]'),
    ('slice', '$0[1:]'),
    ('neg', '(-$0)'),
    ('chaincmp', '(0 <= $0 < $1)'),
    ('isnone', '($0 is None)'),
    ('starcall', '(lambda *p, **k: (p, sorted(k.items())))($0, *($1,), k=$0)'),
    ('starlist', '[*($0,), $1]'),
    ('dictunpack', '{**{"k": $0}, "j": $1}'),
    ('revtuple', '($0, $1)[::-1]'),
    ('logged', '(L("p", $0), L("q", $1))'),
]

# ---------------------------------------------------------------------------------------------- statement templates
# Lines use a, b as inputs and must bind r.  $N is a per-function unique suffix.
STMT = [
    ('closure_rw', '''n = a
def inc():
    nonlocal n
    n = (n, b)
    return n
r = (inc(), inc(), n)'''),
    ('closure_aug', '''n = [a]
t = 0
def bump(k):
    nonlocal t
    t += k
    n.append(t)
    return t
r = (bump(1), bump(2), n, t, b)'''),
    ('global_w', '''global GV$N
GV$N = (a, b)
r = (GV$N, 'GV$N' in globals())'''),
    ('class_kinds', '''class K:
    z = a
    def m(self, q): return (self.z, q)
    @classmethod
    def c(cls, q): return (cls.z, q)
    @staticmethod
    def s(q): return (q, 's')
    @property
    def p(self): return (self.z, 'p')
k = K()
r = (k.m(b), K.c(b), k.c(a), K.s(a), k.s(b), k.p, K.__name__, k.m.__name__)'''),
    ('class_body', '''class K:
    u = a
    v = (u, b)
    w = [b for _ in (0, 1)]
    def get(self): return self.u
r = (K.v, K.w, K().get(), sorted(n for n in vars(K) if not n.startswith('_')))'''),
    ('class_inherit', '''class P:
    def m(self): return ('P', a)
class Q(P):
    def m(self): return ('Q', b, super(Q, self).m(), P.m(self))
r = (Q().m(), [c.__name__ for c in Q.__mro__], isinstance(Q(), P))'''),
    ('default_capture', '''def g(q=a, *, k=b): return (q, k)
a = 5
r = (g(), g(1), g(k=2), g.__defaults__, g.__kwdefaults__)'''),
    ('aug_name', '''x = a
x += b
r = x'''),
    ('aug_attr', '''o = Obj()
o.v = a
o.v += b
r = (o.v, repr(o))'''),
    ('aug_subscript', '''d = {'k': a}
d[L('key', 'k')] += b
l = [a, a]
l[L('idx', 0)] *= 2
r = (d, l)'''),
    ('unpack', '''x, y = a, b
(p, q), z = (y, x), a
r = (x, y, p, q, z)'''),
    ('star_unpack', '''x, *y = a
*p, q = b
r = (x, y, p, q)'''),
    ('swap', '''a, b = b, a
r = (a, b)'''),
    ('chained', '''x = y = [a]
x.append(b)
r = (x, y, x is y)'''),
    ('if_elif', '''if a:
    r = ('a', b)
elif b:
    r = ('b', a)
else:
    r = None'''),
    ('walrus_if', '''if (n := a):
    r = (n, b)
else:
    r = [n]'''),
    ('walrus_comp', '''r = [y for v in (a, b) if (y := v)]
r = (r, y)'''),
    ('walrus_while', '''it = iter((a, b, 0))
r = []
while (v := next(it, 0)):
    r.append(v)
r = (r, v)'''),
    ('del_name', '''x = a
if b is not None:
    del x
try:
    x
    r = 'bound'
except NameError:
    r = ('unbound', b)'''),
    ('assert', '''try:
    assert a, b
    r = 'ok'
except AssertionError as e:
    r = ('AE', e.args)'''),
    ('while_else', '''i = 0
while i < 2:
    if a == i:
        break
    i += 1
else:
    i = ('else', b)
r = i'''),
    ('for_else', '''for i in (0, 1, 'ab'):
    if i == a:
        r = ('found', i)
        break
else:
    r = ('else', i, b)'''),
    ('try_flow', '''r = []
try:
    r.append(a)
    if b:
        raise ValueError(b, a)
    r.append('nb')
except ValueError as e:
    r.append(('VE', e.args))
else:
    r.append('else')
finally:
    r.append('fin')'''),
    ('user_raise', '''try:
    if a:
        raise KeyError(a, b)
    raise IndexError
except KeyError as e:
    r = ('KE', e.args, type(e).__name__)
except LookupError as e:
    r = ('LE', e.args, type(e).__name__)'''),
    ('raise_through', '''if a:
    raise ValueError(a)
r = b'''),
    ('with_stmt', '''with CMV(a) as v:
    r = (v, b)
    L('body', r)'''),
    ('for_unpack', '''r = []
for i, (p, q) in enumerate([(a, b), (b, a)]):
    r.append((i, p, q))'''),
    ('dict_ops', '''d = {a: b}
d.setdefault(b, a)
r = (d.get(a), list(d.items()), a in d, len(d))'''),
    ('lambda_stmt', '''g = lambda q, w=b: (q, w, a)
r = (g(1), g(1, 2))'''),
    ('call_shapes', '''def g(p, /, q, *rest, s=a, **kw): return (p, q, rest, s, sorted(kw.items()))
r = (g(a, b), g(1, 2, 3, s=4, t=b), g(*[a, b], **{'u': a}))'''),
    ('call_errors', '''def g(p, q=1): return (p, q)
out = []
for args, kw in (((), {}), ((a,), {'q': b}), ((a, b, 1), {}), ((a,), {'z': 1}), ((a,), {'p': b})):
    try:
        out.append(g(*args, **kw))
    except TypeError:
        out.append('TypeError')
r = out'''),
    ('inner_gen', '''def g():
    x = yield a
    y = yield (x, b)
    yield [x, y]
it = g()
r = [next(it), it.send(7), it.send(8), list(it)]'''),
    ('gen_return', '''def g():
    yield a
    return b
it = g()
out = [next(it)]
try:
    next(it)
except StopIteration as e:
    out.append(('stop', e.value))
r = out'''),
    ('inner_class_closure', '''class K:
    def m(self): return (a, b)
    n = staticmethod(lambda: b)
r = (K().m(), K.n())'''),
    ('slice_assign', '''l = [1, 2, 3, 4]
l[a:b] = 'xy'
del l[0]
r = l'''),
    ('str_ops', '''s = 'x%sy' % (a,)
s += str(b)
r = (s, s.find('y'), s[::-1], s.encode('ascii', 'replace'))'''),
    ('set_ops', '''s = {1, 'ab'}
r = (a in s, sorted(map(repr, s | {b})), sorted(map(repr, s - {a})))'''),
    ('nested_def', '''def outer(p):
    def mid(q):
        def inner(w):
            return (p, q, w, a)
        return inner
    return mid
r = outer(a)(b)(1)'''),
    ('cond_import', '''import math as m
from os.path import join as j
r = (m.floor(1.5), j('p', str(a)), b)'''),
    ('print_repr', '''r = (repr(a), str(b), ascii(a), format(b, '') if b is not None else 'N')'''),
    ('bool_chain', '''r = (a and b or 'dflt', not a or b, a if not b else (b, a))'''),
    ('multi_target_for', '''r = {}
for r['k'] in (a, b):
    pass
o = Obj()
for o.v in (a, b):
    pass
r = (r, o.v)'''),
]

CONTEXTS = ('function', 'method', 'closure', 'generator', 'classbody')
# outer templates that open or depend on a scope: in thorough their pairs are also built in closure / generator / class body
SCOPE_OUTERS = ('cond', 'and', 'or', 'not', 'walrus', 'lambda', 'lamdef', 'listcomp', 'listcompif', 'setcomp', 'dictcomp',
                'genlist', 'gensum', 'gentuple', 'nestcomp')


def _indent(text, n):
    pad = '    ' * n
    return '\n'.join(pad + ln if ln else ln for ln in text.split('\n'))


def wrap(name, body, ctx):
    """Source text defining a callable `name(a, b)` that runs `body` (binding r) in the given context."""
    body = body.replace('$N', name)
    if ctx == 'function':
        return 'def %s(a, b):\n%s\n    return r\n' % (name, _indent(body, 1))
    if ctx == 'method':
        return ('class C_%s:\n    def m(self, a, b):\n%s\n        return r\n%s = C_%s().m\n'
                % (name, _indent(body, 2), name, name))
    if ctx == 'closure':
        return ('def %s(a, b):\n    def inner():\n%s\n        return r\n    return inner()\n'
                % (name, _indent(body, 2)))
    if ctx == 'generator':
        return ('def g_%s(a, b):\n%s\n    yield r\n    yield "end"\ndef %s(a, b):\n    return list(g_%s(a, b))\n'
                % (name, _indent(body, 1), name, name))
    if ctx == 'classbody':
        return ('def %s(a, b):\n    class Body:\n%s\n    return Body.r\n' % (name, _indent(body, 2)))
    raise ValueError(ctx)


def fill(tmpl, e0, e1):
    return tmpl.replace('$0', e0).replace('$1', e1)


def family(tier):
    """List of (tag, body, context)."""
    out = []
    for nm, t in EXPR:
        for c in CONTEXTS:
            out.append(('E:%s@%s' % (nm, c), 'r = ' + fill(t, 'a', 'b'), c))
    for nm, t in STMT:
        for c in CONTEXTS:
            out.append(('S:%s@%s' % (nm, c), t, c))
    for no, to in EXPR:
        for ni, ti in EXPR:
            inner = fill(ti, 'a', 'b')
            ctxs = ('function',)
            if tier != 'quick' and no in SCOPE_OUTERS:
                ctxs = ('function', 'closure', 'generator', 'classbody')
            for c in ctxs:
                out.append(('P:%s(%s)@%s' % (no, ni, c), 'r = ' + fill(to, inner, 'b'), c))
    return out


def _applicable(src):
    try:
        compile(src, '<c01>', 'exec')
        return True
    except SyntaxError:
        return False


def _leafdiff(x, y):
    """First differing leaf of two canon() trees: 'T1->T2' for a type change, 'value:T' for a different repr."""
    if isinstance(x, tuple) and isinstance(y, tuple) and len(x) == 2 and len(y) == 2 and isinstance(x[0], str) and isinstance(y[0], str):
        if x[0] != y[0]:
            return 'leaf-type:%s->%s' % (x[0], y[0])
        if isinstance(x[1], tuple) and isinstance(y[1], tuple):
            if len(x[1]) != len(y[1]):
                return 'length:%s' % x[0]
            for u, v in zip(x[1], y[1]):
                d = _leafdiff(u, v)
                if d:
                    return d
            return None
        return None if x[1] == y[1] else 'leaf-value:%s' % x[0]
    if isinstance(x, tuple) and isinstance(y, tuple) and len(x) == len(y):
        for u, v in zip(x, y):
            d = _leafdiff(u, v)
            if d:
                return d
        return None
    return None if x == y else 'leaf-value'


def _keyfn(tag, inp, exp, got):
    """C01 | construct (pairs: outer(inner); the context and the argument classes are dropped: a mis-translated construct
    fails independently of them and would otherwise produce one key per argument class) | divergence class refined to
    the first differing leaf of the result."""
    cls = e2.divclass(exp, got)
    if cls in ('value', 'log') or cls.startswith('type:'):
        d = None
        try:
            d = _leafdiff(exp[1], got[1]) if exp[0] == got[0] == 'ok' else None
        except Exception:
            d = None
        if d:
            cls = d
        elif cls == 'log' or (exp[:2] == got[:2]):
            cls = 'side-effect-log'
    return 'C01|%s|%s' % (tag.split('@')[0], cls)


def _check_rejections(ctx, rejected, srcs):
    """A function the compiler refuses is outside the property (C01 speaks about calls into the compiled module) iff the
    refusal is a clean compile-time error AND CPython raises on EVERY argument pair (Cython reports some certain run-time
    errors - unbound locals, unknown names, indexing a C integer - at compile time by design).  A compiler crash, a C
    compiler error, or the refusal of a function that works under CPython is reported."""
    import re
    from vlib import support
    g = {'__name__': 'c01_rej_ref'}
    exec(compile(PRELUDE, '<c01-prelude>', 'exec'), g)
    justified = []
    unjustified = 0
    for tags, stage, tail in rejected:
        tag = tags[0]
        src = srcs.get(tag)
        crashed = stage != 'cython' or re.search(r'Compiler crash|Traceback|File ".*", line \d+, in ', tail or '') is not None
        works = None
        if src is not None and not crashed:
            ns = dict(g)
            exec(compile(src, '<c01-rej>', 'exec'), ns)
            name = re.search(r'^def (f\d+)\(a, b\)|^(f\d+) = ', src, re.M)
            fn = ns[name.group(1) or name.group(2)]
            for x in VALUES:
                for y in VALUES:
                    support.reset_log()
                    try:
                        fn(eval(x), eval(y))
                        works = (x, y)
                        break
                    except Exception:
                        pass
                if works:
                    break
            support.reset_log()
        if not crashed and src is not None and works is None:
            justified.append(tag)
            continue
        unjustified += 1
        kind = 'compiler-crash' if crashed and stage == 'cython' else ('c-compile-error' if stage == 'cc' else 'rejects-working-code')
        ctx.violation('C01|build-failure:%s|%s' % (kind, tag.split('@')[0]),
                      '%s does not build (%s)%s: %s' % (tag, stage, '' if works is None else ' although CPython runs it for %r' % (works,),
                                                       (tail or '')[-400:]),
                      {'kind': 'build', 'source': PRELUDE + '\n' + (src or ''), 'ext': '.py', 'stage': stage, 'errors': tail})
    return justified, unjustified


def run(ctx):
    fam = family(ctx.tier)
    wd = ctx.workdir('c01')
    farm.build('warm', 'x = 1\n', wd, ext='.py', cc=False)
    inputs = {'ab': [(x, y) for x in VALUES for y in VALUES]}
    parts = []
    skipped = []
    srcs = []
    for i, (tag, body, c) in enumerate(fam):
        name = 'f%d' % i
        src = wrap(name, body, c)
        if not _applicable(PRELUDE + src):
            skipped.append(tag)
            continue
        srcs.append((tag, src))
        parts.append(e2.Part(src, [e2.Func(name, tag, 'ab')]))
    if ctx.seed:
        k = (ctx.seed * 7919) % len(parts)
        parts = parts[k:] + parts[:k]
    ctx.log('%d functions (%d template/context combinations not valid Python, skipped)' % (len(parts), len(skipped)))
    mods = [e2.Mod('c01_%d' % (i // PER_MODULE), PRELUDE, parts[i:i + PER_MODULE], inputs, ext='.py', use_log=True)
            for i in range(0, len(parts), PER_MODULE)]
    cc = ConfirmCtx(ctx, _keyfn)
    st = run_diff(cc, mods, keyfn=_keyfn, reach=REACH, timeout=1800, on_build_failure='reject',
                  stormkey=lambda tag, inp, exp, got: 'C01|crash|' + tag.split('@')[0].split('(')[0])
    justified, unjustified = _check_rejections(ctx, st['rejected'], dict(srcs))
    cov = {
        'evaluations': st['evaluations'], 'distinct_nontrivial': st['pairs'],
        'rule': 'a case is counted once per distinct (function, reference outcome incl. side-effect log) pair: argument pairs '
                'giving the same outcome for the same function collapse',
        'programs': st['programs'], 'modules_built': st['modules_built'],
        'expression_templates': len(EXPR), 'statement_templates': len(STMT), 'contexts': list(CONTEXTS),
        'pairs_enumerated': sum(1 for t, _, _ in fam if t.startswith('P:')),
        'not_applicable_in_context': skipped, 'argument_pairs': len(inputs['ab']),
        'mismatches': st['mismatches'], 'crashes': st['crashes'], 'build_failures': st['build_failures'],
        'compile_time_rejections_justified': justified, 'compile_time_rejections_unjustified': unjustified,
        'crashes_not_reproduced_on_replay': cc.unreproduced,
        'reach': st.get('reach'), 'reach_gaps': st.get('reach_gaps'),
        'samples': [{'tag': t, 'function': s} for t, s in (srcs[min(3, len(srcs) - 1)], srcs[min(len(EXPR) * 5 + 7, len(srcs) - 1)],
                                                            srcs[-min(100, len(srcs))])],
        'exhaustive': True,
    }
    storm_note(cov, st)
    return cov, ['expression nesting deeper than 2, arity > 2, values outside the 9-value set are not covered',
                 'interpreter-generated exception messages are not compared']


def replay(ctx, case):
    return e2.replay(ctx, case)
