"""C30 - cdef dataclasses behave like standard dataclasses.

The same class text is emitted twice by a textual toggle: `@cython.dataclasses.dataclass(...) cdef class` (compiled by the
staged compiler) and `@dataclasses.dataclass(...) class` (executed by CPython with the stdlib).
Alphabet.  Decorator options (init, repr, eq, order, unsafe_hash, frozen, kw_only): quick = the defaults + all 7 single
+ all 21 double deviations (29 option sets), thorough = all 128.  Field kinds: `x: int`, `x: object`, `x: int = 3`,
field(default=..), field(default_factory=list), field(init=False, default=..), field(repr=False), field(compare=False),
field(hash=False), InitVar[int] (+ __post_init__), ClassVar[int].  Families: (a) default options x ALL field lists of
<= 2 fields (133, illegal orders included: both must reject); (b) every option set x 6 representative field lists;
(c) every single deviation x every single-field list.  thorough adds all lists of 3 fields over 5 kinds.
Operations on every class: construction with 11 call shapes of <= 3 arguments (positional / keyword / missing / extra /
duplicate / unknown), repr, == (equal, unequal, foreign type), < <= > >=, hash (or TypeError) and hash equality of
equal instances, for classes with >= 2 fields every operand pair over the value grid {(1,1),(1,2),(2,1),(2,2)} of the first
two fields x < <= > >= (lexicographic ties), attribute assignment (FrozenInstanceError), __match_args__, dataclasses.fields (name, init, repr,
compare, hash, has default, has factory; kw_only separately), asdict, astuple, replace, is_dataclass, default_factory freshness,
__post_init__ call log.
Oracle.  The stdlib result on the toggled text (type+repr recursively, instances mapped to their field values,
exception type names); a class CPython rejects at definition time must be rejected by the compiler.
"""
import itertools, os, dataclasses
from vlib import farm, support
from vlib.diff import canon, short
from props import _g8_drive as drive

LEVEL = 'exploration'
ENGINE = 'E2 diffexplore'
TECHNIQUE = ('exhaustive product (decorator option deviations x field lists over the field kinds) x instance operations, same class '
             'text compiled as cdef dataclass vs stdlib dataclass executed by CPython')
LEVEL_TEXT = ('All single and double deviations (thorough: all 128 combinations) of the dataclass options x representative field '
              'lists, the default options x every field list of <= 2 fields over 11 field kinds, and every single deviation x every '
              'single field are emitted as `cdef class` with cython.dataclasses and as `class` with the stdlib; construction over 11 '
              'call shapes, repr, eq, order, hash, frozen assignment, __match_args__, fields(), asdict, astuple, replace, '
              'default-factory freshness and __post_init__ logs must agree; classes the stdlib rejects must not compile.')
LEVEL_NOTE = ('Not in the alphabet (unsupported by design, compile-time error): field(kw_only=True), the KW_ONLY sentinel, '
              'slots/weakref_slot/match_args options.  With init=False instances are built by cls() + explicit assignment of every '
              'field (extension types ignore constructor arguments without __init__ and start attributes as None instead of the '
              'class-level default - documented in Dataclass.generate_init_code).  int-annotated fields only receive ints (C/Python typing of cdef attributes '
              'is by design); deleting attributes, field .type objects, __dataclass_params__ identity, instance __dict__ are not '
              'compared; hash values are compared only through equality of equal instances; FrozenInstanceError is identified with '
              'its base AttributeError (frozen cdef attributes are read-only attributes).  Trusted: stdlib dataclasses of '
              'CPython 3.12, gcc.')

OPTS = ['init', 'repr', 'eq', 'order', 'unsafe_hash', 'frozen', 'kw_only']
DEFAULTS = {'init': True, 'repr': True, 'eq': True, 'order': False, 'unsafe_hash': False, 'frozen': False, 'kw_only': False}

F = 'cython.dataclasses.field'
KINDS = {
    'int': '{n}: int',
    'obj': '{n}: object',
    'intd': '{n}: int = 3',
    'fdef': '{n}: object = %s(default=(1, 2))' % F,
    'ffac': '{n}: object = %s(default_factory=list)' % F,
    'fnoinit': '{n}: int = %s(init=False, default=7)' % F,
    'fnorepr': '{n}: object = %s(repr=False)' % F,
    'fnocmp': '{n}: object = %s(compare=False)' % F,
    'fnohash': '{n}: object = %s(hash=False)' % F,
    'initvar': '{n}: dataclasses.InitVar[int]',
    'classvar': '{n}: typing.ClassVar[int] = 9',
}
KIND_LIST = list(KINDS)
IS_INT = {'int', 'intd', 'fnoinit', 'initvar', 'classvar'}
REPRESENTATIVE = [('int',), ('int', 'intd'), ('obj', 'fnocmp'), ('ffac', 'fnohash'), ('int', 'fnoinit'), ('obj', 'int')]
KINDS3 = ['int', 'obj', 'intd', 'fnocmp', 'ffac']

PRELUDE = 'cimport cython\nimport typing\nimport dataclasses\nfrom vlib.support import L\n'
REF_PRELUDE = 'import dataclasses, typing\nfrom vlib.support import L\n'


def option_sets(tier):
    if tier != 'quick':
        out = []
        for bits in itertools.product((False, True), repeat=7):
            out.append({k: (not DEFAULTS[k]) for k, b in zip(OPTS, bits) if b})
        return out
    out = [{}]
    for k in OPTS:
        out.append({k: not DEFAULTS[k]})
    for a, b in itertools.combinations(OPTS, 2):
        out.append({a: not DEFAULTS[a], b: not DEFAULTS[b]})
    return out


def class_src(name, opts, kinds):
    args = ', '.join('%s=%s' % (k, opts[k]) for k in OPTS if k in opts)
    out = ['@cython.dataclasses.dataclass(%s)' % args if args else '@cython.dataclasses.dataclass', 'cdef class %s:' % name]
    for i, k in enumerate(kinds):
        out.append('    ' + KINDS[k].format(n='f%d' % i))
    ivs = ['f%d' % i for i, k in enumerate(kinds) if k == 'initvar']
    if ivs:
        out.append('    def __post_init__(self, %s):' % ', '.join(ivs))
        out.append("        L('post_init', (%s,))" % ', '.join(ivs))
    if not kinds:
        out.append('    pass')
    return '\n'.join(out) + '\n'


def toggle(src):
    return src.replace('cython.dataclasses.', 'dataclasses.').replace('cdef class ', 'class ')


def units(tier):
    seen = set()
    out = []

    def add(opts, kinds, fam):
        key = (tuple(sorted(opts.items())), tuple(kinds))
        if key in seen:
            return
        seen.add(key)
        n = len(out)
        src = class_src('D%d' % n, opts, kinds)
        out.append((src, toggle(src), ('D%d' % n, tuple(sorted(opts.items())), tuple(kinds), fam)))
    lists = [()] + [(k,) for k in KIND_LIST] + list(itertools.product(KIND_LIST, repeat=2))
    for kl in lists:
        add({}, kl, 'fields')
    for o in option_sets(tier):
        for kl in REPRESENTATIVE:
            add(o, kl, 'options')
    for k in OPTS:
        for kind in KIND_LIST:
            add({k: not DEFAULTS[k]}, (kind,), 'option-x-field')
    if tier != 'quick':
        for kl in itertools.product(KINDS3, repeat=3):
            add({}, kl, 'fields3')
    return out


# ------------------------------------------------------------------------------------------ child side
def _val(kind, which):
    """Constructor argument for a field of this kind: which in 0 (base), 1 (different)."""
    if kind in IS_INT:
        return 1 + which
    if kind == 'ffac':
        return [which]
    return 'v%d' % which


def _norm(v, cls, names):
    """Map instances of the class under test to their field values (repr may be the address-based default)."""
    if isinstance(v, cls):
        return ('inst', tuple(_norm(getattr(v, n, '<unset>'), cls, names) for n in names))
    if type(v) in (tuple, list):
        return type(v)(_norm(x, cls, names) for x in v)
    if type(v) is dict:
        return {k: _norm(x, cls, names) for k, x in v.items()}
    return v


def _try(fn, cls, names):
    support.reset_log()
    try:
        v = fn()
        o = ('ok', canon(_norm(v, cls, names)))
    except BaseException as e:
        if isinstance(e, (KeyboardInterrupt, SystemExit)):
            raise
        # cdef attributes of a frozen dataclass are read-only attributes: AttributeError, the base of FrozenInstanceError
        o = ('exc', 'AttributeError' if type(e).__name__ == 'FrozenInstanceError' else type(e).__name__)
    return o + (support.take_log(),)


def _repr(o):
    r = repr(o)
    return 'default-repr' if ' object at ' in r else r


def _fieldinfo(o):
    M = dataclasses.MISSING
    return [(f.name, f.init, f.repr, f.compare, f.hash, f.default is M, f.default_factory is M)
            for f in dataclasses.fields(o)]


def _kwonly(o):
    return [(f.name, f.kw_only) for f in dataclasses.fields(o)]


def _operations(cls, kinds, opts=()):
    """List of (op tag, thunk) for one namespace."""
    names = ['f%d' % i for i, k in enumerate(kinds) if k not in ('initvar', 'classvar')]
    a = [_val(k, 0) for k in kinds] + [5, 6, 7]
    b = [_val(k, 1) for k in kinds] + [5, 6, 7]
    mixed = [b[i] if i < len(kinds) and kinds[i] in ('fnocmp', 'fnohash') else a[i] for i in range(len(a))]
    ops = []
    shapes = [((), {}), ((a[0],), {}), ((a[0], a[1]), {}), ((a[0], a[1], a[2]), {}), ((), {'f0': a[0]}), ((), {'f1': a[1]}),
              ((), {'f0': a[0], 'f1': a[1]}), ((a[0],), {'f1': a[1]}), ((a[0],), {'f0': a[0]}), ((), {'zz': 1}),
              ((), {'f1': a[1], 'f0': a[0]})]
    init_enabled = dict(opts).get('init', True)
    if not init_enabled:
        # no generated __init__: extension types accept and ignore constructor arguments and their attributes start as
        # None instead of falling back to a class attribute (documented in Dataclass.generate_init_code): construct
        # without arguments and assign every field explicitly
        shapes = []
    for i, (t, d) in enumerate(shapes):
        ops.append(('construct', 'construct%d' % i, (lambda t=t, d=d: cls(*t, **d))))
    # find a working constructor call: first succeeding shape (same on both sides if construction agrees)
    def make(vals):
        if not init_enabled:
            o = cls()
            for n in names:
                setattr(o, n, vals[int(n[1:])])
            return o
        for t, d in [((vals[0], vals[1]), {}), ((vals[0],), {}), ((), {}), ((), {'f0': vals[0], 'f1': vals[1]}), ((), {'f0': vals[0]}),
                     ((), {'f1': vals[1]})]:
            try:
                return cls(*t, **d)
            except TypeError:
                continue
        raise LookupError('no constructor shape works')
    ops += [
        ('repr', 'repr', lambda: _repr(make(a))),
        ('eq', 'eq-equal', lambda: make(a) == make(a)),
        ('eq', 'eq-unequal', lambda: make(a) == make(b)),
        ('eq', 'ne-unequal', lambda: make(a) != make(b)),
        ('eq', 'eq-foreign', lambda: make(a) == 5),
        ('order', 'lt', lambda: make(a) < make(b)),
        ('order', 'le', lambda: make(a) <= make(a)),
        ('order', 'gt', lambda: make(a) > make(b)),
        ('order', 'ge', lambda: make(b) >= make(a)),
        ('order', 'lt-foreign', lambda: make(a) < 5),
        ('hash', 'hash', lambda: isinstance(hash(make(a)), int)),
        ('hash', 'hash-equal', lambda: (lambda x, y: hash(x) == hash(y))(make(a), make(a))),
        ('hash', 'hash-is-field-hash', lambda: hash(make(a)) == hash(tuple(getattr(make(a), n) for n in names))),
        ('hash', 'eq-and-hash-modulo-noncompared-fields', lambda: (lambda x, y: (x == y, hash(x) == hash(y)))(make(a), make(mixed))),
        ('frozen', 'setattr', lambda: setattr(make(a), names[0], b[int(names[0][1:])]) if names else 'no-field'),
        ('frozen', 'setattr-then-read', lambda: (lambda o: (setattr(o, names[0], b[int(names[0][1:])]), getattr(o, names[0]))[1])(make(a))
         if names else 'no-field'),
        ('match_args', 'match_args', lambda: cls.__match_args__),
        ('fields', 'fields', lambda: _fieldinfo(make(a))),
        ('fields', 'fields-of-class', lambda: _fieldinfo(cls)),
        ('fields-kw_only', 'fields-kw_only', lambda: _kwonly(cls)),
        ('asdict', 'asdict', lambda: dataclasses.asdict(make(a))),
        ('asdict', 'astuple', lambda: dataclasses.astuple(make(a))),
    ] + ([] if not init_enabled else [
        ('replace', 'replace', lambda: dataclasses.replace(make(a), f0=b[0])),
        ('replace', 'replace-unknown', lambda: dataclasses.replace(make(a), zz=1)),
    ]) + [
        ('fields', 'is_dataclass', lambda: (dataclasses.is_dataclass(cls), dataclasses.is_dataclass(make(a)))),
        ('defaults', 'values-after-construction', lambda: make(a)),
        ('defaults', 'factory-fresh', lambda: [getattr(make(a), n) is getattr(make(a), n) for n in names
                                              if isinstance(getattr(make(a), n), list)]),
        ('defaults', 'classvar', lambda: [getattr(cls, 'f%d' % i, '<none>') for i, k in enumerate(kinds) if k == 'classvar']),
    ]
    if len(kinds) >= 2:
        # lexicographic ordering with ties: every operand pair over the value grid {0,1}^2 of the first two fields
        import operator as _op
        grid = [(0, 0), (0, 1), (1, 0), (1, 1)]

        def vals(x):
            return [_val(kinds[0], x[0]), _val(kinds[1], x[1])] + a[2:]
        for x in grid:
            for y in grid:
                for oname in ('lt', 'le', 'gt', 'ge'):
                    ops.append(('order', 'lex-%s-%d%d-%d%d' % (oname, x[0], x[1], y[0], y[1]),
                                (lambda x=x, y=y, f=getattr(_op, oname): f(make(vals(x)), make(vals(y))))))
    return names, ops


def sweep(cns, rns, work, cfg):
    cname, opts, kinds, fam = work
    evals = 0
    mism = []
    hashes = set()
    cnt = {}
    ccls, rcls = cns[cname], rns[cname]
    names, cops = _operations(ccls, kinds, opts)
    _, rops = _operations(rcls, kinds, opts)
    optkey = ','.join('%s=%s' % (k, v) for k, v in opts) or 'defaults'
    for (grp, tag, cf), (_, _, rf) in zip(cops, rops):
        exp = _try(rf, rcls, names)
        got = _try(cf, ccls, names)
        evals += 1
        hashes.add(hash((grp, tag, opts if grp != 'construct' else (), kinds if grp in ('construct', 'fields', 'defaults', 'asdict') else len(kinds), exp)))
        cnt[exp[0]] = cnt.get(exp[0], 0) + 1
        if exp != got:
            if exp[:2] == got[:2]:
                d = 'log'
            elif exp[0] == 'exc' and got[0] == 'ok':
                d = 'missing-exc:' + exp[1]
            elif exp[0] == 'ok' and got[0] == 'exc':
                d = 'extra-exc:' + got[1]
            elif exp[0] == 'exc':
                d = 'exc-type:%s->%s' % (exp[1], got[1])
            else:
                d = 'value'
            relevant = [k for k, v in opts if k in {'construct': ('init', 'kw_only'), 'repr': ('repr',), 'eq': ('eq',), 'order': ('order', 'eq'),
                                                      'frozen': ('frozen',), 'match_args': ('kw_only',)}.get(grp, ())]
            relkinds = {'match_args': ('fnoinit', 'initvar', 'classvar'), 'hash': ('fnocmp', 'fnohash'), 'repr': ('fnorepr',),
                        'eq': ('fnocmp',), 'order': ('fnocmp',)}.get(grp)
            fk = sorted(set(k for k in kinds if k not in ('int', 'obj') and (relkinds is None or k in relkinds)))
            if grp == 'fields-kw_only':
                fk = ['*']
            if grp == 'match_args' and 'fnoinit' in fk:
                fk = ['fnoinit']
            key = 'c30|%s|opts:%s|fields:%s|%s' % (grp, '+'.join(relevant) or '-', '+'.join(fk) or 'plain', d)
            mism.append((key, '%s on %s(%s) fields %s: expected %s got %s' % (tag, cname, optkey, list(kinds), short(exp), short(got)),
                         {'op': tag, 'expected': exp, 'got': got}))
    return evals, mism, hashes, cnt


# ------------------------------------------------------------------------------------------ parent side
REACH = ['__dataclass_fields__', '__dataclass_params__', '__match_args__', '_HAS_DEFAULT_FACTORY', '__pyx_tp_richcompare']


def _ref_rejects(ref_src):
    g = {'__name__': 'c30_probe', '__builtins__': __builtins__}
    try:
        exec(compile(REF_PRELUDE + ref_src, '<c30-probe>', 'exec'), g)
        return None
    except Exception as e:
        return type(e).__name__


def run(ctx):
    raw = units(ctx.tier)
    dev = int(os.environ.get('G8_DEV_STEP', '0') or 0)     # development aid only: evidence is then marked non-exhaustive
    if dev:
        raw = raw[::dev]
    good, rejected = [], []
    for src, ref, work in raw:
        why = _ref_rejects(ref)
        if why:
            rejected.append((src, ref, work, why))
        else:
            good.append(drive.Unit(src, ref, [work]))
    per = 14
    mods = [drive.make_mod('c30_%d' % (i // per), PRELUDE, REF_PRELUDE, good[i:i + per]) for i in range(0, len(good), per)]
    ctx.log('%d dataclasses accepted by the stdlib in %d modules; %d rejected by the stdlib' % (len(good), len(mods), len(rejected)))
    # classes the stdlib rejects must be rejected by the compiler
    rej_res = farm.build_many([dict(name='c30rej_%d' % i, source=PRELUDE + src, workdir=ctx.workdir('rej'), ext='.pyx', cc=False)
                               for i, (src, ref, work, why) in enumerate(rejected)])
    rej_ok = 0
    for (src, ref, work, why), r in zip(rejected, rej_res):
        if r.ok:
            fk = sorted(set(k for k in work[2] if k not in ('int', 'obj'))) if why != 'ValueError' else ['*']   # ValueError: option check
            ctx.violation('c30|accepts-invalid|opts:%s|fields:%s|%s' % ('+'.join(k for k, v in work[1]) or '-', '+'.join(fk) or 'plain', why),
                          'the stdlib rejects this dataclass with %s but it compiles: %s' % (why, src),
                          {'kind': 'build-expected-reject', 'source': PRELUDE + src, 'ref': REF_PRELUDE + ref, 'why': why})
        elif r.stage != 'cython':
            ctx.violation('c30|compiler-crash|%s' % r.stage, 'compiler failed with %s on %s: %s' % (r.stage, src, r.errors[-600:]),
                          {'kind': 'build', 'source': PRELUDE + src, 'ext': '.pyx'})
        else:
            rej_ok += 1
    st = drive.run(ctx, mods, 'props.C30_cdef_dataclass:sweep', 'c30', reach=REACH,
                   crash_tag=lambda w: '%s|%s' % (w[3], '+'.join(sorted(set(w[2])))))
    fams = {}
    for src, ref, work in raw:
        fams[work[3]] = fams.get(work[3], 0) + 1
    cov = {
        'evaluations': st['evaluations'] + len(rejected), 'distinct_nontrivial': st['pairs'] + (1 if rejected else 0),
        'rule': 'complete product class x operation; distinct_nontrivial counts distinct (operation, relevant options, field kinds, '
                'reference outcome incl. call log) + 1 for the rejected-by-both class',
        'classes': len(raw), 'class_families': fams, 'rejected_by_stdlib': len(rejected), 'rejected_by_both': rej_ok,
        'option_sets': len(option_sets(ctx.tier)), 'modules_built': st['modules_built'], 'build_failures': st['build_failures'],
        'reference_outcomes': st['counters'], 'mismatches': st['mismatches'], 'crashes': st['crashes'],
        'reach': st.get('reach'), 'reach_gaps': st.get('reach_gaps'),
        'samples': [{'class': raw[len(raw) // 2][0], 'work': raw[len(raw) // 2][2]}, {'class': raw[-1][0], 'work': raw[-1][2]}],
        'exhaustive': not dev,
    }
    return cov, ['field(kw_only=True), KW_ONLY, slots, match_args option are not in the alphabet (unsupported by design)']


def replay(ctx, case):
    if case.get('kind') == 'build-expected-reject':
        r = farm.build('c30rej', case['source'], ctx.workdir('replay'), ext='.pyx', cc=False)
        return 'still compiles although the stdlib raises %s' % case.get('why') if r.ok else False
    return drive.replay(ctx, case)
