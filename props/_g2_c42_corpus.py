"""Corpus for C42 (deterministic compilation): modules chosen to stress ordered emission."""


def _consts_str(n):
    lines = ['def strs():', '    out = []']
    for i in range(n):
        lines.append('    out.append("s%d_%s")' % (i, 'abcdefghij'[i % 10] * (1 + i % 7)))
        lines.append("    out.append(b'b%d')" % i)
        if i % 3 == 0:
            lines.append('    out.append(u"\\u20ac%d")' % i)
    lines.append('    return out')
    lines.append('def idents(o):')
    lines.append('    return [%s]' % ', '.join('o.attr_%s%d' % ('xyzuvw'[i % 6], i) for i in range(n)))
    lines.append('def kws(f):')
    lines.append('    return f(%s)' % ', '.join('kw_%s%d=%d' % ('qrstuv'[i % 6], i, i) for i in range(n // 2)))
    return '\n'.join(lines) + '\n'


def _consts_num(n):
    lines = ['def nums():', '    out = []']
    for i in range(n):
        lines.append('    out.append(%d)' % (3 ** i))
        lines.append('    out.append(-%d)' % (7 ** i + 1))
        lines.append('    out.append(%d.%d)' % (i, i * 7 % 13))
        lines.append('    out.append((%d, "t%d", %d.5, (%d, None)))' % (i, i, i, i))
        lines.append('    out.append(%dj)' % i)
    lines.append('    return out')
    lines.append('def member(x):')
    lines.append('    return (x in {%s}, x in frozenset((%s)), x in (%s), x in ["a", "b", "c", "d"])' % (
        ', '.join(str(i * 3) for i in range(12)), ', '.join('"k%d"' % i for i in range(12)), ', '.join(str(i) for i in range(9))))
    lines.append('def dicts():')
    lines.append('    return {%s}, {%s}' % (', '.join('"key%d": {%d, %d}' % (i, i, i + 1) for i in range(15)),
                                           ', '.join('%d: "v%d"' % (i, i) for i in range(15))))
    return '\n'.join(lines) + '\n'


FUSED = '''
cimport cython
ctypedef fused num_t:
    int
    long
    double
    float

ctypedef fused seq_t:
    list
    tuple
    bytes

cpdef num_t add(num_t a, num_t b):
    return a + b

def both(num_t a, seq_t s):
    return a, len(s)

cdef class Holder:
    cdef double v
    cpdef num_t scale(self, num_t k):
        return <num_t>(self.v * k)
'''

MEMVIEW = '''
cimport cython
def total(double[:, ::1] a, int[:] idx):
    cdef double s = 0
    cdef Py_ssize_t i, j
    for i in range(a.shape[0]):
        for j in range(idx.shape[0]):
            s += a[i, idx[j]]
    return s

def cut(double[:] v, Py_ssize_t k):
    return v[k:], v[::2], v[::-1]

cdef struct Rec:
    int a
    double b

def recs(Rec[:] r):
    return r[0].a + r[0].b
'''

GEN = '''
import asyncio

def gen(n):
    for i in range(n):
        x = yield i
        if x:
            yield from (j * x for j in range(i))

async def coro(a):
    await asyncio.sleep(0)
    return [k async for k in agen(a)]

async def agen(n):
    for i in range(n):
        yield i

def comps(seq):
    return ([a for a in seq if a], {a for a in seq}, {a: b for a, b in zip(seq, seq)},
            list(a + b for a in seq for b in seq), sum(x for x in seq), sorted(seq, key=lambda v: -v))

def lambdas():
    fs = [lambda x, i=i: x + i for i in range(3)]
    g = lambda *a, **k: (a, k)
    return fs, g
'''

CDEFCLS = '''
cimport cython
cdef class Base:
    cdef public int a
    cdef readonly object b
    cdef double c
    def __cinit__(self):
        self.a = 1
    cdef int vm1(self):
        return 1
    cpdef int vm2(self, int k=2):
        return k
    def __richcmp__(self, other, int op):
        return NotImplemented
    def __len__(self):
        return 3
    def __getitem__(self, i):
        return i
    @property
    def prop(self):
        return self.c
    @prop.setter
    def prop(self, v):
        self.c = v

cdef class Mid(Base):
    cdef list items
    cdef int vm1(self):
        return 2
    cdef int vm3(self) except -1:
        return 3
    def __iter__(self):
        return iter(self.items)
    def __add__(self, o):
        return self
    def __hash__(self):
        return 7

cdef class Leaf(Mid):
    cdef dict d
    cpdef int vm2(self, int k=5):
        return k + 1
    def __call__(self, *a, **k):
        return a, k
    def __dealloc__(self):
        pass

@cython.final
cdef class Fin:
    cdef Base x
    cdef Leaf y
    def swap(self, Base b, Leaf l not None):
        self.x, self.y = b, l
'''

CIMPORT_PXD = {
    'shapes.pxd': '''
cdef class Shape:
    cdef double w, h
    cpdef double area(self)
cdef double helper(double x) except? -1
cdef enum Color:
    RED = 1
    GREEN
    BLUE
ctypedef struct Pt:
    double x
    double y
''',
    'shapes.pyx': '''
cdef class Shape:
    cpdef double area(self):
        return self.w * self.h
cdef double helper(double x) except? -1:
    return x * 2
def mk(double w, double h):
    cdef Shape s = Shape()
    s.w, s.h = w, h
    cdef Pt p
    p.x = w
    p.y = h
    return s, p, GREEN
''',
    'user.pyx': '''
from libc.math cimport sqrt, fabs
from libc.stdlib cimport malloc, free
from libc.string cimport memcpy
from cpython.ref cimport Py_INCREF
from cpython.list cimport PyList_GET_SIZE
cimport shapes
from shapes cimport Shape, helper, Color, Pt

def use(Shape s, list l):
    cdef Pt p
    p.x = sqrt(fabs(s.w))
    cdef char* buf = <char*>malloc(8)
    memcpy(buf, b"abcdefg", 8)
    free(buf)
    Py_INCREF(l)
    return helper(p.x), PyList_GET_SIZE(l), shapes.RED, s.area()
''',
}

CLOSURES = '''
def outer(a, b, c):
    d = a + b
    def mid(e):
        nonlocal d
        d += e
        def inner(f, *g, h=1, **i):
            return a, b, c, d, e, f, g, h, i
        class K:
            z = d
            def m(self):
                return inner(self.z, c)
        return inner, K
    return mid

def deco(fn):
    def w(*a, **k):
        return fn(*a, **k)
    return w

@deco
def decorated(x, y=2, *, z=3):
    return x, y, z

def sig(a, /, b, c=1, *args, d, e=2, **kw):
    return locals()
'''

DATACLS = '''
cimport cython
import dataclasses
from dataclasses import field

@cython.dataclasses.dataclass
cdef class CP:
    x: cython.int
    y: cython.double = 1.5
    tags: list = dataclasses.field(default_factory=list)

@dataclasses.dataclass(order=True, frozen=True)
class PP:
    a: int
    b: str = "q"
    c: tuple = ()
'''

PRANGE = '''
from cython.parallel cimport prange, parallel
cimport cython

@cython.boundscheck(False)
def psum(double[::1] a):
    cdef Py_ssize_t i
    cdef double s = 0
    for i in prange(a.shape[0], nogil=True, schedule='static'):
        s += a[i]
    return s

def pmax(int n):
    cdef int i, m = 0
    with nogil, parallel():
        for i in prange(n):
            if i > m:
                m = i
    return m
'''

PYCLASS = '''
import abc

class Meta(type):
    def __new__(mcs, name, bases, ns, **kw):
        return super().__new__(mcs, name, bases, ns)

class A(metaclass=Meta, flag=True):
    x: int = 1
    y = {"a", "b", "c", "d", "e"}
    z = {"k1": {1, 2}, "k2": {3, 4}, "k3": frozenset("xyz")}
    def __init__(self, *args, **kwargs):
        self.args, self.kwargs = args, kwargs
    @staticmethod
    def s(a, b=1):
        return a + b
    @classmethod
    def c(cls, *, k="kk"):
        return cls, k
    @property
    def p(self):
        return self.args
    def __repr__(self):
        return f"A({self.args!r}, {self.kwargs})"

class B(A, abc.ABC):
    @abc.abstractmethod
    def m(self):
        ...
    def n(self, q: "A" = None, *r: int, **s: str) -> "B":
        return super().n(q)
'''

EXC = '''
def flow(x, items):
    global G
    try:
        with open(x) as f, open(x) as g:
            pass
    except (OSError, ValueError) as e:
        G = e
        raise RuntimeError("wrapped") from e
    except* TypeError:
        pass
    else:
        G = None
    finally:
        del items[:]
    return G

def flow2(subject, first, *rest):
    match subject:
        case {"k": v, **others}:
            return v, others
        case [a, b, *c] if a:
            return a, b, c
        case str() | bytes():
            return "s"
        case _:
            pass
    a, *b, c = rest
    return f"{first!r:>10}{a:{c}}", b

def cmeth(d: dict, l: list, s: set):
    return d.get(1), d.keys(), d.values(), d.items(), d.pop(2, None), l.pop(), l.index(3), s.pop()
G = 0
'''
EXC = EXC.replace('    except* TypeError:\n        pass\n', '')

STRUCTS = '''
cdef extern from "math.h":
    double cos(double)
    double M_PI

cdef struct Inner:
    int a
    char b[4]

cdef union U:
    int i
    float f

ctypedef struct Outer:
    Inner inner
    U u
    double* p

cpdef enum Mode:
    FAST = 1
    SLOW = 2
    AUTO = FAST | SLOW

cdef public int pub_func(int x) except -1:
    return x + 1

cdef api double api_func(double y):
    return cos(y) * M_PI

cdef public class PubCls [object PubObj, type PubType]:
    cdef public int field

def conv(dict d):
    cdef Inner i = d
    cdef Outer o
    o.inner = i
    o.u.i = 3
    return o.inner, Mode.AUTO, i
'''

PUREPY = '''
import cython

@cython.cfunc
@cython.returns(cython.int)
@cython.locals(a=cython.int, b=cython.int)
def cadd(a, b):
    return a + b

@cython.cclass
class Acc:
    total: cython.double
    n = cython.declare(cython.int, visibility="public")
    def add(self, v: cython.double) -> cython.double:
        self.total += v
        self.n += 1
        return self.total

@cython.ccall
def use(x: cython.int, y: float = 2.0) -> object:
    arr = cython.declare(cython.int[4])
    arr[0] = cadd(x, 1)
    return arr[0] + y
'''

PKG = {
    'pkg/__init__.py': '',
    'pkg/m1.pxd': 'cdef class C1:\n    cdef int v\n    cpdef int get(self)\ncdef int f1(int x)\n',
    'pkg/m1.pyx': 'from pkg.m2 cimport C2, f2\ncdef class C1:\n    cpdef int get(self):\n        return self.v\ncdef int f1(int x):\n    return f2(x) + 1\n'
                  'def mk():\n    return C1(), C2(), "m1", (1, 2.5, "x")\n',
    'pkg/m2.pxd': 'cdef class C2:\n    cdef double w\ncdef int f2(int x)\n',
    'pkg/m2.pyx': 'from pkg.m3 cimport C3\ncimport pkg.m1\ncdef class C2:\n    pass\ncdef int f2(int x):\n    return x * 2\n'
                  'def mk():\n    return pkg.m1.C1(), C3(), "m2", {"a": 1}\n',
    'pkg/m3.pxd': 'from pkg.m1 cimport C1\ncdef class C3(C1):\n    cdef object o\n',
    'pkg/m3.pyx': 'from pkg.m1 cimport C1, f1\nfrom pkg.m4 cimport E4, s4\ncdef class C3(C1):\n    def go(self):\n        return f1(self.v), E4.A4, s4(3)\n',
    'pkg/m4.pxd': 'cpdef enum E4:\n    A4 = 1\n    B4 = 2\ncdef inline int s4(int x):\n    return x + A4\n',
    'pkg/m4.pyx': 'from pkg.m1 cimport C1\nfrom pkg.m2 cimport C2\nfrom pkg.m3 cimport C3\ndef all3():\n    return C1(), C2(), C3(), E4.B4, "m4", b"m4"\n',
}
PKG_MODULES = ['pkg/m1.pyx', 'pkg/m2.pyx', 'pkg/m3.pyx', 'pkg/m4.pyx']


PTEMPS = '''
from cython.parallel cimport prange, parallel
cimport cython
from libc.stdlib cimport malloc, free

cdef double work(double x) noexcept nogil:
    return x * 2

def psum(int n):
    cdef int i
    cdef double s = 0, t = 0
    cdef long m = 0
    cdef double* buf = <double*>malloc(n * sizeof(double))
    for i in prange(n, nogil=True):
        buf[i] = work(i) / (i + 1) + (i % 3) * (i // 2)
        s += buf[i] if i % 2 else -buf[i]
        t += work(buf[i]) ** 2
        m += i // 3 + i % 5
        with gil:
            x = [i, buf[i]]
            y = (x, len(x), str(i))
    free(buf)
    return s, t, m

def ppar(int n):
    cdef int i
    cdef double acc = 0
    cdef long cnt = 0
    with nogil, parallel(num_threads=2):
        for i in prange(n, schedule='dynamic'):
            acc += (i / (n + 1.0)) * (i % 7) + i // 2
            cnt += (i // 3) % 4
        with gil:
            z = {"a": n, "b": [n, acc]}
    return acc, cnt
'''

# identically spelled extern declarations in several modules: type identifiers must be mangled per module
SAMEDECL = '''
cdef extern from *:
    """
    enum Color { RED, GREEN, BLUE };
    typedef struct { int a; double b; } Pair;
    """
    cpdef enum Color:
        RED
        GREEN
        BLUE
    ctypedef struct Pair:
        int a
        double b

def col(Color c):
    return c

def tup(Color c, int k):
    cdef (Color, int) t = (c, k)
    return t

def pair(Pair p):
    cdef (Pair, Color) q = (p, RED)
    return q
'''


def corpus(tier):
    """-> (files {relpath: text}, modules [relpath])"""
    files = {}
    mods = []

    def add(name, text, ext='.pyx'):
        files[name + ext] = text
        mods.append(name + ext)
    add('consts_str', _consts_str(40))
    add('consts_num', _consts_num(12))
    add('fused', FUSED)
    add('gen', GEN, '.py')
    add('cdefcls', CDEFCLS)
    files.update(CIMPORT_PXD)
    mods += ['shapes.pyx', 'user.pyx']
    add('closures', CLOSURES, '.py')
    add('datacls', DATACLS)
    add('pyclass', PYCLASS, '.py')
    add('exc', EXC, '.py')
    add('structs', STRUCTS)
    add('purepy', PUREPY, '.py')
    if tier == 'thorough':
        add('memview', MEMVIEW)
        add('prange', PRANGE)
        for k in (5, 17, 80):
            add('consts_str%d' % k, _consts_str(k))
            add('consts_num%d' % k, _consts_num(min(k, 30)))
        add('gen2', GEN + CLOSURES, '.py')
        add('cls2', CDEFCLS + FUSED.replace('cimport cython', '', 1))
        add('mix', 'import cython\n' + PYCLASS + EXC + PUREPY.replace('import cython', '', 1), '.py')
    add('ptemps', PTEMPS)                      # prange / parallel blocks with many private temporaries (no memoryviews)
    for nm in ('alpha', 'beta', 'gamma'):      # same extern enum / struct / ctuple spelling in three modules
        add(nm, SAMEDECL)
    # cdef classes bring string-source tree fragments (auto pickle, public attributes) whose descriptors share one name
    # and hash by id(): with tracing code emitted their positions tie at (line, column, source name)
    add('picktrace', '# cython: linetrace=True\ncdef class E:\n    cdef public int v\ncdef class F:\n    cdef public int w\n'
                     'def f(x):\n    return x\n')
    add('pickprofile', '# cython: profile=True\ncdef class G:\n    cdef public object o\n    def m(self):\n        return self.o\n')
    # positions with equal (line, column) in two source files inside one scope, with tracing code emitted
    files['inc_part.pxi'] = 'def from_inc(x):\n    return x + 1\nINC = 5\n'
    add('inctrace', '# cython: linetrace=True\ninclude "inc_part.pxi"\ndef top(x):\n    return from_inc(x) + INC\nTOP = 6\n')
    add('incprofile', '# cython: profile=True\ninclude "inc_part.pxi"\nVAL = 7\ndef top2(x):\n    return from_inc(x) + VAL\n')
    files.update(PKG)
    return files, mods
