"""Shared driver of the g8 checks (C28, C29, C30, C32): differential sweep of a compiled module against a
reference source executed by CPython, with a check-specific sweep function.

A check builds `Unit`s (bisectable source pieces with the reference text and a list of JSON-able work items),
packs them into modules with `make_mod`, and calls `run`.  In a forked child the compiled module is loaded, the
reference source is exec'd, and `sweep(cmod_namespace, ref_namespace, work_item, cfg)` is called for every work item;
it returns (evaluations, mismatches, outcome_hashes, counters) where a mismatch is (key, what, detail).
"""
import importlib, os
from vlib import e2, farm, runner


class Unit:
    __slots__ = ('src', 'ref', 'work', 'part')

    def __init__(self, src, ref, work):
        self.src, self.ref, self.work = src, ref, list(work)
        self.part = e2.Part(src, [])


def make_mod(name, prelude, ref_prelude, units, cfg='default', ext='.pyx', **kw):
    m = e2.Mod(name, prelude, [u.part for u in units], {}, ext=ext, **kw)
    m.cfg = cfg
    m.units = {id(u.part): u for u in units}
    m.ref_prelude_g8 = ref_prelude
    return m


def _ref_source(m):
    return m.ref_prelude_g8 + '\n' + '\n'.join(m.units[id(p)].ref for p in m.parts) + '\n'


_loaded = {}


def _load(light):
    k = light['so']
    if k not in _loaded:
        mod = farm.load(light['so'], light['name'])
        g = {'__name__': light['name'] + '_ref', '__builtins__': __builtins__}
        exec(compile(light['ref'], '<ref:%s>' % light['name'], 'exec'), g)
        _loaded[k] = (vars(mod), g)
    return _loaded[k]


def _child(case):
    light, works = case
    cns, rns = _load(light)
    m, fn = light['sweep'].split(':')
    sweep = getattr(importlib.import_module(m), fn)
    evals = 0
    mism = []
    more = 0
    hashes = set()
    counters = {}
    for wi, w in enumerate(works):
        n, mm, hs, cnt = sweep(cns, rns, w, light['cfg'])
        evals += n
        hashes.update(hs)
        for k, v in (cnt or {}).items():
            counters[k] = counters.get(k, 0) + v
        for x in mm:
            if len(mism) < 200:
                mism.append((wi,) + tuple(x))
            else:
                more += 1
    return {'evals': evals, 'mismatches': mism, 'more': more, 'pairs': hashes, 'counters': counters}


def build_kwargs(m):
    return dict(ext=m.ext, directives=m.directives, cflags=list(m.cflags), cplus=m.cplus, options=m.options,
                module_options=m.module_options, extra_files=m.extra_files, opt=m.opt)


def run(ctx, mods, sweep, kind, reach=None, timeout=1200, on_build_failure='violation', workdir=None, crash_tag=None):
    workdir = workdir or ctx.workdir(kind)
    built, failures = e2.build_all(ctx, mods, workdir)
    ctx.log('built %d modules (%d failures)' % (len(built), len(failures)))
    allh = set()
    st = {'evaluations': 0, 'pairs': 0, 'mismatches': 0, 'crashes': 0, 'modules_built': len(built),
          'build_failures': len(failures), 'counters': {}, 'rejected': [], 'units': 0}
    for m, r in failures:
        u = m.units[id(m.parts[0])]
        if on_build_failure == 'violation':
            ctx.violation('build-failure|%s|%s|%s' % (m.cfg, r.stage, u.work[0][0] if u.work and u.work[0] else m.name),
                          'program does not build (%s): %s' % (r.stage, r.errors[-800:]),
                          dict(kind='build', source=m.source, errors=r.errors[-3000:], stage=r.stage, **build_kwargs(m)))
        else:
            st['rejected'].append((m.name, r.stage, r.errors[-400:]))
    if reach:
        found = {k: 0 for k in reach}
        for m in built:
            try:
                with open(m.c_file, encoding='utf-8', errors='replace') as f:
                    txt = f.read()
            except OSError:
                continue
            for k in reach:
                if k in txt:
                    found[k] += 1
        st['reach'] = found
        st['reach_gaps'] = sorted(k for k, v in found.items() if not v)
        for k in st['reach_gaps']:
            ctx.log('WARN reach gap: no built module mentions %s' % k)
    cases, owners = [], []
    for m in built:
        light = dict(name=m.name, so=m.so, ref=_ref_source(m), sweep=sweep, cfg=m.cfg)
        for p in m.parts:
            u = m.units[id(p)]
            st['units'] += 1
            if u.work:
                cases.append((light, u.work)); owners.append((m, u))
    order = list(range(len(cases)))
    if ctx.seed:
        import random
        random.Random(ctx.seed).shuffle(order)
    cases = [cases[i] for i in order]
    owners = [owners[i] for i in order]
    results = runner.run_cases(_child, cases, timeout=timeout, scratch=ctx.scratch)

    def case_for(m, u, work, detail, key):
        return dict(kind=kind, cfg=m.cfg, name='replay_' + kind, source=m.prelude + '\n' + u.src, ref=m.ref_prelude_g8 + '\n' + u.ref,
                    sweep=sweep, work=work, detail=detail, key=key, build=build_kwargs(m))

    for (light, works), (m, u), r in zip(cases, owners, results):
        if r[0] == 'ok':
            v = r[1]
            st['evaluations'] += v['evals']
            allh.update(v['pairs'])
            st['mismatches'] += len(v['mismatches']) + v['more']
            for k, n in v['counters'].items():
                st['counters'][k] = st['counters'].get(k, 0) + n
            for wi, key, what, detail in v['mismatches']:
                ctx.violation(key, what, case_for(m, u, works[wi], detail, key))
        elif r[0] in ('crash', 'timeout'):
            # refine to single work items
            rr = runner.run_cases(_child, [(light, [w]) for w in works], timeout=300, scratch=ctx.scratch)
            for w, r2 in zip(works, rr):
                if r2[0] == 'ok':
                    v = r2[1]
                    st['evaluations'] += v['evals']
                    allh.update(v['pairs'])
                    st['mismatches'] += len(v['mismatches']) + v['more']
                    for wi, key, what, detail in v['mismatches']:
                        ctx.violation(key, what, case_for(m, u, w, detail, key))
                elif r2[0] in ('crash', 'timeout'):
                    st['crashes'] += 1
                    tag = crash_tag(w) if crash_tag else (w[0] if isinstance(w, (list, tuple)) and w else '?')
                    key = '%s|%s|%s|%s' % (kind, m.cfg, r2[0], tag)
                    ctx.violation(key, '%s %s on work item %r; output tail: %s' % (r2[0], r2[1], w, (r2[2] or '')[-400:]),
                                  case_for(m, u, w, {'crash': r2[1]}, key))
                else:
                    ctx.violation('harness-exc|%s' % kind, 'driver exception: %s' % r2[1][-1500:], {'kind': 'harness', 'trace': r2[1][-3000:]})
        else:
            ctx.violation('harness-exc|%s' % kind, 'driver exception: %s' % r[1][-1500:], {'kind': 'harness', 'trace': r[1][-3000:]})
    st['pairs'] = len(allh)
    return st


def _tup(x):
    return tuple(_tup(i) for i in x) if isinstance(x, list) else x


def replay(ctx, case):
    if case.get('kind') == 'build':
        kw = {k: case.get(k) for k in ('ext', 'directives', 'cplus', 'options', 'module_options', 'extra_files', 'opt')}
        r = farm.build('replay_mod', case['source'], ctx.workdir('replay'), cflags=case.get('cflags') or (), **kw)
        return False if r.ok else 'still does not build (%s): %s' % (r.stage, r.errors[-600:])
    if 'sweep' not in case:
        return 'not replayable'
    b = dict(case['build'])
    b['cflags'] = tuple(b.get('cflags') or ())
    r = farm.build(case['name'], case['source'], ctx.workdir('replay'), **b)
    if not r.ok:
        return 'does not build (%s): %s' % (r.stage, r.errors[-600:])
    light = dict(name=case['name'], so=r.so, ref=case['ref'], sweep=case['sweep'], cfg=case['cfg'])
    res = runner.run_cases(_child, [(light, [_tup(case['work'])])], timeout=300, scratch=ctx.scratch)[0]
    if res[0] != 'ok':
        return '%s: %r' % (res[0], res[1:])
    mm = res[1]['mismatches']
    for wi, key, what, detail in mm:
        if key == case.get('key'):
            return what
    return mm[0][2] if mm else False
