"""Helpers for C23: interpreted delegate/awaitable classes (never compiled) and the body source text
(compiled by the staged Cython AND executed by CPython from the identical text)."""


# ------------------------------------------------------------------ interpreted helper objects
class NextOnly:
    """iterator with only __next__ (no send/throw/close)"""
    def __init__(self, L):
        self.L = L
        self.n = 0

    def __iter__(self):
        return self

    def __next__(self):
        self.n += 1
        self.L(('NO.next', self.n))
        if self.n > 2:
            raise StopIteration('no-ret')
        return 100 + self.n


class NextClose(NextOnly):
    """iterator with __next__ and close (no send/throw)"""
    def close(self):
        self.L(('NC.close', self.n))


class Full:
    """delegate with send/throw/close, all logging"""
    def __init__(self, L, mode='plain'):
        self.L = L
        self.n = 0
        self.mode = mode

    def __iter__(self):
        return self

    def __next__(self):
        self.n += 1
        self.L(('F.next', self.n))
        if self.n > 2:
            raise StopIteration('f-ret')
        return 200 + self.n

    def send(self, v):
        self.n += 1
        self.L(('F.send', self.n, v))
        if self.n > 2:
            raise StopIteration(('f-sret', v))
        return 210 + self.n

    def throw(self, typ, val=None, tb=None):
        self.L(('F.throw', self.n, typ.__name__ if isinstance(typ, type) else type(typ).__name__))
        if self.mode == 'throw-returns':
            raise StopIteration('f-thrown-ret')
        if self.mode == 'throw-yields':
            return 299
        if isinstance(typ, type):
            raise typ()
        raise typ

    def close(self):
        self.L(('F.close', self.n))
        if self.mode == 'close-raises':
            raise KeyError('u:close')


def pysub(L, tag='ps'):
    """interpreted sub-generator"""
    try:
        x = yield (tag, 1)
        L((tag, 'got', x))
        y = yield (tag, 2)
        L((tag, 'got', y))
        return (tag, 'ret', y)
    finally:
        L((tag, 'fin'))


def pysub_catch(L):
    try:
        yield 'pc1'
    except ValueError as e:
        L(('pc.ve', e.args))
        yield 'pc2'
    except GeneratorExit:
        L(('pc.ge',))
        raise
    return 'pc-ret'


class CM:
    def __init__(self, L, swallow=False):
        self.L = L
        self.swallow = swallow

    def __enter__(self):
        self.L(('cm.enter',))
        return 'cmv'

    def __exit__(self, t, v, tb):
        self.L(('cm.exit', t.__name__ if t else None))
        return self.swallow


# --- awaitables
class AwIter:
    """generator-like iterator returned by __await__ (has send/throw/close, logs)"""
    def __init__(self, L, tag, n):
        self.L, self.tag, self.n, self.i = L, tag, n, 0

    def __iter__(self):
        return self

    def __next__(self):
        return self.send(None)

    def send(self, v):
        self.i += 1
        self.L((self.tag, 'send', self.i, v))
        if self.i > self.n:
            raise StopIteration((self.tag, 'res', v))
        return (self.tag, self.i)

    def throw(self, typ, val=None, tb=None):
        self.L((self.tag, 'throw', self.i, typ.__name__ if isinstance(typ, type) else type(typ).__name__))
        if isinstance(typ, type):
            raise typ()
        raise typ

    def close(self):
        self.L((self.tag, 'close', self.i))


class Aw:
    """awaitable whose __await__ returns a logging iterator object"""
    def __init__(self, L, tag='aw', n=1):
        self.L, self.tag, self.n = L, tag, n

    def __await__(self):
        self.L((self.tag, '__await__'))
        return AwIter(self.L, self.tag, self.n)


class AwGen:
    """awaitable whose __await__ is a real (interpreted) generator"""
    def __init__(self, L, tag='ag', n=1):
        self.L, self.tag, self.n = L, tag, n

    def __await__(self):
        try:
            r = None
            for i in range(self.n):
                r = yield (self.tag, i)
                self.L((self.tag, 'resumed', r))
            return (self.tag, 'res', r)
        finally:
            self.L((self.tag, 'fin'))


class ACM:
    def __init__(self, L):
        self.L = L

    async def __aenter__(self):
        self.L(('acm.enter',))
        await Aw(self.L, 'acm-in')
        return 'acmv'

    async def __aexit__(self, t, v, tb):
        self.L(('acm.exit', t.__name__ if t else None))
        await Aw(self.L, 'acm-out')
        return False


class AIter:
    def __init__(self, L, n=2):
        self.L, self.n, self.i = L, n, 0

    def __aiter__(self):
        return self

    async def __anext__(self):
        self.i += 1
        self.L(('ai.next', self.i))
        if self.i > self.n:
            raise StopAsyncIteration
        await Aw(self.L, 'ai')
        return self.i * 10


async def pycoro(L):
    try:
        r = await Aw(L, 'pyc')
        L(('pyc.got', r))
        return ('pyc-ret', r)
    finally:
        L(('pyc.fin',))


async def pyagen(L):
    try:
        yield 'pa1'
        await Aw(L, 'pa')
        yield 'pa2'
    finally:
        L(('pa.fin',))


# ------------------------------------------------------------------ the bodies (source text)
# Every factory has the signature f(L, H, box): L = log-append callable, H = this helper module,
# box = one-element list that the driver fills with the created object (for self re-entry).
BODY_SRC = r'''
def sub_own(L, tag='os'):
    try:
        x = yield (tag, 1)
        L((tag, 'got', x))
        y = yield (tag, 2)
        L((tag, 'got', y))
        return (tag, 'ret', y)
    finally:
        L((tag, 'fin'))

def sub_list(L):
    r = yield from [31, 32]
    L(('sl', r))
    return 'sl-ret'

# ---------------- sync generator bodies
def s_yield2(L, H, box):
    yield 1
    yield 2

def s_echo(L, H, box):
    x = yield 1
    L(('got', x))
    y = yield x
    L(('got', y))
    return ('ret', y)

def s_for(L, H, box):
    for i in range(3):
        yield i

def s_while(L, H, box):
    i = 0
    while i < 3:
        r = yield i
        i += 1 if r is None else 2
    return i

def s_finally(L, H, box):
    try:
        yield 1
        yield 2
    finally:
        L('fin')

def s_finally_yield(L, H, box):
    try:
        yield 1
    finally:
        L('fin')
        yield 9
        L('after')

def s_ge_yield(L, H, box):
    try:
        yield 1
    except GeneratorExit:
        L('ge')
        yield 2
    yield 3

def s_ge_return(L, H, box):
    try:
        yield 1
        yield 2
    except GeneratorExit:
        L('ge')
        return 5

def s_ge_reraise(L, H, box):
    try:
        yield 1
        yield 2
    except GeneratorExit:
        L('ge')
        raise

def s_ge_other(L, H, box):
    try:
        yield 1
        yield 2
    except GeneratorExit:
        L('ge')
        raise KeyError('u:k')

def s_ve_yield(L, H, box):
    try:
        yield 1
    except ValueError as e:
        L(('ve', e.args))
        yield 2
    yield 3

def s_ve_return(L, H, box):
    try:
        yield 1
        yield 2
    except ValueError as e:
        L(('ve', e.args))
        return 'r'

def s_ve_reraise(L, H, box):
    try:
        yield 1
        yield 2
    except ValueError:
        L('ve')
        raise

def s_ve_other(L, H, box):
    try:
        yield 1
        yield 2
    except ValueError as e:
        raise KeyError('u:o') from e

def s_si_yield(L, H, box):
    try:
        yield 1
    except StopIteration as e:
        L(('si', e.value))
        yield 2
    yield 3

def s_si_reraise(L, H, box):
    try:
        yield 1
        yield 2
    except StopIteration:
        L('si')
        raise

def s_yf_list(L, H, box):
    r = yield from [1, 2]
    L(('r', r))
    yield 3

def s_yf_list_catch(L, H, box):
    try:
        r = yield from [1, 2]
        L(('r', r))
    except ValueError as e:
        L(('ve', e.args))
        yield 'c1'
        yield 'c2'
    yield 3

def s_yf_pygen(L, H, box):
    r = yield from H.pysub(L)
    L(('r', r))
    yield r

def s_yf_own(L, H, box):
    r = yield from sub_own(L)
    L(('r', r))
    yield r

def s_yf_nextonly(L, H, box):
    r = yield from H.NextOnly(L)
    L(('r', r))
    yield 3

def s_yf_nextclose(L, H, box):
    try:
        r = yield from H.NextClose(L)
        L(('r', r))
    finally:
        L('fin')
    yield 3

def s_yf_full(L, H, box):
    r = yield from H.Full(L)
    L(('r', r))
    yield 3

def s_yf_full_tr(L, H, box):
    r = yield from H.Full(L, 'throw-returns')
    L(('r', r))
    yield 3

def s_yf_full_ty(L, H, box):
    r = yield from H.Full(L, 'throw-yields')
    L(('r', r))
    yield 3

def s_yf_full_cr(L, H, box):
    try:
        r = yield from H.Full(L, 'close-raises')
        L(('r', r))
    except KeyError as e:
        L(('ke', e.args))
        yield 4
    yield 3

def s_return_first(L, H, box):
    return 5
    yield 1

def s_return_after(L, H, box):
    yield 1
    return 'x'

def s_raise_si(L, H, box):
    yield 1
    raise StopIteration(4)

def s_raise_si_first(L, H, box):
    raise StopIteration(4)
    yield 1

def s_raise_plain(L, H, box):
    yield 1
    raise KeyError('u:x')

def s_reenter(L, H, box):
    yield 1
    try:
        next(box[0])
    except ValueError:
        L('reent')
    yield 2

def s_reenter_close(L, H, box):
    try:
        yield 1
    finally:
        try:
            box[0].close()
        except ValueError:
            L('reent-close')
        try:
            box[0].throw(KeyError)
        except ValueError:
            L('reent-throw')

def s_nested_try(L, H, box):
    try:
        try:
            yield 1
        finally:
            L('f1')
        yield 2
    finally:
        L('f2')

def s_finally_return(L, H, box):
    try:
        yield 1
        yield 2
    finally:
        L('fin')
        return 7

def s_with(L, H, box):
    with H.CM(L) as v:
        yield v
        yield 2

def s_with_swallow(L, H, box):
    with H.CM(L, True):
        yield 1
    yield 2

def s_yf_in_try(L, H, box):
    try:
        r = yield from H.pysub(L)
        L(('r', r))
    except ValueError as e:
        L(('ve', e.args))
        yield 'c'
    finally:
        L('fin')

def s_yf_catch(L, H, box):
    r = yield from H.pysub_catch(L)
    L(('r', r))
    yield 'after'

def s_yf_chain(L, H, box):
    r = yield from sub_list(L)
    L(('r', r))
    r = yield from sub_own(L, 'o2')
    return r

def s_genexp(L, H, box):
    return (L(('i', i)) or i for i in range(2))

def s_in_except(L, H, box):
    try:
        raise KeyError('u:a')
    except KeyError:
        yield 1
        yield 2
    yield 3

def s_catch_loop(L, H, box):
    n = 0
    while n < 40:
        try:
            x = yield n
            L(('x', x))
            n += 1
        except Exception as e:
            L(type(e).__name__)
            n += 10

def s_base_exc(L, H, box):
    try:
        yield 1
    except BaseException as e:
        L(type(e).__name__)
        yield 2

def s_yield_args(L, H, box):
    L(('s', (yield 1), (yield 2)))

def s_yf_twice(L, H, box):
    a = yield from H.Full(L)
    b = yield from [7]
    L((a, b))
    return (a, b)

# ---------------- coroutine bodies
async def sub_coro(L, H):
    try:
        r = await H.Aw(L, 'sc')
        L(('sc.got', r))
        return ('sc-ret', r)
    finally:
        L(('sc.fin',))

async def c_two(L, H, box):
    a = await H.Aw(L, 'a1')
    b = await H.Aw(L, 'a2', 2)
    return (a, b)

async def c_finally(L, H, box):
    try:
        await H.Aw(L, 'a1', 2)
    finally:
        L('fin')

async def c_catch(L, H, box):
    try:
        await H.Aw(L, 'a1')
    except ValueError as e:
        L(('ve', e.args))
        r = await H.Aw(L, 'a2')
        return ('caught', r)
    return 'plain'

async def c_awgen(L, H, box):
    r = await H.AwGen(L, 'g1', 2)
    L(('r', r))
    return r

async def c_with(L, H, box):
    async with H.ACM(L) as v:
        L(('in', v))
        await H.Aw(L, 'body')
    return 'w'

async def c_for(L, H, box):
    async for x in H.AIter(L):
        L(('x', x))
    return 'f'

async def c_sub_own(L, H, box):
    r = await sub_coro(L, H)
    return ('own', r)

async def c_sub_py(L, H, box):
    r = await H.pycoro(L)
    return ('py', r)

async def c_return(L, H, box):
    return 'imm'

async def c_raise_si(L, H, box):
    await H.Aw(L, 'a1')
    raise StopIteration(3)

async def c_ge(L, H, box):
    try:
        await H.Aw(L, 'a1')
    except GeneratorExit:
        L('ge')
        await H.Aw(L, 'a2')

# ---------------- async generator bodies
async def a_yield2(L, H, box):
    yield 1
    yield 2

async def a_echo(L, H, box):
    x = yield 1
    L(('got', x))
    r = await H.Aw(L, 'aw')
    yield (x, r)

async def a_finally_await(L, H, box):
    try:
        yield 1
        yield 2
    finally:
        L('fin')
        await H.Aw(L, 'cl')
        L('fin-done')

async def a_ve(L, H, box):
    try:
        yield 1
    except ValueError as e:
        L(('ve', e.args))
        yield 2
    yield 3

async def a_await_first(L, H, box):
    await H.Aw(L, 'p')
    yield 1
    await H.Aw(L, 'q')

async def a_finally_yield(L, H, box):
    try:
        yield 1
    finally:
        L('fin')
        yield 9

async def a_ge(L, H, box):
    try:
        yield 1
        yield 2
    except GeneratorExit:
        L('ge')
        raise

async def a_for(L, H, box):
    async for x in H.pyagen(L):
        yield ('w', x)

async def a_raise(L, H, box):
    yield 1
    raise KeyError('u:a')

async def a_cancel_cleanup(L, H, box):
    try:
        yield 1
    finally:
        try:
            await H.Aw(L, 'c1')
        except ValueError:
            L('cancelled')
            await H.Aw(L, 'c2')
        L('cleaned')

async def a_return(L, H, box):
    return
    yield 1
'''

SYNC = ['s_yield2', 's_echo', 's_for', 's_while', 's_finally', 's_finally_yield', 's_ge_yield', 's_ge_return',
        's_ge_reraise', 's_ge_other', 's_ve_yield', 's_ve_return', 's_ve_reraise', 's_ve_other', 's_si_yield',
        's_si_reraise', 's_yf_list', 's_yf_list_catch', 's_yf_pygen', 's_yf_own', 's_yf_nextonly', 's_yf_nextclose', 's_yf_full',
        's_yf_full_tr', 's_yf_full_ty', 's_yf_full_cr', 's_return_first', 's_return_after', 's_raise_si',
        's_raise_si_first', 's_raise_plain', 's_reenter', 's_reenter_close', 's_nested_try', 's_finally_return',
        's_with', 's_with_swallow', 's_yf_in_try', 's_yf_catch', 's_yf_chain', 's_genexp', 's_in_except',
        's_catch_loop', 's_base_exc', 's_yield_args', 's_yf_twice']
CORO = ['c_two', 'c_finally', 'c_catch', 'c_awgen', 'c_with', 'c_for', 'c_sub_own', 'c_sub_py', 'c_return',
        'c_raise_si', 'c_ge']
AGEN = ['a_yield2', 'a_echo', 'a_finally_await', 'a_ve', 'a_await_first', 'a_finally_yield', 'a_ge', 'a_for',
        'a_raise', 'a_return', 'a_cancel_cleanup']

# body class used in violation keys (coarse construct class of the body)
BODY_CLASS = {
    's_yield2': 'plain', 's_echo': 'plain', 's_for': 'loop', 's_while': 'loop', 's_finally': 'try-finally',
    's_finally_yield': 'yield-in-finally', 's_ge_yield': 'except-GeneratorExit', 's_ge_return': 'except-GeneratorExit',
    's_ge_reraise': 'except-GeneratorExit', 's_ge_other': 'except-GeneratorExit', 's_ve_yield': 'except-ValueError',
    's_ve_return': 'except-ValueError', 's_ve_reraise': 'except-ValueError', 's_ve_other': 'except-ValueError',
    's_si_yield': 'except-StopIteration', 's_si_reraise': 'except-StopIteration', 's_yf_list': 'yieldfrom-iter', 's_yf_list_catch': 'yieldfrom-iter',
    's_yf_pygen': 'yieldfrom-pygen', 's_yf_own': 'yieldfrom-owngen', 's_yf_nextonly': 'yieldfrom-iter',
    's_yf_nextclose': 'yieldfrom-iter', 's_yf_full': 'yieldfrom-object', 's_yf_full_tr': 'yieldfrom-object',
    's_yf_full_ty': 'yieldfrom-object', 's_yf_full_cr': 'yieldfrom-object', 's_return_first': 'return',
    's_return_after': 'return', 's_raise_si': 'raise-StopIteration', 's_raise_si_first': 'raise-StopIteration',
    's_raise_plain': 'raise', 's_reenter': 'reenter', 's_reenter_close': 'reenter', 's_nested_try': 'try-finally',
    's_finally_return': 'return-in-finally', 's_with': 'with', 's_with_swallow': 'with',
    's_yf_in_try': 'yieldfrom-pygen', 's_yf_catch': 'yieldfrom-pygen', 's_yf_chain': 'yieldfrom-owngen',
    's_genexp': 'genexpr', 's_in_except': 'yield-in-except', 's_catch_loop': 'loop-catch', 's_base_exc': 'except-BaseException',
    's_yield_args': 'plain', 's_yf_twice': 'yieldfrom-object',
    'c_two': 'await', 'c_finally': 'await-try-finally', 'c_catch': 'await-except', 'c_awgen': 'await-gen',
    'c_with': 'async-with', 'c_for': 'async-for', 'c_sub_own': 'await-owncoro', 'c_sub_py': 'await-pycoro',
    'c_return': 'return', 'c_raise_si': 'raise-StopIteration', 'c_ge': 'await-except-GeneratorExit',
    'a_yield2': 'plain', 'a_echo': 'await', 'a_finally_await': 'await-in-finally', 'a_ve': 'except-ValueError',
    'a_await_first': 'await', 'a_finally_yield': 'yield-in-finally', 'a_ge': 'except-GeneratorExit',
    'a_for': 'async-for', 'a_raise': 'raise', 'a_return': 'return', 'a_cancel_cleanup': 'await-in-finally',
}


# ---------------------------------------------------------------------------- handler x nested statement x suspension
# Complete product: an OUTER except handler containing a complete NESTED statement {try/except that catches,
# try/except whose body does not raise, with} and THEN a suspension (yield / await) still inside the outer handler,
# followed by {bare raise, log sys.exc_info(), raise another exception (its __context__ must be the handled one)}.
_NESTED = {
    'catch': """        try:
            raise ValueError('u:inner')
        except ValueError:
            L('inner-caught')
""",
    'noraise': """        try:
            L('inner-body')
        except ValueError:
            L('never')
""",
    'with': """        with H.CM(L):
            L('in-with')
""",
}
_AFTER = {
    'reraise': """        raise
""",
    'log': """        L(('exc_info', getattr(sys.exc_info()[0], '__name__', None)))
""",
    'other': """        raise IndexError('u:new')
""",
}
_SUSPEND = {'xg': "        yield 1\n", 'xc': "        await H.Aw(L, 'susp')\n", 'xa': "        yield 1\n"}
_HEAD = {'xg': 'def', 'xc': 'async def', 'xa': 'async def'}
_TAIL = {'xg': "    yield 2\n", 'xc': "    return 'end'\n", 'xa': "    yield 2\n"}
HANDLER_BODIES = {'xg': [], 'xc': [], 'xa': []}
_src = ['import sys\n']
for _k in ('xg', 'xc', 'xa'):
    for _n in ('catch', 'noraise', 'with'):
        for _a in ('reraise', 'log', 'other'):
            _name = '%s_%s_%s' % (_k, _n, _a)
            HANDLER_BODIES[_k].append(_name)
            _src.append("%s %s(L, H, box):\n    try:\n        raise KeyError('u:outer')\n    except KeyError:\n%s%s        L('resumed')\n%s%s\n"
                        % (_HEAD[_k], _name, _NESTED[_n], _SUSPEND[_k], _AFTER[_a], _TAIL[_k]))
            BODY_CLASS[_name] = 'suspend-in-handler'
BODY_SRC = BODY_SRC + '\n' + ''.join(_src)
SYNC += HANDLER_BODIES['xg']
CORO += HANDLER_BODIES['xc']
AGEN += HANDLER_BODIES['xa']
