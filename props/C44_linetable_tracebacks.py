"""C44 - tracebacks and code positions point at the right source.

Part 1 (model checking of the encoder, CPython's decoder is the reference implementation of the format):
`LineTable.build_line_table(positions, firstlineno)` of the working tree for ALL start-sorted position
lists of length 1 and 2 over line in {f, f+1, f+2, f+3, f+40} x (end line - line) in {0, 1, 2, 300} x
start column in {0, 7, 8, 79, 80, 127, 128, 300} x width in {0, 1, 15, 16, 47, 200}, ALL start-sorted
triples over the reduced alphabet (span {0, 1, 300}, column {0, 80, 128}, width {0, 16, 200}),
length-50 lists alternating every reduced pair, and the varint family: every 6-bit chunk boundary
v-1, v, v+1 for v in {32, 64, 2048, 4096} as line delta x end-line delta x start column x end column
(columns also shifted by the +1 the format adds), alone, after a simple entry and followed by one.  The table is installed in a real code object
(code.replace(co_linetable=..., co_firstlineno=f, co_code=n NOPs)) and `co_positions()` must return
exactly the input list.  States = (encoding form of the previous entry, single/multi-line, form of the
current entry) pairs reached; transitions = entries encoded and decoded.

Part 2 (compiled raising functions vs CPython on the same file): functions built from wrapper stacks
(plain / if / else / for / while / try-finally / with / in-finally / in-except, depth <= 2) around a
3-statement list whose r-th statement raises (raise, //0, missing key, call of a raising compiled helper,
attribute, unpack, assert, call of an interpreted helper), as def / method / closure / generator /
coroutine / @ccall / @cfunc, called directly, through a compiled caller and through compiled ->
interpreted -> compiled.  Oracle: traceback.extract_tb restricted to the module and helper files gives
the same (file, function, line) sequence and the same exception type as CPython executing the same
file; the code objects have the same co_firstlineno / co_name / file name, and co_positions() of every
compiled function decodes to exactly the node positions the compiler handed to build_line_table
(recorded by wrapping that call in the build worker).
"""
import os, sys, itertools, traceback, json
from vlib import farm, runner

LEVEL = 'model_checking'
ENGINE = 'E1 pyexplore'
TECHNIQUE = ('exhaustive start-sorted position lists through the real encoder, decoded by CPython co_positions(); '
             'raise-site x nesting x function-kind x call-chain sweep of compiled tracebacks vs CPython')
LEVEL_TEXT = ('All start-sorted position lists of length <= 2 over a 960-value boundary alphabet and all triples over a '
              '135-value sub-alphabet (every encoding form and every transition between forms, incl. multi-line spans) are '
              'and every varint chunk boundary (31..33, 63..65, 2047..2049, 4095..4097) in line delta, end-line delta and both columns are '
              'encoded by the working-tree LineTable.py and decoded by CPython itself; the decoded list must equal the input.  '
              'About 1900 (quick; 11000 thorough, depth <= 3) compiled raising functions (nesting depth <= 2, every statement position, '
              '8 raise kinds, 7 function kinds, 3 call chains) must produce the same traceback (file, function, line) sequence as CPython, and their code '
              'objects must decode to the positions the compiler recorded.')
LEVEL_NOTE = ('Encoder alphabet is a boundary set, lists <= 3 entries (+ length-50 alternations); columns < 2**16.  Tracebacks: '
              'function names are compared by their last dotted component (Cython reports module-qualified names by design); '
              'a cpdef/@ccall function contributes two entries (C function + Python wrapper, by design) which are collapsed; '
              'bare `raise` re-raise sites, multi-line statements and decorated functions first-line numbers are excluded '
              '(CPython keeps the original line for a bare re-raise, Cython reports the `raise` line - by design of its single '
              'traceback entry per function).  Trusted: CPython 3.12 co_positions() and traceback module.')

F0 = 10
LINES = (0, 1, 2, 3, 40)
SPANS = (0, 1, 2, 300)
COLS = (0, 7, 8, 79, 80, 127, 128, 300)
WIDTHS = (0, 1, 15, 16, 47, 200)
R_SPANS = (0, 1, 300)
R_COLS = (0, 80, 128)
R_WIDTHS = (0, 16, 200)
VARINT_EDGES = [v + k for v in (32, 64, 2048, 4096) for k in (-1, 0, 1)]
VARINT_COLS = [0] + sorted({v + k for v in (32, 64, 2048, 4096) for k in (-2, -1, 0, 1)})
_TEMPLATE = (lambda: None).__code__


def _shapes(spans, cols, widths):
    return [(s, c, c + w) for s in spans for c in cols for w in widths]


def _form(pos, delta):
    sl, el, sc, ec = pos
    if el == sl:
        if delta == 0 and sc < 80 and 0 <= ec - sc < 16:
            return 'short'
        if 0 <= delta < 3 and sc < 128 and ec < 128:
            return 'oneline'
    return 'long'


def decode(table, n, firstlineno):
    code = _TEMPLATE.replace(co_code=b'\x09\x00' * n, co_linetable=table, co_firstlineno=firstlineno)
    return list(code.co_positions())[:n]


def check_list(build_line_table, positions, firstlineno):
    """None if the encoder round-trips `positions`, else (key, description)."""
    try:
        table = build_line_table(list(positions), firstlineno).encode('latin1')
        got = decode(table, len(positions), firstlineno)
        exc = None
    except Exception as e:
        got = None
        exc = type(e).__name__
    want = [tuple(p) for p in positions]
    if got == want:
        return None
    if exc:
        # find the entry at which the encoder gives up
        i = 0
        for i in range(len(positions)):
            try:
                build_line_table(list(positions[:i + 1]), firstlineno)
            except Exception:
                break
        diff = 'exc:' + exc
    else:
        i = next(k for k in range(len(want)) if k >= len(got) or got[k] != want[k])
        names = ('line', 'endline', 'col', 'endcol')
        diff = 'diff:' + '+'.join(nm for nm, a, b in zip(names, got[i] if i < len(got) else (None,) * 4, want[i]) if a != b)
    prev = positions[i - 1] if i else None
    pk = 'none' if prev is None else 'multiline' if prev[1] > prev[0] else 'single'
    delta = positions[i][0] - (prev[0] if prev else firstlineno)
    key = 'enc|prev=%s|cur=%s%s|%s' % (pk, _form(positions[i], delta), '-multiline' if positions[i][1] > positions[i][0] else '', diff)
    return key, 'positions %r (firstlineno %d): entry %d decodes to %r' % (list(positions), firstlineno, i, got[i] if got and i < len(got) else exc)


def _enc_job(arg):
    mode, lo, hi, f = arg
    from Cython.Compiler.LineTable import build_line_table
    full = _shapes(SPANS, COLS, WIDTHS)
    red = _shapes(R_SPANS, R_COLS, R_WIDTHS)
    lists = 0
    entries = 0
    bad = {}
    nbad = 0
    trans = set()

    def run(positions):
        nonlocal lists, entries, nbad
        lists += 1
        entries += len(positions)
        prev = None
        for p in positions:
            d = p[0] - (prev[0] if prev else f)
            trans.add((None if prev is None else (prev[1] > prev[0]), _form(p, d), p[1] > p[0]))
            prev = p
        r = check_list(build_line_table, positions, f)
        if r:
            nbad += 1
            if r[0] not in bad:
                bad[r[0]] = (r[1], [list(p) for p in positions], f)

    def mk(line, sh):
        return (f + line, f + line + sh[0], sh[1], sh[2])
    if mode == 'single':
        for l in LINES:
            for sh in full:
                run([mk(l, sh)])
    elif mode == 'pairs':
        combos = [(a, b) for a in LINES for b in LINES if a <= b]
        for (a, b) in combos[lo:hi]:
            for s1 in full:
                p1 = mk(a, s1)
                for s2 in full:
                    run([p1, mk(b, s2)])
    elif mode == 'triples':
        combos = [(a, b, c) for a in LINES for b in LINES for c in LINES if a <= b <= c]
        for (a, b, c) in combos[lo:hi]:
            for s1 in red:
                p1 = mk(a, s1)
                for s2 in red:
                    p2 = mk(b, s2)
                    for s3 in red:
                        run([p1, p2, mk(c, s3)])
    elif mode == 'varint':
        # every 6-bit varint chunk boundary of the long form: the encoded values are (line delta << 1), the end-line
        # delta and column + 1; v-1, v, v+1 for v in {32, 64, 2048, 4096} (and the +-1 shifted columns) in every field,
        # after a simple first entry and followed by a simple entry (a mis-framed table garbles the follower)
        deltas = [0, 3] + VARINT_EDGES
        for d in deltas[lo:hi]:
            for sp in [0] + VARINT_EDGES:
                for c in VARINT_COLS:
                    for ec in VARINT_COLS:
                        if ec < c:
                            continue
                        p = (f + d, f + d + sp, c, ec)
                        run([(f, f, 0, 1), p])
                        run([(f, f, 0, 1), p, (f + d + 1, f + d + 1, 2, 3)])
                        run([p])
    elif mode == 'long':
        combos = [(a, b) for a in LINES for b in LINES if a <= b]
        for (a, b) in combos[lo:hi]:
            for s1 in red:
                for s2 in red:
                    pos = []
                    line = a
                    for k in range(25):
                        pos.append(mk(line, s1))
                        line += b - a
                        pos.append(mk(line, s2))
                    run(pos)
    return lists, entries, nbad, bad, trans


def part1(ctx):
    jobs = [('single', 0, 0, F0)]
    fs = [F0] if ctx.quick else [F0, 1, 70000]
    for f in fs:
        jobs += [('pairs', i, i + 1, f) for i in range(15)]
        jobs += [('triples', i, i + 1, f) for i in range(35)]
        jobs += [('long', i, i + 3, f) for i in range(0, 15, 3)]
        jobs += [('varint', i, i + 2, f) for i in range(0, 14, 2)]
    if ctx.seed:
        k = ctx.seed % len(jobs)
        jobs = jobs[k:] + jobs[:k]
    res = farm.pmap(_enc_job, jobs)
    lists = sum(r[0] for r in res)
    entries = sum(r[1] for r in res)
    nbad = sum(r[2] for r in res)
    trans = set()
    bad = {}
    for r in res:
        trans |= r[4]
        for k, v in r[3].items():
            if k not in bad or v[1] < bad[k][1]:
                bad[k] = v
    for k in sorted(bad):
        what, positions, f = bad[k]
        ctx.violation(k, what, {'part': 'encoder', 'positions': positions, 'firstlineno': f})
    return {'lists': lists, 'entries': entries, 'form_transitions': len(trans), 'mismatching_lists': nbad}


# ============================================================================================= part 2
ARGS = 't, z, d, o, t3, cm, fin'
RAISES = {
    'raise': 'raise ValueError(7)',
    'binop': 'y = 5 // z',
    'subscr': "y = d['k']",
    'call': 'y = boom()',
    'attr': 'y = o.missing',
    'unpack': 'a, b = t3',
    'assert': 'assert z, "m"',
    'pycall': 'y = pyhelper.pyboom()',
}
CORE_RAISES = ('raise', 'binop', 'call', 'subscr')
WRAPS = {
    'plain': ['{S}'],
    'if': ['if t:', '    {S}'],
    'else': ['if z:', '    pass', 'else:', '    {S}'],
    'for': ['for _i in range(1):', '    {S}'],
    'while': ['while t:', '    {S}', '    break'],
    'tryfin': ['try:', '    {S}', 'finally:', '    fin.append(1)'],
    'tryexc': ['try:', '    {S}', 'except KeyboardInterrupt:', '    fin.append(2)'],
    'with': ['with cm:', '    {S}'],
    'infinally': ['try:', '    fin.append(3)', 'finally:', '    {S}'],
    'inexcept': ['try:', '    raise LookupError(1)', 'except LookupError:', '    {S}'],
}
FUNC_KINDS = ('def', 'method', 'closure', 'gen', 'async', 'ccall', 'cfunc')
CHAINS = ('direct', 'compiled', 'viapython')

PRELUDE = '''import cython
import pyhelper

def boom():
    raise RuntimeError('boom')

class CM:
    def __enter__(self):
        return self
    def __exit__(self, *a):
        return False

def caller(f, *a):
    return f(*a)

def caller2(cb, f, *a):
    return cb(f, *a)
'''
PYHELPER = '''def pyboom():
    raise OSError('pyboom')

def cb(f, *a):
    return f(*a)
'''


def wrap(stack, stmts):
    lines = list(stmts)
    for w in reversed(stack):
        out = []
        for l in WRAPS[w]:
            if '{S}' in l:
                ind = l[:l.index('{S}')]
                out.extend(ind + s for s in lines)
            else:
                out.append(l)
        lines = out
    return lines


def make_func(idx, kind, stack, rkind, r, n=3):
    """-> (source text, descriptor).  The public entry is always f<idx>(*args)."""
    stmts = ['y = %d' % k for k in range(n)]
    stmts[r] = RAISES[rkind]
    body = ['y = -1'] + wrap(stack, stmts)
    ind = lambda ls, k=1: ['    ' * k + l for l in ls]
    name = 'f%d' % idx
    if kind == 'def':
        src = ['def %s(%s):' % (name, ARGS)] + ind(body) + ['    return y']
    elif kind == 'ccall':
        src = ['@cython.ccall', 'def %s(%s):' % (name, ARGS)] + ind(body) + ['    return y']
    elif kind == 'method':
        src = ['class C%d:' % idx, '    def m(self, %s):' % ARGS] + ind(body, 2) + ['        return y',
               'def %s(%s):' % (name, ARGS), '    return C%d().m(%s)' % (idx, ARGS)]
    elif kind == 'closure':
        src = ['def %s(%s):' % (name, ARGS), '    def inner():'] + ind(body, 2) + ['        return y', '    return inner()']
    elif kind == 'gen':
        src = ['def g%d(%s):' % (idx, ARGS)] + ind(body) + ['    yield y',
               'def %s(%s):' % (name, ARGS), '    return next(g%d(%s))' % (idx, ARGS)]
    elif kind == 'async':
        src = ['async def c%d(%s):' % (idx, ARGS)] + ind(body) + ['    return y',
               'def %s(%s):' % (name, ARGS), '    return c%d(%s).send(None)' % (idx, ARGS)]
    elif kind == 'cfunc':
        src = ['@cython.cfunc', 'def c%d(%s):' % (idx, ARGS)] + ind(body) + ['    return y',
               'def %s(%s):' % (name, ARGS), '    return c%d(%s)' % (idx, ARGS)]
    else:
        raise ValueError(kind)
    return '\n'.join(src) + '\n', {'name': name, 'kind': kind, 'stack': list(stack), 'rkind': rkind, 'r': r}


def family(tier):
    depth = 2 if tier == 'quick' else 3
    stacks = [()]
    names = [w for w in WRAPS if w != 'plain']
    for dpt in range(1, depth + 1):
        stacks += list(itertools.product(names, repeat=dpt))
    cases = []
    # T1: every nesting stack x every statement position x core raise kinds, plain def, direct call
    for st in stacks:
        for r in range(3):
            for rk in CORE_RAISES:
                cases.append(('def', st, rk, r, 'direct'))
    # T2: function kinds x call chains x all raise kinds x one wrapper
    for kind in FUNC_KINDS:
        for chain in CHAINS:
            for rk in RAISES:
                for st in [()] + [(w,) for w in (names if tier != 'quick' else ('if', 'with', 'tryfin', 'inexcept'))]:
                    if kind == 'def' and chain == 'direct' and rk in CORE_RAISES:
                        continue
                    cases.append((kind, st, rk, 1, chain))
    return cases


def build_modules(cases, per=150):
    mods = []
    for mi in range(0, len(cases), per):
        chunk = cases[mi:mi + per]
        src = [PRELUDE]
        descs = []
        for j, (kind, st, rk, r, chain) in enumerate(chunk):
            text, d = make_func(mi + j, kind, st, rk, r)
            d['chain'] = chain
            d['text'] = text
            src.append(text)
            descs.append(d)
        mods.append(('c44m%d' % (mi // per), '\n'.join(src), descs))
    return mods


def _build_job(job):
    name, source, workdir = job
    from Cython.Compiler import ExprNodes
    rec = []
    orig = ExprNodes.build_line_table

    def recording(positions, firstlineno):
        rec.append((int(firstlineno), [tuple(int(x) for x in p) for p in positions]))
        return orig(positions, firstlineno)
    ExprNodes.build_line_table = recording
    try:
        r = farm.build(name, source, workdir, ext='.py', extra_files={'pyhelper.py': PYHELPER})
    finally:
        ExprNodes.build_line_table = orig
    return r, rec


def _summarise(exc, files):
    out = []
    for fs in traceback.extract_tb(exc.__traceback__):
        base = os.path.basename(fs.filename)
        if base in files:
            out.append((base, fs.name.rsplit('.', 1)[-1], fs.lineno))
    return out


def _run_module(mod, descs, files):
    import pyhelper
    res = []
    for d in descs:
        f = getattr(mod, d['name'])
        args = (True, 0, {}, object(), (1, 2, 3), mod.CM(), [])
        try:
            if d['chain'] == 'direct':
                v = f(*args)
            elif d['chain'] == 'compiled':
                v = mod.caller(f, *args)
            else:
                v = mod.caller2(pyhelper.cb, f, *args)
            res.append(('value', repr(v)))
        except BaseException as e:
            res.append(('exc', type(e).__name__, _summarise(e, files)))
    return res


def _code_facts(mod, descs):
    out = {}
    for d in descs:
        f = getattr(mod, d['name'])
        co = getattr(f, '__code__', None)
        if co is None:
            out[d['name']] = None
            continue
        try:
            pos = list(co.co_positions())
        except Exception as e:
            pos = 'exc %s' % type(e).__name__
        out[d['name']] = (co.co_firstlineno, co.co_name, os.path.basename(co.co_filename), pos)
    return out


def _exec_compiled(so, name, descs, srcdir):
    sys.path.insert(0, srcdir)
    mod = farm.load(so, name)
    files = {name + '.py', 'pyhelper.py'}
    return _run_module(mod, descs, files), _code_facts(mod, descs)


def _exec_reference(path, name, descs, srcdir):
    sys.path.insert(0, srcdir)
    import types
    mod = types.ModuleType(name)
    mod.__file__ = path
    sys.modules[name] = mod
    with open(path) as f:
        src = f.read()
    exec(compile(src, path, 'exec'), mod.__dict__)
    files = {name + '.py', 'pyhelper.py'}
    return _run_module(mod, descs, files), _code_facts(mod, descs)


def _tb_job(arg):
    name, descs, so, srcpath = arg
    srcdir = os.path.dirname(srcpath)
    light = [{k: d[k] for k in ('name', 'chain')} for d in descs]
    rc = runner.forked(_exec_compiled, so, name, light, srcdir, timeout=600)
    rr = runner.forked(_exec_reference, srcpath, name, light, srcdir, timeout=600)
    return rc.kind, rc.value if rc.kind == 'ok' else (str(rc.value)[-800:] + rc.output[-800:]), \
        rr.kind, rr.value if rr.kind == 'ok' else (str(rr.value)[-800:] + rr.output[-800:])


def _tb_key(d, got, want):
    """Root key: nesting of the innermost wrappers + raise kind + function kind/chain only when the plain def/direct
    variant of the same body is fine is not known here, so keep (innermost wrapper, raise kind, kind, divergence)."""
    if got[0] != want[0] or got[1] != want[1]:
        div = 'outcome:%s/%s' % (got[1] if got[0] == 'exc' else 'value', want[1] if want[0] == 'exc' else 'value')
    else:
        g, w = got[2], want[2]
        # one root cause with its own key: an extra entry for the SAME function in front of the correct one
        # (collapsing consecutive same-function entries to the last one gives exactly CPython's list)
        col = []
        for e in g:
            if col and col[-1][:2] == e[:2]:
                col[-1] = e
            else:
                col.append(e)
        if col == w:
            extra = [e for e in g if e not in w]
            return 'tb|duplicate-entry-same-function|%s' % ('enclosing-with' if 'with' in d['stack'] else '/'.join(d['stack']))
        if len(g) != len(w):
            div = 'frames:%d/%d' % (len(g), len(w))
        else:
            k = next(i for i in range(len(g)) if g[i] != w[i])
            fields = [nm for nm, a, b in zip(('file', 'func', 'line'), g[k], w[k]) if a != b]
            div = '+'.join(fields) + ('@innermost' if k == len(g) - 1 else '@outer')
    inner = d['stack'][-1] if d['stack'] else 'plain'
    return 'tb|%s|%s|in=%s|%s' % (d['kind'] if d['kind'] != 'def' else 'def', d['rkind'], inner, div)


def part2(ctx):
    cases = family(ctx.tier)
    mods = build_modules(cases)
    if os.environ.get('C44_MAXMODS'):      # debugging aid only, used together with C44_PARTS
        mods = mods[:int(os.environ['C44_MAXMODS'])]
    wd = ctx.workdir('tb')
    built = farm.pmap(_build_job, [(name, src, wd) for name, src, descs in mods])
    jobs = []
    recs = {}
    nfail = 0
    for (name, src, descs), (r, rec) in zip(mods, built):
        if not r.ok:
            nfail += 1
            ctx.violation('tb|build-failed|%s' % r.stage, '%s: %s' % (name, r.errors[-600:]), {'part': 'tb-build', 'module': name, 'source': src})
            continue
        recs[name] = rec
        jobs.append((name, descs, r.so, os.path.join(wd, name, name + '.py')))
    res = farm.pmap(_tb_job, jobs)
    evals = 0
    outcomes = set()
    mism = 0
    code_checked = 0
    for (name, descs, so, srcpath), (ck, cv, rk, rv) in zip(jobs, res):
        if ck != 'ok' or rk != 'ok':
            ctx.violation('tb|harness|%s/%s' % (ck, rk), '%s: compiled run %s %s; reference run %s %s'
                          % (name, ck, cv if ck != 'ok' else '', rk, rv if rk != 'ok' else ''), {'part': 'tb-run', 'module': name})
            continue
        (cres, cfacts), (rres, rfacts) = cv, rv
        by_first = {}
        for fl, pos in recs[name]:
            by_first.setdefault(fl, []).append(pos)
        for d, got, want in zip(descs, cres, rres):
            evals += 1
            got = tuple(got[:2]) + ((list(map(tuple, got[2])),) if got[0] == 'exc' else ())
            if d['kind'] == 'ccall' and got[0] == 'exc':
                # by design a cpdef/ccall function is a C function plus a Python wrapper and each adds its own entry
                # (the wrapper's at the def line): consecutive entries of the same function collapse to the innermost
                col = []
                for e in got[2]:
                    if col and col[-1][:2] == e[:2]:
                        col[-1] = e
                    else:
                        col.append(e)
                got = got[:2] + (col,)
            want = tuple(want[:2]) + ((list(map(tuple, want[2])),) if want[0] == 'exc' else ())
            outcomes.add((want[1], len(want[2]) if want[0] == 'exc' else 0, want[2][-1][2] - want[2][0][2] if want[0] == 'exc' and want[2] else 0))
            if got != want:
                mism += 1
                ctx.violation(_tb_key(d, got, want), '%s %s %s r=%d %s: compiled %r, CPython %r'
                              % (d['kind'], '/'.join(d['stack']) or 'plain', d['rkind'], d['r'], d['chain'], got, want),
                              {'part': 'tb', 'desc': {k: d[k] for k in ('kind', 'stack', 'rkind', 'r', 'chain')}})
            # code object facts (undecorated entry functions only: CPython's first line of a decorated def is the decorator)
            cf, rf = cfacts.get(d['name']), rfacts.get(d['name'])
            if cf is None or rf is None:
                continue
            if d['kind'] != 'ccall' and tuple(cf[:3]) != tuple(rf[:3]):
                ctx.violation('code|%s|firstlineno-name-file' % d['kind'], '%s: compiled code object %r, CPython %r' % (d['name'], cf[:3], rf[:3]),
                              {'part': 'tb', 'desc': {k: d[k] for k in ('kind', 'stack', 'rkind', 'r', 'chain')}})
            cands = by_first.get(cf[0], [])
            if cands:
                code_checked += 1
                pos = cf[3]
                ok = False
                for want_pos in cands:
                    n = len(want_pos)
                    if isinstance(pos, list) and [tuple(p) for p in pos[:n]] == [tuple(p) for p in want_pos]:
                        ok = True
                if not ok:
                    ctx.violation('code|co_positions-vs-recorded|%s' % d['kind'],
                                  '%s: co_positions() %r..., compiler recorded %r...' % (d['name'], pos[:4] if isinstance(pos, list) else pos, cands[0][:4]),
                                  {'part': 'tb', 'desc': {k: d[k] for k in ('kind', 'stack', 'rkind', 'r', 'chain')}})
    return {'functions': len(cases), 'modules_built': len(jobs), 'build_failures': nfail, 'tracebacks_compared': evals,
            'distinct_reference_outcomes': len(outcomes), 'traceback_mismatches': mism, 'code_objects_checked': code_checked}


def run(ctx):
    only = os.environ.get('C44_PARTS')     # debugging aid only (evidence then says exhaustive: false)
    parts = set(only.split(',')) if only else {'1', '2'}
    p1 = {'lists': 0, 'entries': 0, 'form_transitions': 0}
    if '1' in parts:
        p1 = part1(ctx)
        ctx.log('part 1: %r' % p1)
    p2 = {}
    if '2' in parts:
        p2 = part2(ctx)
        ctx.log('part 2: %r' % p2)
    cov = {
        'states': max(1, p1['form_transitions']), 'transitions': max(1, p1['entries']),
        'traces_validated_against_impl': p1['lists'] + p2.get('tracebacks_compared', 0),
        'encoder': p1, 'tracebacks': p2,
        'samples': [{'positions': [[F0, F0, 0, 5], [F0 + 1, F0 + 3, 8, 8], [F0 + 40, F0 + 40, 128, 328]], 'firstlineno': F0},
                    {'positions': [[F0, F0 + 300, 300, 500], [F0, F0, 79, 94]], 'firstlineno': F0},
                    {'function': make_func(0, 'gen', ('with', 'tryfin'), 'binop', 1)[0], 'chain': 'viapython'}],
        'exhaustive': not only,
    }
    return cov, ['CPython 3.12 co_positions() is the reference decoder of the location table format',
                 'function names compared by last dotted component']


def replay(ctx, case):
    if case.get('part') == 'encoder':
        from Cython.Compiler.LineTable import build_line_table
        r = check_list(build_line_table, [tuple(p) for p in case['positions']], case['firstlineno'])
        return r[1] if r else False
    if case.get('part') == 'tb':
        d = case['desc']
        cases = [(d['kind'], tuple(d['stack']), d['rkind'], d['r'], d['chain'])]
        mods = build_modules(cases)
        wd = ctx.workdir('replay-tb')
        name, src, descs = mods[0]
        r, rec = _build_job((name, src, wd))
        if not r.ok:
            return 'build failed: ' + r.errors[-400:]
        ck, cv, rk, rv = _tb_job((name, descs, r.so, os.path.join(wd, name, name + '.py')))
        if ck != 'ok' or rk != 'ok':
            return 'run failed %s/%s %s %s' % (ck, rk, cv if ck != 'ok' else '', rv if rk != 'ok' else '')
        got, want = cv[0][0], rv[0][0]
        if d['kind'] == 'ccall' and got[0] == 'exc':
            col = []
            for e in got[2]:
                if col and tuple(col[-1][:2]) == tuple(e[:2]):
                    col[-1] = e
                else:
                    col.append(e)
            got = tuple(got[:2]) + (col,)
        if list(got[:2]) != list(want[:2]) or (got[0] == 'exc' and [tuple(x) for x in got[2]] != [tuple(x) for x in want[2]]):
            return 'compiled %r, CPython %r' % (got, want)
        cf, rf = cv[1].get(descs[0]['name']), rv[1].get(descs[0]['name'])
        if cf and rf and d['kind'] != 'ccall' and tuple(cf[:3]) != tuple(rf[:3]):
            return 'code object %r vs CPython %r' % (cf[:3], rf[:3])
        if cf:
            cands = [pos for fl, pos in rec if fl == cf[0]]
            if cands and not any([tuple(p) for p in cf[3][:len(w)]] == [tuple(p) for p in w] for w in cands):
                return 'co_positions() %r differ from recorded %r' % (cf[3][:4], cands[0][:4])
        return False
    return 'unknown case'
