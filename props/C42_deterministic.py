"""C42 - compilation is deterministic.

Corpus (props/_g2_c42_corpus.py): 21 modules (quick; 32 thorough) stressing ordered emission - many string /
bytes / identifier / int / float / complex / tuple / set / dict constants, fused types, generators and
coroutines, cdef class hierarchies with vtables, cimports from a .pxd and from libc/cpython, closures and
class scopes, dataclasses, Python classes with metaclasses, try/match/f-strings, structs/enums/public+api
declarations (.h and _api.h outputs), pure-Python mode, prange/parallel blocks with many private temporaries,
three modules with identically spelled extern enum/struct/ctuple declarations, include + tracing, cdef classes (string-source fragments) + tracing,
(thorough: memoryviews, memoryview prange) - plus a 4-module
package with mutual cimports.

Cells, each a FRESH interpreter process with its own copy of the sources (single deviations from the
baseline cell = first seed of the window, canonical order, sequential):
  seed     every PYTHONHASHSEED of a window of K consecutive values (K = 8 quick / 16 thorough; the window
           starts at VERIF_SEED * K): whole corpus compiled in canonical order + the package through cythonize.
  cold     every corpus module compiled alone in its own process.
  warm     n sequences (Walecki zig-zag paths and their reverses) in which EVERY ordered pair (m1, m2) of
           QUICK-corpus modules (also in the thorough tier) occurs adjacently: m2 compiled right after m1 in one process.
  batch    the package through cythonize([...], nthreads=n) for EVERY permutation of the 4-module list
           (24) with nthreads=2 plus 4 orders sequentially (quick); thorough: all 24 x n in {0, 2}.
Oracle: every generated file (.c, .h, _api.h) of every module is byte-identical to the baseline cell.
"""
import os, sys, json, hashlib, shutil, itertools
from vlib import farm, runner
from props import _g2_c42_corpus as corpus_mod

LEVEL = 'exploration'
ENGINE = 'E1 pyexplore'
TECHNIQUE = ('complete window of PYTHONHASHSEED values x all module orders / adjacency pairs x nthreads x cold/warm '
             'processes, byte comparison of all generated files against a baseline cell')
LEVEL_TEXT = ('A corpus aimed at ordered emission is compiled in fresh interpreter processes under every PYTHONHASHSEED of a '
              'window of 8 (16 thorough) values, alone in a cold process, directly after every other corpus module in a warm '
              'process (all ordered pairs adjacent), and as a 4-module package through cythonize in all 24 list orders with '
              'nthreads 2 (thorough: also all 24 with nthreads 0); all generated .c/.h/_api.h files must be byte-identical to the baseline cell.')
LEVEL_NOTE = ('Hash seeds are covered as a window of K consecutive values (disjoint per VERIF_SEED), not all 2**32; dimensions are '
              'varied one at a time from the baseline cell (plus seed x package batch).  The self-compiled compiler (design bullet, '
              'thorough) is left out: building the compiler with itself takes longer than the tier budget.  Trusted: sha256.')

DRIVER = r'''
import sys, os, json, hashlib
spec = json.load(open(sys.argv[1]))
os.chdir(spec['dir'])
out = {'hashseed': os.environ.get('PYTHONHASHSEED'), 'probe': [hash('cython'), list({'a', 'b', 'c', 'd', 'e', 'f', 'g', 'h'})]}
import Cython
assert Cython.__file__.startswith(spec['stage']), Cython.__file__
from Cython.Compiler import Main
errors = {}
for m in spec.get('seq', []):
    opts = Main.CompilationOptions(Main.default_options, language_level=3)
    try:
        r = Main.compile_single(m, opts, None)
        if r.num_errors:
            errors[m] = 'errors: %d' % r.num_errors
    except Exception as e:
        errors[m] = '%s: %s' % (type(e).__name__, e)
if spec.get('batch'):
    from Cython.Build.Dependencies import cythonize
    try:
        cythonize(list(spec['batch']), nthreads=spec.get('nthreads', 0), quiet=True, language_level=3, force=True)
    except Exception as e:
        errors['batch'] = '%s: %s' % (type(e).__name__, e)
dig = {}
for dp, dn, fns in os.walk('.'):
    for fn in fns:
        if fn.endswith(('.c', '.h', '.cpp')):
            p = os.path.normpath(os.path.join(dp, fn))
            with open(p, 'rb') as f:
                dig[p] = hashlib.sha256(f.read()).hexdigest()
out['digest'] = dig
out['errors'] = errors
json.dump(out, open(sys.argv[2], 'w'))
'''


def _cell_job(arg):
    """One fresh interpreter process.  arg = (cell id, spec, files, root, hashseed, stage root)."""
    cid, spec, files, root, hashseed, stage_root = arg
    d = os.path.join(root, cid)
    src = os.path.join(d, 'src')
    os.makedirs(src)
    for fn, text in files.items():
        p = os.path.join(src, fn)
        os.makedirs(os.path.dirname(p), exist_ok=True)
        with open(p, 'w') as f:
            f.write(text)
    spec = dict(spec, dir=src, stage=stage_root)
    sp = os.path.join(d, 'spec.json')
    op = os.path.join(d, 'out.json')
    with open(sp, 'w') as f:
        json.dump(spec, f)
    rc, out, err = runner.py_subprocess(DRIVER, env={'PYTHONHASHSEED': str(hashseed)}, timeout=1500, args=(sp, op))
    if rc != 0 or not os.path.exists(op):
        return cid, None, 'driver exit %s: %s' % (rc, err[-1500:])
    with open(op) as f:
        res = json.load(f)
    return cid, res, None


def walecki(n):
    """Hamiltonian paths of K_n (n even) such that every unordered pair is adjacent in exactly one path; with the
    reversed paths every ORDERED pair is adjacent exactly once."""
    assert n % 2 == 0
    paths = []
    for k in range(n // 2):
        p = [k]
        for j in range(1, n):
            step = (j + 1) // 2
            p.append((k + step) % n if j % 2 else (k - step) % n)
        paths.append(p)
    return paths + [list(reversed(p)) for p in paths]


def _first_diff(a, b):
    la, lb = a.split(b'\n'), b.split(b'\n')
    for i, (x, y) in enumerate(zip(la, lb)):
        if x != y:
            return 'line %d: baseline %r / cell %r' % (i + 1, x[:160], y[:160])
    return 'length %d vs %d lines' % (len(la), len(lb))


def run(ctx):
    files, mods = corpus_mod.corpus(ctx.tier)
    pkg = corpus_mod.PKG_MODULES
    K = 8 if ctx.quick else 16
    seeds = [ctx.seed * K + i for i in range(K)]
    base_seed = seeds[0]
    root = ctx.workdir('cells')
    cells = []       # (cid, dimension, deviation label, spec, hashseed)
    for s in seeds:
        cells.append(('seed%d' % s, 'seed', str(s), {'seq': mods, 'batch': pkg, 'nthreads': 0}, s))
    for i, m in enumerate(mods):
        cells.append(('cold%d' % i, 'cold', m, {'seq': [m]}, base_seed))
    # warm ordered-pair sequences always run over the QUICK corpus (the thorough-only modules - memoryviews, big constant
    # tables, mixes - are covered by the seed and cold cells; 32 sequences x 32 modules do not fit the tier budget)
    wmods = corpus_mod.corpus('quick')[1]
    n = len(wmods) if len(wmods) % 2 == 0 else len(wmods) + 1
    order = wmods + [wmods[0]] * (n - len(wmods))      # pad to even with a repeat of the first module
    for i, path in enumerate(walecki(n)):
        cells.append(('warm%d' % i, 'warm', ','.join(order[j] for j in path), {'seq': [order[j] for j in path]}, base_seed))
    nthreads = (0, 2)
    for pi, perm in enumerate(itertools.permutations(pkg)):
        for nt in nthreads:
            if ctx.quick and nt == 0 and pi not in (0, 9, 16, 23):
                continue        # quick: sequential cythonize only for 4 of the 24 orders (all 24 run with nthreads=2)
            cells.append(('batch%d_%d' % (pi, nt), 'batch', '%s nthreads=%d' % ('>'.join(os.path.basename(p) for p in perm), nt),
                          {'batch': list(perm), 'nthreads': nt}, base_seed))
    if not ctx.quick:
        for s in seeds[:8]:
            cells.append(('seedbatch%d' % s, 'seed+batch', '%d nthreads=2' % s, {'batch': list(reversed(pkg)), 'nthreads': 2}, s))
    dims = os.environ.get('C42_DIMS')      # debugging aid only (evidence then says exhaustive: false)
    if dims:
        cells = cells[:1] + [c for c in cells[1:] if c[1] in dims.split(',')]
    res = farm.pmap(_cell_job, [(c[0], c[3], files, root, c[4], ctx.stage_root) for c in cells])
    results = {cid: (r, err) for cid, r, err in res}
    base, err = results[cells[0][0]]
    if base is None or base['errors']:
        ctx.violation('det|harness|baseline-failed', 'baseline cell failed: %r' % (err or base['errors'],), {'cell': cells[0][0]})
        return {'evaluations': 1, 'distinct_nontrivial': 0, 'rule': 'baseline failed', 'samples': [cells[0][0]], 'exhaustive': False}, []
    basedig = base['digest']
    evaluations = 0
    distinct = set()
    mism = 0
    probes = set()
    for cid, dim, label, spec, hs in cells:
        r, err = results[cid]
        if r is None or r['errors']:
            ctx.violation('det|harness|cell-failed|%s' % dim, '%s (%s): %r' % (cid, label, err or r['errors']), {'cell': cid, 'spec': spec, 'hashseed': hs})
            continue
        probes.add(json.dumps(r['probe'][1]))
        prev = None
        compiled = list(spec.get('seq', [])) + list(spec.get('batch', []))
        for m in compiled:
            stem = os.path.splitext(m)[0]
            outs = sorted(p for p in r['digest'] if os.path.splitext(p)[0] in (stem, stem + '_api'))
            if not outs:
                ctx.violation('det|no-output|%s' % dim, '%s: no output for %s' % (cid, m), {'cell': cid, 'spec': spec, 'hashseed': hs})
            for p in outs:
                evaluations += 1
                dev = label if dim in ('seed', 'batch', 'seed+batch') else (prev or 'first') if dim == 'warm' else 'alone'
                distinct.add((p, dim, dev))
                if basedig.get(p) != r['digest'][p]:
                    mism += 1
                    with open(os.path.join(root, cells[0][0], 'src', p), 'rb') as f:
                        a = f.read()
                    with open(os.path.join(root, cid, 'src', p), 'rb') as f:
                        b = f.read()
                    ctx.violation('det|%s|%s' % (dim, p), '%s (%s): %s differs from the baseline cell: %s' % (cid, label, p, _first_diff(a, b)),
                                  {'cell': cid, 'dimension': dim, 'spec': spec, 'hashseed': hs, 'base_hashseed': base_seed, 'file': p,
                                   'base_spec': cells[0][3]})
            prev = m
    cov = {
        'evaluations': evaluations, 'distinct_nontrivial': len(distinct),
        'rule': 'one case per distinct (generated file, dimension, deviation): deviation = the hash seed, "alone", the module compiled '
                'immediately before in the same process, or (list order, nthreads); repeats of the same triple in several cells collapse',
        'cells': len(cells), 'cells_by_dimension': {d: sum(1 for c in cells if c[1] == d) for d in sorted({c[1] for c in cells})},
        'modules': len(mods) + len(pkg), 'generated_files_in_baseline': len(basedig), 'hash_seeds': seeds,
        'distinct_set_iteration_orders_across_cells': len(probes), 'mismatches': mism,
        'samples': [{'cell': c[0], 'dimension': c[1], 'deviation': c[2], 'hashseed': c[4]}
                    for c in (cells[min(1, len(cells) - 1)], cells[min(K + 2, len(cells) - 1)], cells[min(K + len(mods) + 1, len(cells) - 1)], cells[-1])],
        'exhaustive': not dims,
    }
    if len(probes) < 2:
        ctx.log('WARN: PYTHONHASHSEED did not change set iteration order in any cell (vacuous seed dimension)')
    return cov, ['sha256 equality = byte equality', 'the baseline cell is arbitrary: all cells are compared with it, hence with each other']


def replay(ctx, case):
    files, mods = corpus_mod.corpus(case.get('tier', ctx.tier))
    root = ctx.workdir('replay')
    shutil.rmtree(os.path.join(root, 'base'), ignore_errors=True)
    shutil.rmtree(os.path.join(root, 'cell'), ignore_errors=True)
    _, b, e1 = _cell_job(('base', case['base_spec'], files, root, case['base_hashseed'], ctx.stage_root))
    _, c, e2 = _cell_job(('cell', case['spec'], files, root, case['hashseed'], ctx.stage_root))
    if b is None or c is None:
        return 'cell failed: %r %r' % (e1, e2)
    p = case['file']
    if b['digest'].get(p) != c['digest'].get(p):
        with open(os.path.join(root, 'base', 'src', p), 'rb') as f:
            x = f.read()
        with open(os.path.join(root, 'cell', 'src', p), 'rb') as f:
            y = f.read()
        return '%s differs: %s' % (p, _first_diff(x, y))
    return False
